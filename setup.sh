#!/bin/bash
# Build the framework from files on disk only (offline): full .vo build of the Coq project and
# a warm-up build of the Go harness against /repo.
set -e
cd "$(dirname "$0")"
export GOFLAGS=-mod=mod GOPROXY=off
mkdir -p .build evidence replays
tools/mkcoqproject.sh
( cd coq && coq_makefile -f _CoqProject -o Makefile.coq >/dev/null && timeout 3000 make -f Makefile.coq -j"$(nproc)" ) 2>&1 | tail -5
cp /repo/go.sum harness/go.sum 2>/dev/null || true
( cd harness && for d in cmd/*/; do n=$(basename $d); mkdir -p ../.build/warm; go build -tags verif -o ../.build/warm/$n ./cmd/$n || echo "warn: $n did not build"; done )
echo setup done
