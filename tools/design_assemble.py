#!/usr/bin/env python3
"""Re-assemble the coordinator-owned parts of DESIGN.md (everything except §1, §2 and §9, which are
kept from the current file): front matter + §0 from tools/design/front.md, §3–§8 from mid.md,
§10–§13 from tail.md, §14 generated from seeded/*/{meta,confirmed,result}.json."""
import os, subprocess, sys
here = os.path.dirname(os.path.dirname(os.path.abspath(__file__)))
p = os.path.join(here, "DESIGN.md")
s = open(p).read()
i1 = s.index("## 1. Why proof")
i3 = s.index("## 3. What one check run does")
i9 = s.index("## 9. Per-property design")
i10 = s.index("## 10. Tiers")
front = open(os.path.join(here, "tools/design/front.md")).read().rstrip() + "\n\n\n"
mid = open(os.path.join(here, "tools/design/mid.md")).read().rstrip() + "\n\n\n"
tail = open(os.path.join(here, "tools/design/tail.md")).read().rstrip() + "\n\n\n"
table = subprocess.run([sys.executable, os.path.join(here, "tools/seeded_table.py")], stdout=subprocess.PIPE, text=True).stdout
s14 = open(os.path.join(here, "tools/design/s14_intro.md")).read().rstrip() + "\n\n" + table
out = front + s[i1:i3] + mid + s[i9:i10] + tail + s14
open(p, "w").write(out)
print("DESIGN.md assembled:", len(out.splitlines()), "lines")
