#!/usr/bin/env python3
"""print a markdown table of the seeded changes: property, what it needs, confirmed?, detected by which check"""
import json, os
root = os.path.join(os.path.dirname(os.path.dirname(os.path.abspath(__file__))), "seeded")
print("| seed | property | change (one line) | needs to manifest | confirmed | quick check result |")
print("|---|---|---|---|---|---|")
for n in sorted((x for x in os.listdir(root) if "-" in x), key=lambda x: (x.rsplit("-", 1)[0], int(x.rsplit("-", 1)[1]) if x.rsplit("-", 1)[1].isdigit() else 0)):
    d = os.path.join(root, n)
    if not os.path.exists(os.path.join(d, "meta.json")):
        continue
    m = json.load(open(os.path.join(d, "meta.json")))
    c = json.load(open(os.path.join(d, "confirmed.json"))) if os.path.exists(os.path.join(d, "confirmed.json")) else {}
    r = json.load(open(os.path.join(d, "result.json"))) if os.path.exists(os.path.join(d, "result.json")) else {}
    def one(s, k=150):
        s = " ".join(str(s).split()).replace("|", "/")
        return s[:k] + ("…" if len(s) > k else "")
    def natural(x):
        a, b = x.rsplit("-", 1)
        return (a, int(b)) if b.isdigit() else (a, 0)
    res = "not run"
    if m.get("superseded"):
        res = "superseded by a later repo fix: " + one(m["superseded"], 160)
    elif r.get("error"):
        res = "not run: " + one(r["error"], 100)
    elif r:
        res = ("detected (VIOLATION, exit 1)" if r.get("detected") else "MISSED") + (" [no-failing-input-found only]" if r.get("no_failing_input_only") else "")
    print("| %s | %s | %s | %s | %s | %s |" % (n, m.get("property"), one(m.get("summary")), one(m.get("what_it_needs_to_manifest")), "yes" if c.get("confirmed") else "no", res))
