#!/usr/bin/env python3
"""print a markdown table of the seeded changes: property, what it needs, confirmed?, detected by which check"""
import json, os
root = os.path.join(os.path.dirname(os.path.dirname(os.path.abspath(__file__))), "seeded")
print("| seed | property | change (one line) | needs to manifest | confirmed | quick check result |")
print("|---|---|---|---|---|---|")
for n in sorted(os.listdir(root)):
    d = os.path.join(root, n)
    if not os.path.exists(os.path.join(d, "meta.json")):
        continue
    m = json.load(open(os.path.join(d, "meta.json")))
    c = json.load(open(os.path.join(d, "confirmed.json"))) if os.path.exists(os.path.join(d, "confirmed.json")) else {}
    r = json.load(open(os.path.join(d, "result.json"))) if os.path.exists(os.path.join(d, "result.json")) else {}
    def one(s, k=150):
        s = " ".join(str(s).split()).replace("|", "/")
        return s[:k] + ("…" if len(s) > k else "")
    res = "not run"
    if r:
        res = ("detected (VIOLATION, exit 1)" if r.get("detected") else "MISSED") + (" [no-failing-input-found only]" if r.get("no_failing_input_only") else "")
    print("| %s | %s | %s | %s | %s | %s |" % (n, m.get("property"), one(m.get("summary")), one(m.get("what_it_needs_to_manifest")), "yes" if c.get("confirmed") else "no", res))
