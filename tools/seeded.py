#!/usr/bin/env python3
"""Run the registered checks against the seeded property-breaking changes kept under
/verif/seeded/<name>/ (patch.diff, demo, meta.json).

  tools/seeded.py [name ...]       default: all

Each patch is applied in a scratch git worktree of /repo's HEAD under /tmp (never in /repo
itself while builders are at work), the property's quick check is run against it with
VERIF_REPO=<worktree>, and the outcome (exit status, VIOLATION lines) is written to
seeded/<name>/result.json. The evidence file of the property is saved and restored, so committed
evidence always comes from the unchanged tree. The worktree is removed afterwards."""
import json
import os
import shutil
import subprocess
import sys
import time

VERIF = os.path.dirname(os.path.dirname(os.path.abspath(__file__)))


def sh(cmd, **kw):
    return subprocess.run(cmd, shell=isinstance(cmd, str), stdout=subprocess.PIPE, stderr=subprocess.STDOUT,
                          text=True, **kw)


def run_one(name, tier="quick"):
    d = os.path.join(VERIF, "seeded", name)
    meta = json.load(open(os.path.join(d, "meta.json")))
    pid = meta["property"]
    wt = "/tmp/seedrun-%s-%d" % (name, os.getpid())
    sh(["git", "-C", "/repo", "worktree", "remove", "--force", wt])
    r = sh(["git", "-C", "/repo", "worktree", "add", "-q", wt, "HEAD"])
    if r.returncode != 0:
        return {"error": "worktree: " + r.stdout}
    res = {"name": name, "property": pid, "repo_head": sh(["git", "-C", "/repo", "rev-parse", "--short", "HEAD"]).stdout.strip()}
    try:
        r = sh(["git", "-C", wt, "apply", os.path.join(d, "patch.diff")])
        if r.returncode != 0:
            res["error"] = "patch does not apply: " + r.stdout[-500:]
            return res
        ev = os.path.join(VERIF, "evidence", pid + ".json")
        saved = open(ev).read() if os.path.exists(ev) else None
        env = dict(os.environ, VERIF_REPO=wt)
        t0 = time.time()
        try:
            r = sh([os.path.join(VERIF, "check"), pid, "--tier", tier], cwd=VERIF, env=env, timeout=int(os.environ.get("SEED_TIMEOUT", "3600")))
        except subprocess.TimeoutExpired:
            res["error"] = "the check did not finish within the time limit on the patched tree"
            res["detected"] = False
            if saved is not None:
                open(ev, "w").write(saved)
            json.dump(res, open(os.path.join(d, "result.json"), "w"), indent=1)
            return res
        res["wall_s"] = round(time.time() - t0, 1)
        res["exit"] = r.returncode
        lines = [l for l in r.stdout.splitlines() if l.startswith("VIOLATION") or l.startswith("KNOWN-FINDING")]
        res["lines"] = lines[:10]
        res["detected"] = r.returncode == 1 and any(l.startswith("VIOLATION property=" + pid) for l in lines)
        res["no_failing_input_only"] = res["detected"] and all("no-failing-input-found" in l for l in lines if l.startswith("VIOLATION"))
        if saved is not None:
            open(ev, "w").write(saved)
        elif os.path.exists(ev):
            os.remove(ev)
    finally:
        sh(["git", "-C", "/repo", "worktree", "remove", "--force", wt])
        shutil.rmtree(wt, ignore_errors=True)
    json.dump(res, open(os.path.join(d, "result.json"), "w"), indent=1)
    return res


def main():
    names = sys.argv[1:] or sorted(os.listdir(os.path.join(VERIF, "seeded")))
    for n in names:
        if not os.path.exists(os.path.join(VERIF, "seeded", n, "meta.json")):
            continue
        res = run_one(n)
        print(n, "detected" if res.get("detected") else "MISSED", json.dumps({k: res.get(k) for k in ("exit", "wall_s", "error", "lines")})[:400])


if __name__ == "__main__":
    main()
