#!/usr/bin/env python3
"""Derive coq/C02/SlotModel.v from coq/C02/Model.v: the same interpreter, node by node, with the call frame
held as the Go code holds it — a vector of named cells, one per variable of the function's symbol table,
allocated full of nulls at the call and accessed BY INDEX — instead of ImplSem's name-indexed map.
Only the frame operations differ; re-run after editing Model.v (builder C)."""
import re, os
here = os.environ.get("SLOTGEN_ROOT") or os.path.dirname(os.path.dirname(os.path.abspath(__file__)))
src = open(os.path.join(here, "coq/C02/Model.v")).read()
body = src[src.index("(* ---------- expressions (structural; calls go through [callf]) ---------- *)"):]
# drop the definitions shared with Model.v
def cut(text, start, end):
    a = text.index(start); b = text.index(end, a)
    return text[:a] + text[b:]
body = cut(body, "(* what a loop does with the control its body returned *)", "Section Stmt.")
body = body[:body.index("(* programs without try/catch do not consult the catch-type test *)")]
body = body.replace("fun c vs g =>", "fun c avs g =>").replace("(fparams d) vs []", "(fparams d) avs []").replace("(cparams cd) vs []", "(cparams cd) avs []")
for a, b in [("ieval_args", "seval_args"), ("ieval_arms", "seval_arms"), ("ieval_conds", "seval_conds"), ("ieval_nargs", "seval_nargs"), ("ieval_each", "seval_each"),
             ("ieval_incs", "seval_incs"), ("icond_for", "scond_for"), ("icond", "scond"), ("ieval", "seval"), ("iexec", "sexec"),
             ("irun", "srun"), ("run_impl", "run_slots")]:
    body = re.sub(r"\b%s\b" % a, b, body)
body = re.sub(r"\brd fn\b", "srd vs fn", body)
body = re.sub(r"\bwr fn\b", "swr vs fn", body)
body = re.sub(r"\bcapture fn\b", "scapture vs fn", body)
for h in ("operand", "fast_assign", "var_int_le"):
    body = re.sub(r"Definition %s \(fn : string\)" % h, "Definition s%s (vs : list string) (fn : string)" % h, body)
    body = re.sub(r"\b%s fn\b" % h, "s%s vs fn" % h, body)
body = body.replace("Variable clos : list clodef.\nVariable fn : string.", "Variable clos : list clodef.\nVariable vs : list string.     (* the symbol table of the running function *)\nVariable fn : string.")
body = body.replace("Fixpoint sexec (n : nat) (fn : string)", "Fixpoint sexec (n : nat) (vs : list string) (fn : string)")
body = re.sub(r"\bsexec n' fn\b", "sexec n' vs fn", body)
body = re.sub(r"\b(seval|scond|seval_each|scond_for|seval_incs) callf funs clos fn\b", r"\1 callf funs clos vs fn", body)
# call frames: CreateContext allocates the whole vector, then parameters (and captures) are stored by index
body = body.replace("enough_args (fparams d) vs", "enough_args (fparams d) avs").replace("enough_args (cparams cd) vs", "enough_args (cparams cd) avs")
assert "sexec n' f (fbody d) (bind_params (fparams d) avs [], []) g" in body
body = body.replace("sexec n' f (fbody d) (bind_params (fparams d) avs [], []) g",
                    "sexec n' (fun_vars d) f (fbody d) (sbind_params (fun_vars d) (fparams d) avs (sfresh (fun_vars d)), []) g")
body = body.replace("sexec n' (clo_name oid) (cbody cd) (bind_captured cap (bind_params (cparams cd) avs []), []) g",
                    "sexec n' (clo_vars cd) (clo_name oid) (cbody cd)\n                      (sbind_captured (clo_vars cd) cap (sbind_params (clo_vars cd) (cparams cd) avs (sfresh (clo_vars cd))), []) g")
body = body.replace('sexec n "" p empty_frame empty_glob', 'sexec n (vars_stmt p []) "" p (sfresh (vars_stmt p []), []) empty_glob')
head = '''(* C02 — SlotSem: ImplSem (Model.v) with the call frame as the Go code has it.
   GENERATED from Model.v by tools/gen_slotmodel.py — do not edit; edit Model.v and re-run.

   runtime/context.go: Context.variables is a vector of cells, one per variable of the function's
   symbol table (parser/scope_manager.go: parameters first, then first occurrence), every cell created
   holding null and carrying the variable's name (data.NewNamedZVal); nodes reach a cell by its
   parse-time INDEX (GetIndexZVal / SetVariableValue).  Here a frame is (vector of (name, value)
   cells, names bound to static cells); [srd]/[swr] go through [index_of] in the table [vs] of the
   running function; a call allocates [sfresh table] and stores parameters and captures by index.
   Everything else is Model.v verbatim.  ProofsSlotSim.v: SlotSem = ImplSem on programs whose
   symbol tables cover their bodies.  No proofs in this file. *)
From Coq Require Import List String ZArith Bool Arith.
From V.C02 Require Import Lang Model Slots.
Import ListNotations.
Open Scope string_scope.

(* ---------- the vector operations ---------- *)
Definition sfresh (vs : list string) : env := map (fun x => (x, VNull)) vs.
Fixpoint cell_set (i : nat) (v : value) (l : env) : env :=
  match l, i with
  | [], _ => []
  | (x, _) :: r, O => (x, v) :: r
  | c :: r, S i' => c :: cell_set i' v r
  end.
(* GetIndexZVal(i).Value; an index outside the vector is the code's "Variable does not exist" error,
   unreachable when the table covers the body (ProofsSlotSim) *)
Definition cell_get (i : nat) (l : env) : value :=
  match nth_error l i with Some (_, v) => v | None => VNull end.
Definition srd (vs : list string) (fn x : string) (fr : frame) (g : glob) : value :=
  if mem x (snd fr) then match sget (fn, x) (gstat g) with Some v => v | None => VNull end
  else match index_of x vs with Some i => cell_get i (fst fr) | None => VNull end.
Definition swr (vs : list string) (fn x : string) (v : value) (fr : frame) (g : glob) : frame * glob :=
  if mem x (snd fr) then (fr, set_stat (sset (fn, x) v (gstat g)) g)
  else match index_of x vs with
       | Some i => ((cell_set i v (fst fr), snd fr), g)
       | None => (fr, g)
       end.
Definition scapture (vs : list string) (fn : string) (uses : list string) (fr : frame) (g : glob) : list (string * value) :=
  map (fun x => (x, srd vs fn x fr g)) uses.
Definition sstore (vs : list string) (x : string) (v : value) (e : env) : env :=
  match index_of x vs with Some i => cell_set i v e | None => e end.
Fixpoint sbind_params (vs : list string) (ps : list (string * option value)) (avs : list value) (e : env) : env :=
  match ps with
  | [] => e
  | (x, d) :: r =>
      match avs with
      | v :: vr => sbind_params vs r vr (sstore vs x v e)
      | [] => sbind_params vs r [] (match d with Some dv => sstore vs x dv e | None => e end)
      end
  end.
Fixpoint sbind_captured (vs : list string) (cap : list (string * value)) (e : env) : env :=
  match cap with [] => e | (x, v) :: r => sbind_captured vs r (sstore vs x v e) end.

'''
open(os.path.join(here, "coq/C02/SlotModel.v"), "w").write(head + body)
print("written")

# ---------------------------------------------------------------- unfolding lemmas for SlotSem, derived from Proofs.v
P = open(os.path.join(here, "coq/C02/Proofs.v")).read()
def sub(t):
    t = t.replace("fun c vs g =>", "fun c avs g =>").replace("(fparams d) vs []", "(fparams d) avs []").replace("(cparams cd) vs []", "(cparams cd) avs []")
    for a, b in [("ieval_args", "seval_args"), ("ieval_arms", "seval_arms"), ("ieval_conds", "seval_conds"), ("ieval_nargs", "seval_nargs"), ("ieval_each", "seval_each"),
                 ("ieval_incs", "seval_incs"), ("icond_for", "scond_for"), ("icond", "scond"), ("ieval", "seval"), ("iexec", "sexec"),
                 ("icallf", "scallf"), ("ielif", "selif"), ("ieach", "seach"), ("irunc", "srunc"), ("icases", "scases"),
                 ("islow", "sslow")]:
        t = re.sub(r"\b%s(_[a-z_0-9]+)?\b" % a, lambda m: b + (m.group(1) or ""), t)
    t = re.sub(r"\brd fn\b", "srd vs fn", t)
    t = re.sub(r"\bwr fn\b", "swr vs fn", t)
    t = re.sub(r"\bcapture fn\b", "scapture vs fn", t)
    for h in ("fast_assign", "var_int_le", "operand"):
        t = re.sub(r"\b%s fn\b" % h, "s%s vs fn" % h, t)
    t = re.sub(r"\bfuns clos fn\b", "funs clos vs fn", t)
    t = re.sub(r"sexec cm funs clos (\(S n\)|n|0) fn\b", r"sexec cm funs clos \1 vs fn", t)
    return t
unfold = P[P.index("Section Unfold."):P.index("End Unfold.") + len("End Unfold.")]
unfold = sub(unfold).replace("Section Unfold.", "Section SUnfold.").replace("End Unfold.", "End SUnfold.")
unfold = unfold.replace("Variables (n : nat) (fn : string) (fr : frame) (g : glob).", "Variables (n : nat) (vs : list string) (fn : string) (fr : frame) (g : glob).")
ex = P[P.index("Section ExprEq."):P.index("End ExprEq.")]
blocks = re.findall(r"Definition islow\b.*?\n  end\.\n", ex, re.S) + re.findall(r"Lemma ieval_\w+\b.*?Qed\.\n", ex, re.S)
blocks = [b for b in blocks if not re.match(r"Lemma ieval_(reval|self|each_reval|incs_reval)", b)]
exprs = "Section SExprUnfold.\nVariable funs : list fundef.\nVariable clos : list clodef.\nVariable vs : list string.\nVariable fn : string.\n\n" + \
        "\n".join(sub(b) for b in blocks) + '''
Lemma seval_postinc cf x fr g : seval cf funs clos vs fn (EPostInc x) fr g =
  let '(nv, ov) := incr_value (srd vs fn x fr g) in
  let '(fr', g') := swr vs fn x nv fr g in Res (EV ov) fr' g'.
Proof. reflexivity. Qed.
End SExprUnfold.
'''
scall = '''(* C02 — unfolding equations of SlotSem.  GENERATED from Proofs.v by tools/gen_slotmodel.py. *)
From Coq Require Import List String ZArith Bool Arith Lia.
From V.C02 Require Import Lang Model Slots SlotModel.
Import ListNotations.
Open Scope string_scope.

Definition scallf (cm : catchfn) (funs : list fundef) (clos : list clodef) (n : nat) : callfn := fun c avs g =>
  match c with
  | CFun f =>
      match find_fun funs f with
      | None => Some (EX (err "undefined function"), g)
      | Some d =>
          if enough_args (fparams d) avs then
            match sexec cm funs clos n (fun_vars d) f (fbody d) (sbind_params (fun_vars d) (fparams d) avs (sfresh (fun_vars d)), []) g with
            | Fuel => None
            | Res c _ g' => Some (call_result c, g')
            end
          else Some (EX (VErr "too few arguments"), g)
      end
  | CClo id oid cap =>
      match nth_error clos id with
      | None => Some (EX (VErr "no such closure"), g)
      | Some cd =>
          if enough_args (cparams cd) avs then
            match sexec cm funs clos n (clo_vars cd) (clo_name oid) (cbody cd)
                    (sbind_captured (clo_vars cd) cap (sbind_params (clo_vars cd) (cparams cd) avs (sfresh (clo_vars cd))), []) g with
            | Fuel => None
            | Res c _ g' => Some (call_result c, g')
            end
          else Some (EX (VErr "too few arguments"), g)
      end
  end.

'''
open(os.path.join(here, "coq/C02/ProofsSlotUnfold.v"), "w").write(scall + unfold + "\n\n" + exprs)
print("unfold lemmas written:", len(blocks), "expression blocks")
