#!/usr/bin/env python3
"""Confirm a seeded change independently (coordinator's own confirmation, in a scratch worktree):
  (a) the patch applies and the tree builds (go build ./... and -tags verif of the touched packages),
  (b) the existing suite still passes (only the baseline's always-failing parser test may fail),
  (c) the demonstration fails with the patch and passes without it.
meta.json needs: "demo": {"copy": {"<file in seed dir>": "<path in tree>"}, "cmd": "<shell, run at tree root>"}.
Writes seeded/<name>/confirmed.json."""
import json, os, subprocess, sys, shutil
VERIF = os.path.dirname(os.path.dirname(os.path.abspath(__file__)))
ENV = dict(os.environ, GOFLAGS="-mod=mod", GOPROXY="off")
ENV.pop("GOTOOLCHAIN", None)

def sh(cmd, cwd=None, timeout=1800):
    p = subprocess.run(cmd, shell=True, cwd=cwd, env=ENV, stdout=subprocess.PIPE, stderr=subprocess.STDOUT, text=True, timeout=timeout)
    return p.returncode, p.stdout

def suite_ok(wt):
    rc, out = sh("go test -vet=off -count=1 ./... 2>&1 | grep -v 'no test files'", cwd=wt)
    fails = [l for l in out.splitlines() if l.startswith("--- FAIL") or l.startswith("FAIL\t")]
    allowed = [l for l in fails if "TestDiagVendorCompileAuthStringCorrupt" in l or l.startswith("FAIL\tgithub.com/php-any/origami/parser")]
    return len(fails) == len(allowed), fails

def main():
    for name in sys.argv[1:]:
        d = os.path.join(VERIF, "seeded", name)
        meta = json.load(open(os.path.join(d, "meta.json")))
        wt = "/tmp/confirm-%s" % name
        sh("git -C /repo worktree remove --force %s" % wt)
        sh("git -C /repo worktree add -q %s HEAD" % wt)
        res = {"name": name}
        try:
            demo = meta["demo"]
            def run_demo():
                for src, dst in demo["copy"].items():
                    os.makedirs(os.path.dirname(os.path.join(wt, dst)) or wt, exist_ok=True)
                    shutil.copyfile(os.path.join(d, src), os.path.join(wt, dst))
                rc, out = sh(demo["cmd"], cwd=wt)
                for dst in demo["copy"].values():
                    os.remove(os.path.join(wt, dst))
                return rc, out[-600:]
            rc0, out0 = run_demo()
            res["demo_without_patch_rc"] = rc0
            rc, out = sh("git apply %s" % os.path.join(d, "patch.diff"), cwd=wt)
            res["applies"] = rc == 0
            rc, out = sh("go build ./... && go build -tags verif ./...", cwd=wt)
            res["builds"] = rc == 0
            ok, fails = suite_ok(wt)
            res["suite_passes_with_patch"] = ok
            res["suite_fail_lines"] = fails
            rc1, out1 = run_demo()
            res["demo_with_patch_rc"] = rc1
            res["demo_with_patch_tail"] = out1
            res["confirmed"] = bool(res["applies"] and res["builds"] and ok and rc0 == 0 and rc1 != 0)
        finally:
            sh("git -C /repo worktree remove --force %s" % wt)
            shutil.rmtree(wt, ignore_errors=True)
        json.dump(res, open(os.path.join(d, "confirmed.json"), "w"), indent=1)
        print(name, "CONFIRMED" if res.get("confirmed") else "NOT CONFIRMED", {k: res.get(k) for k in ("applies", "builds", "suite_passes_with_patch", "demo_without_patch_rc", "demo_with_patch_rc")})
main()
