#!/usr/bin/env python3
"""refresh the 'repo fixes / known' column of the §0 table and the totals paragraph in tools/design/front.md
from KNOWN_FINDINGS, /repo's log and the Coq sources (run before tools/design_assemble.py)"""
import collections, glob, os, re, subprocess
here = os.path.dirname(os.path.dirname(os.path.abspath(__file__)))
k, f = collections.Counter(), collections.Counter()
for l in open(os.path.join(here, "KNOWN_FINDINGS")):
    m = re.match(r"(known|fixed): property=(C\d\d)", l)
    if m:
        (k if m.group(1) == "known" else f)[m.group(2)] += 1
p = os.path.join(here, "tools/design/front.md")
s = open(p).read()
out = []
for line in s.split("\n"):
    m = re.match(r"^\| (C\d\d) \|", line)
    if m:
        pid = m.group(1)
        cells = line.rstrip().rstrip("|").split("|")
        cells[-1] = " %d / %d " % (f[pid], k[pid])
        line = "|".join(cells) + "|"
    out.append(line)
s = "\n".join(out)
log = subprocess.run(["git", "-C", "/repo", "log", "--format=%s", "552dc91..HEAD"], stdout=subprocess.PIPE, text=True).stdout.splitlines()
nfix = sum(1 for l in log if l.startswith("fix:"))
nhook = sum(1 for l in log if l.startswith("verif hook:"))
nv = 0
for fn in glob.glob(os.path.join(here, "coq/**/*.v"), recursive=True):
    nv += sum(1 for _ in open(fn, errors="replace"))
tot = ("Totals at the time of writing: %d `fix:` commits in /repo (each a small, separately\n"
       "justified repair; the repository's 116-test suite still passes unedited and the 331-script\n"
       "corpus under tests/ and examples/ produces the same output before and after except where a\n"
       "fix corrected it, see tools/corpus_regress.py), %d add-only `verif hook:` commits, %d `fixed:`\n"
       "and %d narrowly keyed `known:` lines in KNOWN_FINDINGS (%d of the latter the C07\n"
       "visibility-rule cells), ≈ %d k lines of Coq.") % (nfix, nhook, sum(f.values()), sum(k.values()), k["C07"], round(nv / 1000))
i = s.index("Totals at the time of writing:")
s = s[:i] + tot + "\n"
open(p, "w").write(s)
print(nfix, nhook, sum(f.values()), sum(k.values()), nv)
