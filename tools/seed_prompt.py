#!/usr/bin/env python3
"""print the prompt for an independent seeding sub-agent and create its worktree:
   tools/seed_prompt.py C19 [n_changes]"""
import json, subprocess, sys
pid = sys.argv[1]; n = int(sys.argv[2]) if len(sys.argv) > 2 else 3
p = [json.loads(l) for l in open('/verif/properties.jsonl') if json.loads(l)['id'] == pid][0]
wt = "/tmp/seed-%s" % pid
subprocess.run(["git", "-C", "/repo", "worktree", "remove", "--force", wt], stdout=subprocess.DEVNULL, stderr=subprocess.DEVNULL)
subprocess.run(["git", "-C", "/repo", "worktree", "add", "-q", wt, "HEAD"], check=True)
# ROUND2: list earlier seeded changes so that a new round looks elsewhere
import glob, os
prev = []
for d in sorted(glob.glob('/verif/seeded/%s-*' % pid)):
    try:
        m = json.load(open(os.path.join(d, 'meta.json')))
        prev.append("- " + " ".join(str(m.get('summary', '')).split())[:300])
    except Exception:
        pass
PREV = ("\n\nEarlier rounds already produced these changes for this property — do NOT repeat them or close variants; pick different functions, clauses and mechanisms:\n" + "\n".join(prev)) if prev else ""
OUT = "out%d" % (len(prev) // 3 + 1) if prev else "out"
print(f"""You are helping test a verification effort by producing realistic defects. You work ONLY inside the git worktree {wt} (a checkout of the Go project php-any/origami: a tree-walking interpreter for a PHP-like scripting language, with a stdlib). Do not read or touch /verif or /repo or any other /tmp directory. Go build env for every shell call: `export GOFLAGS=-mod=mod GOPROXY=off` (do NOT set GOTOOLCHAIN=local or GOSUMDB=off; the sandbox is offline). Build the interpreter with `go build -o /tmp/origami-seed-{pid} .` and run a script with `/tmp/origami-seed-{pid} file.php` (.php files need a leading `<?php`; .zy files are plain mode).

The property under test ({pid}: {p['title']}):
\"{p['statement']}\"
Quantifier: {p['quantifier']['text']}
Anchored code: {', '.join(p['anchors']['files'])}.
Mechanisms meant to make it hold: {json.dumps(p['anchors'].get('mechanism'), ensure_ascii=False)}

{PREV}

Task: produce {n} different, independent code changes (each as its own patch against the worktree's HEAD), each of which BREAKS this property while (a) still compiling (`go build ./...`), (b) still passing the existing Go test suite unchanged (`go test -vet=off -count=1 ./...` — the parser package has one pre-existing failing test, TestDiagVendorCompileAuthStringCorrupt, which you ignore), and (c) looking like a plausible refactor / optimisation / bug a maintainer could introduce. Ask yourself what a careful code reviewer would miss. Prefer changes that need something specific to manifest — a particular interleaving, a multi-step sequence of operations, an unusual or boundary input, a particular combination of features, or two cooperating sites that each look fine alone — rather than changes that any ordinary use would expose at once. Vary the mechanisms across the {n} changes (different functions / different clauses of the property).

First make sure the behaviour you are about to break is actually correct at HEAD (the demonstration must PASS at HEAD): the code base has known defects; do not build a change on top of behaviour that is already broken.

For each change i in 1..{n} create directory {wt}/out/<i>/ containing: `patch.diff` (output of `git diff` for that change alone; must apply cleanly to HEAD with `git apply`), a demonstration (either a Go test file `demo_test.go` to be copied into a package directory, or a script `demo.php`/`demo.zy` plus a small shell script `demo.sh` that exits non-zero when the property is violated) that FAILS with the change applied and PASSES without it, and `meta.json` with fields: property (\"{pid}\"), summary, what_it_needs_to_manifest, files_touched, and demo = {{\"copy\": {{\"<file in out/i>\": \"<destination path relative to the tree root>\"}}, \"cmd\": \"<one shell command, run at the tree root after copying, that exits 0 when the property holds and non-zero when it is violated; it may build and run the interpreter, e.g. go run . path/to/demo.php | diff - expected.txt>\"}}. Verify (a), (b) and the demo fails-with / passes-without yourself by actually running the commands. NEVER use `git stash` (the stash is shared by all worktrees of the repository and other agents are working in sibling worktrees): to set a change aside use `git diff > /tmp/seed-{pid}-<n>.diff; git checkout -- .` and `git apply` it back later. If you put Go test files under out/, add out/go.mod (module seedout) so the root `go build ./...` / `go test ./...` ignore them. Leave the worktree at clean HEAD when you finish (git checkout -- . ; remove copied demo files), keeping only the untracked out/ directory. Final message: a short list of the changes, what each needs to manifest, and confirmation of what you ran.""")
