#!/bin/bash
# regenerate coq/_CoqProject from the directory contents (Common first); never hand-edit it
# (Lexer/ = the byte-level lexer model shared by C01 and C18)
cd "$(dirname "$0")/../coq"
{ echo "-Q . V"; ls Common/*.v 2>/dev/null; ls gen/*.v 2>/dev/null; ls Lexer/*.v 2>/dev/null; ls Stmt/*.v 2>/dev/null; for d in C[0-9][0-9]*/; do ls ${d}*.v 2>/dev/null; done; } > _CoqProject
