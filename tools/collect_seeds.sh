#!/bin/bash
# collect_seeds.sh <round-offset> <props...>: copy /tmp/seed-Cxx/out/{1,2,3} to seeded/Cxx-(offset+i), confirm, run
off=$1; shift
L=""
for p in "$@"; do
  o=$off; [ $p = C14 ] && o=$((off+1))
  for i in 1 2 3; do n=$((i+o)); [ -d /tmp/seed-$p/out/$i ] || continue; mkdir -p seeded/$p-$n; cp -r /tmp/seed-$p/out/$i/* seeded/$p-$n/; L="$L $p-$n"; done
done
python3 tools/confirm_seed.py $L 2>&1 | grep -v "^$" | cut -c1-70 | grep -v " CONFIRMED" ; echo "confirmed run done"
python3 tools/seeded.py $L 2>&1 | cut -c1-100
for p in "$@"; do git -C /repo worktree remove --force /tmp/seed-$p 2>/dev/null; done
