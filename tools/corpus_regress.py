#!/usr/bin/env python3
"""Compare the script corpus (tests/, examples/) between two interpreter binaries:
   corpus_regress.py <base-binary> <head-binary> [outfile]
Each script is run with a 10 s timeout from its own directory; stdout+exit status compared.
Used by the coordinator to see what the fix: commits change beyond their intended defect."""
import os, re, subprocess, sys, json, concurrent.futures
TS = re.compile(r'\d{4}-\d\d-\d\d \d\d:\d\d:\d\d|\d+(\.\d+)?\s*(ms|µs|us|ns|s)\b')
base, head = sys.argv[1], sys.argv[2]
out = sys.argv[3] if len(sys.argv) > 3 else "/tmp/reg/diff.json"
files = []
for root in ("/repo/tests", "/repo/examples"):
    for dp, _, fs in os.walk(root):
        for f in fs:
            if f.endswith((".php", ".zy")):
                files.append(os.path.join(dp, f))
files.sort()
def run(b, f):
    try:
        p = subprocess.run([b, f], cwd=os.path.dirname(f), stdout=subprocess.PIPE, stderr=subprocess.STDOUT, timeout=10)
        return p.returncode, TS.sub("<t>", p.stdout.decode("utf-8", "replace"))
    except subprocess.TimeoutExpired as e:
        return "timeout", (e.stdout or b"").decode("utf-8", "replace")
def both(f):
    return f, run(base, f), run(head, f)
diffs = []
with concurrent.futures.ThreadPoolExecutor(8) as ex:
    for f, a, b in ex.map(both, files):
        if a != b and not (a[0] == "timeout" and b[0] == "timeout"):
            diffs.append({"file": f, "base": [a[0], a[1][-1500:]], "head": [b[0], b[1][-1500:]]})
json.dump(diffs, open(out, "w"), indent=1)
print(len(files), "files;", len(diffs), "differ")
for d in diffs[:40]:
    print(" ", d["file"], d["base"][0], "->", d["head"][0])
