#!/usr/bin/env python3
"""Assemble /verif/MANIFEST.json from manifest.d/*.json fragments (one per property) and
manifest.d/_base.json. Run after editing a fragment."""
import glob, json, os
here = os.path.dirname(os.path.dirname(os.path.abspath(__file__)))
base = json.load(open(os.path.join(here, "manifest.d", "_base.json")))
checks, na = [], []
props = [json.loads(l)["id"] for l in open(os.path.join(here, "properties.jsonl"))]
for pid in props:
    f = os.path.join(here, "manifest.d", pid + ".json")
    if not os.path.exists(f):
        na.append({"property_id": pid, "reason": "check not built yet (in progress); see DESIGN.md"})
        continue
    frag = json.load(open(f))
    if "not_applicable" in frag:
        na.append({"property_id": pid, "reason": frag["not_applicable"]})
        continue
    frag.setdefault("property_id", pid)
    frag.setdefault("quick_cmd", "./check %s --tier quick" % pid)
    frag.setdefault("thorough_cmd", "./check %s --tier thorough" % pid)
    frag.setdefault("evidence_file", "/verif/evidence/%s.json" % pid)
    frag.setdefault("replay_cmd_template", "./check %s --replay {path}" % pid)
    frag.setdefault("engine", "coq+go-harness")
    checks.append(frag)
base["checks"] = checks
base["not_applicable"] = na
json.dump(base, open(os.path.join(here, "MANIFEST.json"), "w"), indent=1, ensure_ascii=False)
print("checks:", [c["property_id"] for c in checks], "not_applicable:", [n["property_id"] for n in na])
