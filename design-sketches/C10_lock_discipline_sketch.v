From Coq Require Import List Arith Bool Lia.
Import ListNotations.

(* actions of one thread, in program order *)
Inductive act := ALock | ARLock | AUnlock | ARUnlock | ARead (m:nat) | AWrite (m:nat).
Inductive lmode := Free | Shared | Excl.

(* static discipline check of a thread program, threading the held mode *)
Fixpoint wl (h:lmode) (p:list act) : bool :=
  match p with
  | [] => match h with Free => true | _ => false end
  | a :: r =>
    match a, h with
    | ALock, Free => wl Excl r
    | ARLock, Free => wl Shared r
    | AUnlock, Excl => wl Free r
    | ARUnlock, Shared => wl Free r
    | ARead _, (Shared|Excl) => wl h r
    | AWrite _, Excl => wl h r
    | _, _ => false
    end
  end.

(* global state: per-thread (held mode, remaining program) *)
Definition thread := (lmode * list act)%type.
Definition state := list thread.

Definition nobody (pred : lmode -> bool) (s:state) : bool := forallb (fun t => negb (pred (fst t))) s.
Definition is_excl h := match h with Excl => true | _ => false end.
Definition is_held h := match h with Free => false | _ => true end.

(* one step of thread i; None = blocked or finished. The RWMutex: Lock needs nobody holding;
   RLock needs nobody holding exclusively. Reads/writes are NOT checked against the lock:
   that is the point. *)
Fixpoint upd (s:state) (i:nat) (t:thread) : state :=
  match s, i with [], _ => [] | _ :: r, O => t :: r | x :: r, S j => x :: upd r j t end.
Definition step (s:state) (i:nat) : option state :=
  match nth_error s i with
  | None => None
  | Some (h, []) => None
  | Some (h, a :: r) =>
    match a with
    | ALock => if nobody is_held s then Some (upd s i (Excl, r)) else None
    | ARLock => if nobody is_excl s then Some (upd s i (Shared, r)) else None
    | AUnlock | ARUnlock => Some (upd s i (Free, r))
    | ARead _ | AWrite _ => Some (upd s i (h, r))
    end
  end.
Fixpoint run (s:state) (sched:list nat) : state :=
  match sched with [] => s | i :: r => match step s i with Some s' => run s' r | None => run s r end end.

(* lock invariant: at most one exclusive holder, and then no other holder *)
Definition excl_alone (s:state) : Prop :=
  forall i j hi pi hj pj, nth_error s i = Some (hi, pi) -> nth_error s j = Some (hj, pj) -> i <> j ->
    hi = Excl -> hj = Free.
Definition all_wl (s:state) : Prop := forall i h p, nth_error s i = Some (h, p) -> wl h p = true.

(* a race: two distinct threads whose next actions touch the same map, one of them writing *)
Definition next_acc (t:thread) : option (bool * nat) :=
  match snd t with ARead m :: _ => Some (false, m) | AWrite m :: _ => Some (true, m) | _ => None end.
Definition race (s:state) : Prop :=
  exists i j ti tj wi wj m, i <> j /\ nth_error s i = Some ti /\ nth_error s j = Some tj /\
    next_acc ti = Some (wi, m) /\ next_acc tj = Some (wj, m) /\ (wi || wj = true).

Lemma nth_upd_same s i t x : nth_error s i = Some x -> nth_error (upd s i t) i = Some t.
Proof. revert i; induction s as [|y s IH]; intros [|i] H; simpl in *; try discriminate; auto. Qed.
Lemma nth_upd_other s i j t : i <> j -> nth_error (upd s i t) j = nth_error s j.
Proof. revert i j; induction s as [|y s IH]; intros [|i] [|j] H; simpl; auto; try lia. Qed.

Lemma nobody_spec pred s : nobody pred s = true -> forall j h p, nth_error s j = Some (h,p) -> pred h = false.
Proof. unfold nobody. rewrite forallb_forall. intros H j h p Hn. apply nth_error_In in Hn.
  specialize (H _ Hn). simpl in H. destruct (pred h); auto; discriminate. Qed.

Lemma step_inv s i s' : all_wl s -> excl_alone s -> step s i = Some s' -> all_wl s' /\ excl_alone s'.
Proof.
  intros W X. unfold step. destruct (nth_error s i) as [[h [|a r]]|] eqn:Ei; try discriminate.
  pose proof (W _ _ _ Ei) as Wi.
  assert (G: forall h', (wl h' r = true) ->
     (h' = Excl -> forall j hj pj, j <> i -> nth_error s j = Some (hj,pj) -> hj = Free) ->
     (h' = Shared -> forall j hj pj, j <> i -> nth_error s j = Some (hj,pj) -> hj <> Excl) ->
     all_wl (upd s i (h', r)) /\ excl_alone (upd s i (h', r))).
  { intros h' Wr HE HS. split.
    - intros j hj pj Hj. destruct (Nat.eq_dec i j) as [<-|N].
      + rewrite (nth_upd_same _ _ _ _ Ei) in Hj. inversion Hj; subst. exact Wr.
      + rewrite nth_upd_other in Hj by exact N. eapply W; eauto.
    - intros a1 a2 h1 p1 h2 p2 H1 H2 N E1.
      destruct (Nat.eq_dec i a1) as [<-|N1].
      + rewrite (nth_upd_same _ _ _ _ Ei) in H1. injection H1 as Eh Ep. subst h1.
        rewrite nth_upd_other in H2 by exact N. apply (HE E1 a2 h2 p2); [intros ->; apply N; reflexivity|exact H2].
      + rewrite nth_upd_other in H1 by exact N1.
        destruct (Nat.eq_dec i a2) as [<-|N2].
        * rewrite (nth_upd_same _ _ _ _ Ei) in H2. injection H2 as Eh Ep. subst h1. rewrite <- Eh.
          destruct h' eqn:Eh'; [reflexivity| |].
          -- exfalso. apply (HS eq_refl a1 Excl p1); [intros ->; apply N1; reflexivity|exact H1|reflexivity].
          -- exfalso. assert (Excl = Free) by (apply (HE eq_refl a1 Excl p1); [intros ->; apply N1; reflexivity|exact H1]). discriminate.
        * rewrite nth_upd_other in H2 by exact N2. exact (X a1 a2 h1 p1 h2 p2 H1 H2 N E1). }
  destruct a; simpl in Wi; destruct h; try discriminate.
  - destruct (nobody is_held s) eqn:Nb; [|discriminate]. intros H; inversion H; subst. apply G; auto.
    + intros _ j hj pj _ Hj. pose proof (nobody_spec _ _ Nb _ _ _ Hj). destruct hj; simpl in *; auto; discriminate.
    + discriminate.
  - destruct (nobody is_excl s) eqn:Nb; [|discriminate]. intros H; inversion H; subst. apply G; auto.
    + discriminate.
    + intros _ j hj pj _ Hj. pose proof (nobody_spec _ _ Nb _ _ _ Hj). destruct hj; simpl in *; auto; discriminate.
  - intros H; inversion H; subst. apply G; auto; discriminate.
  - intros H; inversion H; subst. apply G; auto; discriminate.
  - intros H; inversion H; subst. apply G; auto; [discriminate|].
    intros _ j hj pj Nj Hj E. subst hj. assert (Shared = Free) by (eapply (X j i); eauto). discriminate.
  - intros H; inversion H; subst. apply G; auto; [|discriminate].
    intros _ j hj pj Nj Hj. eapply (X i j); eauto.
  - intros H; inversion H; subst. apply G; auto; [|discriminate].
    intros _ j hj pj Nj Hj. eapply (X i j); eauto.
Qed.

Lemma run_inv sched : forall s, all_wl s -> excl_alone s -> all_wl (run s sched) /\ excl_alone (run s sched).
Proof. induction sched as [|i r IH]; intros s W X; simpl; auto.
  destruct (step s i) eqn:E; auto. destruct (step_inv _ _ _ W X E). auto. Qed.

Lemma inv_no_race s : all_wl s -> excl_alone s -> ~ race s.
Proof.
  intros W X (i & j & [hi pi] & [hj pj] & wi & wj & m & N & Hi & Hj & Ai & Aj & Wr).
  pose proof (W _ _ _ Hi) as Wi. pose proof (W _ _ _ Hj) as Wj.
  unfold next_acc in *; simpl in *.
  destruct pi as [|[] pi]; try discriminate; destruct pj as [|[] pj]; try discriminate;
  inversion Ai; inversion Aj; subst; simpl in *; try discriminate;
  destruct hi; try discriminate; destruct hj; try discriminate;
  try (assert (Excl = Free) by (eapply (X i j); eauto); discriminate);
  try (assert (Excl = Free) by (eapply (X j i); eauto); discriminate);
  try (assert (Shared = Free) by (eapply (X i j); eauto); discriminate);
  try (assert (Shared = Free) by (eapply (X j i); eauto); discriminate).
Qed.

Definition init_state (progs : list (list act)) : state := map (fun p => (Free, p)) progs.
Theorem well_locked_race_free : forall progs sched,
  forallb (wl Free) progs = true -> ~ race (run (init_state progs) sched).
Proof.
  intros progs sched H. destruct (run_inv sched (init_state progs)) as [W X].
  - intros i h p Hn. unfold init_state in Hn. rewrite nth_error_map in Hn.
    destruct (nth_error progs i) eqn:E; [|discriminate]. inversion Hn; subst.
    rewrite forallb_forall in H. apply H. eapply nth_error_In; eauto.
  - intros i j hi pi hj pj Hi Hj _ E. unfold init_state in Hi. rewrite nth_error_map in Hi.
    destruct (nth_error progs i); [|discriminate]. inversion Hi; subst. discriminate.
  - apply inv_no_race; auto.
Qed.
Print Assumptions well_locked_race_free.
(* today's AddClass: RLock; Read; Read; Write; RUnlock  -> not well locked *)
Eval vm_compute in wl Free [ARLock; ARead 0; ARead 1; AWrite 0; ARUnlock].
Eval vm_compute in wl Free [ALock; ARead 0; ARead 1; AWrite 0; AUnlock].
