From Coq Require Import List NArith Lia ZArith.
From Coq Require Import ZifyN ZifyNat ZifyBool.
Import ListNotations.
Open Scope N_scope.
Ltac Zify.zify_post_hook ::= Z.div_mod_to_equations.

(* AppendVarint: little-endian base-128, continuation bit 0x80 *)
Fixpoint enc (fuel:nat) (v:N) : list N :=
  match fuel with
  | O => [v]
  | S f => if v <? 128 then [v] else (v mod 128 + 128) :: enc f (v / 128)
  end.
Definition encode_varint (v:N) : list N := enc 9 v.   (* at most 10 bytes for v < 2^64 *)

(* ConsumeVarint as a loop: i = index of current byte (0..9), acc = value so far *)
Inductive res := Val (v:N) (n:nat) | Truncated | Overflow.
Fixpoint dec (k:nat) (i:nat) (shift:N) (acc:N) (b:list N) : res :=
  match b with
  | [] => Truncated
  | y :: r =>
    match k with
    | O => (* 10th byte *) if y <? 2 then Val (acc + y * shift) (S i) else Overflow
    | S k' => if y <? 128 then Val (acc + y * shift) (S i)
              else dec k' (S i) (shift * 128) (acc + (y - 128) * shift) r
    end
  end.
Definition consume_varint (b:list N) : res := dec 9 0 1 0 b.

Eval vm_compute in encode_varint 300.
Eval vm_compute in consume_varint (encode_varint 300 ++ [7]).
Eval vm_compute in consume_varint (encode_varint (2^64-1)).
Eval vm_compute in consume_varint [255;255;255;255;255;255;255;255;255;2].

(* main lemma: generic in fuel k *)
Lemma dec_enc_gen : forall (k i:nat) (shift acc v:N) (rest:list N),
  (k = 0%nat -> v < 2) ->
  v < 128 ^ N.of_nat k * 2 ->
  dec k i shift acc (enc k v ++ rest) = Val (acc + v * shift) (i + length (enc k v))%nat.
Proof.
  induction k as [|k IH]; intros i shift acc v rest H0 Hb.
  - simpl. specialize (H0 eq_refl). replace (v <? 2) with true by lia. f_equal. lia.
  - cbn [enc]. destruct (v <? 128) eqn:E.
    + simpl. rewrite E. f_equal. lia.
    + cbn [app dec]. replace (v mod 128 + 128 <? 128) with false by lia.
      rewrite IH.
      * f_equal; [|simpl; lia].
        replace (v mod 128 + 128 - 128) with (v mod 128) by lia.
        rewrite (N.div_mod v 128) at 3 by lia. lia.
      * intros ->. simpl in Hb. lia.
      * rewrite Nat2N.inj_succ, N.pow_succ_r' in Hb. lia.
Qed.

Theorem varint_roundtrip : forall v rest, v < 2^64 ->
  consume_varint (encode_varint v ++ rest) = Val v (length (encode_varint v)).
Proof. intros v rest H. unfold consume_varint, encode_varint.
  rewrite dec_enc_gen; [f_equal; lia|discriminate|].
  change (128 ^ N.of_nat 9 * 2) with (2^64). exact H. Qed.
Print Assumptions varint_roundtrip.
