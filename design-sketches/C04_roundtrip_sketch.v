From Coq Require Import List ZArith Bool Lia Arith.
Import ListNotations.

Inductive tok := TAtom (n:nat) | TPlus | TMinus | TStar | TPow | TLp | TRp.
Inductive bop := Add | Sub | Mul | Pow.
Inductive ast := Atom (n:nat) | Bin (o:bop) (l r:ast) | Neg (e:ast).
Definition is_add (t:tok) : option bop := match t with TPlus => Some Add | TMinus => Some Sub | _ => None end.
Definition is_mul (t:tok) : option bop := match t with TStar => Some Mul | _ => None end.
Definition sel (l:nat) : tok -> option bop := match l with 0 => is_add | _ => is_mul end.

Inductive mode := Lvl (n:nat) | Loop (n:nat) (acc:ast).

Fixpoint parse (fuel:nat) (m:mode) (ts:list tok) {struct fuel} : option (ast * list tok) :=
  match fuel with O => None | S f =>
  match m with
  | Loop l acc =>
     match ts with
     | t :: r => match sel l t with
                 | Some o => match parse f (Lvl (S l)) r with
                             | Some (e, r') => parse f (Loop l (Bin o acc e)) r'
                             | None => None end
                 | None => Some (acc, ts) end
     | [] => Some (acc, ts) end
  | Lvl 0 => match parse f (Lvl 1) ts with Some (e, r) => parse f (Loop 0 e) r | None => None end
  | Lvl 1 => match parse f (Lvl 2) ts with Some (e, r) => parse f (Loop 1 e) r | None => None end
  | Lvl 2 => match ts with
         | TMinus :: r => match parse f (Lvl 2) r with Some (e, r') => Some (Neg e, r') | None => None end
         | _ => parse f (Lvl 3) ts end
  | Lvl 3 => match parse f (Lvl 4) ts with
         | Some (e, TPow :: r) => match parse f (Lvl 3) r with Some (e2, r') => Some (Bin Pow e e2, r') | None => None end
         | x => x end
  | Lvl _ => match ts with
         | TAtom n :: r => Some (Atom n, r)
         | TLp :: r => match parse f (Lvl 0) r with Some (e, TRp :: r') => Some (e, r') | _ => None end
         | _ => None end
  end end.

Definition lvl_of (t:ast) : nat := match t with
  | Atom _ => 4 | Neg _ => 2 | Bin Pow _ _ => 3 | Bin Mul _ _ => 1 | Bin _ _ _ => 0 end.
Definition optok (o:bop) := match o with Add => TPlus | Sub => TMinus | Mul => TStar | Pow => TPow end.
Definition body (pr : nat -> ast -> list tok) (t:ast) : list tok := match t with
    | Atom n => [TAtom n]
    | Neg e => TMinus :: pr 2 e
    | Bin Pow l r => pr 4 l ++ TPow :: pr 3 r
    | Bin Mul l r => pr 1 l ++ TStar :: pr 2 r
    | Bin o l r => pr 0 l ++ optok o :: pr 1 r
    end.
Fixpoint pr (lvl:nat) (t:ast) : list tok :=
  let b := match t with
    | Atom n => [TAtom n]
    | Neg e => TMinus :: pr 2 e
    | Bin Pow l r => pr 4 l ++ TPow :: pr 3 r
    | Bin Mul l r => pr 1 l ++ TStar :: pr 2 r
    | Bin o l r => pr 0 l ++ optok o :: pr 1 r
    end in
  if lvl_of t <? lvl then TLp :: b ++ [TRp] else b.

(* fuel monotonicity *)
Lemma parse_mono : forall f m ts x, parse f m ts = Some x -> forall f', f <= f' -> parse f' m ts = Some x.
Proof.
  induction f as [|f IH]; intros m ts x H f' Hle; [discriminate|].
  destruct f' as [|f']; [lia|]. assert (Hf: f <= f') by lia.
  cbn [parse] in *.
  destruct m as [[|[|[|[|n]]]]|l acc].
  - destruct (parse f (Lvl 1) ts) as [[e r]|] eqn:E; [|discriminate].
    rewrite (IH _ _ _ E _ Hf). eauto.
  - destruct (parse f (Lvl 2) ts) as [[e r]|] eqn:E; [|discriminate].
    rewrite (IH _ _ _ E _ Hf). eauto.
  - destruct ts as [|[] r]; eauto.
    destruct (parse f (Lvl 2) r) as [[e r']|] eqn:E; [|discriminate]. rewrite (IH _ _ _ E _ Hf). exact H.
  - destruct (parse f (Lvl 4) ts) as [[e r]|] eqn:E; [|discriminate].
    rewrite (IH _ _ _ E _ Hf). destruct r as [|[] r]; eauto.
    destruct (parse f (Lvl 3) r) as [[e2 r']|] eqn:E2; [|discriminate]. rewrite (IH _ _ _ E2 _ Hf). exact H.
  - destruct ts as [|[] r]; eauto.
    destruct (parse f (Lvl 0) r) as [[e r']|] eqn:E; [|discriminate]. rewrite (IH _ _ _ E _ Hf). exact H.
  - destruct ts as [|t r]; eauto. destruct (sel l t); eauto.
    destruct (parse f (Lvl (S l)) r) as [[e r']|] eqn:E; [|discriminate]. rewrite (IH _ _ _ E _ Hf). eauto.
Qed.

(* ---------- round trip ---------- *)
Definition bad (lvl:nat) (t:tok) : bool := match lvl, t with
 | 0, (TPlus|TMinus|TStar|TPow) => true
 | 1, (TStar|TPow) => true
 | 2, TPow => true | 3, TPow => true
 | _, _ => false end.
Definition ok lvl (rest:list tok) := match rest with [] => True | t::_ => bad lvl t = false end.

Definition ret (m:mode) (ts:list tok) (x: ast * list tok) := exists f, parse f m ts = Some x.
(* state (m1,ts1) continues as (m2,ts2) *)
Definition steps (m1:mode) ts1 (m2:mode) ts2 := forall x, ret m2 ts2 x -> ret m1 ts1 x.

Lemma ret_two f1 f2 m1 t1 x1 m2 t2 x2 : parse f1 m1 t1 = Some x1 -> parse f2 m2 t2 = Some x2 ->
  parse (max f1 f2) m1 t1 = Some x1 /\ parse (max f1 f2) m2 t2 = Some x2.
Proof. intros A B. split; eapply parse_mono; eauto; lia. Qed.

Lemma ok_mono l l' rest : l <= l' -> ok l rest -> ok l' rest.
Proof. intros L. destruct rest as [|t r]; simpl; auto.
  destruct l as [|[|[|[|l]]]], l' as [|[|[|[|l']]]], t; simpl; try lia; auto; try discriminate. Qed.

(* entering level 0 / 1: first operand then loop *)
Lemma enter0 ts e r : ret (Lvl 1) ts (e, r) -> steps (Lvl 0) ts (Loop 0 e) r.
Proof. intros [f1 H1] x [f2 H2]. destruct (ret_two _ _ _ _ _ _ _ _ H1 H2) as [A B].
  exists (S (max f1 f2)). cbn [parse]. rewrite A. exact B. Qed.
Lemma enter1 ts e r : ret (Lvl 2) ts (e, r) -> steps (Lvl 1) ts (Loop 1 e) r.
Proof. intros [f1 H1] x [f2 H2]. destruct (ret_two _ _ _ _ _ _ _ _ H1 H2) as [A B].
  exists (S (max f1 f2)). cbn [parse]. rewrite A. exact B. Qed.
Lemma loop_step l acc t o r e r' : sel l t = Some o -> ret (Lvl (S l)) r (e, r') ->
  steps (Loop l acc) (t :: r) (Loop l (Bin o acc e)) r'.
Proof. intros S1 [f1 H1] x [f2 H2]. destruct (ret_two _ _ _ _ _ _ _ _ H1 H2) as [A B].
  exists (S (max f1 f2)). cbn [parse]. rewrite S1, A. exact B. Qed.
Lemma loop_exit l acc rest : l <= 1 -> ok l rest -> ret (Loop l acc) rest (acc, rest).
Proof. intros L O. exists 1. cbn [parse]. destruct rest as [|t r]; auto.
  destruct l as [|[|l]]; try lia; destruct t; simpl in *; try discriminate; auto. Qed.

Definition hd_not_minus (ts:list tok) := match ts with TMinus :: _ => False | _ => True end.
(* lifting a result from a tighter level to the next looser one *)
Lemma lift l ts e r : l < 4 -> ret (Lvl (S l)) ts (e, r) -> ok l r -> (l = 2 -> hd_not_minus ts) ->
  ret (Lvl l) ts (e, r).
Proof.
  intros L [f H] O M. destruct l as [|[|[|[|l]]]]; try lia.
  - apply (enter0 _ _ _ (ex_intro _ f H)). apply loop_exit; auto.
  - apply (enter1 _ _ _ (ex_intro _ f H)). apply loop_exit; auto.
  - exists (S f). cbn [parse]. specialize (M eq_refl). destruct ts as [|[] ts']; simpl in M; auto; contradiction.
  - exists (S f). cbn [parse]. rewrite H. destruct r as [|[] r']; simpl in O; auto; discriminate.
Qed.

Lemma pr_hd_lvl3 t lvl rest : 3 <= lvl -> hd_not_minus (pr lvl t ++ rest).
Proof. intros L. destruct t as [n|o l r|e]; cbn [pr].
  - simpl. destruct (4 <? lvl); simpl; auto.
  - destruct o; cbn [lvl_of];
    match goal with |- context [?a <? lvl] => destruct (a <? lvl) eqn:E end; simpl; auto;
    apply Nat.ltb_ge in E; try lia.
    (* Pow unparenthesised at lvl 3: starts with pr 4 l *)
    destruct l as [n|o2 l2 r2|e2]; cbn [pr lvl_of]; simpl; auto.
    destruct o2; simpl; auto.
  - cbn [lvl_of]. replace (2 <? lvl) with true by (symmetry; apply Nat.ltb_lt; lia). simpl. auto.
Qed.

Fixpoint size (t:ast) : nat := match t with Atom _ => 1 | Neg e => S (size e) | Bin _ l r => S (size l + size r) end.

Lemma pr_unfold lvl t : pr lvl t = if lvl_of t <? lvl then TLp :: pr (lvl_of t) t ++ [TRp] else pr (lvl_of t) t.
Proof. destruct t as [n|o l r|e]; cbn [pr]; rewrite Nat.ltb_irrefl; reflexivity. Qed.
Lemma lvl_le4 t : lvl_of t <= 4. Proof. destruct t as [|[]|]; simpl; lia. Qed.

Lemma lift_many d : forall lo ts e r, lo + d <= 4 -> ret (Lvl (lo + d)) ts (e, r) -> ok lo r ->
  (lo <= 2 < lo + d -> hd_not_minus ts) -> ret (Lvl lo) ts (e, r).
Proof. induction d as [|d IH]; intros lo ts e r L H O M.
  - rewrite Nat.add_0_r in H. exact H.
  - apply lift; [lia| |exact O|intros ->; apply M; lia].
    apply IH; [lia|replace (S lo + d) with (lo + S d) by lia; exact H|eapply ok_mono; [|exact O]; lia|].
    intros ?. apply M. lia. Qed.
Lemma lift_to lo hi ts e r : lo <= hi -> hi <= 4 -> ret (Lvl hi) ts (e, r) -> ok lo r ->
  (lo <= 2 < hi -> hd_not_minus ts) -> ret (Lvl lo) ts (e, r).
Proof. intros L1 L2 H O M. apply (lift_many (hi - lo)); replace (lo + (hi - lo)) with hi by lia; auto. Qed.

Definition Full t := forall lvl rest, lvl <= 4 -> ok lvl rest -> ret (Lvl lvl) (pr lvl t ++ rest) (t, rest).
Definition Core t := forall rest, ok (lvl_of t) rest -> ret (Lvl (lvl_of t)) (pr (lvl_of t) t ++ rest) (t, rest).
Definition G0 t := forall rest, ok 1 rest -> steps (Lvl 0) (pr 0 t ++ rest) (Loop 0 t) rest.
Definition G1 t := forall rest, ok 2 rest -> steps (Lvl 1) (pr 1 t ++ rest) (Loop 1 t) rest.

Lemma core_hd t rest : 3 <= lvl_of t -> hd_not_minus (pr (lvl_of t) t ++ rest).
Proof. intros. apply pr_hd_lvl3. assumption. Qed.

Lemma full_of_core t : Core t -> Full t.
Proof. intros C lvl rest L O. rewrite pr_unfold. destruct (lvl_of t <? lvl) eqn:E.
  - apply Nat.ltb_lt in E.
    assert (R0: ret (Lvl 0) (pr (lvl_of t) t ++ TRp :: rest) (t, TRp :: rest)).
    { apply (lift_to 0 (lvl_of t)); [lia|apply lvl_le4|apply C; destruct (lvl_of t) as [|[|[|[|]]]]; simpl; auto|simpl; auto|].
      intros [_ ?]. apply core_hd. lia. }
    destruct R0 as [f R0].
    apply (lift_to lvl 4); [lia|lia| |exact O|intros; simpl; auto].
    exists (S f). cbn [parse]. simpl. rewrite <- app_assoc. simpl. rewrite R0. reflexivity.
  - apply Nat.ltb_ge in E. apply (lift_to lvl (lvl_of t)); [lia|apply lvl_le4|apply C; eapply ok_mono; eauto|exact O|].
    intros [_ ?]. apply core_hd. lia. Qed.

Lemma steps_trans m1 t1 m2 t2 m3 t3 : steps m1 t1 m2 t2 -> steps m2 t2 m3 t3 -> steps m1 t1 m3 t3.
Proof. unfold steps; auto. Qed.

Theorem roundtrip_all : forall n t, size t <= n -> Full t /\ G0 t /\ G1 t.
Proof.
  induction n as [|n IH]; intros t Hs; [destruct t; simpl in Hs; lia|].
  assert (HC: Core t).
  { destruct t as [a|o l r|e]; intros rest O; cbn [lvl_of] in *.
    - exists 1. reflexivity.
    - simpl in Hs. destruct (IH l ltac:(lia)) as (Fl & G0l & G1l). destruct (IH r ltac:(lia)) as (Fr & G0r & G1r).
      destruct o; cbn [lvl_of pr] in *; rewrite ?Nat.ltb_irrefl; rewrite <- app_assoc; simpl.
      + (* Add *) apply (G0l (TPlus :: pr 1 r ++ rest)); [simpl; auto|].
        apply (loop_step 0 l TPlus Add _ r rest eq_refl (Fr 1 rest ltac:(lia) ltac:(eapply ok_mono; [|exact O]; lia))).
        apply loop_exit; auto.
      + apply (G0l (TMinus :: pr 1 r ++ rest)); [simpl; auto|].
        apply (loop_step 0 l TMinus Sub _ r rest eq_refl (Fr 1 rest ltac:(lia) ltac:(eapply ok_mono; [|exact O]; lia))).
        apply loop_exit; auto.
      + apply (G1l (TStar :: pr 2 r ++ rest)); [simpl; auto|].
        apply (loop_step 1 l TStar Mul _ r rest eq_refl (Fr 2 rest ltac:(lia) ltac:(eapply ok_mono; [|exact O]; lia))).
        apply loop_exit; auto.
      + destruct (Fl 4 (TPow :: pr 3 r ++ rest) ltac:(lia) ltac:(simpl; auto)) as [f1 H1].
        destruct (Fr 3 rest ltac:(lia) O) as [f2 H2].
        destruct (ret_two _ _ _ _ _ _ _ _ H1 H2) as [A B].
        exists (S (max f1 f2)). cbn [parse]. rewrite A, B. reflexivity.
    - simpl in Hs. destruct (IH e ltac:(lia)) as (Fe & _ & _).
      cbn [pr lvl_of]. rewrite Nat.ltb_irrefl. simpl.
      destruct (Fe 2 rest ltac:(lia) O) as [f H]. exists (S f). cbn [parse]. rewrite H. reflexivity. }
  pose proof (full_of_core t HC) as HF. split; [exact HF|]. split.
  - (* G0 *) intros rest O.
    destruct (Nat.eq_dec (lvl_of t) 0) as [E|E].
    + destruct t as [a|o l r|e]; try discriminate. destruct o; try discriminate; simpl in Hs;
      destruct (IH l ltac:(lia)) as (Fl & G0l & G1l); destruct (IH r ltac:(lia)) as (Fr & G0r & G1r);
      cbn [pr lvl_of]; simpl; rewrite <- app_assoc; simpl.
      * eapply steps_trans; [apply (G0l (TPlus :: pr 1 r ++ rest)); simpl; auto|].
        apply (loop_step 0 l TPlus Add _ r rest eq_refl (Fr 1 rest ltac:(lia) O)).
      * eapply steps_trans; [apply (G0l (TMinus :: pr 1 r ++ rest)); simpl; auto|].
        apply (loop_step 0 l TMinus Sub _ r rest eq_refl (Fr 1 rest ltac:(lia) O)).
    + assert (Epr: pr 0 t = pr 1 t).
      { rewrite (pr_unfold 0), (pr_unfold 1). replace (lvl_of t <? 0) with false by (symmetry; apply Nat.ltb_ge; lia).
        replace (lvl_of t <? 1) with false by (symmetry; apply Nat.ltb_ge; lia). reflexivity. }
      rewrite Epr. apply enter0. apply HF; [lia|exact O].
  - (* G1 *) intros rest O.
    destruct (Nat.eq_dec (lvl_of t) 1) as [E|E].
    + destruct t as [a|o l r|e]; try discriminate. destruct o; try discriminate; simpl in Hs.
      destruct (IH l ltac:(lia)) as (Fl & G0l & G1l); destruct (IH r ltac:(lia)) as (Fr & G0r & G1r).
      cbn [pr lvl_of]; simpl; rewrite <- app_assoc; simpl.
      eapply steps_trans; [apply (G1l (TStar :: pr 2 r ++ rest)); simpl; auto|].
      apply (loop_step 1 l TStar Mul _ r rest eq_refl (Fr 2 rest ltac:(lia) O)).
    + assert (Epr: pr 1 t = pr 2 t).
      { rewrite (pr_unfold 1), (pr_unfold 2). pose proof (lvl_le4 t).
        destruct (lvl_of t) as [|[|[|[|[|]]]]] eqn:L; try lia; reflexivity. }
      rewrite Epr. apply enter1. apply HF; [lia|exact O].
Qed.

Theorem parse_print : forall t, exists f, parse f (Lvl 0) (pr 0 t) = Some (t, []).
Proof. intros t. destruct (roundtrip_all (size t) t (le_n _)) as (F & _ & _).
  specialize (F 0 [] ltac:(lia) I). rewrite app_nil_r in F. exact F. Qed.
Print Assumptions parse_print.
