From Coq Require Import List Arith Bool Lia.
Import ListNotations.

(* miniature: output, sequencing, bounded loops, break k / continue k *)
Inductive stmt := Skip | Seq (a b:stmt) | Out (n:nat) | Brk (k:nat) | Cnt (k:nat) | Loop (iters:nat) (body:stmt).

(* ---------- ImplSem: level counters, decremented by each enclosing loop ---------- *)
Inductive ictl := INone | IBrk (k:nat) | ICnt (k:nat).
Definition iloop_step (r : list nat * ictl) (again : list nat * ictl) : list nat * ictl :=
  match r with
  | (o, INone) | (o, ICnt 0) | (o, ICnt 1) => (o ++ fst again, snd again)
  | (o, IBrk 0) | (o, IBrk 1) => (o, INone)
  | (o, IBrk (S k)) => (o, IBrk k)
  | (o, ICnt (S k)) => (o, ICnt k)
  end.
Fixpoint iloop (r : list nat * ictl) (n:nat) : list nat * ictl :=
  match n with O => ([], INone) | S n' => iloop_step r (iloop r n') end.
Fixpoint iexec (s:stmt) : list nat * ictl :=
  match s with
  | Skip => ([], INone)
  | Seq a b => match iexec a with (o, INone) => let r := iexec b in (o ++ fst r, snd r) | r => r end
  | Out n => ([n], INone)
  | Brk k => ([], IBrk k)
  | Cnt k => ([], ICnt k)
  | Loop n body => iloop (iexec body) n
  end.

(* ---------- RefSem: exits name their target loop ---------- *)
Definition lid := list bool.          (* a loop is named by its position in the tree *)
Inductive rstmt := RSkip | RSeq (a b:rstmt) | ROut (n:nat) | RBrkTo (l:lid) | RCntTo (l:lid)
                 | RLoop (id:lid) (iters:nat) (body:rstmt) | RBad.
Inductive rctl := RNone | RBrk (l:lid) | RCnt (l:lid) | RErr.
Definition lid_eqb (a b:lid) : bool := if list_eq_dec Bool.bool_dec a b then true else false.

Definition target (stk:list lid) (k:nat) : option lid := match k with O => None | S k' => nth_error stk k' end.
Fixpoint resolve (stk:list lid) (path:lid) (s:stmt) : rstmt :=
  match s with
  | Skip => RSkip
  | Seq a b => RSeq (resolve stk (false :: path) a) (resolve stk (true :: path) b)
  | Out n => ROut n
  | Brk k => match target stk k with Some l => RBrkTo l | None => RBad end
  | Cnt k => match target stk k with Some l => RCntTo l | None => RBad end
  | Loop n body => RLoop path n (resolve (path :: stk) (false :: path) body)
  end.

Definition rloop_step (id:lid) (r : list nat * rctl) (again : list nat * rctl) : list nat * rctl :=
  match r with
  | (o, RNone) => (o ++ fst again, snd again)
  | (o, RBrk l) => if lid_eqb l id then (o, RNone) else (o, RBrk l)
  | (o, RCnt l) => if lid_eqb l id then (o ++ fst again, snd again) else (o, RCnt l)
  | (o, RErr) => (o, RErr)
  end.
Fixpoint rloop (id:lid) (r : list nat * rctl) (n:nat) : list nat * rctl :=
  match n with O => ([], RNone) | S n' => rloop_step id r (rloop id r n') end.
Fixpoint rexec (s:rstmt) : list nat * rctl :=
  match s with
  | RSkip => ([], RNone)
  | RSeq a b => match rexec a with (o, RNone) => let r := rexec b in (o ++ fst r, snd r) | r => r end
  | ROut n => ([n], RNone)
  | RBrkTo l => ([], RBrk l)
  | RCntTo l => ([], RCnt l)
  | RLoop id n body => rloop id (rexec body) n
  | RBad => ([], RErr)
  end.

Definition prog := Loop 3 (Seq (Out 1) (Seq (Loop 2 (Seq (Out 2) (Seq (Cnt 2) (Out 9)))) (Out 3))).
Eval vm_compute in (iexec prog, rexec (resolve [] [] prog)).

(* well-scoped: every level is between 1 and the nesting depth *)
Fixpoint scoped (d:nat) (s:stmt) : bool :=
  match s with
  | Skip | Out _ => true
  | Seq a b => scoped d a && scoped d b
  | Brk k | Cnt k => (1 <=? k) && (k <=? d)
  | Loop _ b => scoped (S d) b
  end.

(* relation between the two kinds of control under the stack of enclosing loops *)
Inductive crel (stk:list lid) : ictl -> rctl -> Prop :=
| CRn : crel stk INone RNone
| CRb k l : target stk k = Some l -> crel stk (IBrk k) (RBrk l)
| CRc k l : target stk k = Some l -> crel stk (ICnt k) (RCnt l).

Definition shorter (stk:list lid) (path:lid) := forall l, In l stk -> length l < length path.

Lemma lid_eqb_refl l : lid_eqb l l = true.
Proof. unfold lid_eqb. destruct (list_eq_dec bool_dec l l); congruence. Qed.
Lemma lid_eqb_neq a b : a <> b -> lid_eqb a b = false.
Proof. unfold lid_eqb. destruct (list_eq_dec bool_dec a b); congruence. Qed.

Theorem impl_is_ref : forall s stk path, scoped (length stk) s = true -> shorter stk path ->
  fst (iexec s) = fst (rexec (resolve stk path s)) /\ crel stk (snd (iexec s)) (snd (rexec (resolve stk path s))).
Proof.
  induction s as [| a IHa b IHb | n | k | k | n body IH]; intros stk path Hs Hsh; cbn [resolve iexec].
  - simpl. split; [reflexivity|constructor].
  - simpl in Hs. apply andb_prop in Hs as [Ha Hb].
    assert (Sa: shorter stk (false :: path)) by (intros l Hl; specialize (Hsh l Hl); simpl; lia).
    assert (Sb: shorter stk (true :: path)) by (intros l Hl; specialize (Hsh l Hl); simpl; lia).
    destruct (IHa stk (false :: path) Ha Sa) as [Oa Ca]. destruct (IHb stk (true :: path) Hb Sb) as [Ob Cb].
    cbn [rexec]. destruct (iexec a) as [oa ca], (rexec (resolve stk (false :: path) a)) as [ra cra]. simpl in *. subst ra.
    inversion Ca; subst; simpl; [split; [rewrite Ob; reflexivity|exact Cb]| |]; split; auto; constructor; auto.
  - simpl. split; [reflexivity|constructor].
  - cbn [scoped] in Hs. apply andb_prop in Hs as [H1 H2]. apply Nat.leb_le in H1, H2.
    destruct k as [|k']; [lia|]. unfold target. destruct (nth_error stk k') as [l|] eqn:E.
    + simpl. split; [reflexivity|]. constructor. exact E.
    + apply nth_error_None in E. lia.
  - cbn [scoped] in Hs. apply andb_prop in Hs as [H1 H2]. apply Nat.leb_le in H1, H2.
    destruct k as [|k']; [lia|]. unfold target. destruct (nth_error stk k') as [l|] eqn:E.
    + simpl. split; [reflexivity|]. constructor. exact E.
    + apply nth_error_None in E. lia.
  - simpl in Hs.
    assert (Sb: shorter (path :: stk) (false :: path)).
    { intros l [<-|Hl]; simpl; [lia|specialize (Hsh l Hl); lia]. }
    destruct (IH (path :: stk) (false :: path) Hs Sb) as [Ob Cb]. cbn [rexec].
    destruct (iexec body) as [ob cb], (rexec (resolve (path :: stk) (false :: path) body)) as [orb crb].
    simpl in Ob, Cb. subst orb.
    induction n as [|n [On Cn]]; [simpl; split; [reflexivity|constructor]|].
    cbn [iloop rloop]. unfold iloop_step, rloop_step.
    inversion Cb as [|k l T|k l T]; subst.
    + rewrite On. split; [reflexivity|exact Cn].
    + destruct k as [|[|k]]; simpl in T; try discriminate.
      * inversion T; subst. rewrite lid_eqb_refl. simpl. split; [reflexivity|constructor].
      * assert (l <> path). { intros ->. apply nth_error_In in T. specialize (Hsh _ T). lia. }
        rewrite lid_eqb_neq by assumption. simpl. split; [reflexivity|]. constructor. exact T.
    + destruct k as [|[|k]]; simpl in T; try discriminate.
      * inversion T; subst. rewrite lid_eqb_refl. rewrite On. split; [reflexivity|exact Cn].
      * assert (l <> path). { intros ->. apply nth_error_In in T. specialize (Hsh _ T). lia. }
        rewrite lid_eqb_neq by assumption. simpl. split; [reflexivity|]. constructor. exact T.
Qed.

Corollary top_level : forall s, scoped 0 s = true ->
  iexec s = (fst (rexec (resolve [] [] s)), INone) /\ snd (rexec (resolve [] [] s)) = RNone.
Proof. intros s H. destruct (impl_is_ref s [] [] H) as [O C]; [intros l []|].
  destruct (iexec s) as [o c], (rexec (resolve [] [] s)) as [o' c']. simpl in *. subst.
  inversion C; subst; auto; destruct k; simpl in *; try discriminate; destruct k; discriminate. Qed.
Print Assumptions top_level.
