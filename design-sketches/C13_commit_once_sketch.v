From Coq Require Import List ZArith Bool String Lia.
Import ListNotations.
Open Scope Z_scope.

Definition hdrs := list (string * string).
Fixpoint hset (k v : string) (h : hdrs) : hdrs :=
  match h with
  | [] => [(k, v)]
  | (k', v') :: r => if String.eqb k k' then (k, v) :: r else (k', v') :: hset k v r
  end.

Record rw := { hdr : hdrs; wire : option (Z * hdrs); body : list string; whCalls : nat }.
Record bw := { status : Z; statusSet : bool; headerSent : bool; under : rw }.

Definition rw_write_header (c : Z) (r : rw) : rw :=
  {| hdr := hdr r;
     wire := match wire r with None => Some (c, hdr r) | w => w end;
     body := body r; whCalls := S (whCalls r) |}.
Definition rw_write (p : string) (r : rw) : rw :=
  let r' := match wire r with None => {| hdr := hdr r; wire := Some (200, hdr r); body := body r; whCalls := whCalls r |} | _ => r end in
  {| hdr := hdr r'; wire := wire r'; body := body r' ++ [p]; whCalls := whCalls r' |}.
Definition rw_set (k v : string) (r : rw) : rw :=
  {| hdr := hset k v (hdr r); wire := wire r; body := body r; whCalls := whCalls r |}.

Definition WriteHeader (c : Z) (b : bw) : bw :=
  if headerSent b then b else
  {| status := c; statusSet := statusSet b; headerSent := true; under := rw_write_header c (under b) |}.
Definition sendHeader (b : bw) : bw := if headerSent b then b else WriteHeader (status b) b.
Definition Write (p : string) (b : bw) : bw :=
  let b' := sendHeader b in
  {| status := status b'; statusSet := statusSet b'; headerSent := headerSent b'; under := rw_write p (under b') |}.
Definition SetStatus (c : Z) (b : bw) : bw :=
  if headerSent b then b else {| status := c; statusSet := true; headerSent := false; under := under b |}.
Definition SetHeader (k v : string) (b : bw) : bw :=
  {| status := status b; statusSet := statusSet b; headerSent := headerSent b; under := rw_set k v (under b) |}.
Definition commitPending (b : bw) : bw :=
  if negb (headerSent b) && statusSet b then WriteHeader (status b) b else b.
Definition Redirect (u : string) (c : Z) (b : bw) : bw :=
  let b1 := SetHeader "Location" u b in
  let b2 := if headerSent b1 then b1 else {| status := c; statusSet := true; headerSent := false; under := under b1 |} in
  let b3 := sendHeader b2 in
  {| status := status b3; statusSet := statusSet b3; headerSent := headerSent b3; under := rw_write "" (under b3) |}.
Definition NoContent (c : Z) (b : bw) : bw :=
  let b2 := if headerSent b then b else {| status := c; statusSet := true; headerSent := false; under := under b |} in
  sendHeader b2.

Inductive op := OStatus (c:Z) | OHeader (k v:string) | OWrite (p:string) | OJSON (p:string)
  | ORedirect (u:string) (c:Z) | ONoContent (c:Z) | OWriteHeader (c:Z).
Definition step (b : bw) (o : op) : bw :=
  match o with
  | OStatus c => SetStatus c b
  | OHeader k v => SetHeader k v b
  | OWrite p => Write p b
  | OJSON p => Write p (SetHeader "Content-Type" "application/json; charset=utf-8" b)
  | ORedirect u c => Redirect u c b
  | ONoContent c => NoContent c b
  | OWriteHeader c => WriteHeader c b
  end.
Definition init : bw := {| status := 200; statusSet := false; headerSent := false;
  under := {| hdr := []; wire := None; body := []; whCalls := 0 |} |}.
Definition run (ops : list op) : bw := commitPending (fold_left step ops init).

(* invariant: headerSent <-> wire committed, and whCalls = if headerSent then 1 else 0 *)
Definition Inv (b : bw) : Prop :=
  (headerSent b = true -> whCalls (under b) = 1%nat /\ wire (under b) <> None) /\
  (headerSent b = false -> whCalls (under b) = 0%nat /\ wire (under b) = None).

Ltac t := unfold Inv, WriteHeader, sendHeader, Write, SetStatus, SetHeader, commitPending, Redirect, NoContent,
  rw_write_header, rw_write, rw_set in *; simpl in *.
Definition sameU (f : bw -> bw) := forall b, Inv b -> Inv (f b).
Lemma WH_inv c : sameU (WriteHeader c).
Proof. intros b H. unfold WriteHeader. destruct (headerSent b) eqn:E; [exact H|]. destruct H as [H1 H2].
  destruct (H2 E) as [Hc Hw]. unfold Inv; simpl. rewrite Hc, Hw. split; intros; [split; congruence|discriminate]. Qed.
Lemma SH_inv : sameU sendHeader.
Proof. intros b H. unfold sendHeader. destruct (headerSent b) eqn:E; [exact H|apply WH_inv, H]. Qed.
Lemma setU_inv b u : Inv b -> whCalls u = whCalls (under b) -> wire u = wire (under b) ->
  Inv {| status := status b; statusSet := statusSet b; headerSent := headerSent b; under := u |}.
Proof. intros [H1 H2] Hc Hw. unfold Inv; simpl. rewrite Hc, Hw. split; auto. Qed.
Lemma setS_inv b c : Inv b -> headerSent b = false ->
  Inv {| status := c; statusSet := true; headerSent := false; under := under b |}.
Proof. intros [H1 H2] E. unfold Inv; simpl. split; [discriminate|auto]. Qed.
Lemma rw_write_committed b p : Inv b -> headerSent b = true ->
  Inv {| status := status b; statusSet := statusSet b; headerSent := headerSent b; under := rw_write p (under b) |}.
Proof. intros [H1 H2] E. destruct (H1 E) as [Hc Hw]. unfold Inv, rw_write; simpl.
  destruct (wire (under b)) eqn:W; [|congruence]. simpl. rewrite W. split; [intros _; split; congruence|congruence]. Qed.
Lemma SH_sent b : headerSent (sendHeader b) = true.
Proof. unfold sendHeader, WriteHeader. destruct (headerSent b) eqn:E; [exact E|reflexivity]. Qed.
Lemma step_inv b o : Inv b -> Inv (step b o).
Proof.
  intros H. destruct o; simpl.
  - unfold SetStatus. destruct (headerSent b) eqn:E; [exact H|apply setS_inv; assumption].
  - apply setU_inv; auto.
  - unfold Write. apply rw_write_committed; [apply SH_inv, H|apply SH_sent].
  - unfold Write. apply rw_write_committed; [apply SH_inv, setU_inv; auto|apply SH_sent].
  - unfold Redirect. apply rw_write_committed; [|apply SH_sent]. apply SH_inv.
    assert (Hb: Inv (SetHeader "Location" u b)) by (apply setU_inv; auto).
    destruct (headerSent (SetHeader "Location" u b)) eqn:E; [exact Hb|apply setS_inv; assumption].
  - unfold NoContent. apply SH_inv. destruct (headerSent b) eqn:E; [exact H|apply setS_inv; assumption].
  - apply WH_inv, H.
Qed.
Lemma init_inv : Inv init. Proof. t. split; intros; try discriminate; auto. Qed.
Lemma fold_inv ops : forall b, Inv b -> Inv (fold_left step ops b).
Proof. induction ops as [|o ops IH]; simpl; intros b H; [exact H| apply IH, step_inv, H]. Qed.
Lemma commit_inv b : Inv b -> Inv (commitPending b).
Proof. intros H. unfold commitPending. destruct (negb (headerSent b) && statusSet b); [apply WH_inv, H|exact H]. Qed.
Theorem commit_at_most_once ops : (whCalls (under (run ops)) <= 1)%nat.
Proof. pose proof (commit_inv _ (fold_inv ops _ init_inv)) as [H1 H2]. unfold run.
  destruct (headerSent (commitPending (fold_left step ops init))) eqn:E.
  - destruct (H1 eq_refl) as [-> _]. lia.
  - destruct (H2 eq_refl) as [-> _]. lia. Qed.
Print Assumptions commit_at_most_once.
Eval vm_compute in wire (under (run [OHeader "X" "1"; OStatus 404; OJSON "{}"; OStatus 500; OHeader "Y" "2"])).
