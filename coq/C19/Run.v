(* C19 — correspondence: evaluate model and spec on the histories the implementation ran. *)
From V.C19 Require Import Model Spec.

(* the class hierarchy of the script fixtures: class A {} class B extends A {} class C {} *)
Definition fixture_sub (c t : string) : bool :=
  String.eqb c t || (String.eqb c "B" && String.eqb t "A").

Definition value_eqb (a b : value) : bool :=
  match a, b with
  | VNull, VNull => true
  | VInt x, VInt y => Z.eqb x y
  | VStr x, VStr y => String.eqb x y
  | VArr x, VArr y => Z.eqb x y
  | VObj x, VObj y => String.eqb x y
  | _, _ => false
  end.
Definition obs_eqb (a b : obs) : bool :=
  match a, b with
  | Created, Created | NewFailed, NewFailed | NewArity, NewArity | Accepted, Accepted | Rejected, Rejected | BadInst, BadInst => true
  | Got x, Got y => value_eqb x y
  | _, _ => false
  end.
(* index of the first position where two observation lists differ (length difference counts) *)
Fixpoint first_diff (k : nat) (a b : list obs) : option nat :=
  match a, b with
  | [], [] => None
  | x :: a', y :: b' => if obs_eqb x y then first_diff (S k) a' b' else Some k
  | _, _ => Some k
  end.

(* case = class table, history, what the implementation printed (one observation per op).
   result: [] when model, spec and implementation agree; otherwise [a; b; pm; ps] with
   a = 1 when the model differs from the implementation (tie), else 0; b = 2 when the spec differs from the
   implementation (property), else 0; pm / ps = position of the first difference with the model / the spec
   (small numbers: a result full of 2000-deep unary naturals made Coq's read-back and printing very slow). *)
Definition case := (ctable * list op * list obs)%type.
Definition check_case (c : case) : list nat :=
  let '(tbl, ops, seen) := c in
  let m := snd (run fixture_sub get_property (init tbl) ops) in
  let s := spec_run fixture_sub tbl [] ops in
  match first_diff 0 m seen, first_diff 0 s seen with
  | None, None => []
  | dm, ds => [match dm with Some _ => 1%nat | None => 0%nat end; match ds with Some _ => 2%nat | None => 0%nat end;
               match dm with Some k => k | None => 0%nat end; match ds with Some k => k | None => 0%nat end]
  end.

(* the two other members that can be declared with the type parameter (recorded findings):
   class G<T> with the member typed T, instantiated G<A>, given v; `acc` = the implementation
   accepted.  1 = model vs implementation, 2 = spec vs implementation. *)
Inductive member := MMethodParam | MCtorPromoted.
Definition mcase := (member * cty * value * bool)%type.
Definition check_mcase (c : mcase) : list nat :=
  let '(m, A, v, acc) := c in
  let g := {| g_params := ["T"]; g_props := []; g_meths := []; g_ctor := None |} in
  let model := match m with
               | MMethodParam => method_param_accepts fixture_sub (Some (DGen "T")) [("T", A)] v
               | MCtorPromoted => ctor_promoted_accepts fixture_sub (Some (DGen "T")) [("T", A)] v
               end in
  let spec := match member_type g [A] (Some (DGen "T")) with
              | Some t => of_type fixture_sub v t | None => true end in
  (if Bool.eqb model acc then [] else [1%nat]) ++ (if Bool.eqb spec acc then [] else [2%nat]).
