(* C19 — non-vacuity, and the defect the model used to carry. *)
From V.C19 Require Import Model Spec Proofs Run.

Definition ex_tbl : ctable :=
  [("Box", {| g_params := ["T"]; g_props := [("v", Some (DGen "T")); ("n", Some (DConc CInt)); ("u", None)];
              g_meths := [("chk_v", Some (DGen "T")); ("chk_n", Some (DConc CInt))]; g_ctor := None |});
   ("Pair", {| g_params := ["K"; "V"]; g_props := [("k", Some (DGen "K")); ("w", Some (DGen "V"))];
               g_meths := [("chk_w", Some (DGen "V"))]; g_ctor := None |});
   ("PBox", {| g_params := ["T"]; g_props := [("v", Some (DGen "T"))]; g_meths := [("chk_v", Some (DGen "T"))];
               g_ctor := Some ("v", Some (DGen "T")) |})].

(* the hypothesis of the theorems is satisfiable by a table with one- and two-parameter classes *)
Example ex_wf : wf_tbl ex_tbl = true.
Proof. reflexivity. Qed.

Definition ex_hist : list op :=
  [ONew "Box" [CInt]; ONew "Box" [CString]; OWrite PDirect 0 "v" (VInt 1); OWrite PMethod 1 "v" (VStr "s");
   OWrite PDyn 1 "v" (VInt 5); ORead 1 "v"; ONew "Pair" [CClass "A"; CArray];
   OWrite PDirect 2 "k" (VObj "B"); OWrite PDirect 2 "k" (VObj "C"); OWrite PDirect 2 "w" (VArr 3); ORead 2 "k";
   ONew "Pair" [CInt]].

Example ex_run : snd (run fixture_sub get_property (init ex_tbl) ex_hist) =
  [Created; Created; Accepted; Accepted; Rejected; Got (VStr "s"); Created;
   Accepted; Rejected; Accepted; Got (VObj "B"); NewArity].
Proof. vm_compute. reflexivity. Qed.

(* own_args_only's hypotheses hold for a live instance of that history *)
Example ex_live : exists x, nth_error (insts (fst (run fixture_sub get_property (init ex_tbl) ex_hist))) 1 = Some x
                            /\ i_cls x = "Box" /\ i_args x = [CString].
Proof. eexists. split; [vm_compute; reflexivity|]. split; reflexivity. Qed.

(* ---- the defect that was fixed (kept as a documented counter-model, not the code any more):
   ClassGeneric.GetProperty used to overwrite the type of the SHARED declaration entry with the
   current instantiation's argument (f.SetType(c.GenericMap[gt.Name])), so the first
   instantiation whose member was touched fixed the type for every other one. *)
Fixpoint set_prop_type (p : string) (t : option dty) (l : list (string * option dty)) :=
  match l with
  | [] => []
  | (k, d) :: r => if String.eqb p k then (k, t) :: r else (k, d) :: set_prop_type p t r
  end.
Definition get_property_legacy (g : gclass) (m : list (string * cty)) (p : string) : gclass * option (option cty) :=
  match lookup p (g_props g) with
  | None => (g, None)
  | Some (Some (DGen n)) =>
      ({| g_params := g_params g;
          g_props := set_prop_type p (option_map DConc (lookup n m)) (g_props g);
          g_meths := g_meths g; g_ctor := g_ctor g |}, Some (lookup n m))
  | Some (Some (DConc c)) => (g, Some (Some c))
  | Some None => (g, Some None)
  end.

(* `new Box<int>`, `new Box<string>`, store 1 into the first: afterwards the second rejects "s"
   and accepts 5 — acceptance depended on the history *)
Definition legacy_witness : list op :=
  [ONew "Box" [CInt]; ONew "Box" [CString]; OWrite PDirect 0 "v" (VInt 1)].
Example legacy_refuted :
  let st := fst (run fixture_sub get_property_legacy (init ex_tbl) legacy_witness) in
  accepts fixture_sub get_property_legacy st 1 "v" (VStr "s") = Some false /\
  accepts fixture_sub get_property_legacy st 1 "v" (VInt 5) = Some true /\
  spec_accepts fixture_sub ex_tbl "Box" [CString] "v" (VStr "s") = true /\
  decls st <> ex_tbl.
Proof. vm_compute. repeat split; try reflexivity. discriminate. Qed.
(* the same history through today's GetProperty *)
Example fixed_on_witness :
  let st := fst (run fixture_sub get_property (init ex_tbl) legacy_witness) in
  accepts fixture_sub get_property st 1 "v" (VStr "s") = Some true /\
  accepts fixture_sub get_property st 1 "v" (VInt 5) = Some false /\ decls st = ex_tbl.
Proof. vm_compute. repeat split; reflexivity. Qed.

(* ---- calls and constructor calls inside a history (audit3 C19-1): T-typed parameter of a method and of a
   promoted constructor parameter, interleaved with instantiations with other arguments, a raw `new Box()`
   (no type arguments: every T-typed member unconstrained) and stores *)
Definition ex_hist2 : list op :=
  [ONew "Box" [CInt]; ONewC "PBox" [CString] (VStr "s"); OCall 0 "chk_v" (VInt 1); OCall 0 "chk_v" (VStr "x");
   ONewC "PBox" [CInt] (VStr "s"); OCall 1 "chk_v" (VStr "y"); OCall 1 "chk_v" (VInt 2); ORead 1 "v";
   ONewRaw "Box"; OWrite PDirect 2 "v" (VStr "s"); OCall 2 "chk_v" (VArr 1); OCall 0 "chk_v" (VStr "x");
   OCall 0 "chk_n" (VStr "x"); OCall 0 "nope" (VInt 1); ONewC "PBox" [] (VInt 1)].
Example ex_run2 : snd (run fixture_sub get_property (init ex_tbl) ex_hist2) =
  [Created; Created; Accepted; Rejected; NewFailed; Accepted; Rejected; Got (VStr "s");
   Created; Accepted; Accepted; Rejected; Rejected; BadInst; NewArity].
Proof. vm_compute. reflexivity. Qed.
Example ex_hist2_null_free : null_free ex_hist2 = true.
Proof. reflexivity. Qed.
Example ex_hist2_spec : spec_run fixture_sub ex_tbl [] ex_hist2 = snd (run fixture_sub get_property (init ex_tbl) ex_hist2).
Proof. vm_compute. reflexivity. Qed.
