(* C19 — non-vacuity, and the defect the model used to carry. *)
From V.C19 Require Import Model Spec Proofs Run.

Definition ex_tbl : ctable :=
  [("Box", {| g_params := ["T"]; g_props := [("v", Some (DGen "T")); ("n", Some (DConc CInt)); ("u", None)] |});
   ("Pair", {| g_params := ["K"; "V"]; g_props := [("k", Some (DGen "K")); ("w", Some (DGen "V"))] |})].

(* the hypothesis of the theorems is satisfiable by a table with one- and two-parameter classes *)
Example ex_wf : wf_tbl ex_tbl = true.
Proof. reflexivity. Qed.

Definition ex_hist : list op :=
  [ONew "Box" [CInt]; ONew "Box" [CString]; OWrite PDirect 0 "v" (VInt 1); OWrite PMethod 1 "v" (VStr "s");
   OWrite PDyn 1 "v" (VInt 5); ORead 1 "v"; ONew "Pair" [CClass "A"; CArray];
   OWrite PDirect 2 "k" (VObj "B"); OWrite PDirect 2 "k" (VObj "C"); OWrite PDirect 2 "w" (VArr 3); ORead 2 "k";
   ONew "Pair" [CInt]].

Example ex_run : snd (run fixture_sub get_property (init ex_tbl) ex_hist) =
  [Created; Created; Accepted; Accepted; Rejected; Got (VStr "s"); Created;
   Accepted; Rejected; Accepted; Got (VObj "B"); NewFailed].
Proof. vm_compute. reflexivity. Qed.

(* own_args_only's hypotheses hold for a live instance of that history *)
Example ex_live : exists x, nth_error (insts (fst (run fixture_sub get_property (init ex_tbl) ex_hist))) 1 = Some x
                            /\ i_cls x = "Box" /\ i_args x = [CString].
Proof. eexists. split; [vm_compute; reflexivity|]. split; reflexivity. Qed.

(* ---- the defect that was fixed (kept as a documented counter-model, not the code any more):
   ClassGeneric.GetProperty used to overwrite the type of the SHARED declaration entry with the
   current instantiation's argument (f.SetType(c.GenericMap[gt.Name])), so the first
   instantiation whose member was touched fixed the type for every other one. *)
Fixpoint set_prop_type (p : string) (t : option dty) (l : list (string * option dty)) :=
  match l with
  | [] => []
  | (k, d) :: r => if String.eqb p k then (k, t) :: r else (k, d) :: set_prop_type p t r
  end.
Definition get_property_legacy (g : gclass) (m : list (string * cty)) (p : string) : gclass * option (option cty) :=
  match lookup p (g_props g) with
  | None => (g, None)
  | Some (Some (DGen n)) =>
      ({| g_params := g_params g;
          g_props := set_prop_type p (option_map DConc (lookup n m)) (g_props g) |}, Some (lookup n m))
  | Some (Some (DConc c)) => (g, Some (Some c))
  | Some None => (g, Some None)
  end.

(* `new Box<int>`, `new Box<string>`, store 1 into the first: afterwards the second rejects "s"
   and accepts 5 — acceptance depended on the history *)
Definition legacy_witness : list op :=
  [ONew "Box" [CInt]; ONew "Box" [CString]; OWrite PDirect 0 "v" (VInt 1)].
Example legacy_refuted :
  let st := fst (run fixture_sub get_property_legacy (init ex_tbl) legacy_witness) in
  accepts fixture_sub get_property_legacy st 1 "v" (VStr "s") = Some false /\
  accepts fixture_sub get_property_legacy st 1 "v" (VInt 5) = Some true /\
  spec_accepts fixture_sub ex_tbl "Box" [CString] "v" (VStr "s") = true /\
  decls st <> ex_tbl.
Proof. vm_compute. repeat split; try reflexivity. discriminate. Qed.
(* the same history through today's GetProperty *)
Example fixed_on_witness :
  let st := fst (run fixture_sub get_property (init ex_tbl) legacy_witness) in
  accepts fixture_sub get_property st 1 "v" (VStr "s") = Some true /\
  accepts fixture_sub get_property st 1 "v" (VInt 5) = Some false /\ decls st = ex_tbl.
Proof. vm_compute. repeat split; reflexivity. Qed.
