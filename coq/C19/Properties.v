(* C19 — the property, clause by clause.  Only statements here; every proof is `exact lemma`.
   `sub` (is an object of class c a t?) is universally quantified: every theorem holds for every
   class hierarchy.  `run sub get_property (init tbl) h` is the model state after history h
   started from the class table tbl; histories are arbitrary lists of New / Write (three store
   paths) / Read / Call (method with a typed parameter) / NewC (constructor with a promoted typed parameter)
   / NewRaw (no type arguments) operations. *)
From V.C19 Require Import Model Spec Proofs.

(* "accepts values of type A, and only those, in members declared with the type parameter —
   regardless of which other instantiations were created earlier [or] later": after ANY history,
   what instance i answers to a store depends on its own class and its own type arguments only,
   and is what the declaration denotes under those arguments *)
Theorem own_args_only : forall sub tbl h i x p v, wf_tbl tbl = true ->
  nth_error (insts (fst (run sub get_property (init tbl) h))) i = Some x ->
  accepts sub get_property (fst (run sub get_property (init tbl) h)) i p v
  = Some (spec_accepts sub tbl (i_cls x) (i_args x) p v).
Proof. exact own_args_only_l. Qed.
Print Assumptions own_args_only.

(* the same, spelled out for a member declared `T $p` where T stands for argument A *)
Theorem generic_property_exactly_A : forall sub tbl h i x g p n A v, wf_tbl tbl = true ->
  nth_error (insts (fst (run sub get_property (init tbl) h))) i = Some x ->
  lookup (i_cls x) tbl = Some g -> lookup p (g_props g) = Some (Some (DGen n)) ->
  arg_of (g_params g) (i_args x) n = Some A ->
  accepts sub get_property (fst (run sub get_property (init tbl) h)) i p v = Some (of_type sub v A).
Proof. exact generic_member_exactly_A_l. Qed.
Print Assumptions generic_property_exactly_A.

(* the invariant behind it: no history changes the shared declaration (from any state, no
   hypothesis) *)
Theorem decl_unchanged : forall sub h st, decls (fst (run sub get_property st h)) = decls st.
Proof. exact decl_unchanged_l. Qed.
Print Assumptions decl_unchanged.

(* "Instantiating Box<int> never changes what Box<string> accepts": no single operation — in
   particular no `new` — and no further history changes the answer of an existing instance *)
Theorem no_op_changes_acceptance : forall sub st o i p v, (i < List.length (insts st))%nat ->
  accepts sub get_property (fst (step sub get_property st o)) i p v = accepts sub get_property st i p v.
Proof. exact accepts_frame_l. Qed.
Print Assumptions no_op_changes_acceptance.

Theorem no_history_changes_acceptance : forall sub h st i p v, (i < List.length (insts st))%nat ->
  accepts sub get_property (fst (run sub get_property st h)) i p v = accepts sub get_property st i p v.
Proof. exact accepts_frame_run_l. Qed.
Print Assumptions no_history_changes_acceptance.

(* two instantiations with the same class and arguments, reached by ANY two histories, answer alike *)
Theorem same_instantiation_same_answers : forall sub tbl h1 h2 i1 i2 x1 x2 p v, wf_tbl tbl = true ->
  nth_error (insts (fst (run sub get_property (init tbl) h1))) i1 = Some x1 ->
  nth_error (insts (fst (run sub get_property (init tbl) h2))) i2 = Some x2 ->
  i_cls x1 = i_cls x2 -> i_args x1 = i_args x2 ->
  accepts sub get_property (fst (run sub get_property (init tbl) h1)) i1 p v =
  accepts sub get_property (fst (run sub get_property (init tbl) h2)) i2 p v.
Proof. exact same_instantiation_same_answers_l. Qed.
Print Assumptions same_instantiation_same_answers.

(* everything observable (created / failed, accepted / rejected per store, the value read back —
   so also: a rejected store has no effect) is the reference semantics of Spec.v *)
Theorem history_refines_spec_partial : forall sub tbl h, wf_tbl tbl = true -> null_free h = true ->
  snd (run sub get_property (init tbl) h) = spec_run sub tbl [] h.
Proof. exact history_refines_spec_l. Qed.
Print Assumptions history_refines_spec_partial.
(* without `null_free` (no null given to a method / constructor parameter) the statement is REFUTED:
   Parameter.SetValue lets null through whatever the declared type *)
Theorem history_null_refuted : exists sub tbl h, wf_tbl tbl = true /\
  snd (run sub get_property (init tbl) h) <> spec_run sub tbl [] h.
Proof. exact history_null_refuted_l. Qed.
Print Assumptions history_null_refuted.

(* "regardless of which other instantiations ..." for the parameter boundaries, INSIDE histories: after ANY
   history (null-giving calls included) what a live instance answers to $o->m(v), v not null, is what m's
   declaration denotes under the instance's own arguments; whether new G<args>(v) succeeds depends on G, args, v *)
Theorem call_own_args_only_partial : forall sub tbl h i x g m d v, wf_tbl tbl = true -> v <> VNull ->
  nth_error (insts (fst (run sub get_property (init tbl) h))) i = Some x ->
  lookup (i_cls x) tbl = Some g -> lookup m (g_meths g) = Some d ->
  snd (step sub get_property (fst (run sub get_property (init tbl) h)) (OCall i m v))
  = if match member_type g (i_args x) d with None => true | Some t => of_type sub v t end then Accepted else Rejected.
Proof. exact call_own_args_only_l. Qed.
Print Assumptions call_own_args_only_partial.
Theorem ctor_own_args_only_partial : forall sub tbl h c args v objs, wf_tbl tbl = true -> v <> VNull ->
  snd (step sub get_property (fst (run sub get_property (init tbl) h)) (ONewC c args v))
  = snd (spec_step sub tbl objs (ONewC c args v)).
Proof. exact ctor_own_args_only_l. Qed.
Print Assumptions ctor_own_args_only_partial.

(* the two other kinds of member that can be declared with the type parameter: a method parameter
   `T $x` (after fixes dcfa9d9, 895602f) and a constructor-promoted `public T $v` (after fix
   dbde2bb) accept exactly the values of the instantiation's argument — for every value except null *)
Theorem method_param_exactly_A_partial : forall sub n A v, v <> VNull ->
  method_param_accepts sub (Some (DGen n)) [(n, A)] v = of_type sub v A.
Proof. exact method_param_exact_l. Qed.
Print Assumptions method_param_exactly_A_partial.
Theorem ctor_promoted_exactly_A_partial : forall sub n A v, v <> VNull ->
  ctor_promoted_accepts sub (Some (DGen n)) [(n, A)] v = of_type sub v A.
Proof. exact ctor_promoted_exact_l. Qed.
Print Assumptions ctor_promoted_exactly_A_partial.
(* full statements (for all v) REFUTED by null: the parameter boundary lets null through for every
   declared type (C07 finding type:param:*:null; here member=method-param:n, member=ctor-promoted:n) *)
Theorem method_param_null_refuted : exists sub A,
  method_param_accepts sub (Some (DGen "T")) [("T", A)] VNull = true /\ of_type sub VNull A = false.
Proof. exact method_param_null_refuted_l. Qed.
Theorem ctor_promoted_null_refuted : exists sub A,
  ctor_promoted_accepts sub (Some (DGen "T")) [("T", A)] VNull = true /\ of_type sub VNull A = false.
Proof. exact ctor_promoted_null_refuted_l. Qed.
