(* C19 — the property, stated without any shared declaration cell.
   "An object created from a generic class with type argument A accepts values of type A, and
   only those, in members declared with the type parameter — regardless of which other
   instantiations of the same generic class were created earlier, later or concurrently."

   Reference semantics: every object remembers the class it was created from and ITS OWN type
   arguments; a store into member p of an object of G<args> is accepted exactly when the value is
   of the type that p's declaration denotes in G<args> (the k-th type parameter stands for the
   k-th type argument).  Nothing else — no other object, no earlier operation — is consulted.
   (The vocabulary — cty, dty, value, gclass, ctable, op, obs, lookup, upd, upd_nth — is shared
   with Model.v; none of the model's state or functions is used.) *)
From V.C19 Require Import Model.

Section Spec.
Variable sub : string -> string -> bool.   (* "an object of class c is a t" (C08) *)

(* the values of a type: int, string, array, a class/interface name (with the built-in
   pseudo-type iterable, which arrays satisfy); null is of none of them *)
Definition of_type (v : value) (t : cty) : bool :=
  match v with
  | VNull => false
  | VInt _ => match t with CInt => true | _ => false end
  | VStr _ => match t with CString => true | _ => false end
  | VArr _ => match t with CArray => true | CClass n => String.eqb n "iterable" | _ => false end
  | VObj c => match t with CClass n => sub c n | _ => false end
  end.

(* the k-th type parameter stands for the k-th type argument *)
Fixpoint arg_of (params : list string) (args : list cty) (n : string) : option cty :=
  match params, args with
  | p :: ps, a :: as_ => if String.eqb n p then Some a else arg_of ps as_ n
  | _, _ => None
  end.

(* the type a member declared as d has in the instantiation G<args>; None = unconstrained *)
Definition member_type (g : gclass) (args : list cty) (d : option dty) : option cty :=
  match d with
  | None => None
  | Some (DConc c) => Some c
  | Some (DGen n) => arg_of (g_params g) args n
  end.

Definition spec_accepts (tbl : ctable) (cls : string) (args : list cty) (p : string) (v : value) : bool :=
  match lookup cls tbl with
  | None => true
  | Some g =>
      match lookup p (g_props g) with
      | None => true                          (* undeclared member: an untyped dynamic property *)
      | Some d => match member_type g args d with None => true | Some t => of_type v t end
      end
  end.

(* reference history semantics *)
Record sobj := { s_cls : string; s_args : list cty; s_vals : list (string * value) }.

Definition spec_step (tbl : ctable) (objs : list sobj) (o : op) : list sobj * obs :=
  match o with
  | ONew c args =>
      match lookup c tbl with
      | None => (objs, NewFailed)
      | Some g => if (List.length args <? List.length (g_params g))%nat then (objs, NewArity)
                  else ((objs ++ [{| s_cls := c; s_args := args; s_vals := [] |}])%list, Created)
      end
  | OWrite _ i p v =>
      match nth_error objs i with
      | None => (objs, BadInst)
      | Some x =>
          match lookup (s_cls x) tbl with
          | None => (objs, BadInst)
          | Some _ =>
              if spec_accepts tbl (s_cls x) (s_args x) p v
              then (upd_nth i (fun x => {| s_cls := s_cls x; s_args := s_args x; s_vals := upd p v (s_vals x) |}) objs, Accepted)
              else (objs, Rejected)          (* a rejected store has no effect *)
          end
      end
  | OCall i m v =>
      (* a method parameter declared with a type denotes that type under the object's OWN arguments *)
      match nth_error objs i with
      | None => (objs, BadInst)
      | Some x =>
          match lookup (s_cls x) tbl with
          | None => (objs, BadInst)
          | Some g => match lookup m (g_meths g) with
                      | None => (objs, BadInst)
                      | Some d => (objs, if (match member_type g (s_args x) d with None => true | Some t => of_type v t end)
                                         then Accepted else Rejected)
                      end
          end
      end
  | ONewC c args v =>
      match lookup c tbl with
      | None => (objs, NewFailed)
      | Some g =>
          if (List.length args <? List.length (g_params g))%nat then (objs, NewArity)
          else match g_ctor g with
               | None => (objs, NewFailed)
               | Some (p, d) =>
                   if (match member_type g args d with None => true | Some t => of_type v t end)
                   then ((objs ++ [{| s_cls := c; s_args := args; s_vals := [(p, v)] |}])%list, Created)
                   else (objs, NewFailed)
               end
      end
  | ONewRaw c =>
      (* no type arguments: the type parameters stand for nothing, members declared with them are unconstrained *)
      match lookup c tbl with
      | None => (objs, NewFailed)
      | Some _ => ((objs ++ [{| s_cls := c; s_args := []; s_vals := [] |}])%list, Created)
      end
  | ORead i p =>
      match nth_error objs i with
      | None => (objs, BadInst)
      | Some x =>
          match lookup (s_cls x) tbl with
          | None => (objs, BadInst)
          | Some _ => (objs, Got (match lookup p (s_vals x) with Some v => v | None => VNull end))
          end
      end
  end.

Fixpoint spec_run (tbl : ctable) (objs : list sobj) (ops : list op) : list obs :=
  match ops with
  | [] => []
  | o :: r => let '(objs1, b) := spec_step tbl objs o in b :: spec_run tbl objs1 r
  end.
End Spec.

(* well-formed class table: the type parameters of a class are pairwise distinct
   (`class P<T, T>` is the only thing excluded) *)
Fixpoint nodupb (l : list string) : bool :=
  match l with [] => true | x :: r => negb (existsb (String.eqb x) r) && nodupb r end.
Definition wf_tbl (tbl : ctable) : bool := forallb (fun e => nodupb (g_params (snd e))) tbl.

(* the parameter boundary lets null through for every declared type (C07 finding type:param:*:null): the
   history theorems are stated for histories that pass no null ARGUMENT (stores of null are fine) *)
Definition op_null_free (o : op) : bool :=
  match o with OCall _ _ VNull | ONewC _ _ VNull => false | _ => true end.
Definition null_free (h : list op) : bool := forallb op_null_free h.
