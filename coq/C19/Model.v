(* C19 — executable model of generic-class instantiation and typed member stores, as the code
   is written today (after the `fix:` commit that makes ClassGeneric.GetProperty return a
   substituted copy):

     node/new.go            NewClassGenerated.resolveClass   (builds mT, Clone(mT))
     node/class_generic.go  ClassGeneric.Clone / GetProperty
     data/value_class.go    ClassValue.GetPropertyStmt, SetProperty
     node/binary_assign.go  NewBinaryAssign -> BinaryAssignVariable (a CallObjectProperty is a
                            data.Variable), BinaryAssignVariable.GetValue -> Left.SetValue
     node/call_object_property.go          SetValue, cases *ClassValue / *ThisValue: GetPropertyStmt,
                                           Types.Is, SetProperty   ($o->p = v and $this->p = $x)
                                           (the *CallObjectProperty case inside BinaryAssign.GetValue
                                           that the anchor names is not reached by `$o->p = v`)
     node/call_object_dynamic_property.go  SetValue, case *ClassValue   (same three steps)
     node/call_object_property.go          GetValue, case *ClassValue   (read)
     data/type_int.go, type_string.go, type_array.go, type_class.go, type_generic.go  (Is)
     node/call_object_method.go callMethodParams + node/function.go Parameter.SetValue (T-typed
                            method parameter), node/new.go createInstanceAndCallConstructorWithStmt
                            (promoted constructor parameter)

   The class *declaration* (ClassStatement.Properties) is one cell shared by every
   instantiation: Clone copies the pointer and swaps only GenericMap.  The state below keeps
   that sharing explicit: `decls` is the shared cell, every instance carries only its own map.
   GetProperty is modelled as a function that may return a NEW declaration (that is how the
   old code behaved: f.SetType on the shared entry); `step` threads it through, so that
   "GetProperty does not touch the declaration" is a lemma about the code's GetProperty and not
   an artefact of the model's shape.  No proofs here. *)
From Coq Require Export List ZArith Bool String.
Export ListNotations.
Open Scope Z_scope.
Open Scope string_scope.

(* ---- the type language reachable from `new G<...>` and from member declarations *)
Inductive cty := CInt | CString | CArray | CClass (n : string).     (* data.Int{}, String{}, Arrays{}, Class{Name} *)
Inductive dty := DConc (c : cty) | DGen (n : string).                (* a declared member type; DGen = data.Generic{Name} *)

(* runtime values, by the kind the Is methods switch on *)
Inductive value := VNull | VInt (z : Z) | VStr (s : string) | VArr (k : Z) | VObj (cls : string).

Fixpoint lookup {A} (k : string) (l : list (string * A)) : option A :=
  match l with
  | [] => None
  | (k', a) :: r => if String.eqb k k' then Some a else lookup k r
  end.
(* Go map store m[k] = a *)
Fixpoint upd {A} (k : string) (a : A) (l : list (string * A)) : list (string * A) :=
  match l with
  | [] => [(k, a)]
  | (k', a') :: r => if String.eqb k k' then (k, a) :: r else (k', a') :: upd k a r
  end.

Section WithHierarchy.
(* isClassValueInstanceOf(target, class, vm) of data/type_class.go — the subject of C08; here a
   parameter: every definition and theorem of C19 holds for any class hierarchy *)
Variable sub : string -> string -> bool.    (* sub c t: an object of class c is a t *)

(* Types.Is for a concrete type (nil Types = no declaration = no check is `None` below) *)
Definition cty_is (t : cty) (v : value) : bool :=
  match t, v with
  | CInt, VInt _ => true
  | CString, VStr _ => true
  | CArray, VArr _ => true
  | CClass n, VObj c => sub c n
  | CClass n, VArr _ => String.eqb n "iterable"
  | _, _ => false
  end.
(* `property.GetType() != nil && !property.GetType().Is(v)` negated *)
Definition type_is (t : option cty) (v : value) : bool :=
  match t with None => true | Some c => cty_is c v end.

(* ---- declarations and instances *)
Record gclass := { g_params : list string;                (* ClassGeneric.Generic, names *)
                   g_props : list (string * option dty);  (* ClassStatement.Properties: name -> declared type (None = untyped) *)
                   g_meths : list (string * option dty);  (* methods with one parameter: name -> the parameter's declared type *)
                   g_ctor : option (string * option dty) }. (* __construct(public <type> $p): promoted property and its type *)
Definition ctable := list (string * gclass).

Record inst := { i_cls : string;
                 i_args : list cty;                  (* NewClassGenerated.T — ghost: only i_map is consulted *)
                 i_map : list (string * cty);        (* ClassGeneric.GenericMap of this instantiation *)
                 i_vals : list (string * value) }.   (* the object's property table *)

Record state := { decls : ctable; insts : list inst }.

(* resolveClass: for i, types := range GenericList() { mT[types.Name] = NewBaseType(n.T[i]) };
   n.T[i] with i >= len(n.T) is an index-out-of-range panic *)
Fixpoint build_map (params : list string) (args : list cty) (m : list (string * cty))
  : option (list (string * cty)) :=
  match params, args with
  | [], _ => Some m
  | _ :: _, [] => None
  | p :: ps, a :: as_ => build_map ps as_ (upd p a m)
  end.

(* ClassGeneric.GetProperty as it is written now: the declaration is returned unchanged, the
   result is a copy whose type is GenericMap[T] (nil when T is not in the map).
   result: (declaration afterwards, None = no such property | Some type-to-check) *)
Definition get_property (g : gclass) (m : list (string * cty)) (p : string) : gclass * option (option cty) :=
  match lookup p (g_props g) with
  | None => (g, None)
  | Some (Some (DGen n)) => (g, Some (lookup n m))
  | Some (Some (DConc c)) => (g, Some (Some c))
  | Some None => (g, Some None)
  end.

Inductive path := PDirect | PMethod | PDyn.   (* $o->p = v at top level | $this->p = $x inside a method | $o->{$name} = v *)
Inductive op :=
| ONew (cls : string) (args : list cty)
| OWrite (pa : path) (i : nat) (p : string) (v : value)
| ORead (i : nat) (p : string)
| OCall (i : nat) (m : string) (v : value)        (* $o->m(v): the T-typed parameter boundary, inside the history *)
| ONewC (cls : string) (args : list cty) (v : value)   (* new G<args>(v) with a promoted constructor parameter *)
| ONewRaw (cls : string).                         (* new G() without type arguments (NewExpression: the un-cloned ClassGeneric) *)
(* NewFailed: GetOrLoadClass throws (unknown class) or the constructor argument is rejected.
   NewArity: fewer type arguments than parameters are given — a positioned script error of its own since fix
   c867350 (before it a Go index-out-of-range panic that only try's recover caught); observed separately *)
Inductive obs := Created | NewFailed | NewArity | Accepted | Rejected | BadInst | Got (v : value).

Fixpoint upd_nth {A} (i : nat) (f : A -> A) (l : list A) : list A :=
  match l, i with
  | [], _ => []
  | x :: r, O => f x :: r
  | x :: r, S k => x :: upd_nth k f r
  end.
Definition set_val (i : nat) (p : string) (v : value) (l : list inst) : list inst :=
  upd_nth i (fun x => {| i_cls := i_cls x; i_args := i_args x; i_map := i_map x; i_vals := upd p v (i_vals x) |}) l.

(* ---- the other two members that can be declared with a type parameter.
   `T $x` on a method (after fixes dcfa9d9 and 895602f): node/call_object_method.go callMethodParams
   binds a *Parameter with Parameter.SetValue; node/function.go Parameter.SetValue lets null
   through, replaces data.Generic{T} by GenericMap[T] of the instantiation the method runs on
   (left as Generic, whose Is is `return true`, when T is not in the map) and asks Types.Is.
   `public T $v` promoted in the constructor of a generic class (after fix dbde2bb):
   node/new.go createInstanceAndCallConstructorWithStmt binds *Parameter / *PromotedParameter
   arguments through the same Parameter.SetValue (the context's class is the instantiation), then
   copies the bound value into the property. *)
Definition method_param_accepts (d : option dty) (m : list (string * cty)) (v : value) : bool :=
  match d with
  | None => true
  | Some d' =>
      match v with
      | VNull => true
      | _ => match d' with
             | DConc c => cty_is c v
             | DGen n => match lookup n m with Some c => cty_is c v | None => true end
             end
      end
  end.
Definition ctor_promoted_accepts := method_param_accepts.

Section WithGetProperty.
(* the GetProperty implementation is a parameter of `step` so that the legacy (mutating) one of
   Examples.v runs through the very same history semantics *)
Variable gp : gclass -> list (string * cty) -> string -> gclass * option (option cty).

Definition step (st : state) (o : op) : state * obs :=
  match o with
  | ONew c args =>
      match lookup c (decls st) with
      | None => (st, NewFailed)
      | Some g =>
          match build_map (g_params g) args [] with
          | None => (st, NewArity)
          | Some m => ({| decls := decls st;
                          insts := (insts st ++ [{| i_cls := c; i_args := args; i_map := m; i_vals := [] |}])%list |},
                       Created)
          end
      end
  | OWrite _ i p v =>
      (* all three store paths: GetPropertyStmt -> Class.GetProperty; type check; SetProperty *)
      match nth_error (insts st) i with
      | None => (st, BadInst)
      | Some x =>
          match lookup (i_cls x) (decls st) with
          | None => (st, BadInst)
          | Some g =>
              let '(g', r) := gp g (i_map x) p in
              let d' := upd (i_cls x) g' (decls st) in
              match r with
              | None => ({| decls := d'; insts := set_val i p v (insts st) |}, Accepted)   (* undeclared: dynamic property *)
              | Some t => if type_is t v
                          then ({| decls := d'; insts := set_val i p v (insts st) |}, Accepted)
                          else ({| decls := d'; insts := insts st |}, Rejected)
              end
          end
      end
  | OCall i m v =>
      match nth_error (insts st) i with
      | None => (st, BadInst)
      | Some x =>
          match lookup (i_cls x) (decls st) with
          | None => (st, BadInst)
          | Some g => match lookup m (g_meths g) with
                      | None => (st, BadInst)
                      | Some d => (st, if method_param_accepts d (i_map x) v then Accepted else Rejected)
                      end
          end
      end
  | ONewC c args v =>
      match lookup c (decls st) with
      | None => (st, NewFailed)
      | Some g =>
          (* resolveClass (type arguments) runs before the constructor is looked at *)
          match build_map (g_params g) args [] with
          | None => (st, NewArity)
          | Some m =>
              match g_ctor g with
              | Some (p, d) =>
                  if ctor_promoted_accepts d m v
                  then ({| decls := decls st;
                           insts := (insts st ++ [{| i_cls := c; i_args := args; i_map := m; i_vals := [(p, v)] |}])%list |}, Created)
                  else (st, NewFailed)
              | None => (st, NewFailed)
              end
          end
      end
  | ONewRaw c =>
      match lookup c (decls st) with
      | None => (st, NewFailed)
      | Some g => ({| decls := decls st;
                      insts := (insts st ++ [{| i_cls := c; i_args := []; i_map := []; i_vals := [] |}])%list |}, Created)
      end
  | ORead i p =>
      match nth_error (insts st) i with
      | None => (st, BadInst)
      | Some x =>
          match lookup (i_cls x) (decls st) with
          | None => (st, BadInst)
          | Some g =>
              let '(g', _) := gp g (i_map x) p in
              ({| decls := upd (i_cls x) g' (decls st); insts := insts st |},
               Got (match lookup p (i_vals x) with Some v => v | None => VNull end))
          end
      end
  end.

Fixpoint run (st : state) (ops : list op) : state * list obs :=
  match ops with
  | [] => (st, [])
  | o :: r => let '(st1, b) := step st o in let '(st2, bs) := run st1 r in (st2, b :: bs)
  end.

(* what instance i would answer to a store of v into p in state st *)
Definition accepts (st : state) (i : nat) (p : string) (v : value) : option bool :=
  match snd (step st (OWrite PDirect i p v)) with
  | Accepted => Some true | Rejected => Some false | _ => None end.
End WithGetProperty.

End WithHierarchy.

Definition init (tbl : ctable) : state := {| decls := tbl; insts := [] |}.
