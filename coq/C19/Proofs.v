(* C19 — lemmas.  Main structure: a simulation invariant between the model state (shared
   declaration cell + per-instance maps) and the reference objects of Spec.v. *)
From Coq Require Import Lia.
From V.C19 Require Import Model Spec.

(* ---- association lists *)
Lemma upd_same {A} k (a : A) l : lookup k l = Some a -> upd k a l = l.
Proof.
  induction l as [|[k' a'] r IH]; simpl; intros H; [discriminate|].
  destruct (String.eqb k k') eqn:E.
  - apply String.eqb_eq in E. subst. inversion H. reflexivity.
  - f_equal. auto.
Qed.

Lemma lookup_upd {A} n k (a : A) l :
  lookup n (upd k a l) = if String.eqb n k then Some a else lookup n l.
Proof.
  induction l as [|[k' a'] r IH]; simpl.
  - destruct (String.eqb n k); reflexivity.
  - destruct (String.eqb k k') eqn:E; simpl.
    + apply String.eqb_eq in E. subst. destruct (String.eqb n k'); reflexivity.
    + destruct (String.eqb n k') eqn:E2.
      * destruct (String.eqb n k) eqn:E3; [|reflexivity].
        apply String.eqb_eq in E2, E3. subst. rewrite String.eqb_refl in E. discriminate.
      * exact IH.
Qed.

(* ---- building the per-instantiation map = positional substitution *)
Lemma arg_of_notin ps as_ p : existsb (String.eqb p) ps = false -> arg_of ps as_ p = None.
Proof.
  revert as_. induction ps as [|q ps IH]; intros as_ H; simpl in *; [reflexivity|].
  destruct as_ as [|a as_]; [reflexivity|].
  apply orb_false_iff in H. destruct H as [H1 H2]. rewrite H1. auto.
Qed.

Lemma build_map_lookup params : forall args m m',
  nodupb params = true -> build_map params args m = Some m' ->
  forall n, lookup n m' = match arg_of params args n with Some a => Some a | None => lookup n m end.
Proof.
  induction params as [|p ps IH]; intros args m m' ND H n; simpl in *.
  - inversion H. subst. reflexivity.
  - destruct args as [|a as_]; [discriminate|].
    apply andb_true_iff in ND. destruct ND as [ND1 ND2].
    rewrite (IH _ _ _ ND2 H n). rewrite lookup_upd.
    destruct (String.eqb n p) eqn:E.
    + apply String.eqb_eq in E. subst.
      rewrite arg_of_notin; [reflexivity|]. now apply negb_true_iff in ND1.
    + reflexivity.
Qed.

Lemma build_map_none params : forall args m,
  build_map params args m = None <-> (List.length args < List.length params)%nat.
Proof.
  induction params as [|p ps IH]; intros args m; simpl.
  - split; [discriminate|lia].
  - destruct args as [|a as_]; simpl.
    + split; [lia|reflexivity].
    + rewrite IH. lia.
Qed.

(* ---- lists *)
Lemma Forall2_nth_error {A B} (R : A -> B -> Prop) l1 l2 i :
  Forall2 R l1 l2 ->
  match nth_error l1 i, nth_error l2 i with
  | Some x, Some y => R x y
  | None, None => True
  | _, _ => False
  end.
Proof.
  intros H. revert i. induction H; intros [|i]; simpl; auto. apply IHForall2.
Qed.

Lemma Forall2_upd_nth {A B} (R : A -> B -> Prop) f g l1 l2 i :
  Forall2 R l1 l2 -> (forall x y, R x y -> R (f x) (g y)) ->
  Forall2 R (upd_nth i f l1) (upd_nth i g l2).
Proof.
  intros H Hf. revert i. induction H; intros [|i]; simpl; constructor; auto.
Qed.

Lemma nth_error_upd_nth {A} (f : A -> A) l i j :
  nth_error (upd_nth i f l) j = if Nat.eqb i j then option_map f (nth_error l j) else nth_error l j.
Proof.
  revert i j. induction l as [|x r IH]; intros [|i] [|j]; simpl; auto.
  - destruct (Nat.eqb i j); reflexivity.
Qed.

Lemma length_upd_nth {A} (f : A -> A) l i : List.length (upd_nth i f l) = List.length l.
Proof. revert i. induction l; intros [|i]; simpl; auto. Qed.

Lemma nodupb_lookup tbl c g : wf_tbl tbl = true -> lookup c tbl = Some g -> nodupb (g_params g) = true.
Proof.
  unfold wf_tbl. induction tbl as [|[k g'] r IH]; simpl; intros W H; [discriminate|].
  apply andb_true_iff in W. destruct W as [W1 W2].
  destruct (String.eqb c k); [inversion H; subst; exact W1|auto].
Qed.

Section S.
Variable sub : string -> string -> bool.

Lemma type_is_of_type c v : type_is sub (Some c) v = of_type sub v c.
Proof. destruct c, v; reflexivity. Qed.

(* ---- the invariant *)
Definition rel (tbl : ctable) (x : inst) (s : sobj) : Prop :=
  i_cls x = s_cls s /\ i_args x = s_args s /\ i_vals x = s_vals s /\
  exists g, lookup (i_cls x) tbl = Some g /\
            forall n, lookup n (i_map x) = arg_of (g_params g) (i_args x) n.

Definition Inv (tbl : ctable) (st : state) (objs : list sobj) : Prop :=
  decls st = tbl /\ Forall2 (rel tbl) (insts st) objs.

Lemma rel_set tbl p v x s : rel tbl x s ->
  rel tbl {| i_cls := i_cls x; i_args := i_args x; i_map := i_map x; i_vals := upd p v (i_vals x) |}
          {| s_cls := s_cls s; s_args := s_args s; s_vals := upd p v (s_vals s) |}.
Proof.
  intros (H1 & H2 & H3 & g & H4 & H5). unfold rel; simpl. rewrite H3. repeat split; auto.
  exists g. auto.
Qed.

(* what the fixed GetProperty answers is what the reference semantics prescribes *)
Lemma gp_agrees tbl x s g p v : rel tbl x s -> lookup (i_cls x) tbl = Some g ->
  fst (get_property g (i_map x) p) = g /\
  match snd (get_property g (i_map x) p) with
  | None => true
  | Some t => type_is sub t v
  end = spec_accepts sub tbl (s_cls s) (s_args s) p v.
Proof.
  intros (H1 & H2 & H3 & g' & H4 & H5) Hg. rewrite Hg in H4. inversion H4; subst g'.
  unfold spec_accepts, get_property. rewrite <- H1, <- H2, Hg.
  destruct (lookup p (g_props g)) as [[[c|n]|]|]; simpl; auto.
  - split; [reflexivity|]. destruct c, v; reflexivity.
  - split; [reflexivity|]. rewrite H5. destruct (arg_of (g_params g) (i_args x) n); [|reflexivity].
    apply type_is_of_type.
Qed.

(* ---- a model-only invariant, preserved by EVERY operation (also by calls and constructors given null):
   every instance's map is the positional substitution of its own arguments *)
Definition irel (tbl : ctable) (x : inst) : Prop :=
  exists g, lookup (i_cls x) tbl = Some g /\ forall n, lookup n (i_map x) = arg_of (g_params g) (i_args x) n.
Definition MInv (tbl : ctable) (st : state) : Prop := decls st = tbl /\ Forall (irel tbl) (insts st).

Lemma arg_of_nil ps n : arg_of ps [] n = None.
Proof. destruct ps; reflexivity. Qed.

Lemma Forall_upd_nth {A} (P : A -> Prop) f l i : Forall P l -> (forall x, P x -> P (f x)) -> Forall P (upd_nth i f l).
Proof. intros H Hf. revert i. induction H; intros [|i]; simpl; constructor; auto. Qed.

Lemma gp_agrees_i tbl x g p v : irel tbl x -> lookup (i_cls x) tbl = Some g ->
  fst (get_property g (i_map x) p) = g /\
  match snd (get_property g (i_map x) p) with
  | None => true
  | Some t => type_is sub t v
  end = spec_accepts sub tbl (i_cls x) (i_args x) p v.
Proof.
  intros (g' & H4 & H5) Hg. rewrite Hg in H4. inversion H4; subst g'.
  unfold spec_accepts, get_property. rewrite Hg.
  destruct (lookup p (g_props g)) as [[[c|n]|]|]; simpl; auto.
  - split; [reflexivity|]. destruct c, v; reflexivity.
  - split; [reflexivity|]. rewrite H5. destruct (arg_of (g_params g) (i_args x) n); [|reflexivity].
    apply type_is_of_type.
Qed.

Lemma new_inst_irel tbl c g args m vals : wf_tbl tbl = true -> lookup c tbl = Some g ->
  build_map (g_params g) args [] = Some m ->
  irel tbl {| i_cls := c; i_args := args; i_map := m; i_vals := vals |}.
Proof.
  intros W Hc Hb. exists g. split; [assumption|]. intros n. simpl.
  rewrite (build_map_lookup _ _ _ _ (nodupb_lookup _ _ _ W Hc) Hb n). simpl.
  destruct (arg_of (g_params g) args n); reflexivity.
Qed.

Lemma step_minv tbl st o : wf_tbl tbl = true -> MInv tbl st -> MInv tbl (fst (step sub get_property st o)).
Proof.
  intros W [Hd HF]. subst tbl. destruct o as [c args|pa i p v|i p|i m v|c args v|c]; simpl.
  - destruct (lookup c (decls st)) as [g|] eqn:Hc; [|split; [reflexivity|exact HF]].
    destruct (build_map (g_params g) args []) as [m|] eqn:Hb; [|split; [reflexivity|exact HF]].
    split; [reflexivity|]. simpl. apply Forall_app. split; [assumption|]. constructor; [|constructor].
    eapply new_inst_irel; eauto.
  - destruct (nth_error (insts st) i) as [x|] eqn:Hx; [|split; [reflexivity|exact HF]].
    assert (Hix : irel (decls st) x) by (rewrite Forall_forall in HF; apply HF; eapply nth_error_In; eauto).
    destruct Hix as (g & Hg & Hm). rewrite Hg.
    destruct (get_property g (i_map x) p) as [g' r] eqn:Hgp.
    assert (g' = g) by (unfold get_property in Hgp; destruct (lookup p (g_props g)) as [[[?|?]|]|]; inversion Hgp; reflexivity).
    subst g'. rewrite (upd_same _ _ _ Hg).
    assert (HS : Forall (irel (decls st)) (set_val i p v (insts st))).
    { unfold set_val. apply Forall_upd_nth; [assumption|]. intros y (gy & H1 & H2). exists gy. auto. }
    destruct r as [t|]; [destruct (type_is sub t v)|]; simpl; split; auto; reflexivity.
  - destruct (nth_error (insts st) i) as [x|] eqn:Hx; [|split; [reflexivity|exact HF]].
    assert (Hix : irel (decls st) x) by (rewrite Forall_forall in HF; apply HF; eapply nth_error_In; eauto).
    destruct Hix as (g & Hg & Hm). rewrite Hg.
    destruct (get_property g (i_map x) p) as [g' r] eqn:Hgp.
    assert (g' = g) by (unfold get_property in Hgp; destruct (lookup p (g_props g)) as [[[?|?]|]|]; inversion Hgp; reflexivity).
    subst g'. rewrite (upd_same _ _ _ Hg). simpl. split; auto.
  - destruct (nth_error (insts st) i) as [x|]; [|split; [reflexivity|exact HF]].
    destruct (lookup (i_cls x) (decls st)) as [g|]; [|split; [reflexivity|exact HF]].
    destruct (lookup m (g_meths g)); (split; [reflexivity|exact HF]).
  - destruct (lookup c (decls st)) as [g|] eqn:Hc; [|split; [reflexivity|exact HF]].
    destruct (build_map (g_params g) args []) as [m|] eqn:Hb; [|split; [reflexivity|exact HF]].
    destruct (g_ctor g) as [[p d]|]; [|split; [reflexivity|exact HF]].
    destruct (ctor_promoted_accepts sub d m v); [|split; [reflexivity|exact HF]].
    split; [reflexivity|]. simpl. apply Forall_app. split; [assumption|]. constructor; [|constructor].
    eapply new_inst_irel; eauto.
  - destruct (lookup c (decls st)) as [g|] eqn:Hc; [|split; [reflexivity|exact HF]].
    split; [reflexivity|]. simpl. apply Forall_app. split; [assumption|]. constructor; [|constructor].
    exists g. split; [assumption|]. intros n. simpl. symmetry. apply arg_of_nil.
Qed.
Lemma run_minv tbl ops : forall st, wf_tbl tbl = true -> MInv tbl st -> MInv tbl (fst (run sub get_property st ops)).
Proof.
  induction ops as [|o r IH]; intros st W H; simpl; [assumption|].
  pose proof (step_minv tbl st o W H) as H1. destruct (step sub get_property st o) as [st1 b]. simpl in H1.
  pose proof (IH st1 W H1) as H2. destruct (run sub get_property st1 r) as [st2 bs]. exact H2.
Qed.
Lemma MInv_init tbl : MInv tbl (init tbl).
Proof. split; [reflexivity|constructor]. Qed.

(* a parameter declared with a type, bound on an instance whose map is the substitution of its own arguments *)
Lemma param_agrees tbl x g d v : irel tbl x -> lookup (i_cls x) tbl = Some g -> v <> VNull ->
  method_param_accepts sub d (i_map x) v =
  match member_type g (i_args x) d with None => true | Some t => of_type sub v t end.
Proof.
  intros (g' & H4 & H5) Hg Hv. rewrite Hg in H4. inversion H4; subst g'.
  unfold method_param_accepts, member_type. destruct d as [[c|n]|]; [| |reflexivity].
  - destruct v; try congruence; destruct c; reflexivity.
  - rewrite H5. destruct (arg_of (g_params g) (i_args x) n) as [c|]; destruct v; try congruence; try reflexivity; destruct c; reflexivity.
Qed.

Lemma step_refines tbl st objs o :
  wf_tbl tbl = true -> op_null_free o = true -> Inv tbl st objs ->
  snd (step sub get_property st o) = snd (spec_step sub tbl objs o) /\
  Inv tbl (fst (step sub get_property st o)) (fst (spec_step sub tbl objs o)).
Proof.
  intros W NF [Hd HF]. destruct o as [c args|pa i p v|i p|i m v|c args v|c]; simpl.
  - (* ONew *)
    rewrite Hd. destruct (lookup c tbl) as [g|] eqn:Hc; simpl; [|split; [reflexivity|split; assumption]].
    destruct (build_map (g_params g) args []) as [m|] eqn:Hb.
    + assert (Hlen : (List.length args <? List.length (g_params g))%nat = false).
      { apply Nat.ltb_ge. destruct (Nat.le_gt_cases (List.length (g_params g)) (List.length args)); [assumption|].
        apply (proj2 (build_map_none _ _ [])) in H. congruence. }
      rewrite Hlen. simpl. split; [reflexivity|]. split; [reflexivity|]. simpl.
      apply Forall2_app; [assumption|]. constructor; [|constructor].
      unfold rel; simpl. repeat split; auto. exists g. split; [assumption|].
      intros n. rewrite (build_map_lookup _ _ _ _ (nodupb_lookup _ _ _ W Hc) Hb n). simpl.
      destruct (arg_of (g_params g) args n); reflexivity.
    + apply build_map_none in Hb. apply Nat.ltb_lt in Hb. rewrite Hb. simpl.
      split; [reflexivity|split; assumption].
  - (* OWrite *)
    pose proof (Forall2_nth_error _ _ _ i HF) as Hn.
    destruct (nth_error (insts st) i) as [x|], (nth_error objs i) as [s|]; try contradiction;
      [|split; [reflexivity|split; assumption]].
    pose proof Hn as (H1 & _ & _ & g & Hg & _). rewrite Hd, <- H1, Hg.
    destruct (gp_agrees tbl x s g p v Hn Hg) as [Hfst Hacc].
    destruct (get_property g (i_map x) p) as [g' r] eqn:Hgp. simpl in Hfst, Hacc. subst g'.
    rewrite (upd_same _ _ _ Hg). rewrite H1 in *.
    assert (HT : Forall2 (rel tbl) (set_val i p v (insts st))
                  (upd_nth i (fun x => {| s_cls := s_cls x; s_args := s_args x; s_vals := upd p v (s_vals x) |}) objs)).
    { unfold set_val. apply Forall2_upd_nth; [assumption|]. intros. now apply rel_set. }
    destruct (spec_accepts sub tbl (s_cls s) (s_args s) p v) eqn:Hs.
    + destruct r as [t|]; [rewrite Hacc|]; simpl; (split; [reflexivity|]); (split; [reflexivity|exact HT]).
    + destruct r as [t|]; [|discriminate]. rewrite Hacc. simpl.
      split; [reflexivity|]. split; [reflexivity|assumption].
  - (* ORead *)
    pose proof (Forall2_nth_error _ _ _ i HF) as Hn.
    destruct (nth_error (insts st) i) as [x|], (nth_error objs i) as [s|]; try contradiction;
      [|split; [reflexivity|split; assumption]].
    pose proof Hn as (H1 & _ & H3 & g & Hg & _). rewrite Hd, <- H1, Hg.
    destruct (gp_agrees tbl x s g p VNull Hn Hg) as [Hfst _].
    destruct (get_property g (i_map x) p) as [g' r] eqn:Hgp. simpl in Hfst. subst g'.
    rewrite (upd_same _ _ _ Hg). simpl. rewrite H3. split; [reflexivity|]. split; [reflexivity|assumption].
  - (* OCall *)
    pose proof (Forall2_nth_error _ _ _ i HF) as Hn.
    destruct (nth_error (insts st) i) as [x|], (nth_error objs i) as [s|]; try contradiction;
      [|split; [reflexivity|split; assumption]].
    pose proof Hn as (H1 & H2 & _ & g & Hg & Hm). rewrite Hd, <- H1, Hg.
    destruct (lookup m (g_meths g)) as [d|]; [|split; [reflexivity|split; assumption]].
    assert (Hv : v <> VNull) by (intros ->; discriminate).
    rewrite (param_agrees tbl x g d v (ex_intro _ g (conj Hg Hm)) Hg Hv), H2.
    simpl. split; [reflexivity|split; assumption].
  - (* ONewC *)
    rewrite Hd. destruct (lookup c tbl) as [g|] eqn:Hc; simpl; [|split; [reflexivity|split; assumption]].
    destruct (build_map (g_params g) args []) as [m|] eqn:Hb.
    + assert (Hlen : (List.length args <? List.length (g_params g))%nat = false).
      { apply Nat.ltb_ge. destruct (Nat.le_gt_cases (List.length (g_params g)) (List.length args)); [assumption|].
        apply (proj2 (build_map_none _ _ [])) in H. congruence. }
      rewrite Hlen.
      destruct (g_ctor g) as [[p d]|] eqn:Hct; [|simpl; split; [reflexivity|split; assumption]].
      assert (Hv : v <> VNull) by (intros ->; discriminate).
      pose proof (new_inst_irel tbl c g args m [(p, v)] W Hc Hb) as Hir.
      pose proof (param_agrees tbl _ g d v Hir Hc Hv) as Hpa. simpl in Hpa.
      unfold ctor_promoted_accepts. rewrite Hpa.
      destruct (match member_type g args d with None => true | Some t => of_type sub v t end).
      * simpl. split; [reflexivity|]. split; [reflexivity|]. simpl.
        apply Forall2_app; [assumption|]. constructor; [|constructor].
        unfold rel; simpl. repeat split; auto.
      * simpl. split; [reflexivity|split; assumption].
    + apply build_map_none in Hb. apply Nat.ltb_lt in Hb. rewrite Hb. simpl. split; [reflexivity|split; assumption].
  - (* ONewRaw *)
    rewrite Hd. destruct (lookup c tbl) as [g|] eqn:Hc; simpl; [|split; [reflexivity|split; assumption]].
    split; [reflexivity|]. split; [reflexivity|]. simpl.
    apply Forall2_app; [assumption|]. constructor; [|constructor].
    unfold rel; simpl. repeat split; auto. exists g. split; [assumption|]. intros n. simpl. symmetry. apply arg_of_nil.
Qed.

Lemma run_refines tbl ops : forall st objs,
  wf_tbl tbl = true -> null_free ops = true -> Inv tbl st objs ->
  snd (run sub get_property st ops) = spec_run sub tbl objs ops.
Proof.
  induction ops as [|o r IH]; intros st objs W NF HI; simpl; [reflexivity|].
  simpl in NF. apply andb_true_iff in NF. destruct NF as [NF1 NF2].
  destruct (step_refines tbl st objs o W NF1 HI) as [Hb HI'].
  destruct (step sub get_property st o) as [st1 b] eqn:Hs.
  destruct (spec_step sub tbl objs o) as [objs1 b'] eqn:Hs'. simpl in Hb, HI'. subst b'.
  pose proof (IH st1 objs1 W NF2 HI') as Hr.
  destruct (run sub get_property st1 r) as [st2 bs] eqn:Hr2. simpl in *. now rewrite Hr.
Qed.

Lemma Inv_init tbl : Inv tbl (init tbl) [].
Proof. split; [reflexivity|constructor]. Qed.

Lemma history_refines_spec_l tbl ops : wf_tbl tbl = true -> null_free ops = true ->
  snd (run sub get_property (init tbl) ops) = spec_run sub tbl [] ops.
Proof. intros W NF. exact (run_refines tbl ops _ _ W NF (Inv_init tbl)). Qed.

(* ---- the declaration is never changed, from any state, with no hypothesis at all *)
Lemma step_decls st o : decls (fst (step sub get_property st o)) = decls st.
Proof.
  destruct o as [c args|pa i p v|i p|i m v|c args v|c]; simpl;
    [| | | destruct (nth_error (insts st) i) as [x|]; [|reflexivity];
           destruct (lookup (i_cls x) (decls st)) as [g|]; [|reflexivity]; destruct (lookup m (g_meths g)); reflexivity
         | destruct (lookup c (decls st)) as [g|]; [|reflexivity];
           destruct (build_map (g_params g) args []); [|reflexivity]; destruct (g_ctor g) as [[p d]|]; [|reflexivity];
           destruct (ctor_promoted_accepts sub d l v); reflexivity
         | destruct (lookup c (decls st)); reflexivity].
  - destruct (lookup c (decls st)); [|reflexivity]. destruct (build_map _ _ _); reflexivity.
  - destruct (nth_error (insts st) i) as [x|]; [|reflexivity].
    destruct (lookup (i_cls x) (decls st)) as [g|] eqn:Hg; [|reflexivity].
    unfold get_property.
    destruct (lookup p (g_props g)) as [[[c|n]|]|]; simpl;
      try (match goal with |- context [if ?b then _ else _] => destruct b end); simpl;
      apply upd_same; assumption.
  - destruct (nth_error (insts st) i) as [x|]; [|reflexivity].
    destruct (lookup (i_cls x) (decls st)) as [g|] eqn:Hg; [|reflexivity].
    unfold get_property.
    destruct (lookup p (g_props g)) as [[[c|n]|]|]; simpl; apply upd_same; assumption.
Qed.

Lemma decl_unchanged_l ops : forall st, decls (fst (run sub get_property st ops)) = decls st.
Proof.
  induction ops as [|o r IH]; intros st; simpl; [reflexivity|].
  pose proof (step_decls st o) as H1.
  destruct (step sub get_property st o) as [st1 b]. simpl in H1.
  pose proof (IH st1) as H2. destruct (run sub get_property st1 r) as [st2 bs]. simpl in *. congruence.
Qed.

(* ---- acceptance depends on the instance's own arguments only *)
Lemma own_args_only_l tbl ops i x p v : wf_tbl tbl = true ->
  nth_error (insts (fst (run sub get_property (init tbl) ops))) i = Some x ->
  accepts sub get_property (fst (run sub get_property (init tbl) ops)) i p v
  = Some (spec_accepts sub tbl (i_cls x) (i_args x) p v).
Proof.
  intros W Hx.
  destruct (run_minv tbl ops _ W (MInv_init tbl)) as [Hd HF].
  set (st := fst (run sub get_property (init tbl) ops)) in *.
  assert (Hix : irel tbl x) by (rewrite Forall_forall in HF; apply HF; eapply nth_error_In; eauto).
  pose proof Hix as (g & Hg & _).
  unfold accepts. simpl. rewrite Hx, Hd, Hg.
  destruct (gp_agrees_i tbl x g p v Hix Hg) as [_ Hacc].
  destruct (get_property g (i_map x) p) as [g' r]. simpl in Hacc.
  rewrite <- Hacc.
  destruct r as [t|]; [destruct (type_is sub t v)|]; reflexivity.
Qed.

(* the same for a call: what a live instance answers to $o->m(v), v not null, is fixed by its own class and
   arguments — in any state any history reaches, calls and constructors given null included *)
Lemma call_own_args_only_l tbl ops i x g m d v : wf_tbl tbl = true -> v <> VNull ->
  nth_error (insts (fst (run sub get_property (init tbl) ops))) i = Some x ->
  lookup (i_cls x) tbl = Some g -> lookup m (g_meths g) = Some d ->
  snd (step sub get_property (fst (run sub get_property (init tbl) ops)) (OCall i m v))
  = if match member_type g (i_args x) d with None => true | Some t => of_type sub v t end then Accepted else Rejected.
Proof.
  intros W Hv Hx Hg Hm.
  destruct (run_minv tbl ops _ W (MInv_init tbl)) as [Hd HF].
  set (st := fst (run sub get_property (init tbl) ops)) in *.
  assert (Hix : irel tbl x) by (rewrite Forall_forall in HF; apply HF; eapply nth_error_In; eauto).
  simpl. rewrite Hx, Hd, Hg, Hm. simpl. rewrite (param_agrees tbl x g d v Hix Hg Hv). reflexivity.
Qed.

(* and for a constructor call: whether new G<args>(v) succeeds is fixed by G, args and v alone *)
Lemma ctor_own_args_only_l tbl ops c args v objs : wf_tbl tbl = true -> v <> VNull ->
  snd (step sub get_property (fst (run sub get_property (init tbl) ops)) (ONewC c args v))
  = snd (spec_step sub tbl objs (ONewC c args v)).
Proof.
  intros W Hv. pose proof (decl_unchanged_l ops (init tbl)) as Hd. simpl in Hd.
  set (st := fst (run sub get_property (init tbl) ops)) in *. simpl. rewrite Hd.
  destruct (lookup c tbl) as [g|] eqn:Hc; simpl; [|reflexivity].
  destruct (build_map (g_params g) args []) as [m|] eqn:Hb.
  - assert (Hlen : (List.length args <? List.length (g_params g))%nat = false).
    { apply Nat.ltb_ge. destruct (Nat.le_gt_cases (List.length (g_params g)) (List.length args)); [assumption|].
      apply (proj2 (build_map_none _ _ [])) in H. congruence. }
    rewrite Hlen. destruct (g_ctor g) as [[p d]|] eqn:Hct; [|reflexivity].
    pose proof (new_inst_irel tbl c g args m [(p, v)] W Hc Hb) as Hir.
    pose proof (param_agrees tbl _ g d v Hir Hc Hv) as Hpa. simpl in Hpa.
    unfold ctor_promoted_accepts. rewrite Hpa.
    destruct (match member_type g args d with None => true | Some t => of_type sub v t end); reflexivity.
  - apply build_map_none in Hb. apply Nat.ltb_lt in Hb. rewrite Hb. reflexivity.
Qed.

(* ---- frame: no operation changes what an existing instance accepts (any state) *)
Lemma nth_error_step st o i x :
  nth_error (insts st) i = Some x ->
  exists x', nth_error (insts (fst (step sub get_property st o))) i = Some x' /\
             i_cls x' = i_cls x /\ i_args x' = i_args x /\ i_map x' = i_map x.
Proof.
  intros Hx. destruct o as [c args|pa j p v|j p|j m v|c args v|c]; simpl.
  - destruct (lookup c (decls st)); [|eauto]. destruct (build_map _ _ _); simpl; [|eauto].
    exists x. rewrite nth_error_app1; [auto|]. apply nth_error_Some. congruence.
  - destruct (nth_error (insts st) j) as [y|]; [|eauto].
    destruct (lookup (i_cls y) (decls st)) as [g|]; [|eauto].
    destruct (get_property g (i_map y) p) as [g' r].
    assert (Hset : exists x', nth_error (set_val j p v (insts st)) i = Some x' /\
                              i_cls x' = i_cls x /\ i_args x' = i_args x /\ i_map x' = i_map x).
    { unfold set_val. rewrite nth_error_upd_nth, Hx. destruct (Nat.eqb j i); simpl; eauto. }
    destruct r as [t|]; [destruct (type_is sub t v)|]; simpl; eauto.
  - destruct (nth_error (insts st) j) as [y|]; [|eauto].
    destruct (lookup (i_cls y) (decls st)) as [g|]; [|eauto].
    destruct (get_property g (i_map y) p) as [g' r]. simpl. eauto.
  - destruct (nth_error (insts st) j) as [y|]; [|eauto].
    destruct (lookup (i_cls y) (decls st)) as [g|]; [|eauto].
    destruct (lookup m (g_meths g)); simpl; eauto.
  - destruct (lookup c (decls st)) as [g|]; [|eauto]. destruct (build_map _ _ _) as [mm|]; simpl; [|eauto].
    destruct (g_ctor g) as [[p d]|]; [|eauto]. destruct (ctor_promoted_accepts sub d mm v); simpl; [|eauto].
    exists x. rewrite nth_error_app1; [auto|]. apply nth_error_Some. congruence.
  - destruct (lookup c (decls st)); simpl; [|eauto].
    exists x. rewrite nth_error_app1; [auto|]. apply nth_error_Some. congruence.
Qed.

Lemma accepts_char st i p v :
  accepts sub get_property st i p v =
  match nth_error (insts st) i with
  | None => None
  | Some x => match lookup (i_cls x) (decls st) with
              | None => None
              | Some g => match snd (get_property g (i_map x) p) with
                          | None => Some true
                          | Some t => Some (type_is sub t v)
                          end
              end
  end.
Proof.
  unfold accepts. simpl. destruct (nth_error (insts st) i) as [x|]; [|reflexivity].
  destruct (lookup (i_cls x) (decls st)) as [g|]; [|reflexivity].
  destruct (get_property g (i_map x) p) as [g' [t|]]; simpl; [|reflexivity].
  destruct (type_is sub t v); reflexivity.
Qed.

Lemma accepts_frame_l st o i p v : (i < List.length (insts st))%nat ->
  accepts sub get_property (fst (step sub get_property st o)) i p v = accepts sub get_property st i p v.
Proof.
  intros Hi. destruct (nth_error (insts st) i) as [x|] eqn:Hx; [|apply nth_error_None in Hx; lia].
  destruct (nth_error_step st o i x Hx) as (x' & Hx' & Hc & _ & Hm).
  rewrite !accepts_char, Hx, Hx', (step_decls st o), Hc, Hm. reflexivity.
Qed.

Lemma accepts_frame_run_l ops : forall st i p v, (i < List.length (insts st))%nat ->
  accepts sub get_property (fst (run sub get_property st ops)) i p v = accepts sub get_property st i p v.
Proof.
  induction ops as [|o r IH]; intros st i p v Hi; simpl; [reflexivity|].
  pose proof (accepts_frame_l st o i p v Hi) as H1.
  assert (Hi' : (i < List.length (insts (fst (step sub get_property st o))))%nat).
  { destruct (nth_error (insts st) i) as [x|] eqn:Hx; [|apply nth_error_None in Hx; lia].
    destruct (nth_error_step st o i x Hx) as (x' & Hx' & _). apply nth_error_Some. congruence. }
  destruct (step sub get_property st o) as [st1 b]. simpl in *.
  pose proof (IH st1 i p v Hi') as H2.
  destruct (run sub get_property st1 r) as [st2 bs]. simpl in *. congruence.
Qed.

(* two instances with the same class and arguments, in ANY two histories, answer alike *)
Lemma same_instantiation_same_answers_l tbl h1 h2 i1 i2 x1 x2 p v : wf_tbl tbl = true ->
  nth_error (insts (fst (run sub get_property (init tbl) h1))) i1 = Some x1 ->
  nth_error (insts (fst (run sub get_property (init tbl) h2))) i2 = Some x2 ->
  i_cls x1 = i_cls x2 -> i_args x1 = i_args x2 ->
  accepts sub get_property (fst (run sub get_property (init tbl) h1)) i1 p v =
  accepts sub get_property (fst (run sub get_property (init tbl) h2)) i2 p v.
Proof.
  intros W H1 H2 Hc Ha.
  rewrite (own_args_only_l tbl h1 i1 x1 p v W H1), (own_args_only_l tbl h2 i2 x2 p v W H2), Hc, Ha.
  reflexivity.
Qed.

(* a member declared with the type parameter that stands for argument A accepts exactly the
   values of type A *)
Lemma generic_member_exactly_A_l tbl ops i x g p n A v : wf_tbl tbl = true ->
  nth_error (insts (fst (run sub get_property (init tbl) ops))) i = Some x ->
  lookup (i_cls x) tbl = Some g -> lookup p (g_props g) = Some (Some (DGen n)) ->
  arg_of (g_params g) (i_args x) n = Some A ->
  accepts sub get_property (fst (run sub get_property (init tbl) ops)) i p v = Some (of_type sub v A).
Proof.
  intros W Hx Hg Hp HA. rewrite (own_args_only_l tbl ops i x p v W Hx).
  unfold spec_accepts. rewrite Hg, Hp. simpl. rewrite HA. reflexivity.
Qed.

End S.

(* a T-typed method parameter accepts exactly the values of the instantiation's argument — except
   that null is let through *)
Lemma method_param_exact_l sub n A v : v <> VNull ->
  method_param_accepts sub (Some (DGen n)) [(n, A)] v = of_type sub v A.
Proof.
  intros Hv. unfold method_param_accepts. simpl. rewrite String.eqb_refl.
  destruct v; try congruence; destruct A; reflexivity.
Qed.
Lemma method_param_null_refuted_l : exists sub A,
  method_param_accepts sub (Some (DGen "T")) [("T", A)] VNull = true /\ of_type sub VNull A = false.
Proof. exists (fun _ _ => false), CInt. split; reflexivity. Qed.
Lemma ctor_promoted_exact_l sub n A v : v <> VNull ->
  ctor_promoted_accepts sub (Some (DGen n)) [(n, A)] v = of_type sub v A.
Proof. exact (method_param_exact_l sub n A v). Qed.
Lemma ctor_promoted_null_refuted_l : exists sub A,
  ctor_promoted_accepts sub (Some (DGen "T")) [("T", A)] VNull = true /\ of_type sub VNull A = false.
Proof. exact method_param_null_refuted_l. Qed.

(* null given to a typed parameter inside a history: the model (the code) accepts, the reference semantics
   does not — the unconditional refinement statement is refuted *)
Lemma history_null_refuted_l : exists sub tbl h, wf_tbl tbl = true /\
  snd (run sub get_property (init tbl) h) <> spec_run sub tbl [] h.
Proof.
  exists (fun _ _ => false),
         [("Box", {| g_params := ["T"]; g_props := []; g_meths := [("chk", Some (DGen "T"))]; g_ctor := None |})],
         [ONew "Box" [CInt]; OCall 0 "chk" VNull].
  split; [reflexivity|]. vm_compute. discriminate.
Qed.
