(* C09 — refutation witnesses for the code before the fix (KNOWN_FINDINGS: fixed acbc458) and non-vacuity. *)
From V.C09 Require Import Spec Model ProofsA ProofsB ProofsC ProofsD.

(* BEFORE the fix (no lock): S reads closed=false and stops at the yield point; C closes; S sends: panic *)
Example no_crash_refuted_check_then_send :
  crashed (run false (init 1 [[OSend]; [OClose]]) [0; 0; 1; 1; 1; 1; 0]) = true.
Proof. reflexivity. Qed.
(* BEFORE the fix: a sender parked on a full (here: unbuffered) channel is woken by the close: panic *)
Example no_crash_refuted_parked_sender :
  crashed (run false (init 0 [[OSend]; [OClose]]) [0; 0; 0; 1; 1; 1; 1; 0]) = true.
Proof. reflexivity. Qed.
(* the same programs and schedules with the code as it is now *)
Example fixed_same_schedules :
  crashed (run true (init 1 [[OSend]; [OClose]]) [0; 0; 1; 1; 1; 1; 0]) = false /\
  crashed (run true (init 0 [[OSend]; [OClose]]) [0; 0; 0; 1; 1; 1; 1; 0]) = false.
Proof. repeat split. Qed.

(* non-vacuity: two producers, one consumer, a closer; values really flow, a late send fails, the
   consumer drains and then gets null *)
Definition demo := run true (init 1 [[OSend; OSend; OSend]; [OSend]; [ORecv; ORecv; ORecv; ORecv; ORecv]; [OClose]])
  [0;0;0;0; 1;1;1; 2; 1;1; 0;0;0; 2; 0;0; 3;3;3;3;3; 0;0;0;0; 2;2;2; 2].
Example demo_results :
  map results (thr demo) =
  [ [RSent true; RSent true; RSent false]; [RSent true];
    [RRecv (Some (0,0)); RRecv (Some (1,0)); RRecv (Some (0,1)); RRecv None; RRecv None]; [RClosed] ] /\
  received demo = [(0,0); (1,0); (0,1)] /\ sent_ok demo = [(0,0); (0,1); (1,0)] /\ sent_failed demo = [(0,2)] /\
  in_flight demo = [] /\ cclosed (ch demo) = true /\ crashed demo = false.
Proof. vm_compute. repeat split. Qed.

(* hypotheses of the after-close theorems are reachable: closed with a value still buffered, a receiver idle *)
Definition demo2 := run true (init 2 [[OSend]; [OClose]; [ORecv; ORecv]; [OSend]]) [0;0;0;0; 1;1;1;1;1; 3].
Example after_close_hyps :
  cclosed (ch demo2) = true /\ buf (ch demo2) = [(0,0)] /\
  (exists t, nth_error (thr demo2) 2 = Some t /\ pc t = Idle /\ prog t = [ORecv; ORecv]) /\
  (exists t, nth_error (thr demo2) 3 = Some t /\ pc t = SLocked).
Proof. vm_compute. repeat split; eexists; repeat split. Qed.

(* audit finding 1: with IsClosed under the read lock (fix acbc458 as first committed) the consumer
   `isClosed(); receive()` blocked behind the pending Close while the sender was parked: all three stuck although a
   receiver existed.  With the lock-free IsClosed (162a167) the same programs and schedule run to completion. *)
Example consumer_polling_isclosed_completes :
  let s := run true (init 0 [[OSend]; [OClose]; [OIsClosed; ORecv]]) [0;0;0; 1;1; 2;2; 0;0; 1;1;1;1] in
  map results (thr s) = [[RSent true]; [RClosed]; [RIs false; RRecv (Some (0,0))]] /\ crashed s = false.
Proof. vm_compute. split; reflexivity. Qed.
(* deadlock_shape's hypotheses are reachable: both shapes *)
Example deadlock_receivers_starving :
  let s := run true (init 1 [[ORecv]; [ORecv; OSend]]) [0; 1] in
  (forall i, (i < 2)%nat -> step true s i = None) /\ sendq (ch s) = [].
Proof. vm_compute. split; [intros [|[|i]] H; try reflexivity; exfalso; inversion H as [|? H1]; inversion H1 as [|? H2]; inversion H2|reflexivity]. Qed.
Example deadlock_senders_stuck :
  let s := run true (init 0 [[OSend]; [OClose]; [OSend]]) [0;0;0; 1; 2] in
  step true s 0 = None /\ step true s 1 = None /\ step true s 2 = None /\ sendq (ch s) = [(0, (0, 0))].
Proof. vm_compute. repeat split. Qed.
(* Len counts buffered values only; Cap is the capacity *)
Example len_cap :
  map results (thr (run true (init 2 [[OSend; OSend; OLen; OCap; OIsClosed]]) [0;0;0;0; 0;0;0;0; 0; 0; 0]))
  = [[RSent true; RSent true; RNum 2; RNum 2; RIs false]].
Proof. reflexivity. Qed.
