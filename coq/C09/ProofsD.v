(* C09 — deadlocks: what a state in which no thread can move looks like.  Pure case analysis on `step`
   (no invariant needed beyond "not crashed"): the wrapper's lock never stops a thread that wants to receive
   or to query (IsClosed/Len/Cap), so the only global deadlocks are those of the channel program itself. *)
From Coq Require Import Lia.
From V.C09 Require Import Spec Model ProofsA.

Definition cur (t : thread) : option op := hd_error (prog t).

Lemma existsb_nth (f : thread -> bool) l : existsb f l = true -> exists j tj, nth_error l j = Some tj /\ f tj = true.
Proof.
  intros H. apply existsb_exists in H as (x & I & F). apply In_nth_error in I as (j & Hj). eauto.
Qed.

(* what blocks a single thread *)
Lemma blocked_thread s i t :
  crashed s = false -> nth_error (thr s) i = Some t -> step true s i = None -> prog t <> [] ->
  (pc t = Idle /\ cur t = Some ORecv /\ buf (ch s) = [] /\ sendq (ch s) = [] /\ cclosed (ch s) = false) \/
  (pc t = SParked /\ in_sendq i (sendq (ch s)) = true) \/
  (pc t = CWait /\ existsb (fun u => holds_any (pc u)) (thr s) = true) \/
  (pc t = Idle /\ (cur t = Some OSend \/ cur t = Some OClose) /\ existsb (fun u => pending_w (pc u)) (thr s) = true).
Proof.
  intros C T S P. unfold step in S. rewrite C, T in S. unfold cur.
  destruct (pc t) eqn:Pc.
  - destruct (prog t) as [|o rest] eqn:G; [congruence|]. destruct o; simpl in *.
    + right; right; right. destruct (existsb _ (thr s)) eqn:E; [auto|discriminate].
    + left. destruct (buf (ch s)); [|destruct (sendq (ch s)) as [|[? ?] ?]; discriminate].
      destruct (sendq (ch s)) as [|[? ?] ?]; [|discriminate]. destruct (cclosed (ch s)); [discriminate|]. auto.
    + right; right; right. destruct (existsb _ (thr s)) eqn:E; [auto|discriminate].
    + discriminate.
    + discriminate.
    + discriminate.
  - discriminate.
  - destruct (cclosed (ch s)); [discriminate|]. destruct (Nat.ltb _ _); discriminate.
  - right; left. destruct (in_sendq i (sendq (ch s))); [auto|discriminate].
  - discriminate.
  - right; right; left. simpl in S. destruct (existsb _ (thr s)) eqn:E; [auto|discriminate].
  - destruct (wclosed s); discriminate.
  - destruct (cclosed (ch s)); discriminate.
  - discriminate.
Qed.

(* a mid-operation thread always has its operation at the head of its program: needed to speak of "unfinished" *)
Definition unfinished (t : thread) : Prop := prog t <> [].

Lemma in_sendq_nonempty i q : in_sendq i q = true -> q <> [].
Proof. destruct q; simpl; [discriminate|discriminate]. Qed.

Lemma deadlock_shape_l s :
  crashed s = false -> (forall i, step true s i = None) ->
  (sendq (ch s) = [] /\ forall i t, nth_error (thr s) i = Some t -> unfinished t ->
       pc t = Idle /\ cur t = Some ORecv /\ buf (ch s) = [] /\ cclosed (ch s) = false)
  \/
  (sendq (ch s) <> [] /\ forall i t, nth_error (thr s) i = Some t -> unfinished t ->
       pc t = SParked \/ pc t = CWait \/ (pc t = Idle /\ (cur t = Some OSend \/ cur t = Some OClose))).
Proof.
  intros C B.
  (* a thread waiting for the lock leads, through the pending writer and the lock holder, to a parked sender *)
  assert (HOLD : existsb (fun u => holds_any (pc u)) (thr s) = true -> sendq (ch s) <> []).
  { intros E. apply existsb_nth in E as (j & tj & Tj & Hj).
    assert (Pj : prog tj <> [] \/ prog tj = []) by (destruct (prog tj); [right|left]; congruence).
    destruct Pj as [Pj|Pj].
    - destruct (blocked_thread s j tj C Tj (B j) Pj) as [(P & _)|[(P & Q)|[(P & _)|(P & _)]]];
        try (rewrite P in Hj; discriminate). eapply in_sendq_nonempty; eauto.
    - (* a finished thread holds nothing unless it is mid-operation, which a thread with an empty program never is
         in a blocked state: its step would be enabled *)
      pose proof (B j) as S. unfold step in S. rewrite C, Tj in S.
      destruct (pc tj) eqn:P; try discriminate; simpl in Hj; try discriminate.
      + destruct (cclosed (ch s)); [discriminate|]. destruct (Nat.ltb _ _); discriminate.
      + destruct (in_sendq j (sendq (ch s))) eqn:Q; [eapply in_sendq_nonempty; eauto|discriminate].
      + destruct (wclosed s); discriminate.
      + destruct (cclosed (ch s)); discriminate. }
  assert (PEND : existsb (fun u => pending_w (pc u)) (thr s) = true -> sendq (ch s) <> []).
  { intros E. apply existsb_nth in E as (j & tj & Tj & Hj).
    pose proof (B j) as S. unfold step in S. rewrite C, Tj in S.
    destruct (pc tj) eqn:P; simpl in Hj; try discriminate.
    - (* CWait *) simpl in S. destruct (existsb (fun u => holds_any (pc u)) (thr s)) eqn:E; [apply HOLD; auto|discriminate].
    - destruct (wclosed s); discriminate.
    - destruct (cclosed (ch s)); discriminate. }
  destruct (sendq (ch s)) as [|e q] eqn:Q.
  - left. split; auto. intros i t T U.
    destruct (blocked_thread s i t C T (B i) U) as [(P & Cu & Bf & _ & Cl)|[(P & X)|[(P & X)|(P & _ & X)]]]; auto.
    + rewrite Q in X. discriminate.
    + exfalso. apply (HOLD X). reflexivity.
    + exfalso. apply (PEND X). reflexivity.
  - right. split; [discriminate|]. intros i t T U.
    destruct (blocked_thread s i t C T (B i) U) as [(P & Cu & Bf & Sq & Cl)|[(P & X)|[(P & X)|(P & Y & X)]]]; auto.
    rewrite Q in Sq. discriminate.
Qed.

(* consequences worth naming: a thread whose next call is Receive is never kept waiting by the lock, and the
   query calls never wait at all *)
Lemma queries_never_block_l s i t o :
  crashed s = false -> nth_error (thr s) i = Some t -> pc t = Idle -> cur t = Some o ->
  (o = OIsClosed \/ o = OLen \/ o = OCap) -> step true s i <> None.
Proof.
  intros C T P Cu O. unfold step. rewrite C, T, P. unfold cur in Cu. destruct (prog t) as [|o' r]; [discriminate|].
  simpl in Cu. inversion Cu; subst o'. destruct O as [->|[->| ->]]; discriminate.
Qed.
Lemma recv_waits_only_for_data_l s i t :
  crashed s = false -> nth_error (thr s) i = Some t -> pc t = Idle -> cur t = Some ORecv ->
  step true s i = None -> buf (ch s) = [] /\ sendq (ch s) = [] /\ cclosed (ch s) = false.
Proof.
  intros C T P Cu S. assert (U : prog t <> []) by (unfold cur in Cu; destruct (prog t); [discriminate|congruence]).
  destruct (blocked_thread s i t C T S U) as [(_ & _ & A & B & D)|[(X & _)|[(X & _)|(_ & [Y|Y] & _)]]]; auto; congruence.
Qed.

(* ---------------------------------------------------------------- a Close that has returned *)
(* once some Close call has returned (or is about to: CUnlock) the `closed` flag is set — so every Send whose
   check happens afterwards reports false *)
Definition close_seen (s : state) : Prop :=
  forall i t, nth_error (thr s) i = Some t -> (In RClosed (results t) \/ pc t = CUnlock) -> wclosed s = true.

Lemma wclosed_mono lk s i s' : step lk s i = Some s' -> wclosed s = true -> wclosed s' = true.
Proof.
  unfold step. intros E W.
  repeat match type of E with
         | context [match ?x with _ => _ end] => destruct x eqn:?
         | context [if ?x then _ else _] => destruct x eqn:?
         end; try discriminate; inversion E; subst; simpl; auto.
Qed.

Lemma close_seen_step s i s' : InvA s -> close_seen s -> step true s i = Some s' -> close_seen s'.
Proof.
  intros IA CS ST j tj Hj Cond.
  destruct (Bool.bool_dec (wclosed s) true) as [W|W]; [eapply wclosed_mono; eauto|].
  (* the flag was not set before this step: nobody had RClosed / CUnlock before, so thread i produced it now *)
  assert (OLD : forall a ta, nth_error (thr s) a = Some ta -> ~ (In RClosed (results ta) \/ pc ta = CUnlock)).
  { intros a ta Ha X. apply W. eapply CS; eauto. }
  revert ST. unfold step. rewrite (A_nocrash _ IA). destruct (nth_error (thr s) i) as [t|] eqn:Ti; [|discriminate].
  assert (OT := OLD _ _ Ti).
  assert (KEEP : forall t' s2, thr s2 = updt (thr s) i t' -> (In RClosed (results t') \/ pc t' = CUnlock -> wclosed s2 = true) ->
            nth_error (thr s2) j = Some tj -> wclosed s2 = true).
  { intros t' s2 E K Hj2. rewrite E in Hj2. destruct (nth_updt_inv _ _ _ _ _ _ Ti Hj2) as [[-> ->]|[N Hj']]; auto.
    exfalso. eapply OLD; eauto. }
  destruct (pc t) eqn:Pc.
  - destruct (prog t) as [|[] ?] eqn:G; try discriminate; simpl;
      try (destruct (existsb _ (thr s)); [discriminate|]);
      try (intros E; inversion E; subst s'; eapply KEEP; [reflexivity| |exact Hj]; simpl;
           intros [X|X]; [try (apply in_app_or in X as [X|[X|[]]]; try discriminate); exfalso; apply OT; auto|discriminate]).
    destruct (buf (ch s)); destruct (sendq (ch s)) as [|[? ?] ?]; try (destruct (cclosed (ch s))); try discriminate;
      intros E; inversion E; subst s'; (eapply KEEP; [reflexivity| |exact Hj]); simpl;
      intros [X|X]; try discriminate; apply in_app_or in X as [X|[X|[]]]; try discriminate; exfalso; apply OT; auto.
  - intros E; inversion E; subst s'. eapply KEEP; [reflexivity| |exact Hj]. simpl.
    intros [X|X]; [exfalso; apply OT; auto|destruct (wclosed s); discriminate].
  - destruct (cclosed (ch s)) eqn:CC.
    + destruct (A_nosend _ IA CC _ _ Ti) as [F _]. congruence.
    + destruct (Nat.ltb _ _); intros E; inversion E; subst s'; (eapply KEEP; [reflexivity| |exact Hj]); simpl;
        intros [X|X]; try discriminate; exfalso; apply OT; auto.
  - destruct (in_sendq i (sendq (ch s))).
    + destruct (cclosed (ch s)) eqn:CC; [|discriminate]. destruct (A_nosend _ IA CC _ _ Ti) as [_ F]. congruence.
    + intros E; inversion E; subst s'. eapply KEEP; [reflexivity| |exact Hj]. simpl.
      intros [X|X]; try discriminate; exfalso; apply OT; auto.
  - intros E; inversion E; subst s'. eapply KEEP; [reflexivity| |exact Hj]. simpl.
    intros [X|X]; try discriminate. apply in_app_or in X as [X|[X|[]]]; try discriminate. exfalso; apply OT; auto.
  - simpl. destruct (existsb _ (thr s)); [discriminate|]. intros E; inversion E; subst s'.
    eapply KEEP; [reflexivity| |exact Hj]. simpl. intros [X|X]; try discriminate; exfalso; apply OT; auto.
  - destruct (wclosed s) eqn:WW; [exfalso; apply W; reflexivity|]. intros E; inversion E; subst s'. reflexivity.
  - destruct (A_cchecked _ IA _ _ Ti Pc) as [_ WT]. congruence.
  - exfalso. apply OT. auto.
Qed.

Lemma close_seen_run sched : forall s, InvA s -> close_seen s -> close_seen (run true s sched).
Proof.
  induction sched as [|i r IH]; intros s IA CS; simpl; auto.
  destruct (step true s i) eqn:E; auto. apply IH; [eapply invA_step; eauto|eapply close_seen_step; eauto].
Qed.
Lemma close_seen_init c progs : close_seen (init c progs).
Proof.
  intros i t H. simpl in H. rewrite nth_error_map in H. destruct (nth_error progs i); inversion H; subst. simpl.
  intros [[]|X]; discriminate.
Qed.

(* a Send whose closed-check runs after some Close call has returned reports false *)
Lemma send_after_returned_close_l c progs sched i t j tj :
  let s := run true (init c progs) sched in
  nth_error (thr s) j = Some tj -> In RClosed (results tj) ->
  nth_error (thr s) i = Some t -> pc t = SLocked ->
  step true s i = Some (set_thr s i (goto t (SUnlock false))).
Proof.
  intros s Hj R Ti P.
  pose proof (close_seen_run sched _ (invA_init c progs) (close_seen_init c progs) j tj Hj (or_introl R)) as W.
  fold s in W. pose proof (A_nocrash _ (invA_run sched _ (invA_init c progs))) as C. fold s in C.
  unfold step. rewrite C, Ti, P, W. reflexivity.
Qed.
