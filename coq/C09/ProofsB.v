(* C09 — the channel is one FIFO queue: accepted = received ++ buffer ++ parked senders (for the locked and
   the unlocked code alike). *)
From Coq Require Import Lia.
From V.C09 Require Import Spec Model ProofsA.

Record InvB (s : state) : Prop := {
  B_fifo : accepted s = (received s ++ buf (ch s) ++ map snd (sendq (ch s)))%list;
  B_cap : List.length (buf (ch s)) <= cap (ch s);
  B_full : sendq (ch s) <> [] -> List.length (buf (ch s)) = cap (ch s)
}.

Lemma invB_init c progs : InvB (init c progs).
Proof. constructor; simpl; auto; try lia. congruence. Qed.

Lemma invB_same s s' : InvB s -> ch s' = ch s -> accepted s' = accepted s -> received s' = received s -> InvB s'.
Proof. intros [F C U] E1 E2 E3. constructor; rewrite ?E1, ?E2, ?E3; auto. Qed.
Lemma invB_flag s s' : InvB s -> buf (ch s') = buf (ch s) -> cap (ch s') = cap (ch s) -> sendq (ch s') = sendq (ch s) ->
  accepted s' = accepted s -> received s' = received s -> InvB s'.
Proof. intros [F C U] E1 E2 E3 E4 E5. constructor; rewrite ?E1, ?E2, ?E3, ?E4, ?E5; auto. Qed.

Ltac fifo F := rewrite F; simpl; rewrite ?map_app; simpl; repeat rewrite <- app_assoc; simpl; repeat rewrite app_nil_r; try reflexivity.

Lemma invB_step lk s i s' : InvB s -> step lk s i = Some s' -> InvB s'.
Proof.
  intros IV. pose proof IV as [F C U]. unfold step. destruct (crashed s); [discriminate|].
  destruct (nth_error (thr s) i) as [t|] eqn:Ti; [|discriminate].
  destruct (pc t) eqn:Pc.
  - destruct (prog t) as [|[] rest] eqn:Pg; try discriminate.
    + destruct (lk && _); [discriminate|]. intros E; inversion E; subst. eapply invB_same; eauto.
    + destruct (buf (ch s)) as [|b rest'] eqn:B.
      * destruct (sendq (ch s)) as [|[j v] q] eqn:Q.
        -- destruct (cclosed (ch s)); [|discriminate]. intros E; inversion E; subst. eapply invB_same; eauto.
        -- intros E; inversion E; subst. constructor; simpl.
           ++ fifo F.
           ++ lia.
           ++ intros _. assert (X : (j, v) :: q <> []) by discriminate. specialize (U X). simpl in U. auto.
      * destruct (sendq (ch s)) as [|[j v] q] eqn:Q; intros E; inversion E; subst; constructor; simpl.
        -- fifo F.
        -- simpl in C. lia.
        -- congruence.
        -- fifo F.
        -- rewrite app_length. simpl in *. lia.
        -- intros _. assert (X : (j, v) :: q <> []) by discriminate. specialize (U X). rewrite app_length. simpl in *. lia.
    + destruct (lk && _); [discriminate|]. intros E; inversion E; subst. eapply invB_same; eauto.
    + intros E; inversion E; subst. eapply invB_same; eauto.
    + intros E; inversion E; subst. eapply invB_same; eauto.
    + intros E; inversion E; subst. eapply invB_same; eauto.
  - intros E; inversion E; subst. eapply invB_same; eauto.
  - destruct (cclosed (ch s)).
    + intros E; inversion E; subst. eapply invB_same; eauto.
    + destruct (Nat.ltb (List.length (buf (ch s))) (cap (ch s))) eqn:L; intros E; inversion E; subst; constructor; simpl.
      * apply Nat.ltb_lt in L.
        assert (Q : sendq (ch s) = []).
        { destruct (sendq (ch s)) eqn:Q; auto. assert (X : p :: l <> []) by discriminate. specialize (U X). lia. }
        rewrite Q in F. fifo F. rewrite Q. reflexivity.
      * apply Nat.ltb_lt in L. rewrite app_length. simpl. lia.
      * apply Nat.ltb_lt in L. intros X.
        destruct (sendq (ch s)) eqn:Q; [congruence|]. assert (Y : p :: l <> []) by discriminate. specialize (U Y). lia.
      * fifo F.
      * exact C.
      * intros _. apply Nat.ltb_ge in L. lia.
  - destruct (in_sendq i (sendq (ch s))).
    + destruct (cclosed (ch s)); [|discriminate]. intros E; inversion E; subst. eapply invB_same; eauto.
    + intros E; inversion E; subst. eapply invB_same; eauto.
  - intros E; inversion E; subst. eapply invB_same; eauto.
  - destruct (lk && _); [discriminate|]. intros E; inversion E; subst. eapply invB_same; eauto.
  - destruct (wclosed s); intros E; inversion E; subst; eapply invB_same; eauto.
  - destruct (cclosed (ch s)); intros E; inversion E; subst; [eapply invB_same; eauto|eapply invB_flag; eauto].
  - intros E; inversion E; subst. eapply invB_same; eauto.
Qed.

Lemma invB_run lk sched : forall s, InvB s -> InvB (run lk s sched).
Proof.
  induction sched as [|i r IH]; intros s IV; simpl; auto.
  destruct (step lk s i) eqn:E; auto. apply IH. eapply invB_step; eauto.
Qed.

Lemma channel_fifo_l lk c progs sched :
  let s := run lk (init c progs) sched in accepted s = (received s ++ in_flight s)%list.
Proof. intros s. apply (B_fifo _ (invB_run lk sched _ (invB_init c progs))). Qed.
