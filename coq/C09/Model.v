(* C09 — executable model of std/channel/channel.go: the wrapper's `closed` flag, its RWMutex, and
   the underlying Go chan, with every wrapper call decomposed into atomic steps in program order;
   any number of threads, each an arbitrary list of calls; schedules are lists of thread indices.
   No proofs here.

   ASSUMED (Go language semantics of chan, as the runtime implements them): a buffer of `cap` values and
   a queue of parked senders (sendq); a send enqueues when the buffer has room, otherwise the sender
   parks (cap 0: always parks until a receiver takes its value); a receive takes the buffer head and
   moves the first parked sender's value into the buffer, or takes directly from the first parked sender
   when the buffer is empty, or returns (zero,false) when closed and empty, or blocks; send on a closed
   channel panics, close of a closed channel panics, close with parked senders makes them panic.
   sync.RWMutex: a reader/writer lock.

   `lk = true` is the code as written today (fix commit, see DESIGN.md §9 C09): Send = RLock; read closed;
   [yield send.checked]; chan send; RUnlock — Close = Lock; read closed; closed = true;
   [yield close.checked]; close(chan); Unlock — IsClosed = one atomic read of `closed`, no lock (fix 162a167) —
   Receive: chan receive — Len / Cap: len(chan) / cap(chan), no lock.
   `lk = false` is the code before the fix (no lock steps), kept for the refutation witnesses.  Close's
   read of `closed` and its write `closed = true` are ONE step here: exact under the write lock (lk = true);
   for lk = false it under-approximates the old code (two closers could both pass the check), which
   still exhibits the crashes shown in Examples.v. *)
From V.C09 Require Export Spec.

Record chan := { buf : list msg; cap : nat; sendq : list (nat * msg); cclosed : bool }.

Inductive pcst :=
| Idle
| SLocked                 (* Send: read lock held, `closed` not read yet *)
| SChecked                (* Send: read closed = false; at yield point send.checked *)
| SParked                 (* Send: parked on the full channel *)
| SUnlock (ok : bool)     (* Send: about to RUnlock and return ok *)
| CWait                   (* Close: mu.Lock() called: the writer is announced (new readers are held back) and waits for the active readers to leave *)
| CLocked                 (* Close: write lock held *)
| CChecked                (* Close: closed = true written; at yield point close.checked *)
| CUnlock.

Record thread := { prog : list op; pc : pcst; results : list res }.
Record state := {
  ch : chan; wclosed : bool; thr : list thread; crashed : bool;
  (* ghost logs *)
  accepted : list msg;      (* messages the chan accepted (buffered or parked), in that order *)
  received : list msg       (* messages handed to receivers, in the order of the receive events *)
}.

Definition holds_r (p : pcst) : bool :=
  match p with SLocked | SChecked | SParked | SUnlock _ => true | _ => false end.
Definition holds_w (p : pcst) : bool := match p with CLocked | CChecked | CUnlock => true | _ => false end.
Definition holds_any (p : pcst) : bool := holds_r p || holds_w p.
(* sync.RWMutex gives a waiting writer preference: once Lock() has been called, RLock() calls block *)
Definition pending_w (p : pcst) : bool := match p with CWait => true | _ => holds_w p end.

Fixpoint updt (l : list thread) (i : nat) (t : thread) : list thread :=
  match l, i with [], _ => [] | _ :: r, O => t :: r | x :: r, S j => x :: updt r j t end.

Definition in_sendq (i : nat) (q : list (nat * msg)) : bool := existsb (fun e => Nat.eqb (fst e) i) q.

Definition set_thr (s : state) (i : nat) (t : thread) : state :=
  {| ch := ch s; wclosed := wclosed s; thr := updt (thr s) i t; crashed := crashed s;
     accepted := accepted s; received := received s |}.
Definition goto (t : thread) (p : pcst) : thread := {| prog := prog t; pc := p; results := results t |}.
Definition ret (t : thread) (r : res) : thread := {| prog := tl (prog t); pc := Idle; results := (results t ++ [r])%list |}.
Definition crash (s : state) : state :=
  {| ch := ch s; wclosed := wclosed s; thr := thr s; crashed := true; accepted := accepted s; received := received s |}.

(* one atomic step of thread i; None = blocked / finished / process already crashed *)
Definition step (lk : bool) (s : state) (i : nat) : option state :=
  if crashed s then None else
  match nth_error (thr s) i with
  | None => None
  | Some t =>
    let c := ch s in
    match pc t with
    | Idle =>
      match prog t with
      | [] => None
      | OSend :: _ =>
          if lk && existsb (fun u => pending_w (pc u)) (thr s) then None else Some (set_thr s i (goto t SLocked))
      | OClose :: _ =>
          (* writers queue on the RWMutex's inner mutex *)
          if lk && existsb (fun u => pending_w (pc u)) (thr s) then None else Some (set_thr s i (goto t CWait))
      | OIsClosed :: _ => Some (set_thr s i (ret t (RIs (wclosed s))))       (* atomic load, never blocks *)
      | OLen :: _ => Some (set_thr s i (ret t (RNum (List.length (buf c)))))  (* len(chan): buffered values only *)
      | OCap :: _ => Some (set_thr s i (ret t (RNum (cap c))))
      | ORecv :: _ =>
          match buf c with
          | b :: rest =>
              let c' := match sendq c with
                        | (_, v) :: q => {| buf := (rest ++ [v])%list; cap := cap c; sendq := q; cclosed := cclosed c |}
                        | [] => {| buf := rest; cap := cap c; sendq := []; cclosed := cclosed c |}
                        end in
              Some {| ch := c'; wclosed := wclosed s; thr := updt (thr s) i (ret t (RRecv (Some b))); crashed := false;
                      accepted := accepted s; received := (received s ++ [b])%list |}
          | [] =>
              match sendq c with
              | (_, v) :: q =>
                  Some {| ch := {| buf := []; cap := cap c; sendq := q; cclosed := cclosed c |};
                          wclosed := wclosed s; thr := updt (thr s) i (ret t (RRecv (Some v))); crashed := false;
                          accepted := accepted s; received := (received s ++ [v])%list |}
              | [] => if cclosed c then Some (set_thr s i (ret t (RRecv None))) else None
              end
          end
      end
    | SLocked => Some (set_thr s i (goto t (if wclosed s then SUnlock false else SChecked)))
    | SChecked =>
        let m := (i, List.length (results t)) in
        if cclosed c then Some (crash s)                       (* panic: send on closed channel *)
        else if Nat.ltb (List.length (buf c)) (cap c) then
          Some {| ch := {| buf := (buf c ++ [m])%list; cap := cap c; sendq := sendq c; cclosed := false |};
                  wclosed := wclosed s; thr := updt (thr s) i (goto t (SUnlock true)); crashed := false;
                  accepted := (accepted s ++ [m])%list; received := received s |}
        else
          Some {| ch := {| buf := buf c; cap := cap c; sendq := (sendq c ++ [(i, m)])%list; cclosed := false |};
                  wclosed := wclosed s; thr := updt (thr s) i (goto t SParked); crashed := false;
                  accepted := (accepted s ++ [m])%list; received := received s |}
    | SParked =>
        if in_sendq i (sendq c) then (if cclosed c then Some (crash s) else None)   (* woken by close: panic *)
        else Some (set_thr s i (goto t (SUnlock true)))
    | SUnlock ok => Some (set_thr s i (ret t (RSent ok)))
    | CWait => if lk && existsb (fun u => holds_any (pc u)) (thr s) then None else Some (set_thr s i (goto t CLocked))
    | CLocked =>
        if wclosed s then Some (set_thr s i (goto t CUnlock))
        else Some {| ch := c; wclosed := true; thr := updt (thr s) i (goto t CChecked); crashed := false;
                     accepted := accepted s; received := received s |}
    | CChecked =>
        if cclosed c then Some (crash s)                       (* panic: close of closed channel *)
        else Some {| ch := {| buf := buf c; cap := cap c; sendq := sendq c; cclosed := true |};
                     wclosed := wclosed s; thr := updt (thr s) i (goto t CUnlock); crashed := false;
                     accepted := accepted s; received := received s |}
    | CUnlock => Some (set_thr s i (ret t RClosed))
    end
  end.

Fixpoint run (lk : bool) (s : state) (sched : list nat) : state :=
  match sched with
  | [] => s
  | i :: r => match step lk s i with Some s' => run lk s' r | None => run lk s r end
  end.

Definition init (capacity : nat) (progs : list (list op)) : state :=
  {| ch := {| buf := []; cap := capacity; sendq := []; cclosed := false |}; wclosed := false; crashed := false;
     thr := map (fun p => {| prog := p; pc := Idle; results := [] |}) progs; accepted := []; received := [] |}.

(* what an execution exposes (Spec.v's vocabulary) *)
Definition in_flight (s : state) : list msg := (buf (ch s) ++ map snd (sendq (ch s)))%list.
Fixpoint sends_of (i : nat) (k : nat) (rs : list res) (want : bool) : list msg :=
  match rs with
  | [] => []
  | RSent ok :: r => (if Bool.eqb ok want then [(i, k)] else []) ++ sends_of i (S k) r want
  | _ :: r => sends_of i (S k) r want
  end%list.
Fixpoint sent_all (i : nat) (ts : list thread) (want : bool) : list msg :=
  match ts with [] => [] | t :: r => (sends_of i 0 (results t) want ++ sent_all (S i) r want)%list end.
Definition sent_ok (s : state) : list msg := sent_all 0 (thr s) true.
Definition sent_failed (s : state) : list msg := sent_all 0 (thr s) false.

(* ---- macro-steps for the correspondence: run thread i until its next gate (yield point or return),
   or until it blocks *)
Inductive status := AtYield (send : bool) | Returned (r : res) | Blocked | Crashed | Finished.
Definition at_gate (p : pcst) : bool := match p with Idle | SChecked | CChecked => true | _ => false end.
Fixpoint advance (lk : bool) (fuel : nat) (s : state) (i : nat) (moved : bool) : state * status :=
  match fuel with
  | O => (s, Blocked)
  | S f =>
      match nth_error (thr s) i with
      | None => (s, Finished)
      | Some t =>
          if moved && at_gate (pc t) then
            (s, match pc t with
                | SChecked => AtYield true
                | CChecked => AtYield false
                | _ => match rev (results t) with r :: _ => Returned r | [] => Finished end
                end)
          else match pc t, prog t with
               | Idle, [] => (s, Finished)
               | _, _ =>
                   match step lk s i with
                   | None => (s, Blocked)
                   | Some s' => if crashed s' then (s', Crashed) else advance lk f s' i true
                   end
               end
      end
  end.
