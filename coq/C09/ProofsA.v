(* C09 — safety invariant of the locked model: no crash, mutual exclusion, closed flags coherent. *)
From Coq Require Import Lia.
From V.C09 Require Import Spec Model.

Lemma nth_updt_same l i t x : nth_error l i = Some x -> nth_error (updt l i t) i = Some t.
Proof. revert i; induction l as [|y l IH]; intros [|i] H; simpl in *; try discriminate; auto. Qed.
Lemma nth_updt_other l i j t : i <> j -> nth_error (updt l i t) j = nth_error l j.
Proof. revert i j; induction l as [|y l IH]; intros [|i] [|j] H; simpl; auto; try lia. Qed.
Lemma updt_length l i t : List.length (updt l i t) = List.length l.
Proof. revert i; induction l; intros [|i]; simpl; auto. Qed.
Lemma nth_updt_inv l i t x j tj : nth_error l i = Some x -> nth_error (updt l i t) j = Some tj ->
  (j = i /\ tj = t) \/ (j <> i /\ nth_error l j = Some tj).
Proof.
  intros Hi Hj. destruct (Nat.eq_dec j i) as [->|N].
  - rewrite (nth_updt_same _ _ _ _ Hi) in Hj. left; split; congruence.
  - rewrite nth_updt_other in Hj by auto. right; auto.
Qed.
Lemma existsb_false_nth (f : thread -> bool) l i t : existsb f l = false -> nth_error l i = Some t -> f t = false.
Proof.
  intros E H. destruct (f t) eqn:F; auto.
  assert (existsb f l = true) by (apply existsb_exists; exists t; split; auto; eapply nth_error_In; eauto). congruence.
Qed.

Record InvA (s : state) : Prop := {
  A_nocrash : crashed s = false;
  A_mutex : forall i j ti tj, i <> j -> nth_error (thr s) i = Some ti -> nth_error (thr s) j = Some tj ->
              holds_w (pc ti) = true -> holds_any (pc tj) = false;
  A_cw : cclosed (ch s) = true -> wclosed s = true;
  A_nosend : cclosed (ch s) = true -> forall i t, nth_error (thr s) i = Some t -> pc t <> SChecked /\ pc t <> SParked;
  A_cchecked : forall i t, nth_error (thr s) i = Some t -> pc t = CChecked -> cclosed (ch s) = false /\ wclosed s = true
}.

Lemma invA_init c progs : InvA (init c progs).
Proof.
  assert (N : forall i t, nth_error (thr (init c progs)) i = Some t -> pc t = Idle).
  { intros i t H. simpl in H. rewrite nth_error_map in H. destruct (nth_error progs i); inversion H; reflexivity. }
  constructor; simpl; auto; try discriminate.
  - intros i j ti tj _ Hi _ W. rewrite (N _ _ Hi) in W. discriminate.
  - intros i t H E. rewrite (N _ _ H) in E. discriminate.
Qed.

(* a step that only moves thread i from pc p to pc p' (flags and chan untouched) *)
Lemma invA_move s i t p' :
  InvA s -> nth_error (thr s) i = Some t ->
  (* lock class: either unchanged, or released entirely, or acquired with the guard checked *)
  (holds_w p' = true -> holds_w (pc t) = true \/ forall j tj, nth_error (thr s) j = Some tj -> holds_any (pc tj) = false) ->
  (holds_r p' = true -> holds_r (pc t) = true \/ forall j tj, nth_error (thr s) j = Some tj -> holds_w (pc tj) = false) ->
  (p' = SChecked -> wclosed s = false) ->
  (p' = SParked -> False) ->
  (p' = CChecked -> False) ->
  forall t', pc t' = p' -> InvA (set_thr s i t').
Proof.
  intros IV Ti HW HR HS HP HC t' Pt.
  constructor; simpl; try apply IV.
  - intros a b ta tb N Ha Hb Wa.
    destruct (nth_updt_inv _ _ _ _ _ _ Ti Ha) as [[-> ->]|[Na Ha']];
    destruct (nth_updt_inv _ _ _ _ _ _ Ti Hb) as [[-> ->]|[Nb Hb']]; try congruence.
    + rewrite Pt in Wa. destruct (HW Wa) as [W|W].
      * eapply (A_mutex _ IV i b); eauto.
      * eapply W; eauto.
    + rewrite Pt. unfold holds_any. destruct (holds_w p') eqn:W'; [|destruct (holds_r p') eqn:R'; auto].
      * destruct (HW eq_refl) as [W|W].
        -- pose proof (A_mutex _ IV a i ta t Na Ha' Ti Wa) as F. unfold holds_any in F. rewrite W in F.
           rewrite orb_true_r in F. discriminate.
        -- pose proof (W _ _ Ha') as F. unfold holds_any in F. rewrite Wa, orb_true_r in F. discriminate.
      * destruct (HR eq_refl) as [R|R].
        -- pose proof (A_mutex _ IV a i ta t Na Ha' Ti Wa) as F. unfold holds_any in F. rewrite R in F. discriminate.
        -- rewrite (R _ _ Ha') in Wa. discriminate.
    + eapply (A_mutex _ IV a b); eauto.
  - intros C a ta Ha. destruct (nth_updt_inv _ _ _ _ _ _ Ti Ha) as [[-> ->]|[Na Ha']].
    + rewrite Pt. split; intro E.
      * pose proof (HS E). pose proof (A_cw _ IV C). congruence.
      * exact (HP E).
    + eapply (A_nosend _ IV); eauto.
  - intros a ta Ha Pa. destruct (nth_updt_inv _ _ _ _ _ _ Ti Ha) as [[-> ->]|[Na Ha']].
    + rewrite Pt in Pa. destruct (HC Pa).
    + eapply (A_cchecked _ IV); eauto.
Qed.

Lemma invA_step s i s' : InvA s -> step true s i = Some s' -> InvA s'.
Proof.
  intros IV. unfold step. rewrite (A_nocrash _ IV).
  destruct (nth_error (thr s) i) as [t|] eqn:Ti; [|discriminate].
  destruct (pc t) eqn:Pc.
  - (* Idle *)
    destruct (prog t) as [|[] rest] eqn:Pg; try discriminate.
    + (* OSend *) simpl. destruct (existsb (fun u => pending_w (pc u)) (thr s)) eqn:G; [discriminate|].
      intros E; inversion E; subst s'. eapply (invA_move s i t SLocked); eauto; try discriminate.
      intros _. right. intros j tj Hj. pose proof (existsb_false_nth _ _ _ _ G Hj) as F. simpl in F.
      unfold pending_w in F. destruct (pc tj); auto; discriminate.
    + (* ORecv *)
      assert (RCV : forall c' rcv r, InvA {| ch := c'; wclosed := wclosed s; thr := updt (thr s) i (ret t r); crashed := false;
                                              accepted := accepted s; received := rcv |} \/ True) by (intros; right; exact I).
      clear RCV.
      assert (GEN : forall c' rcv r, cclosed c' = cclosed (ch s) ->
                 InvA {| ch := c'; wclosed := wclosed s; thr := updt (thr s) i (ret t r); crashed := false;
                         accepted := accepted s; received := rcv |}).
      { intros c' rcv r CE. constructor; simpl; auto.
        - intros a b ta tb N Ha Hb Wa.
          destruct (nth_updt_inv _ _ _ _ _ _ Ti Ha) as [[-> ->]|[Na Ha']]; [discriminate|].
          destruct (nth_updt_inv _ _ _ _ _ _ Ti Hb) as [[-> ->]|[Nb Hb']]; [reflexivity|].
          eapply (A_mutex _ IV a b); eauto.
        - rewrite CE. apply (A_cw _ IV).
        - rewrite CE. intros C a ta Ha. destruct (nth_updt_inv _ _ _ _ _ _ Ti Ha) as [[-> ->]|[Na Ha']].
          + simpl. split; discriminate.
          + eapply (A_nosend _ IV); eauto.
        - rewrite CE. intros a ta Ha Pa. destruct (nth_updt_inv _ _ _ _ _ _ Ti Ha) as [[-> ->]|[Na Ha']].
          + discriminate.
          + eapply (A_cchecked _ IV); eauto. }
      destruct (buf (ch s)) as [|b rest'] eqn:B.
      * destruct (sendq (ch s)) as [|[j v] q] eqn:Q.
        -- destruct (cclosed (ch s)) eqn:C; [|discriminate]. intros E; inversion E; subst s'.
           unfold set_thr. specialize (GEN (ch s) (received s) (RRecv None) C).
           rewrite (A_nocrash _ IV). exact GEN.
        -- intros E; inversion E; subst s'. apply GEN. reflexivity.
      * destruct (sendq (ch s)) as [|[j v] q] eqn:Q; intros E; inversion E; subst s'; apply GEN; reflexivity.
    + (* OClose *) simpl. destruct (existsb (fun u => pending_w (pc u)) (thr s)); [discriminate|].
      intros E; inversion E; subst s'. eapply (invA_move s i t CWait); eauto; try discriminate.
    + (* OIsClosed *) intros E; inversion E; subst s'. eapply (invA_move s i t Idle); eauto; try discriminate.
    + (* OLen *) intros E; inversion E; subst s'. eapply (invA_move s i t Idle); eauto; try discriminate.
    + (* OCap *) intros E; inversion E; subst s'. eapply (invA_move s i t Idle); eauto; try discriminate.
  - (* SLocked *)
    intros E; inversion E; subst s'. destruct (wclosed s) eqn:W.
    + eapply (invA_move s i t (SUnlock false)); eauto; try discriminate; rewrite Pc; auto.
    + eapply (invA_move s i t SChecked); eauto; try discriminate; rewrite Pc; auto.
  - (* SChecked *)
    assert (NC : cclosed (ch s) = false).
    { destruct (cclosed (ch s)) eqn:C; auto. destruct (A_nosend _ IV C _ _ Ti) as [F _]. congruence. }
    rewrite NC.
    assert (GEN : forall c' acc p', cclosed c' = false -> (p' = SUnlock true \/ p' = SParked) ->
               InvA {| ch := c'; wclosed := wclosed s; thr := updt (thr s) i (goto t p'); crashed := false;
                       accepted := acc; received := received s |}).
    { intros c' acc p' CE PP. constructor; simpl; auto.
      - intros a b ta tb N Ha Hb Wa.
        destruct (nth_updt_inv _ _ _ _ _ _ Ti Ha) as [[-> ->]|[Na Ha']].
        + simpl in Wa. destruct PP as [-> | ->]; discriminate.
        + destruct (nth_updt_inv _ _ _ _ _ _ Ti Hb) as [[-> ->]|[Nb Hb']].
          * exfalso. pose proof (A_mutex _ IV a i ta t Na Ha' Ti Wa) as F. rewrite Pc in F. discriminate.
          * eapply (A_mutex _ IV a b); eauto.
      - rewrite CE. discriminate.
      - rewrite CE. discriminate.
      - rewrite CE. intros a ta Ha Pa. split; auto.
        destruct (nth_updt_inv _ _ _ _ _ _ Ti Ha) as [[-> ->]|[Na Ha']].
        + simpl in Pa. destruct PP as [-> | ->]; discriminate.
        + eapply (A_cchecked _ IV); eauto. }
    destruct (Nat.ltb (List.length (buf (ch s))) (cap (ch s))); intros E; inversion E; subst s'; apply GEN; auto.
  - (* SParked *)
    destruct (in_sendq i (sendq (ch s))).
    + destruct (cclosed (ch s)) eqn:C; [|discriminate].
      destruct (A_nosend _ IV C _ _ Ti) as [_ F]. congruence.
    + intros E; inversion E; subst s'. eapply (invA_move s i t (SUnlock true)); eauto; try discriminate; rewrite Pc; auto.
  - (* SUnlock *)
    intros E; inversion E; subst s'. eapply (invA_move s i t Idle); eauto; try discriminate.
  - (* CWait *)
    simpl. destruct (existsb (fun u => holds_any (pc u)) (thr s)) eqn:G; [discriminate|].
    intros E; inversion E; subst s'. eapply (invA_move s i t CLocked); eauto; try discriminate.
    intros _. right. intros j tj Hj. apply (existsb_false_nth _ _ _ _ G Hj).
  - (* CLocked *)
    destruct (wclosed s) eqn:W.
    + intros E; inversion E; subst s'. eapply (invA_move s i t CUnlock); eauto; try discriminate; rewrite Pc; auto.
    + intros E; inversion E; subst s'.
      assert (NC : cclosed (ch s) = false).
      { destruct (cclosed (ch s)) eqn:C; auto. pose proof (A_cw _ IV C). congruence. }
      constructor; simpl; auto.
      * intros a b ta tb N Ha Hb Wa.
        destruct (nth_updt_inv _ _ _ _ _ _ Ti Ha) as [[-> ->]|[Na Ha']];
        destruct (nth_updt_inv _ _ _ _ _ _ Ti Hb) as [[-> ->]|[Nb Hb']]; try congruence.
        -- eapply (A_mutex _ IV i b); eauto. rewrite Pc; reflexivity.
        -- exfalso. pose proof (A_mutex _ IV a i ta t Na Ha' Ti Wa) as F. rewrite Pc in F. discriminate.
        -- eapply (A_mutex _ IV a b); eauto.
      * rewrite NC. discriminate.
  - (* CChecked *)
    destruct (A_cchecked _ IV _ _ Ti Pc) as [NC WT]. rewrite NC.
    intros E; inversion E; subst s'.
    assert (OTH : forall a ta, a <> i -> nth_error (thr s) a = Some ta -> holds_any (pc ta) = false).
    { intros a ta Na Ha. eapply (A_mutex _ IV i a); eauto. rewrite Pc; reflexivity. }
    constructor; simpl; auto.
    + intros a b ta tb N Ha Hb Wa.
      destruct (nth_updt_inv _ _ _ _ _ _ Ti Ha) as [[-> ->]|[Na Ha']];
      destruct (nth_updt_inv _ _ _ _ _ _ Ti Hb) as [[-> ->]|[Nb Hb']]; try congruence.
      * eapply OTH; eauto.
      * exfalso. pose proof (OTH a ta Na Ha') as F. unfold holds_any in F. rewrite Wa, orb_true_r in F. discriminate.
      * eapply (A_mutex _ IV a b); eauto.
    + intros _ a ta Ha. destruct (nth_updt_inv _ _ _ _ _ _ Ti Ha) as [[-> ->]|[Na Ha']].
      * simpl. split; discriminate.
      * pose proof (OTH a ta Na Ha') as F. split; intro E'; rewrite E' in F; discriminate.
    + intros a ta Ha Pa. destruct (nth_updt_inv _ _ _ _ _ _ Ti Ha) as [[-> ->]|[Na Ha']].
      * discriminate.
      * pose proof (OTH a ta Na Ha') as F. rewrite Pa in F. discriminate.
  - (* CUnlock *)
    intros E; inversion E; subst s'. eapply (invA_move s i t Idle); eauto; try discriminate.
Qed.

Lemma invA_run sched : forall s, InvA s -> InvA (run true s sched).
Proof.
  induction sched as [|i r IH]; intros s IV; simpl; auto.
  destruct (step true s i) eqn:E; auto. apply IH. eapply invA_step; eauto.
Qed.

Lemma no_crash_l c progs sched : crashed (run true (init c progs) sched) = false.
Proof. apply A_nocrash. apply invA_run. apply invA_init. Qed.
