(* C09 — correspondence: replay the controlled-scheduler traces of the implementation in the model
   (macro-steps: a thread runs from one gate — op boundary or verif yield point — to the next, or
   blocks), and evaluate the property on the implementation's own events. *)
From Coq Require Import ZArith.
From V.C09 Require Import Spec Model.

Inductive obs := OY (send : bool) | OR (r : res) | OP.
Record round := { r_rel : nat; r_events : list (nat * obs); r_blocked : list nat }.
Record tcase := { t_cap : nat; t_progs : list (list op); t_rounds : list round; t_len : Z; t_anyblocked : bool }.

Definition res_eqb (a b : res) : bool :=
  match a, b with
  | RSent x, RSent y => Bool.eqb x y
  | RRecv None, RRecv None => true
  | RRecv (Some m), RRecv (Some n) => msg_eqb m n
  | RClosed, RClosed => true
  | RIs x, RIs y => Bool.eqb x y
  | RNum x, RNum y => Nat.eqb x y
  | _, _ => false
  end.
Definition status_match (st : status) (o : obs) : bool :=
  match st, o with
  | AtYield a, OY b => Bool.eqb a b
  | Returned r, OR r' => res_eqb r r'
  | Crashed, OP => true
  | _, _ => false
  end.
Definition mem (x : nat) (l : list nat) : bool := existsb (Nat.eqb x) l.
Definition remove1 (x : nat) (l : list nat) : list nat := filter (fun y => negb (Nat.eqb x y)) l.
Definition FUEL := 8.

(* among the pending events find one whose thread is mid-step and whose next macro-step in the model ends
   with exactly that observation *)
Fixpoint pick (s : state) (mid : list nat) (seen evs : list (nat * obs)) : option (state * nat * list (nat * obs)) :=
  match evs with
  | [] => None
  | (j, o) :: rest =>
      if mem j mid then
        let (s', st) := advance true FUEL s j false in
        if status_match st o then Some (s', j, (rev seen ++ rest)%list) else pick s mid ((j, o) :: seen) rest
      else pick s mid ((j, o) :: seen) rest
  end.
(* every released thread really runs as far as it can: the part of a macro-step before the point where the
   thread blocks (e.g. parking its value on the full channel) is applied before the others are tried *)
Fixpoint progress_all (s : state) (mid : list nat) : state :=
  match mid with
  | [] => s
  | j :: r => let (s', st) := advance true FUEL s j false in
              progress_all (match st with Blocked => s' | _ => s end) r
  end.
Fixpoint settle (fuel : nat) (s : state) (mid : list nat) (evs : list (nat * obs)) : option (state * list nat) :=
  match evs with
  | [] => Some (s, mid)
  | _ => match fuel with
         | O => None
         | S f => match pick (progress_all s mid) mid [] evs with
                  | Some (s', j, evs') => settle f s' (remove1 j mid) evs'
                  | None => None
                  end
         end
  end.
(* threads the implementation reports blocked must be blocked in the model (their partial progress,
   e.g. parking on the full channel, is applied) *)
Fixpoint all_blocked (s : state) (mid : list nat) : option state :=
  match mid with
  | [] => Some s
  | j :: r => let (s', st) := advance true FUEL s j false in
              match st with Blocked => all_blocked s' r | _ => None end
  end.
Definition same_set (a b : list nat) : bool := forallb (fun x => mem x b) a && forallb (fun x => mem x a) b.

Fixpoint replay (s : state) (mid : list nat) (rs : list round) : bool :=
  match rs with
  | [] => true
  | r :: rest =>
      if crashed s then true else      (* the model stops at a crash; so does the comparison *)
      let mid1 := r_rel r :: mid in
      match settle (S (List.length (r_events r))) s mid1 (r_events r) with
      | None => false
      | Some (s1, mid2) =>
          if crashed s1 then true else
          match all_blocked s1 mid2 with
          | None => false
          | Some s2 => same_set mid2 (r_blocked r) && replay s2 mid2 rest
          end
      end
  end.

(* ---- the property on the implementation's events alone *)
Definition events (c : tcase) : list (nat * obs) := flat_map r_events (t_rounds c).
Definition results_of (t : nat) (evs : list (nat * obs)) : list res :=
  flat_map (fun e => match e with (j, OR r) => if Nat.eqb j t then [r] else [] | _ => [] end) evs.
Definition received_of (evs : list (nat * obs)) : list msg :=
  flat_map (fun e => match e with (_, OR (RRecv (Some m))) => [m] | _ => [] end) evs.
Fixpoint nodupb (l : list msg) : bool :=
  match l with [] => true | x :: r => negb (existsb (msg_eqb x) r) && nodupb r end.
Fixpoint increasingb (l : list nat) : bool :=
  match l with a :: ((b :: _) as r) => Nat.ltb a b && increasingb r | _ => true end.
Definition op_is_send (o : option op) : bool := match o with Some OSend => true | _ => false end.

Definition no_panic (c : tcase) : bool := negb (existsb (fun e => match snd e with OP => true | _ => false end) (events c)).
Definition once_ok (c : tcase) : bool := nodupb (received_of (events c)).
Definition sent_really (c : tcase) : bool :=
  forallb (fun m => op_is_send (nth_error (nth (fst m) (t_progs c) []) (snd m)) &&
                    negb (match nth_error (results_of (fst m) (events c)) (snd m) with Some (RSent false) => true | _ => false end))
          (received_of (events c)).
Definition order_ok (c : tcase) : bool :=
  forallb (fun t => increasingb (map snd (from t (received_of (events c))))) (seq 0 (List.length (t_progs c))).
(* drained (Len() = 0, nobody blocked, every program finished or not): every successful send was received *)
Definition drained_ok (c : tcase) : bool :=
  if (Z.eqb (t_len c) 0 && negb (t_anyblocked c))%bool then
    forallb (fun t =>
      forallb (fun k => match nth_error (results_of t (events c)) k with
                        | Some (RSent true) => existsb (msg_eqb (t, k)) (received_of (events c))
                        | _ => true end) (seq 0 (List.length (nth t (t_progs c) []))))
      (seq 0 (List.length (t_progs c)))
  else true.
(* after a Close has returned no Send passes the closed-check any more (no `send.checked` yield, no success);
   a receive returns null only after a close has begun *)
Fixpoint after_close_ok (closed began : bool) (evs : list (nat * obs)) : bool :=
  match evs with
  | [] => true
  | (_, o) :: r =>
      match o with
      | OR RClosed => after_close_ok true began r
      | OY false => after_close_ok closed true r
      | OY true => negb closed && after_close_ok closed began r
      | OR (RRecv None) => began && after_close_ok closed began r
      | _ => after_close_ok closed began r
      end
  end.

(* deadlock oracle (deadlock_shape / queries_never_block on the implementation): walking the rounds with the number
   of calls every thread has completed, a thread whose current call is IsClosed/Len/Cap is never reported blocked;
   and in the LAST round (nothing releasable is left: the blocked threads are deadlocked) the blocked threads'
   current calls are either all Receive, or none of them is a Receive *)
Definition cur_op (c : tcase) (doneN : list nat) (t : nat) : option op := nth_error (nth t (t_progs c) []) (nth t doneN 0).
Fixpoint bump (l : list nat) (t : nat) : list nat :=
  match l, t with [], _ => [] | x :: r, O => S x :: r | x :: r, S j => x :: bump r j end.
Definition count_round (doneN : list nat) (r : round) : list nat :=
  fold_left (fun d e => match snd e with OR _ | OP => bump d (fst e) | OY _ => d end) (r_events r) doneN.
Definition is_query (o : option op) : bool := match o with Some OIsClosed | Some OLen | Some OCap => true | _ => false end.
Definition is_recv (o : option op) : bool := match o with Some ORecv => true | _ => false end.
Fixpoint deadlock_ok_from (c : tcase) (doneN : list nat) (rs : list round) : bool :=
  match rs with
  | [] => true
  | r :: rest =>
      let d := count_round doneN r in
      let ops := map (cur_op c d) (r_blocked r) in
      negb (existsb is_query ops) &&
      (match rest with
       | [] => forallb is_recv ops || negb (existsb is_recv ops)
       | _ => true
       end) && deadlock_ok_from c d rest
  end.
Definition deadlock_ok (c : tcase) : bool := deadlock_ok_from c (repeat 0 (List.length (t_progs c))) (t_rounds c).

(* failing clauses: 1 model/implementation disagree (tie), 2 panic (no_crash), 3 received twice / never sent
   (recv_at_most_once, recv_subset_sent), 4 per-sender order, 5 lost although drained, 6 after-close behaviour,
   7 a query call blocked / a deadlock that holds back a receiver (deadlock_shape) *)
Definition check_trace (c : tcase) : list nat :=
  ((if replay (init (t_cap c) (t_progs c)) [] (t_rounds c) then [] else [1]) ++
   (if no_panic c then [] else [2]) ++
   (if once_ok c && sent_really c then [] else [3]) ++
   (if order_ok c then [] else [4]) ++
   (if drained_ok c then [] else [5]) ++
   (if after_close_ok false false (events c) then [] else [6]) ++
   (if deadlock_ok c then [] else [7]))%list.

(* ---- free-running stress results: per thread the list of results (no global order known) *)
Record scase := { s_progs : list (list op); s_res : list (list obs) }.
Definition s_results (c : scase) (t : nat) : list res :=
  flat_map (fun o => match o with OR r => [r] | _ => [] end) (nth t (s_res c) []).
Definition s_received (c : scase) : list msg :=
  flat_map (fun l => flat_map (fun o => match o with OR (RRecv (Some m)) => [m] | _ => [] end) l) (s_res c).
(* clauses: 2 panic, 3 twice / never sent, 4 order (per receiving thread: one sender's values increase),
   5 all programs finished: every successful send whose value is not received => some receiver is missing it *)
Definition check_stress (c : scase) : list nat :=
  ((if existsb (fun l => existsb (fun o => match o with OP => true | _ => false end) l) (s_res c) then [2] else []) ++
   (if nodupb (s_received c) &&
       forallb (fun m => op_is_send (nth_error (nth (fst m) (s_progs c) []) (snd m)) &&
                         negb (match nth_error (s_results c (fst m)) (snd m) with Some (RSent false) => true | _ => false end))
               (s_received c) then [] else [3]) ++
   (if forallb (fun l =>
         let rc := flat_map (fun o => match o with OR (RRecv (Some m)) => [m] | _ => [] end) l in
         forallb (fun t => increasingb (map snd (from t rc))) (seq 0 (List.length (s_progs c)))) (s_res c)
    then [] else [4]) ++
   (* the run FINISHED (every program ran to its end: the closer closed, consumers drained until null): every
      value whose send reported success was received by somebody *)
   (if forallb (fun t =>
         forallb (fun k => match nth_error (s_results c t) k with
                           | Some (RSent true) => existsb (msg_eqb (t, k)) (s_received c)
                           | _ => true end) (seq 0 (List.length (nth t (s_progs c) []))))
       (seq 0 (List.length (s_progs c))) then [] else [5]))%list.
