(* C09 — the property, clause by clause.  Only statements; every proof is `exact lemma`.
   All theorems quantify over every channel capacity, every number of threads, every per-thread
   program of Send/Receive/Close/IsClosed calls and every schedule (list of thread indices) of the
   machine that interleaves the atomic steps of the wrapper (lock, flag read, chan operation, unlock). *)
From V.C09 Require Import Spec Model ProofsA ProofsB ProofsC ProofsD.

(* "no combination of concurrent send, receive and close crashes or corrupts the process":
   neither `send on closed channel` (close landing between a send's check and its chan send, or while a
   sender is parked) nor `close of closed channel` is reachable *)
Theorem no_crash : forall c progs sched, crashed (run true (init c progs) sched) = false.
Proof. exact no_crash_l. Qed.
Print Assumptions no_crash.

(* the channel is one FIFO queue: what it accepted = what was received (in receive order) followed by
   what it still holds (buffer, then parked senders) — with or without the lock *)
Theorem channel_is_fifo : forall lk c progs sched,
  let s := run lk (init c progs) sched in accepted s = (received s ++ in_flight s)%list.
Proof. exact channel_fifo_l. Qed.
Print Assumptions channel_is_fifo.

(* "every value whose send reported success is received exactly once": never twice ... *)
Theorem recv_at_most_once : forall c progs sched,
  let s := run true (init c progs) sched in at_most_once (received s) (in_flight s).
Proof. exact at_most_once_l. Qed.
Print Assumptions recv_at_most_once.
(* ... never lost: a successful send's value has been received or is still in the channel ... *)
Theorem sent_ok_not_lost : forall c progs sched,
  let s := run true (init c progs) sched in none_lost (sent_ok s) (received s) (in_flight s).
Proof. exact none_lost_l. Qed.
Print Assumptions sent_ok_not_lost.
(* ... so once the channel is drained every successful send has been received (exactly once) *)
Theorem exactly_once_when_drained : forall c progs sched,
  let s := run true (init c progs) sched in all_delivered_when_drained (sent_ok s) (received s) (in_flight s).
Proof. exact all_delivered_l. Qed.
Print Assumptions exactly_once_when_drained.

(* "values of one sender are received in the order sent" *)
Theorem per_sender_order : forall c progs sched,
  let s := run true (init c progs) sched in per_sender_fifo (received s) (in_flight s).
Proof. exact per_sender_fifo_l. Qed.
Print Assumptions per_sender_order.

(* "nothing is received that was not sent": a received value is not one whose send reported failure, and
   its sender really performed (or is completing) a Send at that position of its program *)
Theorem recv_subset_sent : forall c progs sched,
  let s := run true (init c progs) sched in nothing_invented (sent_failed s) (received s).
Proof. exact nothing_invented_l. Qed.
Theorem received_was_sent : forall c progs sched j k,
  let s := run true (init c progs) sched in In (j, k) (received s) ->
  exists t, nth_error (thr s) j = Some t /\
    (nth_error (results t) k = Some (RSent true) \/ (k = List.length (results t) /\ (pc t = SParked \/ pc t = SUnlock true))).
Proof. exact received_was_sent_l. Qed.
Print Assumptions recv_subset_sent.
Print Assumptions received_was_sent.

(* "After close, receivers drain what is buffered and then get null, send reports failure" *)
Theorem after_close : forall c progs sched,
  let s := run true (init c progs) sched in cclosed (ch s) = true ->
  wclosed s = true /\ sendq (ch s) = [] /\
  (forall i t, nth_error (thr s) i = Some t -> pc t <> SChecked /\ pc t <> SParked).
Proof. exact after_close_l. Qed.
Theorem after_close_send_fails : forall c progs sched i t,
  let s := run true (init c progs) sched in
  cclosed (ch s) = true -> nth_error (thr s) i = Some t -> pc t = SLocked ->
  step true s i = Some (set_thr s i (goto t (SUnlock false))).
Proof. exact after_close_send_l. Qed.
Theorem after_close_receive_drains : forall c progs sched i t rest,
  let s := run true (init c progs) sched in
  cclosed (ch s) = true -> nth_error (thr s) i = Some t -> pc t = Idle -> prog t = ORecv :: rest ->
  exists s', step true s i = Some s' /\
    nth_error (thr s') i = Some (ret t (RRecv (hd_error (buf (ch s))))) /\
    buf (ch s') = tl (buf (ch s)) /\ cclosed (ch s') = true.
Proof. exact after_close_recv_l. Qed.
Theorem closed_forever : forall lk sched s, cclosed (ch s) = true -> cclosed (ch (run lk s sched)) = true.
Proof. exact closed_forever_l. Qed.
Print Assumptions after_close.
Print Assumptions after_close_send_fails.
Print Assumptions after_close_receive_drains.
Print Assumptions closed_forever.

(* "no combination of concurrent send, receive and close ... corrupts the process", the deadlock side.
   A state in which NO thread can move (at script level: `fatal error: all goroutines are asleep`) has one of
   two shapes, and neither involves a thread whose next call is Receive, IsClosed, Len or Cap being held by
   the wrapper's lock: either every unfinished thread is a receiver starving on an empty, open channel with no
   parked sender; or some sender is parked on the full channel and every unfinished thread is a parked sender,
   a Close waiting for the parked senders, or a Send/Close queued behind that Close — nobody is left who
   would receive.  Both are deadlocks of the channel program itself (a raw Go chan blocks or panics there). *)
Theorem deadlock_shape : forall s, crashed s = false -> (forall i, step true s i = None) ->
  (sendq (ch s) = [] /\ forall i t, nth_error (thr s) i = Some t -> unfinished t ->
       pc t = Idle /\ cur t = Some ORecv /\ buf (ch s) = [] /\ cclosed (ch s) = false)
  \/
  (sendq (ch s) <> [] /\ forall i t, nth_error (thr s) i = Some t -> unfinished t ->
       pc t = SParked \/ pc t = CWait \/ (pc t = Idle /\ (cur t = Some OSend \/ cur t = Some OClose))).
Proof. exact deadlock_shape_l. Qed.
Print Assumptions deadlock_shape.
(* IsClosed / Len / Cap never wait; a Receive waits only for data *)
Theorem queries_never_block : forall s i t o,
  crashed s = false -> nth_error (thr s) i = Some t -> pc t = Idle -> cur t = Some o ->
  (o = OIsClosed \/ o = OLen \/ o = OCap) -> step true s i <> None.
Proof. exact queries_never_block_l. Qed.
Theorem recv_waits_only_for_data : forall s i t,
  crashed s = false -> nth_error (thr s) i = Some t -> pc t = Idle -> cur t = Some ORecv ->
  step true s i = None -> buf (ch s) = [] /\ sendq (ch s) = [] /\ cclosed (ch s) = false.
Proof. exact recv_waits_only_for_data_l. Qed.
Print Assumptions queries_never_block.
Print Assumptions recv_waits_only_for_data.

(* "send reports failure" after close, at the level of returned calls: once ANY Close call has returned,
   every Send whose closed-check runs from then on returns false (in every reachable state) *)
Theorem send_after_returned_close : forall c progs sched i t j tj,
  let s := run true (init c progs) sched in
  nth_error (thr s) j = Some tj -> In RClosed (results tj) ->
  nth_error (thr s) i = Some t -> pc t = SLocked ->
  step true s i = Some (set_thr s i (goto t (SUnlock false))).
Proof. exact send_after_returned_close_l. Qed.
Print Assumptions send_after_returned_close.
