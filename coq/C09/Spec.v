(* C09 — Channel delivers each value exactly once, in sender order, under any schedule.
   This file: the vocabulary and the property as predicates over what an execution exposes
   (what was sent with which answer, what was received in which order, whether anything crashed),
   independent of the model's state. *)
From Coq Require Export List Arith Bool.
Export ListNotations.

(* a message is identified by its sender and the position of the send in the sender's program, so
   all messages are distinct: "exactly once" is meaningful *)
Definition msg := (nat * nat)%type.
Definition msg_eqb (a b : msg) : bool := Nat.eqb (fst a) (fst b) && Nat.eqb (snd a) (snd b).

Inductive op := OSend | ORecv | OClose | OIsClosed | OLen | OCap.
Inductive res :=
| RSent (ok : bool)            (* Send returned ok *)
| RRecv (m : option msg)       (* Receive returned (m, true) or (nil, false) *)
| RClosed                      (* Close returned *)
| RIs (b : bool)               (* IsClosed returned b *)
| RNum (n : nat).              (* Len / Cap returned n *)

Definition from (t : nat) (l : list msg) : list msg := filter (fun m => Nat.eqb (fst m) t) l.
Fixpoint increasing (l : list nat) : Prop :=
  match l with
  | a :: ((b :: _) as r) => a < b /\ increasing r
  | _ => True
  end.

Section Property.
  (* sent_ok : the messages whose Send returned true so far; sent_failed : those whose Send returned false;
     received : the messages handed to receivers, in the order the receives happened;
     in_flight : what the channel still holds *)
  Variables (sent_ok sent_failed received in_flight : list msg).

  (* "nothing is received that was not sent" and "every value whose send reported success is received
     exactly once": a successful send's message is either already received or still in the channel, and
     no message is received twice; when the channel is drained every successful send has been received *)
  Definition nothing_invented : Prop := forall m, In m received -> ~ In m sent_failed.
  Definition at_most_once : Prop := NoDup (received ++ in_flight).
  Definition none_lost : Prop := forall m, In m sent_ok -> In m (received ++ in_flight).
  Definition all_delivered_when_drained : Prop := in_flight = [] -> forall m, In m sent_ok -> In m received.
  (* "values of one sender are received in the order sent" *)
  Definition per_sender_fifo : Prop := forall t, increasing (map snd (from t (received ++ in_flight))).
End Property.
