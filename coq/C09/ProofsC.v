(* C09 — bookkeeping invariant: which messages are in the channel, which sends returned what;
   exactly-once, nothing invented, per-sender order, after-close behaviour. *)
From Coq Require Import Lia Sorted.
From V.C09 Require Import Spec Model ProofsA ProofsB.

Definition Tn (s : state) (i : nat) (t : thread) : Prop := nth_error (thr s) i = Some t.
Definition seq_ok (i : nat) (t : thread) (acc : list msg) : Prop :=
  forall k, In (i, k) acc ->
    (k < List.length (results t) /\ nth_error (results t) k = Some (RSent true)) \/
    (k = List.length (results t) /\ (pc t = SParked \/ pc t = SUnlock true)).

Record InvC (s : state) : Prop := {
  C_seq : forall j k, In (j, k) (accepted s) -> exists t, Tn s j t /\ seq_ok j t (accepted s);
  C_sendq : forall j m, In (j, m) (sendq (ch s)) -> exists t, Tn s j t /\ pc t = SParked /\ m = (j, List.length (results t));
  C_unlock : forall i t, Tn s i t -> pc t = SUnlock true -> In (i, List.length (results t)) (received s ++ buf (ch s));
  C_parked : forall i t, Tn s i t -> pc t = SParked -> In (i, List.length (results t)) (accepted s);
  C_ok : forall i t k, Tn s i t -> nth_error (results t) k = Some (RSent true) -> In (i, k) (received s ++ buf (ch s));
  C_nodup : NoDup (accepted s);
  C_sorted : forall j, StronglySorted lt (map snd (from j (accepted s)))
}.

Lemma invC_init c progs : InvC (init c progs).
Proof.
  assert (N : forall i t, Tn (init c progs) i t -> pc t = Idle /\ results t = []).
  { intros i t H. unfold Tn in H. simpl in H. rewrite nth_error_map in H. destruct (nth_error progs i); inversion H; auto. }
  constructor; simpl; try contradiction.
  - intros i t H E. destruct (N _ _ H). congruence.
  - intros i t H E. destruct (N _ _ H). congruence.
  - intros i t k H E. destruct (N _ _ H) as [_ R]. rewrite R in E. destruct k; discriminate.
  - constructor.
  - intros j. constructor.
Qed.

Lemma in_sendq_false i q : in_sendq i q = false -> forall m, ~ In (i, m) q.
Proof.
  unfold in_sendq. intros E m H.
  assert (existsb (fun e => Nat.eqb (fst e) i) q = true).
  { apply existsb_exists. exists (i, m). split; auto. simpl. apply Nat.eqb_refl. }
  congruence.
Qed.

(* the general "thread i changes, the channel only loses queue entries / moves messages forward" lemma *)
Lemma invC_thread s i t t' ch' wc cr rcv' :
  InvC s -> Tn s i t ->
  (forall x, In x (received s ++ buf (ch s)) -> In x (rcv' ++ buf ch')) ->
  (forall e, In e (sendq ch') -> In e (sendq (ch s))) ->
  seq_ok i t' (accepted s) ->
  (forall m, In (i, m) (sendq ch') -> pc t' = SParked /\ List.length (results t') = List.length (results t)) ->
  (pc t' = SUnlock true -> In (i, List.length (results t')) (rcv' ++ buf ch')) ->
  (pc t' = SParked -> In (i, List.length (results t')) (accepted s)) ->
  (forall k, nth_error (results t') k = Some (RSent true) -> In (i, k) (rcv' ++ buf ch')) ->
  InvC {| ch := ch'; wclosed := wc; thr := updt (thr s) i t'; crashed := cr; accepted := accepted s; received := rcv' |}.
Proof.
  intros IV Ti MONO SUB SEQ SQ UL PK OK. unfold Tn in *.
  constructor; unfold Tn; simpl.
  - intros j k H. destruct (Nat.eq_dec j i) as [->|N].
    + exists t'. split; [apply (nth_updt_same _ _ _ _ Ti)|exact SEQ].
    + destruct (C_seq _ IV _ _ H) as (tj & Tj & S). exists tj. split; auto. rewrite nth_updt_other; auto.
  - intros j m H. destruct (Nat.eq_dec j i) as [->|N].
    + exists t'. split; [apply (nth_updt_same _ _ _ _ Ti)|]. destruct (SQ _ H) as [P L]. split; auto.
      destruct (C_sendq _ IV _ _ (SUB _ H)) as (t0 & T0 & P0 & M0). unfold Tn in T0. rewrite Ti in T0. inversion T0; subst. congruence.
    + destruct (C_sendq _ IV _ _ (SUB _ H)) as (tj & Tj & Pj & Mj). exists tj. split; auto. rewrite nth_updt_other; auto.
  - intros a ta Ha Pa. destruct (nth_updt_inv _ _ _ _ _ _ Ti Ha) as [[-> ->]|[Na Ha']]; auto.
    apply MONO. eapply (C_unlock _ IV); eauto.
  - intros a ta Ha Pa. destruct (nth_updt_inv _ _ _ _ _ _ Ti Ha) as [[-> ->]|[Na Ha']]; auto.
    eapply (C_parked _ IV); eauto.
  - intros a ta k Ha Ra. destruct (nth_updt_inv _ _ _ _ _ _ Ti Ha) as [[-> ->]|[Na Ha']]; auto.
    apply MONO. eapply (C_ok _ IV); eauto.
  - apply (C_nodup _ IV).
  - apply (C_sorted _ IV).
Qed.

Lemma seq_ok_of s i t : InvC s -> Tn s i t -> seq_ok i t (accepted s).
Proof.
  intros IV Ti k H. destruct (C_seq _ IV _ _ H) as (t0 & T0 & S). unfold Tn in *. rewrite Ti in T0. inversion T0; subst. apply S; auto.
Qed.

(* a pure move of thread i to pc p' (results unchanged) *)
Lemma invC_move s i t p' wc :
  InvC s -> Tn s i t ->
  (pc t = SParked -> p' = SUnlock true /\ forall m, ~ In (i, m) (sendq (ch s))) ->
  (pc t = SUnlock true -> False) ->
  (p' = SParked -> False) ->
  (p' = SUnlock true -> pc t = SParked) ->
  accepted s = (received s ++ buf (ch s) ++ map snd (sendq (ch s)))%list ->
  InvC {| ch := ch s; wclosed := wc; thr := updt (thr s) i (goto t p'); crashed := crashed s;
          accepted := accepted s; received := received s |}.
Proof.
  intros IV Ti FromP FromU ToP ToU FIFO.
  assert (NQ : pc t <> SParked -> forall m, ~ In (i, m) (sendq (ch s))).
  { intros NP m H. destruct (C_sendq _ IV _ _ H) as (t0 & T0 & P0 & _). unfold Tn in *. rewrite Ti in T0. inversion T0; subst. auto. }
  apply (invC_thread s i t); auto.
  - intros k H. destruct (seq_ok_of _ _ _ IV Ti k H) as [L|[L [P|P]]]; simpl; auto.
    + destruct (FromP P) as [-> _]. auto.
    + destruct (FromU P).
  - simpl. intros m H. exfalso. destruct (pc t) eqn:P; try (eapply NQ; eauto; congruence).
    destruct (FromP eq_refl) as [_ X]. eapply X; eauto.
  - simpl. intros E. pose proof (ToU E) as P. destruct (FromP P) as [_ X].
    pose proof (C_parked _ IV _ _ Ti P) as A. rewrite FIFO in A. rewrite app_assoc in A.
    apply in_app_or in A as [A|A]; auto.
    exfalso. apply in_map_iff in A as ([j m] & E1 & E2). simpl in E1. subst m.
    destruct (C_sendq _ IV _ _ E2) as (tj & Tj & Pj & Mj). inversion Mj; subst. eapply X; eauto.
  - simpl. intros E. destruct (ToP E).
  - simpl. intros k H. eapply (C_ok _ IV); eauto.
Qed.

(* a return of thread i with result r *)
Lemma invC_ret s i t r ch' rcv' :
  InvC s -> Tn s i t ->
  pc t <> SParked ->
  (pc t = SUnlock true <-> r = RSent true) ->
  (forall x, In x (received s ++ buf (ch s)) -> In x (rcv' ++ buf ch')) ->
  (forall e, In e (sendq ch') -> In e (sendq (ch s))) ->
  InvC {| ch := ch'; wclosed := wclosed s; thr := updt (thr s) i (ret t r); crashed := crashed s;
          accepted := accepted s; received := rcv' |}.
Proof.
  intros IV Ti NP RU MONO SUB.
  assert (NQ : forall m, ~ In (i, m) (sendq (ch s))).
  { intros m H. destruct (C_sendq _ IV _ _ H) as (t0 & T0 & P0 & _). unfold Tn in *. rewrite Ti in T0. inversion T0; subst. auto. }
  apply (invC_thread s i t); auto.
  - intros k H. simpl. rewrite app_length. simpl.
    destruct (seq_ok_of _ _ _ IV Ti k H) as [[L E]|[L [P|P]]].
    + left. split; [lia|]. rewrite nth_error_app1; auto.
    + congruence.
    + left. split; [lia|]. subst k. rewrite nth_error_app2 by lia. rewrite Nat.sub_diag. simpl. f_equal. apply RU; auto.
  - intros m H. exfalso. eapply NQ; eauto.
  - simpl. discriminate.
  - simpl. discriminate.
  - simpl. intros k H. destruct (Nat.lt_ge_cases k (List.length (results t))) as [L|L].
    + rewrite nth_error_app1 in H by auto. apply MONO. eapply (C_ok _ IV); eauto.
    + rewrite nth_error_app2 in H by auto. destruct (k - List.length (results t)) as [|d] eqn:D.
      * simpl in H. inversion H as [H']. assert (k = List.length (results t)) by lia. subst k.
        apply MONO. apply (C_unlock _ IV _ _ Ti). apply RU; auto.
      * simpl in H. destruct d; discriminate.
Qed.

Lemma NoDup_app_snoc {A} (l : list A) x : NoDup l /\ ~ In x l -> NoDup (l ++ [x]).
Proof.
  intros [N H]. induction N; simpl.
  - constructor; auto. constructor.
  - constructor.
    + intros X. apply in_app_or in X as [X|[X|[]]]; auto. subst. apply H. left; reflexivity.
    + apply IHN. intros X. apply H. right; auto.
Qed.

Lemma sorted_snoc l x : StronglySorted lt l -> Forall (fun y => y < x) l -> StronglySorted lt (l ++ [x]).
Proof.
  induction 1; intros F; simpl.
  - repeat constructor.
  - inversion F; subst. constructor; auto. apply Forall_app. split; auto.
Qed.

Lemma invC_step s i s' : InvA s -> InvB s -> InvC s -> step true s i = Some s' -> InvC s'.
Proof.
  intros IA IB IV. pose proof (B_fifo _ IB) as FIFO. unfold step. rewrite (A_nocrash _ IA).
  destruct (nth_error (thr s) i) as [t|] eqn:Ti; [|discriminate].
  assert (Ti' : Tn s i t) by exact Ti.
  destruct (pc t) eqn:Pc.
  - (* Idle *)
    destruct (prog t) as [|[] rest] eqn:Pg; try discriminate.
    + destruct (true && _); [discriminate|]. intros E; inversion E; subst s'. unfold set_thr.
      apply invC_move; auto; try (rewrite Pc; discriminate); discriminate.
    + (* receive *)
      destruct (buf (ch s)) as [|b rest'] eqn:B.
      * destruct (sendq (ch s)) as [|[j v] q] eqn:Q.
        -- destruct (cclosed (ch s)); [|discriminate]. intros E; inversion E; subst s'. unfold set_thr.
           apply (invC_ret s i t); auto; try (rewrite Pc; discriminate).
           rewrite Pc. split; discriminate.
        -- intros E; inversion E; subst s'. rewrite <- (A_nocrash _ IA) at 1.
           apply (invC_ret s i t (RRecv (Some v))
                    {| buf := []; cap := cap (ch s); sendq := q; cclosed := cclosed (ch s) |} (received s ++ [v])%list); auto;
             try (rewrite Pc; discriminate).
           ++ rewrite Pc. split; discriminate.
           ++ simpl. intros x H. rewrite B, app_nil_r in H. rewrite app_nil_r. apply in_or_app; auto.
           ++ simpl. intros e H. rewrite Q. right; auto.
      * destruct (sendq (ch s)) as [|[j v] q] eqn:Q; intros E; inversion E; subst s'; rewrite <- (A_nocrash _ IA) at 1.
        -- apply (invC_ret s i t (RRecv (Some b))
                    {| buf := rest'; cap := cap (ch s); sendq := []; cclosed := cclosed (ch s) |} (received s ++ [b])%list); auto;
             try (rewrite Pc; discriminate).
           ++ rewrite Pc. split; discriminate.
           ++ simpl. intros x H. rewrite B in H. rewrite <- app_assoc. exact H.
           ++ simpl. contradiction.
        -- apply (invC_ret s i t (RRecv (Some b))
                    {| buf := (rest' ++ [v])%list; cap := cap (ch s); sendq := q; cclosed := cclosed (ch s) |} (received s ++ [b])%list); auto;
             try (rewrite Pc; discriminate).
           ++ rewrite Pc. split; discriminate.
           ++ simpl. intros x H. rewrite B in H. rewrite <- app_assoc. simpl.
              apply in_app_or in H as [H|H]; apply in_or_app; auto. right. simpl in *. destruct H; auto.
              right. apply in_or_app; auto.
           ++ simpl. intros e H. rewrite Q. right; auto.
    + destruct (true && _); [discriminate|]. intros E; inversion E; subst s'. unfold set_thr.
      apply invC_move; auto; try (rewrite Pc; discriminate); discriminate.
    + (* OIsClosed *) intros E; inversion E; subst s'. unfold set_thr.
      apply (invC_ret s i t (RIs (wclosed s)) (ch s) (received s)); auto; try (rewrite Pc; discriminate).
      rewrite Pc. split; discriminate.
    + (* OLen *) intros E; inversion E; subst s'. unfold set_thr.
      apply (invC_ret s i t (RNum (List.length (buf (ch s)))) (ch s) (received s)); auto; try (rewrite Pc; discriminate).
      rewrite Pc. split; discriminate.
    + (* OCap *) intros E; inversion E; subst s'. unfold set_thr.
      apply (invC_ret s i t (RNum (cap (ch s))) (ch s) (received s)); auto; try (rewrite Pc; discriminate).
      rewrite Pc. split; discriminate.
  - (* SLocked *)
    intros E; inversion E; subst s'. unfold set_thr.
    apply invC_move; auto; try (rewrite Pc; discriminate); destruct (wclosed s); discriminate.
  - (* SChecked: the chan accepts the message *)
    destruct (cclosed (ch s)) eqn:CC.
    + destruct (A_nosend _ IA CC _ _ Ti) as [F _]. congruence.
    + set (m := (i, List.length (results t))).
      assert (FRESH : forall k, In (i, k) (accepted s) -> k < List.length (results t)).
      { intros k H. destruct (seq_ok_of _ _ _ IV Ti' k H) as [[L _]|[_ [P|P]]]; auto; congruence. }
      assert (NQ : forall x, ~ In (i, x) (sendq (ch s))).
      { intros x H. destruct (C_sendq _ IV _ _ H) as (t0 & T0 & P0 & _). unfold Tn in *. rewrite Ti in T0. inversion T0; subst. congruence. }
      assert (GEN : forall ch' p',
         (p' = SUnlock true /\ buf ch' = (buf (ch s) ++ [m])%list /\ sendq ch' = sendq (ch s)) \/
         (p' = SParked /\ buf ch' = buf (ch s) /\ sendq ch' = (sendq (ch s) ++ [(i, m)])%list) ->
         InvC {| ch := ch'; wclosed := wclosed s; thr := updt (thr s) i (goto t p'); crashed := false;
                 accepted := (accepted s ++ [m])%list; received := received s |}).
      { intros ch' p' CASE. constructor; unfold Tn; simpl.
        - intros j k H. destruct (Nat.eq_dec j i) as [->|N].
          + exists (goto t p'). split; [apply (nth_updt_same _ _ _ _ Ti)|].
            intros k' H'. simpl. apply in_app_or in H' as [H'|[H'|[]]].
            * left. destruct (seq_ok_of _ _ _ IV Ti' k' H') as [LE|[_ [P|P]]]; auto; congruence.
            * inversion H'; subst. right. split; auto. destruct CASE as [(-> & _)|(-> & _)]; auto.
          + apply in_app_or in H as [H|[H|[]]]; [|inversion H; congruence].
            destruct (C_seq _ IV _ _ H) as (tj & Tj & S). exists tj. split; [rewrite nth_updt_other; auto|].
            intros k' H'. apply in_app_or in H' as [H'|[H'|[]]]; [apply S; auto|inversion H'; congruence].
        - intros j x H.
          assert (OLD : In (j, x) (sendq (ch s)) -> exists t0, nth_error (updt (thr s) i (goto t p')) j = Some t0 /\ pc t0 = SParked /\ x = (j, List.length (results t0))).
          { intros H0. destruct (C_sendq _ IV _ _ H0) as (tj & Tj & Pj & Mj). exists tj. split; auto.
            destruct (Nat.eq_dec j i) as [->|N]; [exfalso; eapply NQ; eauto|]. rewrite nth_updt_other; auto. }
          destruct CASE as [(-> & _ & Q)|(-> & _ & Q)]; rewrite Q in H; auto.
          apply in_app_or in H as [H|[H|[]]]; auto. inversion H; subst.
          exists (goto t SParked). split; [apply (nth_updt_same _ _ _ _ Ti)|]. auto.
        - intros a ta Ha Pa. destruct (nth_updt_inv _ _ _ _ _ _ Ti Ha) as [[-> ->]|[Na Ha']].
          + simpl in *. destruct CASE as [(_ & Bf & _)|(-> & _)]; [|discriminate]. rewrite Bf.
            apply in_or_app. right. apply in_or_app. right. left; reflexivity.
          + pose proof (C_unlock _ IV _ _ Ha' Pa) as X.
            destruct CASE as [(_ & Bf & _)|(_ & Bf & _)]; rewrite Bf; auto.
            apply in_app_or in X as [X|X]; apply in_or_app; auto. right. apply in_or_app; auto.
        - intros a ta Ha Pa. destruct (nth_updt_inv _ _ _ _ _ _ Ti Ha) as [[-> ->]|[Na Ha']].
          + simpl. apply in_or_app. right. left; reflexivity.
          + apply in_or_app. left. eapply (C_parked _ IV); eauto.
        - intros a ta k Ha Ra.
          assert (X : In (a, k) (received s ++ buf (ch s))).
          { destruct (nth_updt_inv _ _ _ _ _ _ Ti Ha) as [[-> ->]|[Na Ha']]; eapply (C_ok _ IV); eauto. }
          destruct CASE as [(_ & Bf & _)|(_ & Bf & _)]; rewrite Bf; auto.
          apply in_app_or in X as [X|X]; apply in_or_app; auto. right. apply in_or_app; auto.
        - apply NoDup_app_snoc. split; [apply (C_nodup _ IV)|]. intros H. pose proof (FRESH _ H). lia.
        - intros j. unfold from. rewrite filter_app, map_app. simpl.
          destruct (Nat.eqb i j) eqn:EJ; simpl; [|rewrite app_nil_r; apply (C_sorted _ IV)].
          apply Nat.eqb_eq in EJ. subst j. apply sorted_snoc; [apply (C_sorted _ IV)|].
          apply Forall_forall. intros y Hy. apply in_map_iff in Hy as ([a k] & E1 & E2). simpl in E1. subst y.
          apply filter_In in E2 as [E2 E3]. simpl in E3. apply Nat.eqb_eq in E3. subst a. apply FRESH; auto. }
      destruct (Nat.ltb (List.length (buf (ch s))) (cap (ch s))); intros E; inversion E; subst s'; apply GEN; simpl; auto.
  - (* SParked *)
    destruct (in_sendq i (sendq (ch s))) eqn:Q.
    + destruct (cclosed (ch s)) eqn:CC; [|discriminate]. destruct (A_nosend _ IA CC _ _ Ti) as [_ F]. congruence.
    + intros E; inversion E; subst s'. unfold set_thr. apply invC_move; auto; try (rewrite Pc; discriminate); try discriminate.
      intros _. split; auto. apply in_sendq_false; auto.
  - (* SUnlock *)
    intros E; inversion E; subst s'. unfold set_thr.
    apply (invC_ret s i t (RSent ok) (ch s) (received s)); auto; try (rewrite Pc; discriminate).
    rewrite Pc. split; intros H; inversion H; reflexivity.
  - (* CWait *)
    destruct (true && _); [discriminate|]. intros E; inversion E; subst s'. unfold set_thr.
    apply invC_move; auto; try (rewrite Pc; discriminate); discriminate.
  - (* CLocked *)
    destruct (wclosed s); intros E; inversion E; subst s'; unfold set_thr.
    + apply invC_move; auto; try (rewrite Pc; discriminate); discriminate.
    + rewrite <- (A_nocrash _ IA) at 1. apply invC_move; auto; try (rewrite Pc; discriminate); discriminate.
  - (* CChecked *)
    destruct (A_cchecked _ IA _ _ Ti Pc) as [NC _]. rewrite NC. intros E; inversion E; subst s'.
    pose proof (invC_move s i t CUnlock (wclosed s) IV Ti') as M.
    assert (X : InvC {| ch := ch s; wclosed := wclosed s; thr := updt (thr s) i (goto t CUnlock); crashed := crashed s;
                        accepted := accepted s; received := received s |}).
    { apply M; auto; try (rewrite Pc; discriminate); discriminate. }
    destruct X as [X1 X2 X3 X4 X5 X6 X7]. constructor; simpl in *; auto.
  - intros E; inversion E; subst s'. unfold set_thr.
    apply (invC_ret s i t RClosed (ch s) (received s)); auto; try (rewrite Pc; discriminate).
    rewrite Pc. split; discriminate.
Qed.

(* ---------------------------------------------------------------- all invariants along every schedule *)
Lemma inv_all_run sched : forall s, InvA s -> InvB s -> InvC s ->
  InvA (run true s sched) /\ InvB (run true s sched) /\ InvC (run true s sched).
Proof.
  induction sched as [|i r IH]; intros s IA IB IC; simpl; auto.
  destruct (step true s i) eqn:E; auto. apply IH.
  - eapply invA_step; eauto.
  - eapply invB_step; eauto.
  - eapply invC_step; eauto.
Qed.
Lemma inv_all c progs sched :
  let s := run true (init c progs) sched in InvA s /\ InvB s /\ InvC s.
Proof. apply inv_all_run; [apply invA_init|apply invB_init|apply invC_init]. Qed.

Lemma sorted_increasing l : StronglySorted lt l -> increasing l.
Proof.
  induction 1 as [|a l S IH F]; simpl; auto. destruct l as [|b l]; auto. split; auto. inversion F; auto.
Qed.

(* which messages sent_ok / sent_failed contain *)
Lemma sends_of_in i k0 rs want j k :
  In (j, k) (sends_of i k0 rs want) -> j = i /\ k0 <= k /\ nth_error rs (k - k0) = Some (RSent want).
Proof.
  revert k0. induction rs as [|r rs IH]; intros k0 H; simpl in H; [contradiction|].
  assert (REC : In (j, k) (sends_of i (S k0) rs want) -> j = i /\ k0 <= k /\ nth_error (r :: rs) (k - k0) = Some (RSent want)).
  { intros H'. destruct (IH _ H') as (A & B & C). repeat split; auto; try lia.
    replace (k - k0) with (S (k - S k0)) by lia. exact C. }
  destruct r; auto. apply in_app_or in H as [H|H]; auto.
  destruct (Bool.eqb ok want) eqn:E; [|contradiction]. destruct H as [H|[]]. inversion H; subst.
  repeat split; auto. rewrite Nat.sub_diag. simpl. apply eqb_prop in E. subst; reflexivity.
Qed.
Lemma sent_all_in b ts want j k :
  In (j, k) (sent_all b ts want) -> b <= j /\ exists t, nth_error ts (j - b) = Some t /\ nth_error (results t) k = Some (RSent want).
Proof.
  revert b. induction ts as [|t ts IH]; intros b H; simpl in H; [contradiction|].
  apply in_app_or in H as [H|H].
  - destruct (sends_of_in _ _ _ _ _ _ H) as (-> & _ & C). split; auto. exists t. rewrite Nat.sub_diag, Nat.sub_0_r in *. auto.
  - destruct (IH _ H) as (L & t0 & T0 & R0). split; [lia|]. exists t0. split; auto.
    replace (j - b) with (S (j - S b)) by lia. exact T0.
Qed.

Section Theorems.
  Variables (c : nat) (progs : list (list op)) (sched : list nat).
  Let s := run true (init c progs) sched.

  Lemma at_most_once_l : at_most_once (received s) (in_flight s).
  Proof.
    destruct (inv_all c progs sched) as (_ & IB & IC). fold s in IB, IC.
    unfold at_most_once, in_flight. rewrite <- (B_fifo _ IB). apply (C_nodup _ IC).
  Qed.
  Lemma per_sender_fifo_l : per_sender_fifo (received s) (in_flight s).
  Proof.
    destruct (inv_all c progs sched) as (_ & IB & IC). fold s in IB, IC.
    intros t. unfold in_flight. rewrite <- (B_fifo _ IB). apply sorted_increasing. apply (C_sorted _ IC).
  Qed.
  Lemma none_lost_l : none_lost (sent_ok s) (received s) (in_flight s).
  Proof.
    destruct (inv_all c progs sched) as (_ & IB & IC). fold s in IB, IC.
    intros [j k] H. destruct (sent_all_in _ _ _ _ _ H) as (_ & t & T & R). rewrite Nat.sub_0_r in T.
    pose proof (C_ok _ IC _ _ _ T R) as X. unfold in_flight. rewrite app_assoc. apply in_or_app; auto.
  Qed.
  Lemma all_delivered_l : all_delivered_when_drained (sent_ok s) (received s) (in_flight s).
  Proof. intros E m H. pose proof (none_lost_l m H) as X. rewrite E, app_nil_r in X. exact X. Qed.
  Lemma nothing_invented_l : nothing_invented (sent_failed s) (received s).
  Proof.
    destruct (inv_all c progs sched) as (_ & IB & IC). fold s in IB, IC.
    intros [j k] H F. destruct (sent_all_in _ _ _ _ _ F) as (_ & t & T & R). rewrite Nat.sub_0_r in T.
    assert (A : In (j, k) (accepted s)) by (rewrite (B_fifo _ IB); apply in_or_app; auto).
    destruct (C_seq _ IC _ _ A) as (t0 & T0 & S). unfold Tn in T0. rewrite T in T0. inversion T0; subst t0.
    destruct (S _ A) as [[_ E]|[E _]]; [congruence|].
    assert (nth_error (results t) k <> None) by congruence. apply nth_error_Some in H0. lia.
  Qed.
  (* a received message was sent: its sender really has a Send at that position that did not fail *)
  Lemma received_was_sent_l : forall j k, In (j, k) (received s) ->
    exists t, nth_error (thr s) j = Some t /\
      (nth_error (results t) k = Some (RSent true) \/ (k = List.length (results t) /\ (pc t = SParked \/ pc t = SUnlock true))).
  Proof.
    destruct (inv_all c progs sched) as (_ & IB & IC). fold s in IB, IC.
    intros j k H.
    assert (A : In (j, k) (accepted s)) by (rewrite (B_fifo _ IB); apply in_or_app; auto).
    destruct (C_seq _ IC _ _ A) as (t & T & S). exists t. split; auto.
    destruct (S _ A) as [[_ E]|E]; auto.
  Qed.

  (* ---- after close *)
  Lemma after_close_l : cclosed (ch s) = true ->
    wclosed s = true /\ sendq (ch s) = [] /\
    (forall i t, nth_error (thr s) i = Some t -> pc t <> SChecked /\ pc t <> SParked).
  Proof.
    destruct (inv_all c progs sched) as (IA & IB & IC). fold s in IA, IB, IC.
    intros CC. split; [apply (A_cw _ IA CC)|]. split; [|apply (A_nosend _ IA CC)].
    destruct (sendq (ch s)) as [|[j m] q] eqn:Q; auto.
    destruct (C_sendq _ IC j m) as (t & T & P & _); [rewrite Q; left; reflexivity|].
    destruct (A_nosend _ IA CC _ _ T) as [_ F]. congruence.
  Qed.
  (* a Send whose closed-check happens after the close returns false *)
  Lemma after_close_send_l i t : cclosed (ch s) = true -> nth_error (thr s) i = Some t -> pc t = SLocked ->
    step true s i = Some (set_thr s i (goto t (SUnlock false))).
  Proof.
    intros CC T P. destruct (after_close_l CC) as (W & _ & _).
    destruct (inv_all c progs sched) as (IA & _ & _). fold s in IA.
    unfold step. rewrite (A_nocrash _ IA), T, P, W. reflexivity.
  Qed.
  (* a Receive after the close never blocks: it returns the buffer head, or null when the buffer is empty *)
  Lemma after_close_recv_l i t rest : cclosed (ch s) = true -> nth_error (thr s) i = Some t -> pc t = Idle ->
    prog t = ORecv :: rest ->
    exists s', step true s i = Some s' /\
      nth_error (thr s') i = Some (ret t (RRecv (hd_error (buf (ch s))))) /\
      buf (ch s') = tl (buf (ch s)) /\ cclosed (ch s') = true.
  Proof.
    intros CC T P G. destruct (after_close_l CC) as (_ & Q & _).
    destruct (inv_all c progs sched) as (IA & _ & _). fold s in IA.
    unfold step. rewrite (A_nocrash _ IA), T, P, G, Q. destruct (buf (ch s)) as [|b r] eqn:B.
    - rewrite CC. eexists. split; [reflexivity|]. simpl. rewrite B. repeat split; auto. apply (nth_updt_same _ _ _ _ T).
    - eexists. split; [reflexivity|]. simpl. repeat split; auto. apply (nth_updt_same _ _ _ _ T).
  Qed.
End Theorems.

(* the close is permanent *)
Lemma closed_forever_l lk sched : forall s, cclosed (ch s) = true -> cclosed (ch (run lk s sched)) = true.
Proof.
  induction sched as [|i r IH]; intros s CC; simpl; auto.
  destruct (step lk s i) as [s'|] eqn:E; auto. apply IH.
  unfold step in E. destruct (crashed s); [discriminate|]. destruct (nth_error (thr s) i) as [t|]; [|discriminate].
  destruct (pc t); try (inversion E; subst; simpl; auto; fail).
  - destruct (prog t) as [|[] ?]; try discriminate.
    + destruct (lk && _); inversion E; subst; auto.
    + destruct (buf (ch s)); destruct (sendq (ch s)) as [|[? ?] ?]; try rewrite CC in E; inversion E; subst; simpl; auto.
    + destruct (lk && _); inversion E; subst; auto.
    + inversion E; subst; auto.
    + inversion E; subst; auto.
    + inversion E; subst; auto.
  - rewrite CC in E. inversion E; subst; auto.
  - destruct (in_sendq i (sendq (ch s))); [rewrite CC in E|]; inversion E; subst; auto.
  - destruct (lk && _); inversion E; subst; auto.
  - destruct (wclosed s); inversion E; subst; auto.
  - rewrite CC in E. inversion E; subst; auto.
Qed.
