(* C06 — every copy route, through the statement interpreter: after the route statement the two
   names denote equal trees, and a depth-1 write statement through either name leaves the other
   name's tree unchanged.  Objects are handles; clone gives independent array-valued properties. *)
From Coq Require Import List String ZArith Bool Arith Lia.
From V.C06 Require Import Model Spec Proofs ProofsRoutes Frame.
Import ListNotations.
Local Open Scope list_scope.

(* ------------------------------------------------------------------ "clone the array into an existing cell" *)
Definition with_val (x : cell) (v : val) : cell := {| cname := cname x; cval := v; cref := cref x |}.

Definition clone_into (h : heap) (cx a : nat) : heap :=
  set_cell (fst (alloc_arr h (spine h a))) cx (with_val (cell_at h cx) (VArr (next h))).

Lemma clone_into_spec : forall n h cx a, flat_array h a -> cx < next h -> cx <> a -> ~ In cx (spine h a) ->
  let h' := clone_into h cx a in
  let b := next h in
  next h' = S b /\ touches [cx] h h' /\ cval (cell_at h' cx) = VArr b /\
  spine h' b = spine h a /\ flat_array h' a /\ flat_array h' b /\
  obs n h' (VArr b) = obs n h' (VArr a).
Proof.
  intros n h cx a FA L N NI. cbv zeta. unfold clone_into.
  set (h1 := fst (alloc_arr h (spine h a))).
  set (h' := set_cell h1 cx (with_val (cell_at h cx) (VArr (next h)))).
  assert (T1 : touches [] h h1) by apply touches_alloc_arr.
  assert (T2 : touches [cx] h1 h') by apply touches_set_cell.
  assert (T : touches [cx] h h'). { change [cx] with ([] ++ [cx]). eapply touches_trans; eauto. }
  assert (Sb : spine h' (next h) = spine h a).
  { unfold spine, h', h1; simpl. rewrite Nat.eqb_refl. reflexivity. }
  assert (Sa : spine h' a = spine h a).
  { unfold spine at 1, h', h1; simpl. destruct FA as [La _]. destruct (Nat.eqb_spec (next h) a); [lia|reflexivity]. }
  assert (Cin : forall c, In c (spine h a) -> cell_at h' c = cell_at h c).
  { intros c Hc. unfold cell_at, h', h1; simpl. destruct (Nat.eqb_spec cx c); [subst; contradiction | reflexivity]. }
  assert (FA' : flat_array h' a).
  { apply (flat_transfer h h' a FA); [simpl; lia | exact Sa | exact Cin]. }
  assert (FB' : flat_array h' (next h)).
  { destruct FA as [La [BD [NR F]]]. split; [simpl; lia|]. split; [|split].
    - intros c Hc. rewrite Sb in Hc. specialize (BD c Hc). simpl. lia.
    - intros c Hc. rewrite Sb in Hc. rewrite (Cin c Hc). apply NR; auto.
    - intros c Hc. rewrite Sb in Hc. rewrite (Cin c Hc). split; [apply F; auto|]. specialize (BD c Hc). lia. }
  split; [reflexivity|]. split; [exact T|]. split.
  - unfold cell_at, h'; simpl. rewrite Nat.eqb_refl. reflexivity.
  - split; [exact Sb|]. split; [exact FA'|]. split; [exact FB'|].
    destruct n; simpl; [reflexivity|]. rewrite Sa, Sb. reflexivity.
Qed.

Lemma set_var_arr : forall st x cx a, vlookup (env st) x = Some cx ->
  set_var st x (VArr a) = {| hp := clone_into (hp st) cx a; env := env st |}.
Proof.
  intros st x cx a E. unfold set_var, var_cell. rewrite E. simpl. reflexivity.
Qed.

Lemma flat_lt : forall h a, flat_array h a -> a < next h.
Proof. intros h a [L _]. exact L. Qed.
Lemma flat_spine_lt : forall h a c, flat_array h a -> In c (spine h a) -> c < next h.
Proof. intros h a c [_ [B _]] H. apply B; auto. Qed.
Lemma flat_spine_ne : forall h a c, flat_array h a -> In c (spine h a) -> c <> a.
Proof. intros h a c [_ [_ [_ F]]] H. apply F; auto. Qed.

Ltac sup_cases H := simpl in H; repeat (destruct H as [<-|H]).

(* ================================================================== route: $b = $o->p   (property read;
   also the model image of `$b = $o->method()` where the method returns the property) *)
Record pre_prop_read (st : state) (o p b : string) (co oa cp ap cb : nat) : Prop := {
  ppr_prop : prop_name st o p co oa cp ap;
  ppr_b : vlookup (env st) b = Some cb;
  ppr_b_lt : cb < next (hp st);
  ppr_sep : cb <> co /\ cb <> oa /\ cb <> cp /\ cb <> ap /\ ~ In cb (spine (hp st) ap);
  ppr_own : co <> ap /\ oa <> ap /\ cp <> ap /\ ~ In co (spine (hp st) ap) /\ ~ In oa (spine (hp st) ap) /\
            ~ In cp (spine (hp st) ap) }.

Lemma prop_read_then_write_l : forall n st o p b co oa cp ap cb path act m,
  pre_prop_read st o p b co oa cp ap cb -> mut_of path act = Some m ->
  let st1 := exec st (SPropRead b o p) in
  obs_var n st1 b = obs_base n st1 (BProp o p) /\
  obs_base n (exec st1 (SMut (BVar b) path act)) (BProp o p) = obs_base n st1 (BProp o p) /\
  obs_var n (exec st1 (SMut (BProp o p) path act)) b = obs_var n st1 b.
Proof.
  intros n st o p b co oa cp ap cb path act m [PN Eb Lb [S1 [S2 [S3 [S4 S5]]]] [O1 [O2 [O3 [O4 [O5 O6]]]]]] Hm.
  pose proof PN as PN0. destruct PN as [E O S [L1 [L2 L3]] V F].
  assert (ST1 : exec st (SPropRead b o p) = {| hp := clone_into (hp st) cb ap; env := env st |}).
  { simpl. unfold var_val. rewrite E, O. unfold get_prop. rewrite S, V. apply set_var_arr; auto. }
  cbv zeta. rewrite ST1. set (st1 := {| hp := clone_into (hp st) cb ap; env := env st |}).
  destruct (clone_into_spec n (hp st) cb ap F Lb S4 S5) as [N1 [T [Vb [Sb [FA [FB EQ]]]]]].
  set (bn := next (hp st)) in *.
  (* the property name survives the route statement *)
  assert (AV0 : avoids (prop_sup (hp st) co oa cp ap) [cb] (hp st)).
  { intros x Hx. sup_cases Hx; try (split; [lia | intros [X|[]]; congruence]).
    - split; [apply (flat_lt _ _ F) | intros [X|[]]; congruence].
    - split; [apply (flat_spine_lt _ _ _ F Hx) | intros [X|[]]; subst; contradiction]. }
  destruct (prop_stable n st st1 o p co oa cp ap [cb] PN0 eq_refl T AV0) as [PN1 OB1].
  assert (VN1 : var_name st1 b cb bn).
  { constructor; simpl; auto; try lia. }
  split; [|split].
  - unfold obs_var, obs_base, var_val, base_val, var_val. simpl env. rewrite Eb, E.
    destruct PN1 as [_ O' S' _ V' _]. simpl hp in *. rewrite Vb, O'. unfold get_prop. rewrite S', V'. exact EQ.
  - (* write through the copy $b *)
    destruct (write_var st1 b cb bn path act m VN1 Hm) as [EN TS].
    refine (proj2 (prop_stable n st1 _ o p co oa cp ap [bn] PN1 EN TS _)).
    intros x Hx. assert (LT : x < next (hp st)).
    { sup_cases Hx; try lia; [apply flat_lt; auto|].
      destruct PN1 as [_ _ _ _ _ FA1]. simpl hp in Hx.
      assert (SE : spine (clone_into (hp st) cb ap) ap = spine (hp st) ap).
      { unfold clone_into, spine; simpl. destruct (Nat.eqb_spec (next (hp st)) ap); [pose proof (flat_lt _ _ F); lia | reflexivity]. }
      rewrite SE in Hx. eapply flat_spine_lt; eauto. }
    split; [simpl; lia | intros [X|[]]; unfold bn in X; lia].
  - (* write through the original $o->p *)
    assert (W : co <> ap /\ oa <> ap /\ cp <> ap) by auto. destruct W as [W1 [W2 W3]].
    destruct (write_prop st1 o p co oa cp ap path act m PN1 W1 W2 W3 Hm) as [EN TS].
    refine (proj2 (var_stable n st1 _ b cb bn [ap; cp] VN1 EN TS _)).
    intros x Hx. unfold var_sup in Hx. simpl hp in Hx. rewrite Sb in Hx. sup_cases Hx.
    + split; [simpl; lia | intros [X|[X|[]]]; congruence].
    + split; [simpl; lia | intros [X|[X|[]]]; [pose proof (flat_lt _ _ F) | ]; unfold bn in *; lia].
    + split; [simpl; pose proof (flat_spine_lt _ _ _ F Hx); lia|].
      intros [X|[X|[]]]; subst.
      * exact (flat_spine_ne _ _ _ F Hx eq_refl).
      * contradiction.
Qed.

(* ================================================================== route: $o->p = $a   (property store) *)
Record pre_prop_store (st : state) (o p a : string) (co oa cp ca aa : nat) : Prop := {
  pps_a : var_name st a ca aa;
  pps_o : vlookup (env st) o = Some co;
  pps_obj : cval (cell_at (hp st) co) = VObj oa;
  pps_slot : plookup (props (hp st) oa) p = Some cp;
  pps_lt : co < next (hp st) /\ oa < next (hp st) /\ cp < next (hp st);
  pps_sep : co <> cp /\ oa <> cp /\ ca <> cp /\ cp <> aa /\ ~ In cp (spine (hp st) aa) /\
            co <> aa /\ oa <> aa /\ ca <> aa /\ ~ In ca (spine (hp st) aa) /\
            ~ In co (spine (hp st) aa) /\ ~ In oa (spine (hp st) aa) }.

Lemma prop_store_then_write_l : forall n st o p a co oa cp ca aa path act m,
  pre_prop_store st o p a co oa cp ca aa -> mut_of path act = Some m ->
  let st1 := exec st (SPropStore o p a) in
  obs_base n st1 (BProp o p) = obs_var n st1 a /\
  obs_var n (exec st1 (SMut (BProp o p) path act)) a = obs_var n st1 a /\
  obs_base n (exec st1 (SMut (BVar a) path act)) (BProp o p) = obs_base n st1 (BProp o p).
Proof.
  intros n st o p a co oa cp ca aa path act m
         [VN Eo Ob Sl [L1 [L2 L3]] [S1 [S2 [S3 [S4 [S5 [S6 [S7 [S8 [S9 [S10 S11]]]]]]]]]]] Hm.
  pose proof VN as VN0. destruct VN as [Ea La Va Fa].
  assert (ST1 : exec st (SPropStore o p a) = {| hp := clone_into (hp st) cp aa; env := env st |}).
  { simpl. unfold var_val. rewrite Eo, Ob, Ea, Va. unfold set_prop, copy_for_store, clone_array. simpl.
    unfold props at 1. simpl. fold (props (hp st) oa). rewrite Sl. reflexivity. }
  cbv zeta. rewrite ST1. set (st1 := {| hp := clone_into (hp st) cp aa; env := env st |}).
  destruct (clone_into_spec n (hp st) cp aa Fa L3 S4 S5) as [N1 [T [Vb [Sb [FA [FB EQ]]]]]].
  set (bn := next (hp st)) in *.
  assert (AV0 : avoids (var_sup (hp st) ca aa) [cp] (hp st)).
  { intros x Hx. sup_cases Hx.
    - split; [lia | intros [X|[]]; congruence].
    - split; [apply (flat_lt _ _ Fa) | intros [X|[]]; congruence].
    - split; [apply (flat_spine_lt _ _ _ Fa Hx) | intros [X|[]]; subst; contradiction]. }
  destruct (var_stable n st st1 a ca aa [cp] VN0 eq_refl T AV0) as [VN1 _].
  destruct T as [TN TS].
  destruct (TS co L1) as [Cco _]; [intros [X|[]]; congruence|].
  destruct (TS oa L2) as [_ [_ Poa]]; [intros [X|[]]; congruence|].
  assert (PN1 : prop_name st1 o p co oa cp bn).
  { unfold st1. constructor; simpl hp; simpl env; auto;
      try (rewrite Cco; auto); try (rewrite Poa; auto); try (repeat split; simpl; lia). }
  split; [|split].
  - unfold obs_var, obs_base, var_val, base_val, var_val. simpl env. rewrite Eo, Ea.
    destruct VN1 as [_ _ Va1 _]. simpl hp in *. rewrite Cco, Ob. unfold get_prop. rewrite Poa, Sl, Vb, Va1. exact EQ.
  - (* write through the copy $o->p *)
    assert (W1 : co <> bn) by (unfold bn; lia). assert (W2 : oa <> bn) by (unfold bn; lia).
    assert (W3 : cp <> bn) by (unfold bn; lia).
    destruct (write_prop st1 o p co oa cp bn path act m PN1 W1 W2 W3 Hm) as [EN TS2].
    refine (proj2 (var_stable n st1 _ a ca aa [bn; cp] VN1 EN TS2 _)).
    assert (SE : spine (hp st1) aa = spine (hp st) aa).
    { unfold st1, clone_into, spine; simpl. destruct (Nat.eqb_spec (next (hp st)) aa); [pose proof (flat_lt _ _ Fa); lia | reflexivity]. }
    intros x Hx. unfold var_sup in Hx. rewrite SE in Hx. sup_cases Hx.
    + split; [simpl; lia | intros [X|[X|[]]]; [unfold bn in X; lia | congruence]].
    + split; [simpl; pose proof (flat_lt _ _ Fa); lia | intros [X|[X|[]]]; [pose proof (flat_lt _ _ Fa); unfold bn in X; lia | congruence]].
    + split; [simpl; pose proof (flat_spine_lt _ _ _ Fa Hx); lia|].
      intros [X|[X|[]]]; subst; [pose proof (flat_spine_lt _ _ _ Fa Hx); unfold bn in *; lia | contradiction].
  - (* write through the original $a *)
    destruct (write_var st1 a ca aa path act m VN1 Hm) as [EN TS2].
    refine (proj2 (prop_stable n st1 _ o p co oa cp bn [aa] PN1 EN TS2 _)).
    intros x Hx. unfold prop_sup in Hx. simpl hp in Hx. rewrite Sb in Hx. sup_cases Hx.
    + split; [simpl; lia | intros [X|[]]; congruence].
    + split; [simpl; lia | intros [X|[]]; congruence].
    + split; [simpl; lia | intros [X|[]]; congruence].
    + split; [simpl; lia | intros [X|[]]; pose proof (flat_lt _ _ Fa); unfold bn in X; lia].
    + split; [simpl; pose proof (flat_spine_lt _ _ _ Fa Hx); lia | intros [X|[]]; subst; exact (flat_spine_ne _ _ _ Fa Hx eq_refl)].
Qed.

(* ================================================================== route: $b = $w[k]   (read from an array element;
   also the model image of $b = end($w) / reset($w) / current($w)) *)
Record pre_elem_read (st : state) (w : string) (k : key) (b : string) (cw W a cb : nat) : Prop := {
  per_elem : elem_name st w k cw W a;
  per_b : vlookup (env st) b = Some cb;
  per_b_lt : cb < next (hp st);
  per_sep : cb <> cw /\ cb <> W /\ cb <> a /\ ~ In cb (spine (hp st) W) /\ ~ In cb (spine (hp st) a);
  per_own : cw <> a /\ W <> a /\ (forall c, In c (spine (hp st) W) -> c <> a) /\
            cw <> W /\ ~ In cw (spine (hp st) a) /\ ~ In W (spine (hp st) a) }.

Lemma elem_read_then_write_l : forall n st w k b cw W a cb path act m,
  pre_elem_read st w k b cw W a cb -> mut_of path act = Some m ->
  let st1 := exec st (SElemRead b w k) in
  let elem st := obs n (hp st) (container_get (hp st) (var_val st w) k) in
  obs_var n st1 b = elem st1 /\
  elem (exec st1 (SMut (BVar b) path act)) = elem st1 /\
  obs_var n (exec st1 (SMut (BVar w) (k :: path) act)) b = obs_var n st1 b.
Proof.
  intros n st w k b cw W a cb path act m [EN0 Eb Lb [S1 [S2 [S3 [S4 S5]]]] [O1 [O2 [O3 [O4 [O5 O6]]]]]] Hm.
  pose proof EN0 as ENs. destruct EN0 as [E A [L1 L2] BD NR G F].
  assert (VW : var_val st w = VArr W) by (unfold var_val; rewrite E, A; reflexivity).
  assert (ST1 : exec st (SElemRead b w k) = {| hp := clone_into (hp st) cb a; env := env st |}).
  { simpl. rewrite VW, G. apply set_var_arr; auto. }
  cbv zeta. rewrite ST1. set (st1 := {| hp := clone_into (hp st) cb a; env := env st |}).
  destruct (clone_into_spec n (hp st) cb a F Lb S3 S5) as [N1 [T [Vb [Sb [FA [FB EQ]]]]]].
  set (bn := next (hp st)) in *.
  assert (AV0 : avoids (elem_sup (hp st) cw W a) [cb] (hp st)).
  { intros x Hx. unfold elem_sup in Hx. simpl in Hx. destruct Hx as [<-|[<-|Hx]].
    - split; [lia | intros [X|[]]; congruence].
    - split; [lia | intros [X|[]]; congruence].
    - apply in_app_or in Hx. destruct Hx as [Hx|[<-|Hx]].
      + split; [apply BD; auto | intros [X|[]]; subst; contradiction].
      + split; [apply (flat_lt _ _ F) | intros [X|[]]; congruence].
      + split; [apply (flat_spine_lt _ _ _ F Hx) | intros [X|[]]; subst; contradiction]. }
  destruct (elem_stable n st st1 w k cw W a [cb] ENs eq_refl T AV0) as [EN1 _].
  assert (VN1 : var_name st1 b cb bn).
  { constructor; simpl; auto; try lia. }
  assert (VW1 : var_val st1 w = VArr W).
  { destruct EN1 as [E1 A1 _ _ _ _ _]. unfold var_val. rewrite E1, A1. reflexivity. }
  split; [|split].
  - assert (VB : var_val st1 b = VArr bn).
    { unfold var_val. simpl env. rewrite Eb. simpl hp. rewrite Vb. reflexivity. }
    unfold obs_var. rewrite VW1, VB. destruct EN1 as [_ _ _ _ _ G1 _]. rewrite G1. exact EQ.
  - (* write through the copy $b *)
    destruct (write_var st1 b cb bn path act m VN1 Hm) as [EN TS].
    refine (proj2 (elem_stable n st1 _ w k cw W a [bn] EN1 EN TS _)).
    assert (SW : spine (hp st1) W = spine (hp st) W).
    { unfold st1, clone_into, spine; simpl. destruct (Nat.eqb_spec (next (hp st)) W); [lia | reflexivity]. }
    assert (SA : spine (hp st1) a = spine (hp st) a).
    { unfold st1, clone_into, spine; simpl. destruct (Nat.eqb_spec (next (hp st)) a); [pose proof (flat_lt _ _ F); lia | reflexivity]. }
    intros x Hx. unfold elem_sup in Hx. rewrite SW, SA in Hx.
    assert (LT : x < next (hp st)).
    { simpl in Hx. destruct Hx as [<-|[<-|Hx]]; try lia. apply in_app_or in Hx. destruct Hx as [Hx|[<-|Hx]].
      - apply BD; auto.
      - apply (flat_lt _ _ F).
      - apply (flat_spine_lt _ _ _ F Hx). }
    split; [simpl; lia | intros [X|[]]; unfold bn in X; lia].
  - (* write through the original $w[k] *)
    destruct (write_elem st1 w k cw W a path act m EN1 O1 O2) as [EN TS]; auto.
    { intros c Hc. apply O3.
      unfold st1, clone_into, spine in Hc; simpl in Hc. destruct (Nat.eqb_spec (next (hp st)) W); [lia | exact Hc]. }
    refine (proj2 (var_stable n st1 _ b cb bn [a; W] VN1 EN TS _)).
    intros x Hx. unfold var_sup in Hx. simpl hp in Hx. rewrite Sb in Hx. sup_cases Hx.
    + split; [simpl; lia | intros [X|[X|[]]]; congruence].
    + split; [simpl; lia | intros [X|[X|[]]]; [pose proof (flat_lt _ _ F) | ]; unfold bn in *; lia].
    + split; [simpl; pose proof (flat_spine_lt _ _ _ F Hx); lia|].
      intros [X|[X|[]]]; subst; [exact (flat_spine_ne _ _ _ F Hx eq_refl) | contradiction].
Qed.

(* ================================================================== routes: $w[] = $a  and  $w['x'] = $a (new key)
   (stored into another array: IndexExpression.SetValue copies the array, then appends a cell) *)
Definition store_new (h : heap) (W aa : nat) (nm : name) : heap :=
  arr_append_cell (fst (alloc_arr h (spine h aa))) W nm (VArr (next h)).

Lemma find_named_app_none : forall h l nm j e, find_named h l nm j = None ->
  find_named h (l ++ [e]) nm j = if name_eqb (cname (cell_at h e)) nm then Some (j + List.length l) else None.
Proof.
  induction l as [|c r IH]; intros nm j e H; simpl in *.
  - rewrite Nat.add_0_r. reflexivity.
  - destruct (name_eqb (cname (cell_at h c)) nm); [discriminate|].
    rewrite (IH nm (S j) e H). replace (S j + List.length r) with (j + S (List.length r)) by lia. reflexivity.
Qed.

Record pre_elem_store (st : state) (w a : string) (cw W ca aa : nat) : Prop := {
  pes_a : var_name st a ca aa;
  pes_w : vlookup (env st) w = Some cw;
  pes_arr : cval (cell_at (hp st) cw) = VArr W;
  pes_lt : cw < next (hp st) /\ W < next (hp st);
  pes_bounded : bounded (hp st) W;
  pes_noref : noref (hp st) W;
  pes_sep : cw <> W /\ cw <> ca /\ cw <> aa /\ W <> ca /\ W <> aa /\ ca <> aa /\
            ~ In cw (spine (hp st) aa) /\ ~ In W (spine (hp st) aa) /\ ~ In ca (spine (hp st) aa) /\
            ~ In aa (spine (hp st) W) /\ ~ In ca (spine (hp st) W) /\ ~ In cw (spine (hp st) W) /\
            ~ In W (spine (hp st) W) }.

(* the state after the copy has been appended under key k as a new cell named nm *)
Lemma store_new_spec : forall n st w a cw W ca aa nm k,
  pre_elem_store st w a cw W ca aa ->
  (forall h', (forall c, In c (spine (hp st) W) -> cell_at h' c = cell_at (hp st) c) ->
              forall e, cell_at h' e = plain nm (VArr (next (hp st))) ->
              spine h' W = spine (hp st) W ++ [e] -> container_get h' (VArr W) k = VArr (next (hp st))) ->
  let st1 := {| hp := store_new (hp st) W aa nm; env := env st |} in
  let bn := next (hp st) in
  var_name st1 a ca aa /\ elem_name st1 w k cw W bn /\
  spine (hp st1) bn = spine (hp st) aa /\ spine (hp st1) aa = spine (hp st) aa /\
  spine (hp st1) W = spine (hp st) W ++ [S bn] /\ next (hp st1) = S (S bn) /\
  obs n (hp st1) (VArr bn) = obs n (hp st1) (VArr aa).
Proof.
  intros n st w a cw W ca aa nm k
         [VN Ew Aw [L1 L2] BD NR [S1 [S2 [S3 [S4 [S5 [S6 [S7 [S8 [S9 [S10 [S11 [S12 S13]]]]]]]]]]]]] GET.
  cbv zeta. destruct VN as [Ea La Va Fa]. pose proof (flat_lt _ _ Fa) as Laa.
  set (bn := next (hp st)).
  set (h2 := {| cells := (S bn, plain nm (VArr bn)) :: cells (hp st);
                arrs := (W, spine {| cells := cells (hp st); arrs := (bn, spine (hp st) aa) :: arrs (hp st); maps := maps (hp st); next := S bn |} W ++ [S bn])
                        :: (bn, spine (hp st) aa) :: arrs (hp st);
                maps := maps (hp st); next := S (S bn) |}).
  assert (EQh : store_new (hp st) W aa nm = h2) by reflexivity.
  rewrite EQh. clear EQh.
  assert (SW0 : spine {| cells := cells (hp st); arrs := (bn, spine (hp st) aa) :: arrs (hp st); maps := maps (hp st); next := S bn |} W = spine (hp st) W).
  { unfold spine; simpl. destruct (Nat.eqb_spec bn W); [unfold bn in *; lia | reflexivity]. }
  assert (SW : spine h2 W = spine (hp st) W ++ [S bn]).
  { unfold spine at 1, h2; simpl. rewrite Nat.eqb_refl. rewrite SW0. reflexivity. }
  assert (Sb : spine h2 bn = spine (hp st) aa).
  { unfold spine at 1, h2; simpl. destruct (Nat.eqb_spec W bn); [unfold bn in *; lia|]. rewrite Nat.eqb_refl. reflexivity. }
  assert (Sa : spine h2 aa = spine (hp st) aa).
  { unfold spine at 1, h2; simpl. destruct (Nat.eqb_spec W aa); [congruence|].
    destruct (Nat.eqb_spec bn aa); [unfold bn in *; lia | reflexivity]. }
  assert (Cold : forall c, c < bn -> cell_at h2 c = cell_at (hp st) c).
  { intros c Hc. unfold cell_at, h2. cbn [cells]. rewrite nlookup_cons.
    destruct (Nat.eqb_spec (S bn) c); [lia | reflexivity]. }
  assert (Ce : cell_at h2 (S bn) = plain nm (VArr bn)).
  { unfold cell_at, h2. cbn [cells]. rewrite nlookup_cons, Nat.eqb_refl. reflexivity. }
  assert (FA2 : flat_array h2 aa).
  { apply (flat_transfer (hp st) h2 aa Fa); [simpl; unfold bn; lia | exact Sa|].
    intros c Hc. apply Cold. apply (flat_spine_lt _ _ _ Fa Hc). }
  assert (FB2 : flat_array h2 bn).
  { destruct Fa as [_ [BDa [NRa F]]]. split; [simpl; lia|]. split; [|split].
    - intros c Hc. rewrite Sb in Hc. specialize (BDa c Hc). simpl. unfold bn. lia.
    - intros c Hc. rewrite Sb in Hc. rewrite (Cold c (BDa c Hc)). apply NRa; auto.
    - intros c Hc. rewrite Sb in Hc. rewrite (Cold c (BDa c Hc)). split; [apply F; auto|]. specialize (BDa c Hc). unfold bn. lia. }
  split; [|split; [|split; [|split; [|split; [|split]]]]].
  - constructor; cbn [hp env].
    + exact Ea.
    + unfold h2; cbn [next]; lia.
    + rewrite (Cold ca La). exact Va.
    + exact FA2.
  - constructor; cbn [hp env].
    + exact Ew.
    + rewrite (Cold cw L1). exact Aw.
    + unfold h2; cbn [next]; lia.
    + intros c Hc. rewrite SW in Hc. apply in_app_or in Hc. unfold h2; cbn [next].
      destruct Hc as [Hc|[<-|[]]]; [specialize (BD c Hc); lia | lia].
    + intros c Hc. rewrite SW in Hc. apply in_app_or in Hc. destruct Hc as [Hc|[<-|[]]].
      * rewrite (Cold c (BD c Hc)). apply NR; auto.
      * rewrite Ce. reflexivity.
    + apply (GET h2 (fun c Hc => Cold c (BD c Hc)) (S bn) Ce SW).
    + exact FB2.
  - exact Sb.
  - exact Sa.
  - exact SW.
  - reflexivity.
  - destruct n; simpl; [reflexivity|]. rewrite Sa, Sb. reflexivity.
Qed.

Lemma elem_store_then_write_core : forall n st w a cw W ca aa nm k s path act m,
  pre_elem_store st w a cw W ca aa ->
  exec st s = {| hp := store_new (hp st) W aa nm; env := env st |} ->
  (forall h', (forall c, In c (spine (hp st) W) -> cell_at h' c = cell_at (hp st) c) ->
              forall e, cell_at h' e = plain nm (VArr (next (hp st))) ->
              spine h' W = spine (hp st) W ++ [e] -> container_get h' (VArr W) k = VArr (next (hp st))) ->
  mut_of path act = Some m ->
  let st1 := exec st s in
  let elem st := obs n (hp st) (container_get (hp st) (var_val st w) k) in
  elem st1 = obs_var n st1 a /\
  obs_var n (exec st1 (SMut (BVar w) (k :: path) act)) a = obs_var n st1 a /\
  elem (exec st1 (SMut (BVar a) path act)) = elem st1.
Proof.
  intros n st w a cw W ca aa nm k s path act m PRE EX GET Hm. cbv zeta. rewrite EX.
  destruct (store_new_spec n st w a cw W ca aa nm k PRE GET) as [VN1 [EN1 [Sb [Sa [SW [NX EQ]]]]]].
  set (st1 := {| hp := store_new (hp st) W aa nm; env := env st |}) in *.
  set (bn := next (hp st)) in *.
  destruct PRE as [VN Ew Aw [L1 L2] BD NR [S1 [S2 [S3 [S4 [S5 [S6 [S7 [S8 [S9 [S10 [S11 [S12 S13]]]]]]]]]]]]].
  destruct VN as [Ea La Va Fa]. pose proof (flat_lt _ _ Fa) as Laa.
  assert (VW1 : var_val st1 w = VArr W).
  { destruct EN1 as [E1 A1 _ _ _ _ _]. unfold var_val. rewrite E1, A1. reflexivity. }
  assert (VA1 : var_val st1 a = VArr aa).
  { destruct VN1 as [E1 _ V1 _]. unfold var_val. rewrite E1, V1. reflexivity. }
  split; [|split].
  - unfold obs_var. rewrite VW1, VA1. destruct EN1 as [_ _ _ _ _ G1 _]. rewrite G1. exact EQ.
  - (* write through the copy $w[k] *)
    assert (W1 : cw <> bn) by (unfold bn; lia). assert (W2 : W <> bn) by (unfold bn; lia).
    assert (W3 : forall c, In c (spine (hp st1) W) -> c <> bn).
    { intros c Hc. rewrite SW in Hc. apply in_app_or in Hc. destruct Hc as [Hc|[<-|[]]]; [specialize (BD c Hc); lia | lia]. }
    destruct (write_elem st1 w k cw W bn path act m EN1 W1 W2 W3 Hm) as [EN TS].
    refine (proj2 (var_stable n st1 _ a ca aa [bn; W] VN1 EN TS _)).
    intros x Hx. unfold var_sup in Hx. rewrite Sa in Hx. sup_cases Hx.
    + split; [rewrite NX; lia | intros [X|[X|[]]]; [unfold bn in X; lia | congruence]].
    + split; [rewrite NX; lia | intros [X|[X|[]]]; [unfold bn in X; lia | congruence]].
    + split; [rewrite NX; pose proof (flat_spine_lt _ _ _ Fa Hx); lia|].
      intros [X|[X|[]]]; subst; [pose proof (flat_spine_lt _ _ _ Fa Hx); unfold bn in *; lia | contradiction].
  - (* write through the original $a *)
    destruct (write_var st1 a ca aa path act m VN1 Hm) as [EN TS].
    refine (proj2 (elem_stable n st1 _ w k cw W bn [aa] EN1 EN TS _)).
    intros x Hx. unfold elem_sup in Hx. rewrite SW, Sb in Hx. simpl in Hx. destruct Hx as [<-|[<-|Hx]].
    + split; [rewrite NX; lia | intros [X|[]]; congruence].
    + split; [rewrite NX; lia | intros [X|[]]; congruence].
    + apply in_app_or in Hx. destruct Hx as [Hx|[<-|Hx]].
      * apply in_app_or in Hx. destruct Hx as [Hx|[<-|[]]].
        -- split; [rewrite NX; specialize (BD x Hx); lia | intros [X|[]]; subst; contradiction].
        -- split; [rewrite NX; lia | intros [X|[]]; unfold bn in X; lia].
      * split; [rewrite NX; lia | intros [X|[]]; unfold bn in X; lia].
      * split; [rewrite NX; pose proof (flat_spine_lt _ _ _ Fa Hx); lia | intros [X|[]]; subst; exact (flat_spine_ne _ _ _ Fa Hx eq_refl)].
Qed.

Lemma find_named_dense_none : forall h l i j, (forall c, In c l -> cname (cell_at h c) = NNone) ->
  find_named h l (NInt i) j = None.
Proof.
  induction l as [|c r IH]; intros i j H; simpl; [reflexivity|].
  rewrite (H c (or_introl eq_refl)). simpl. apply IH. intros d Hd. apply H. right. exact Hd.
Qed.

Lemma nth_app_last : forall (l : list nat) e, nth (List.length l) (l ++ [e]) 0%nat = e.
Proof. intros l e. rewrite app_nth2 by lia. rewrite Nat.sub_diag. reflexivity. Qed.
Lemma nth_error_app_last : forall (l : list nat) e, nth_error (l ++ [e]) (List.length l) = Some e.
Proof. intros l e. rewrite nth_error_app2 by lia. rewrite Nat.sub_diag. reflexivity. Qed.

(* $w[] = $a on a list (no named cells): the copy lands under the next position *)
Lemma elem_append_then_write_l : forall n st w a cw W ca aa path act m,
  pre_elem_store st w a cw W ca aa ->
  (forall c, In c (spine (hp st) W) -> cname (cell_at (hp st) c) = NNone) ->
  mut_of path act = Some m ->
  let k := KI (Z.of_nat (List.length (spine (hp st) W))) in
  let st1 := exec st (SElemAppend w a) in
  let elem st := obs n (hp st) (container_get (hp st) (var_val st w) k) in
  elem st1 = obs_var n st1 a /\
  obs_var n (exec st1 (SMut (BVar w) (k :: path) act)) a = obs_var n st1 a /\
  elem (exec st1 (SMut (BVar a) path act)) = elem st1.
Proof.
  intros n st w a cw W ca aa path act m PRE DENSE Hm k.
  apply (elem_store_then_write_core n st w a cw W ca aa NNone k (SElemAppend w a) path act m PRE); auto.
  - destruct PRE as [[Ea _ Va _] Ew Aw _ _ _ _]. simpl. unfold var_val. rewrite Ew, Aw, Ea, Va. reflexivity.
  - intros h' C e Ce SW. unfold k. simpl. unfold find_slot_int. rewrite SW.
    assert (D' : forall c, In c (spine (hp st) W ++ [e]) -> cname (cell_at h' c) = NNone).
    { intros c Hc. apply in_app_or in Hc. destruct Hc as [Hc|[<-|[]]]; [rewrite (C c Hc); auto | rewrite Ce; reflexivity]. }
    rewrite (find_named_dense_none h' _ _ 0 D').
    destruct (Z.of_nat (List.length (spine (hp st) W)) <? 0)%Z eqn:Z0; [apply Z.ltb_lt in Z0; lia|].
    rewrite Nat2Z.id, nth_error_app_last, Ce. simpl. rewrite nth_app_last, Ce. reflexivity.
Qed.

(* $w['x'] = $a where 'x' is a new key *)
Lemma elem_store_str_then_write_l : forall n st w a x cw W ca aa path act m,
  pre_elem_store st w a cw W ca aa ->
  find_named (hp st) (spine (hp st) W) (NStr x) 0 = None ->
  mut_of path act = Some m ->
  let k := KS x in
  let st1 := exec st (SElemStore w k a) in
  let elem st := obs n (hp st) (container_get (hp st) (var_val st w) k) in
  elem st1 = obs_var n st1 a /\
  obs_var n (exec st1 (SMut (BVar w) (k :: path) act)) a = obs_var n st1 a /\
  elem (exec st1 (SMut (BVar a) path act)) = elem st1.
Proof.
  intros n st w a x cw W ca aa path act m PRE FRESH Hm k.
  apply (elem_store_then_write_core n st w a cw W ca aa (NStr x) k (SElemStore w k a) path act m PRE); auto.
  - destruct PRE as [[Ea _ Va _] Ew Aw [_ L2] _ _ _]. simpl. unfold var_val. rewrite Ew, Aw, Ea, Va. simpl.
    unfold set_str_key, store_new.
    assert (SW : spine (fst (alloc_arr (hp st) (spine (hp st) aa))) W = spine (hp st) W).
    { unfold spine at 1; simpl. destruct (Nat.eqb_spec (next (hp st)) W); [lia | reflexivity]. }
    unfold alloc_arr in *. simpl in SW. rewrite SW.
    match goal with |- context [find_named ?h1 (spine (hp st) W) (NStr x) 0] =>
      assert (F1 : find_named h1 (spine (hp st) W) (NStr x) 0 = None)
        by (rewrite (find_named_agree (hp st) h1 (spine (hp st) W) (NStr x) 0 (fun c _ => eq_refl)); exact FRESH);
      rewrite F1 end.
    reflexivity.
  - intros h' C e Ce SW. unfold k. simpl. rewrite SW.
    assert (F0 : find_named h' (spine (hp st) W) (NStr x) 0 = None).
    { rewrite (find_named_agree (hp st) h' _ _ _ C). exact FRESH. }
    rewrite (find_named_app_none h' _ _ 0 e F0), Ce. simpl. rewrite String.eqb_refl. simpl.
    rewrite nth_app_last, Ce. reflexivity.
Qed.

(* ================================================================== objects are handles *)
Lemma objects_by_handle_l : forall n st o h p co ch oa c a path act m,
  prop_name st o p co oa c a -> vlookup (env st) h = Some ch -> ch < next (hp st) ->
  ch <> co /\ ch <> oa /\ ch <> c /\ ch <> a /\ ~ In ch (spine (hp st) a) ->
  co <> a /\ oa <> a /\ c <> a /\ co <> c /\ oa <> c ->
  mut_of path act = Some m ->
  let st1 := exec st (SCopy h o) in
  let st2 := exec st1 (SMut (BProp h p) path act) in
  (* no copy is made: nothing is allocated, both variables hold the same object *)
  next (hp st1) = next (hp st) /\ var_val st1 h = VObj oa /\ var_val st1 o = VObj oa /\
  (* and a write through one handle is the write through the other *)
  obs_base n st2 (BProp o p) = obs_base n st2 (BProp h p).
Proof.
  intros n st o h p co ch oa c a path act m PN Eh Lh [S1 [S2 [S3 [S4 S5]]]] [O1 [O2 [O3 [O4 O5]]]] Hm.
  pose proof PN as PN0. destruct PN as [E O S [L1 [L2 L3]] V F].
  assert (VO : var_val st o = VObj oa) by (unfold var_val; rewrite E, O; reflexivity).
  assert (ST1 : exec st (SCopy h o) = {| hp := set_cell (hp st) ch (with_val (cell_at (hp st) ch) (VObj oa)); env := env st |}).
  { simpl. rewrite VO. unfold set_var, var_cell. rewrite Eh. reflexivity. }
  cbv zeta. rewrite ST1. set (st1 := {| hp := set_cell (hp st) ch (with_val (cell_at (hp st) ch) (VObj oa)); env := env st |}).
  assert (T : touches [ch] (hp st) (hp st1)) by apply touches_set_cell.
  assert (AV0 : avoids (prop_sup (hp st) co oa c a) [ch] (hp st)).
  { intros x Hx. sup_cases Hx; try (split; [lia | intros [X|[]]; congruence]).
    - split; [apply (flat_lt _ _ F) | intros [X|[]]; congruence].
    - split; [apply (flat_spine_lt _ _ _ F Hx) | intros [X|[]]; subst; contradiction]. }
  destruct (prop_stable n st st1 o p co oa c a [ch] PN0 eq_refl T AV0) as [PN1 _].
  assert (Vh1 : cval (cell_at (hp st1) ch) = VObj oa).
  { unfold st1, cell_at; simpl. rewrite Nat.eqb_refl. reflexivity. }
  assert (PH1 : prop_name st1 h p ch oa c a).
  { destruct PN1 as [_ _ S' [_ [L2' L3']] V' F']. constructor; auto; try (simpl; repeat split; auto; lia). }
  assert (Vo1 : var_val st1 o = VObj oa).
  { destruct PN1 as [E' O' _ _ _ _]. unfold var_val. rewrite E', O'. reflexivity. }
  split; [reflexivity|]. split; [unfold var_val; simpl env; rewrite Eh, Vh1; reflexivity|]. split; [exact Vo1|].
  destruct (write_prop st1 h p ch oa c a path act m PH1 S4 O2 O3 Hm) as [EN [TN TS]].
  set (st2 := exec st1 (SMut (BProp h p) path act)) in *.
  assert (Cco : cell_at (hp st2) co = cell_at (hp st1) co).
  { destruct (TS co) as [C _]; [simpl; lia | intros [X|[X|[]]]; congruence | exact C]. }
  assert (Cch : cell_at (hp st2) ch = cell_at (hp st1) ch).
  { destruct (TS ch) as [C _]; [simpl; lia | intros [X|[X|[]]]; congruence | exact C]. }
  unfold obs_base, base_val, var_val. rewrite EN. simpl env. rewrite E, Eh, Cco, Cch, Vh1.
  destruct PN1 as [_ O' _ _ _ _]. rewrite O'. reflexivity.
Qed.

(* ================================================================== route: $c = clone $o *)
(* one SetProperty of a fresh key into the clone's (growing) property map *)
Definition plain_val (v : val) : Prop := match v with VMap _ => False | _ => True end.

Lemma set_prop_fresh_spec : forall g ca k v, plookup (props g ca) k = None -> plain_val v -> ca < next g ->
  let g' := set_prop g ca k v in
  exists c', next g <= c' /\ c' < next g' /\
    props g' ca = props g ca ++ [(k, c')] /\
    cname (cell_at g' c') = NStr k /\ cref (cell_at g' c') = false /\
    (forall x, x < next g -> x <> ca -> same_at g g' x) /\
    (forall x, x < next g -> cell_at g' x = cell_at g x /\ spine g' x = spine g x) /\
    match v with
    | VArr a0 => cval (cell_at g' c') = VArr (next g) /\ spine g' (next g) = spine g a0 /\ next g < c'
    | _ => cval (cell_at g' c') = v
    end.
Proof.
  intros g ca k v FR PV L. cbv zeta. unfold set_prop.
  destruct v as [| z | a0 | o | o]; simpl in PV; try contradiction; simpl copy_for_store; cbv iota beta.
  all: try (rewrite FR; simpl;
            exists (next g); split; [lia|]; split; [lia|]; split;
            [unfold props; simpl; rewrite Nat.eqb_refl; reflexivity|]; split;
            [unfold cell_at; simpl; rewrite Nat.eqb_refl; reflexivity|]; split;
            [unfold cell_at; simpl; rewrite Nat.eqb_refl; reflexivity|]; split;
            [intros x Hx Hn; unfold same_at, cell_at, spine, props; simpl;
             destruct (Nat.eqb_spec (next g) x); [lia|]; destruct (Nat.eqb_spec ca x); [congruence|]; repeat split|]; split;
            [intros x Hx; unfold cell_at, spine; simpl; destruct (Nat.eqb_spec (next g) x); [lia|]; split; reflexivity|];
            unfold cell_at; simpl; rewrite Nat.eqb_refl; reflexivity).
  (* VArr a0 *)
  unfold clone_array, alloc_arr. simpl.
  assert (P1 : plookup (props {| cells := cells g; arrs := (next g, spine g a0) :: arrs g; maps := maps g; next := S (next g) |} ca) k = None) by exact FR.
  rewrite P1. simpl.
  exists (S (next g)). split; [lia|]. split; [lia|]. split.
  { unfold props; simpl. rewrite Nat.eqb_refl. reflexivity. }
  split. { unfold cell_at; simpl. rewrite Nat.eqb_refl. reflexivity. }
  split. { unfold cell_at; simpl. rewrite Nat.eqb_refl. reflexivity. }
  split.
  { intros x Hx Hn. unfold same_at, cell_at, spine, props; simpl.
    destruct x as [|x']; [destruct (Nat.eqb_spec (next g) 0); [lia|]; destruct (Nat.eqb_spec ca 0); [congruence|]; repeat split|].
    destruct (Nat.eqb_spec (next g) x'); [lia|]. destruct (Nat.eqb_spec (next g) (S x')); [lia|].
    destruct (Nat.eqb_spec ca (S x')); [congruence|]. repeat split. }
  split.
  { intros x Hx. unfold cell_at, spine; simpl.
    destruct x as [|x']; [destruct (Nat.eqb_spec (next g) 0); [lia|]; split; reflexivity|].
    destruct (Nat.eqb_spec (next g) x'); [lia|]. destruct (Nat.eqb_spec (next g) (S x')); [lia|]. split; reflexivity. }
  split; [unfold cell_at; simpl; rewrite Nat.eqb_refl; reflexivity|]. split; [|lia].
  unfold spine at 1; simpl. rewrite Nat.eqb_refl. reflexivity.
Qed.

Lemma plookup_notin : forall l k, ~ In k (map fst l) -> plookup l k = None.
Proof.
  induction l as [|[k0 c0] r IH]; intros k H; simpl; [reflexivity|].
  destruct (String.eqb_spec k0 k); [exfalso; apply H; left; auto | apply IH; intro; apply H; right; auto].
Qed.
Lemma plookup_app_l : forall l r k c, plookup l k = Some c -> plookup (l ++ r) k = Some c.
Proof.
  induction l as [|[k0 c0] l IH]; intros r k c H; simpl in *; [discriminate|].
  destruct (String.eqb k0 k); auto.
Qed.
Lemma plookup_app_new : forall l k c, plookup l k = None -> plookup (l ++ [(k, c)]) k = Some c.
Proof.
  induction l as [|[k0 c0] l IH]; intros k c H; simpl in *; [rewrite String.eqb_refl; reflexivity|].
  destruct (String.eqb k0 k); [discriminate | auto].
Qed.
Lemma plookup_in : forall l k c, plookup l k = Some c -> In (k, c) l.
Proof.
  induction l as [|[k0 c0] l IH]; intros k c H; simpl in *; [discriminate|].
  destruct (String.eqb_spec k0 k); [inversion H; subst; auto | right; auto].
Qed.

(* what the clone's property map holds for the distinguished property p once it has been copied *)
Definition cloned_p (h g : heap) (ca : nat) (p : string) (ap : nat) : Prop :=
  exists c' a', plookup (props g ca) p = Some c' /\ cval (cell_at g c') = VArr a' /\
                next h < c' < next g /\ next h < a' < next g /\ a' <> c' /\ spine g a' = spine h ap.

Definition clone_step (ca : nat) (g : heap) (kc : string * nat) : heap :=
  set_prop g ca (fst kc) (cval (cell_at g (snd kc))).

Lemma clone_fold_spec : forall h ca p cp ap todo done g,
  ca = next h ->
  NoDup (map fst (done ++ todo)) ->
  (forall k c0, In (k, c0) (done ++ todo) -> c0 < next h /\ plain_val (cval (cell_at h c0))) ->
  In (p, cp) (done ++ todo) -> cval (cell_at h cp) = VArr ap -> ap < next h ->
  (* invariant *)
  next h < next g ->
  (forall x, x < next h -> same_at h g x) ->
  map fst (props g ca) = map fst done ->
  (In p (map fst done) -> cloned_p h g ca p ap) ->
  let g' := fold_left (clone_step ca) todo g in
  next h < next g' /\ (forall x, x < next h -> same_at h g' x) /\ cloned_p h g' ca p ap.
Proof.
  intros h ca p cp ap todo. induction todo as [|[k c0] r IH]; intros done g CA ND OK INp Vp Lap NG SAME KEYS CL.
  - simpl. rewrite app_nil_r in *. split; auto. split; auto. apply CL.
    change p with (fst (p, cp)). apply in_map. exact INp.
  - simpl fold_left.
    assert (Hc0 : c0 < next h /\ plain_val (cval (cell_at h c0))).
    { apply (OK k c0). apply in_or_app. right. left. reflexivity. }
    destruct Hc0 as [Lc0 PV].
    assert (Cc0 : cell_at g c0 = cell_at h c0) by (destruct (SAME c0 Lc0) as [C _]; exact C).
    assert (NK : ~ In k (map fst done)).
    { rewrite map_app in ND. simpl in ND. apply NoDup_remove_2 in ND. intro I. apply ND. apply in_or_app. left. exact I. }
    assert (FR : plookup (props g ca) k = None) by (apply plookup_notin; rewrite KEYS; exact NK).
    unfold clone_step at 2. simpl fst. simpl snd. rewrite Cc0.
    assert (LCA : ca < next g) by (subst ca; exact NG).
    destruct (set_prop_fresh_spec g ca k (cval (cell_at h c0)) FR PV LCA) as [c' [B1 [B2 [PR [_ [_ [SX [SC VM]]]]]]]].
    set (g1 := set_prop g ca k (cval (cell_at h c0))) in *.
    apply (IH (done ++ [(k, c0)]) g1); auto.
    + rewrite <- app_assoc. exact ND.
    + rewrite <- app_assoc. exact OK.
    + rewrite <- app_assoc. exact INp.
    + lia.
    + intros x Hx. destruct (SAME x Hx) as [A [B C]].
      assert (Hx2 : x < next g) by lia. assert (Hn : x <> ca) by (subst ca; lia).
      destruct (SX x Hx2 Hn) as [A2 [B2' C2]]. unfold same_at. split; [|split]; congruence.
    + rewrite PR, !map_app, KEYS. reflexivity.
    + intros I. rewrite map_app in I. apply in_app_or in I. destruct I as [I|I].
      * (* p was copied earlier: later SetProperty calls allocate elsewhere and only append *)
        destruct (CL I) as [cq [aq [P1 [P2 [[P3 P3'] [[P4 P4'] [P5 P6]]]]]]].
        exists cq, aq. destruct (SC cq P3') as [Cq _]. destruct (SC aq P4') as [_ Sq].
        split; [rewrite PR; apply plookup_app_l; exact P1|]. split; [rewrite Cq; exact P2|].
        split; [lia|]. split; [lia|]. split; [exact P5|]. rewrite Sq. exact P6.
      * (* p is copied by this very step *)
        simpl in I. destruct I as [I|[]]. subst k.
        assert (c0 = cp).
        { assert (In1 : In (p, c0) (done ++ (p, c0) :: r)) by (apply in_or_app; right; left; reflexivity).
          clear -ND In1 INp. induction (done ++ (p, c0) :: r) as [|[k1 c1] l IHl]; [destruct In1|].
          simpl in ND. inversion ND; subst. destruct In1 as [E1|E1], INp as [E2|E2]; try congruence.
          - inversion E1; subst. exfalso. apply H1. change p with (fst (p, cp)). apply in_map. exact E2.
          - inversion E2; subst. exfalso. apply H1. change p with (fst (p, c0)). apply in_map. exact E1.
          - apply IHl; auto. }
        subst c0. rewrite Vp in VM. destruct VM as [V1 [V2 V3]].
        exists c', (next g). split; [rewrite PR; apply plookup_app_new; exact FR|]. split; [exact V1|].
        split; [lia|]. split; [lia|]. split; [lia|]. rewrite V2.
        destruct (SAME ap Lap) as [_ [Sp _]]. exact Sp.
Qed.

Lemma obs_same_spine : forall n g a1 a2, spine g a1 = spine g a2 -> obs n g (VArr a1) = obs n g (VArr a2).
Proof. intros n g a1 a2 H. destruct n; simpl; [reflexivity|]. rewrite H. reflexivity. Qed.

Record pre_clone (st : state) (o p c : string) (co oa cp ap cc : nat) : Prop := {
  pc_prop : prop_name st o p co oa cp ap;
  pc_c : vlookup (env st) c = Some cc;
  pc_c_lt : cc < next (hp st);
  pc_keys : NoDup (map fst (props (hp st) oa));
  pc_vals : forall k c0, In (k, c0) (props (hp st) oa) -> c0 < next (hp st) /\ plain_val (cval (cell_at (hp st) c0));
  pc_sep : cc <> co /\ cc <> oa /\ cc <> cp /\ cc <> ap /\ ~ In cc (spine (hp st) ap);
  pc_own : co <> ap /\ oa <> ap /\ cp <> ap /\ co <> cp /\ oa <> cp /\
           ~ In co (spine (hp st) ap) /\ ~ In oa (spine (hp st) ap) /\ ~ In cp (spine (hp st) ap) }.

Lemma clone_then_write_l : forall n st o p c co oa cp ap cc path act m,
  pre_clone st o p c co oa cp ap cc -> mut_of path act = Some m ->
  let st1 := exec st (SCloneObj c o) in
  obs_base n st1 (BProp c p) = obs_base n st1 (BProp o p) /\
  obs_base n (exec st1 (SMut (BProp c p) path act)) (BProp o p) = obs_base n st1 (BProp o p) /\
  obs_base n (exec st1 (SMut (BProp o p) path act)) (BProp c p) = obs_base n st1 (BProp c p).
Proof.
  intros n st o p c co oa cp ap cc path act m
         [PN Ec Lc ND PV [S1 [S2 [S3 [S4 S5]]]] [O1 [O2 [O3 [O4 [O5 [O6 [O7 O8]]]]]]]] Hm.
  pose proof PN as PN0. destruct PN as [E O S [L1 [L2 L3]] V F].
  set (h := hp st) in *. set (ca := next h).
  set (h1 := fst (alloc_map h [])).
  assert (P1 : props h1 oa = props h oa).
  { unfold props, h1; simpl. destruct (Nat.eqb_spec (next h) oa); [lia | reflexivity]. }
  set (h2 := fold_left (clone_step ca) (props h oa) h1).
  assert (ST1 : exec st (SCloneObj c o) =
                {| hp := set_cell h2 cc (with_val (cell_at h2 cc) (VObj ca)); env := env st |}).
  { simpl. unfold var_val. rewrite E. fold h. rewrite O. unfold alloc_map. simpl.
    change {| cells := cells h; arrs := arrs h; maps := (next h, []) :: maps h; next := Datatypes.S (next h) |} with h1.
    rewrite P1.
    change (fold_left (fun (h0 : heap) (kc : string * nat) => set_prop h0 (next h) (fst kc) (cval (cell_at h0 (snd kc)))) (props h oa) h1) with h2.
    unfold set_var, var_cell. simpl env. rewrite Ec. reflexivity. }
  cbv zeta. rewrite ST1.
  set (h3 := set_cell h2 cc (with_val (cell_at h2 cc) (VObj ca))).
  set (st1 := {| hp := h3; env := env st |}).
  (* the fold *)
  assert (INp : In (p, cp) ([] ++ props h oa)) by (simpl; apply plookup_in; exact S).
  destruct (clone_fold_spec h ca p cp ap (props h oa) [] h1 eq_refl ND PV INp V (flat_lt _ _ F)) as [NG [SAME CL]].
  { unfold h1; simpl. lia. }
  { intros x Hx. unfold same_at, cell_at, spine, props, h1; simpl.
    destruct (Nat.eqb_spec (next h) x); [lia|]. repeat split. }
  { unfold props, h1; simpl. rewrite Nat.eqb_refl. reflexivity. }
  { intros []. }
  fold h2 in NG, SAME, CL.
  destruct CL as [c' [a' [Q1 [Q2 [[Q3 Q3'] [[Q4 Q4'] [Q5 Q6]]]]]]].
  (* the whole route touches, among what existed, only $c's slot *)
  assert (T : touches [cc] h h3).
  { split; [unfold h3; simpl; lia|]. intros x Hx Hn.
    destruct (SAME x Hx) as [A [B C]]. unfold same_at, h3, cell_at, spine, props; simpl.
    destruct (Nat.eqb_spec cc x); [exfalso; apply Hn; left; auto|].
    fold (cell_at h2 x). fold (spine h2 x). fold (props h2 x). repeat split; auto. }
  assert (AV0 : avoids (prop_sup h co oa cp ap) [cc] h).
  { intros x Hx. sup_cases Hx; try (split; [lia | intros [X|[]]; congruence]).
    - split; [apply (flat_lt _ _ F) | intros [X|[]]; congruence].
    - split; [apply (flat_spine_lt _ _ _ F Hx) | intros [X|[]]; subst; contradiction]. }
  destruct (prop_stable n st st1 o p co oa cp ap [cc] PN0 eq_refl T AV0) as [PN1 _].
  (* the clone's property *)
  assert (C3 : forall x, x <> cc -> cell_at h3 x = cell_at h2 x).
  { intros x Hx. unfold h3, cell_at; simpl. destruct (Nat.eqb_spec cc x); [congruence | reflexivity]. }
  assert (Sa3 : spine h3 a' = spine h ap) by exact Q6.
  assert (Cin : forall x, In x (spine h ap) -> cell_at h3 x = cell_at h x).
  { intros x Hx. rewrite C3 by (intro; subst; contradiction).
    destruct (SAME x (flat_spine_lt _ _ _ F Hx)) as [A _]. exact A. }
  assert (FB : flat_array h3 a').
  { destruct F as [La [BD [NR FF]]]. split; [unfold h3; simpl; lia|]. split; [|split].
    - intros x Hx. rewrite Sa3 in Hx. specialize (BD x Hx). unfold h3; simpl. lia.
    - intros x Hx. rewrite Sa3 in Hx. rewrite (Cin x Hx). apply NR; auto.
    - intros x Hx. rewrite Sa3 in Hx. rewrite (Cin x Hx). split; [apply FF; auto|]. specialize (BD x Hx). lia. }
  assert (PC1 : prop_name st1 c p cc ca c' a').
  { constructor; simpl env; simpl hp; auto.
    - unfold h3, cell_at; simpl. rewrite Nat.eqb_refl. reflexivity.
    - unfold h3; simpl. repeat split; unfold ca; lia.
    - rewrite C3 by lia. exact Q2. }
  assert (Sa1 : spine h3 ap = spine h ap).
  { destruct (SAME ap (flat_lt _ _ F)) as [_ [B _]]. exact B. }
  split; [|split].
  - unfold obs_base, base_val, var_val. simpl env. rewrite Ec, E.
    destruct PC1 as [_ Oc Slc _ Vc _]. destruct PN1 as [_ Oo Slo _ Vo _]. simpl hp in *.
    rewrite Oc, Oo. unfold get_prop. rewrite Slc, Slo, Vc, Vo. apply obs_same_spine. rewrite Sa3, Sa1. reflexivity.
  - (* write through the clone's property *)
    assert (W1 : cc <> a') by lia. assert (W2 : ca <> a') by (unfold ca; lia).
    assert (W3 : c' <> a') by (intro; apply Q5; auto).
    destruct (write_prop st1 c p cc ca c' a' path act m PC1 W1 W2 W3 Hm) as [EN TS].
    refine (proj2 (prop_stable n st1 _ o p co oa cp ap [a'; c'] PN1 EN TS _)).
    intros x Hx. unfold prop_sup in Hx. simpl hp in Hx. rewrite Sa1 in Hx.
    assert (LT : x < next h).
    { sup_cases Hx; try lia; [apply (flat_lt _ _ F) | apply (flat_spine_lt _ _ _ F Hx)]. }
    split; [unfold st1, h3; simpl; lia | intros [X|[X|[]]]; lia].
  - (* write through the original's property *)
    destruct (write_prop st1 o p co oa cp ap path act m PN1 O1 O2 O3 Hm) as [EN TS].
    refine (proj2 (prop_stable n st1 _ c p cc ca c' a' [ap; cp] PC1 EN TS _)).
    pose proof (flat_lt _ _ F) as Lap.
    intros x Hx. unfold prop_sup in Hx. simpl hp in Hx. rewrite Sa3 in Hx. sup_cases Hx.
    + split; [unfold st1, h3; simpl; lia | intros [X|[X|[]]]; congruence].
    + split; [unfold st1, h3; simpl; unfold ca; lia | intros [X|[X|[]]]; unfold ca in X; lia].
    + split; [unfold st1, h3; simpl; lia | intros [X|[X|[]]]; lia].
    + split; [unfold st1, h3; simpl; lia | intros [X|[X|[]]]; lia].
    + split; [unfold st1, h3; simpl; pose proof (flat_spine_lt _ _ _ F Hx); lia|].
      intros [X|[X|[]]]; subst; [exact (flat_spine_ne _ _ _ F Hx eq_refl) | contradiction].
Qed.
