(* C06 — the property, stated on observations only.

   A name (a variable, an object property, an array element) denotes a VALUE: a tree of keys and
   scalars.  "Arrays are values" says:
     (copy)   right after an array is copied by any route, both names denote the same tree;
     (frame)  a write through one name — element store, append, nested store, unset, in-place
              sort, push/pop — leaves the tree denoted by every OTHER name unchanged,
     unless an explicit reference (&) ties the two names, in which case the write is seen by both.
   Objects are handles: a copy of the handle denotes the same object; `clone` yields an object
   whose array-valued properties are independent values.

   The statement is about trees (`Model.tree`, what a recursive foreach snapshot prints), not about
   cells or spines; `unchanged` is plain equality of trees. *)
From Coq Require Import List String ZArith.
From V.C06 Require Import Model.
Import ListNotations.

(* the writes the property lists, on the array object a name currently denotes *)
Inductive mutation :=
| MStoreInt (i : Z) (v : val) | MStoreStr (k : string) (v : val) | MAppend (v : val)
| MUnsetInt (i : Z) | MUnsetStr (k : string) | MSort | MPush (v : val) | MPop.

(* the tree a name denotes before and after a write through another name *)
Definition unchanged (before after : tree) : Prop := before = after.

(* a value is flat when it has no array inside (depth 1) *)
Definition scalar (v : val) : bool := match v with VNull | VInt _ => true | _ => false end.
