(* C06 — correspondence: evaluate the heap model on the generated program and compare with the
   snapshots the implementation printed.  Imports no proofs. *)
From Coq Require Import List String ZArith Bool Arith.
From V.C06 Require Import Model.
Import ListNotations.
Local Open Scope list_scope.

Definition tkey_eqb (a b : tkey) : bool :=
  match a, b with
  | TKI x, TKI y => Z.eqb x y
  | TKS x, TKS y => String.eqb x y
  | _, _ => false
  end.

Fixpoint tree_eqb (a b : tree) {struct a} : bool :=
  match a, b with
  | TNull, TNull => true
  | TInt x, TInt y => Z.eqb x y
  | TObjRef _, TObjRef _ => true
  | TStr x, TStr y => String.eqb x y
  | TArr l1, TArr l2 =>
      (fix go (l1 l2 : list (tkey * tree)) {struct l1} : bool :=
         match l1, l2 with
         | [], [] => true
         | (k1, t1) :: r1, (k2, t2) :: r2 => tkey_eqb k1 k2 && tree_eqb t1 t2 && go r1 r2
         | _, _ => false
         end) l1 l2
  | _, _ => false
  end.

(* an expression naming one side: $x, $o->p, $w[k] *)
Inductive oexpr := OVar (x : string) | OProp (o p : string) | OElem (w : string) (k : key).
Definition oval (st : state) (e : oexpr) : val :=
  match e with
  | OVar x => var_val st x
  | OProp o p => base_val st (BProp o p)
  | OElem w k => container_get (hp st) (var_val st w) k
  end.
Definition FUEL : nat := 6%nat.
Definition observe (st : state) (e : oexpr) : tree := obs FUEL (hp st) (oval st e).

(* case: setup + route statements, the mutation statements, the two names, which name is the one
   NOT written through ("other": true = A), whether an explicit reference ties the two names, and
   the four snapshots the implementation printed (A before, B before, A after, B after)
   failing clauses: 1 = model/implementation disagree on a snapshot;
                    2 = the other name's snapshot changed although no reference was taken;
                    3 = the other name's KEY-TYPE-EXACT snapshot changed (the keys a foreach yields
                        turned from ints into numeric strings or back) although no reference was
                        taken.  r_o0 / r_o1 are the other name's snapshots before / after with keys
                        exactly as printed (TKS "0" for a string key "0"); the i_* snapshots have
                        canonical integer strings normalised to TKI, which is the model's abstraction
                        of ZVal.Name. *)
Record case := {
  c_pre : list stmt; c_mut : list stmt; c_a : oexpr; c_b : oexpr;
  c_other_is_a : bool; c_ref : bool;
  i_a0 : tree; i_b0 : tree; i_a1 : tree; i_b1 : tree;
  r_o0 : tree; r_o1 : tree }.

Definition check_case (c : case) : list nat :=
  let st0 := run (c_pre c) state0 in
  let st1 := run (c_mut c) st0 in
  let ok_model :=
    tree_eqb (observe st0 (c_a c)) (i_a0 c) && tree_eqb (observe st0 (c_b c)) (i_b0 c) &&
    tree_eqb (observe st1 (c_a c)) (i_a1 c) && tree_eqb (observe st1 (c_b c)) (i_b1 c) in
  let other_same :=
    if c_other_is_a c then tree_eqb (i_a0 c) (i_a1 c) else tree_eqb (i_b0 c) (i_b1 c) in
  (if ok_model then [] else [1%nat]) ++
  (if other_same || c_ref c then [] else [2%nat]) ++
  (if tree_eqb (r_o0 c) (r_o1 c) || c_ref c then [] else [3%nat]).

(* what the model itself predicts for the other name (used by the check to key findings) *)
Definition model_leaks (c : case) : bool :=
  let st0 := run (c_pre c) state0 in
  let st1 := run (c_mut c) st0 in
  let e := if c_other_is_a c then c_a c else c_b c in
  negb (tree_eqb (observe st0 e) (observe st1 e)).
