(* C06 — what a write statement touches, and what a name's observation depends on.
   Names: a variable $x, an object property $o->p, an array element $w[k].  A depth-1 write through
   a name touches only the array object the name denotes (plus, for a property, the property's own
   cell — the array is stored back — and, for an element, the containing array, whose slot is
   re-stored); the observation of a name depends only on its slot(s), the array object it denotes
   and that array's cells.  When the two sets are disjoint the write is not observable. *)
From Coq Require Import List String ZArith Bool Arith Lia.
From V.C06 Require Import Model Spec Proofs ProofsRoutes.
Import ListNotations.
Local Open Scope list_scope.

(* ------------------------------------------------------------------ touches *)
Definition touches (T : list nat) (h h' : heap) : Prop :=
  next h <= next h' /\ forall x, x < next h -> ~ In x T -> same_at h h' x.

Lemma touches_refl : forall T h, touches T h h.
Proof. intros; split; [lia|]. intros; repeat split. Qed.

Lemma touches_trans : forall T1 T2 h1 h2 h3,
  touches T1 h1 h2 -> touches T2 h2 h3 -> touches (T1 ++ T2) h1 h3.
Proof.
  intros T1 T2 h1 h2 h3 [L1 H1] [L2 H2]. split; [lia|]. intros x Hx Hn.
  assert (N1 : ~ In x T1) by (intro; apply Hn; apply in_or_app; auto).
  assert (N2 : ~ In x T2) by (intro; apply Hn; apply in_or_app; auto).
  destruct (H1 x Hx N1) as [A [B C]]. assert (Hx2 : x < next h2) by lia.
  destruct (H2 x Hx2 N2) as [A2 [B2 C2]]. unfold same_at. split; [|split]; congruence.
Qed.

Lemma touches_weaken : forall T T' h h', touches T h h' -> (forall x, In x T -> In x T') -> touches T' h h'.
Proof. intros T T' h h' [L H] S. split; [exact L|]. intros x Hx Hn. apply H; [exact Hx|]. intro I. apply Hn. apply S. exact I. Qed.

Lemma ue_touches : forall X h h', unchanged_except X h h' -> touches [X] h h'.
Proof.
  intros X h h' [L H]. split; auto. intros x Hx Hn. apply H; auto. intros ->. apply Hn. left. reflexivity.
Qed.

Lemma touches_set_cell : forall h c x, touches [c] h (set_cell h c x).
Proof.
  intros h c x. split; simpl; [lia|]. intros y Hy Hn. unfold same_at, cell_at, spine, props; simpl.
  destruct (Nat.eqb_spec c y); [exfalso; apply Hn; left; auto|]. repeat split.
Qed.

Lemma touches_alloc_arr : forall h l, touches [] h (fst (alloc_arr h l)).
Proof.
  intros h l. split; simpl; [lia|]. intros x Hx _. unfold same_at, cell_at, spine, props; simpl.
  destruct (Nat.eqb_spec (next h) x); [lia|]. repeat split.
Qed.

(* ------------------------------------------------------------------ stability of a flat array's tree *)
Lemma flat_obs_stable : forall n h h' a, flat_array h a ->
  (forall x, x = a \/ In x (spine h a) -> same_at h h' x) ->
  obs n h' (VArr a) = obs n h (VArr a).
Proof.
  intros n h h' a FA S. apply obs_agree. intros x Hx.
  apply S. eapply reach_flat; eauto.
Qed.

Lemma flat_stable : forall h h' a, flat_array h a -> next h <= next h' ->
  (forall x, x = a \/ In x (spine h a) -> same_at h h' x) -> flat_array h' a.
Proof.
  intros h h' a FA N S. apply (flat_transfer h h' a FA N).
  - destruct (S a (or_introl eq_refl)) as [_ [Sp _]]. exact Sp.
  - intros c Hc. destruct (S c (or_intror Hc)) as [C _]. exact C.
Qed.

(* ------------------------------------------------------------------ the three kinds of name *)
Record var_name (st : state) (x : string) (c a : nat) : Prop := {
  vn_env : vlookup (env st) x = Some c;
  vn_lt : c < next (hp st);
  vn_val : cval (cell_at (hp st) c) = VArr a;
  vn_flat : flat_array (hp st) a }.
Definition var_sup (h : heap) (c a : nat) : list nat := c :: a :: spine h a.

Record prop_name (st : state) (o p : string) (co oa c a : nat) : Prop := {
  pn_env : vlookup (env st) o = Some co;
  pn_obj : cval (cell_at (hp st) co) = VObj oa;
  pn_slot : plookup (props (hp st) oa) p = Some c;
  pn_lt : co < next (hp st) /\ oa < next (hp st) /\ c < next (hp st);
  pn_val : cval (cell_at (hp st) c) = VArr a;
  pn_flat : flat_array (hp st) a }.
Definition prop_sup (h : heap) (co oa c a : nat) : list nat := co :: oa :: c :: a :: spine h a.

Record elem_name (st : state) (w : string) (k : key) (cw W a : nat) : Prop := {
  en_env : vlookup (env st) w = Some cw;
  en_arr : cval (cell_at (hp st) cw) = VArr W;
  en_lt : cw < next (hp st) /\ W < next (hp st);
  en_bounded : bounded (hp st) W;
  en_noref : noref (hp st) W;
  en_get : container_get (hp st) (VArr W) k = VArr a;
  en_flat : flat_array (hp st) a }.
Definition elem_sup (h : heap) (cw W a : nat) : list nat := cw :: W :: spine h W ++ a :: spine h a.

Definition avoids (S T : list nat) (h : heap) : Prop := forall x, In x S -> x < next h /\ ~ In x T.

Lemma flat_in_sup_lt : forall h a x, flat_array h a -> x = a \/ In x (spine h a) -> x < next h.
Proof. intros h a x [L [BD _]] [->|H]; auto. Qed.

(* a variable *)
Lemma var_stable : forall n st st' x c a T, var_name st x c a -> env st' = env st ->
  touches T (hp st) (hp st') -> avoids (var_sup (hp st) c a) T (hp st) ->
  var_name st' x c a /\ obs_var n st' x = obs_var n st x.
Proof.
  intros n st st' x c a T [E L V F] EN [N TS] AV.
  assert (Sc : same_at (hp st) (hp st') c). { destruct (AV c) as [A B]; [left; auto|]. apply TS; auto. }
  assert (SA : forall y, y = a \/ In y (spine (hp st) a) -> same_at (hp st) (hp st') y).
  { intros y Hy. destruct (AV y) as [A B]; [right; destruct Hy as [->|Hy]; [left; auto | right; auto]|]. apply TS; auto. }
  destruct Sc as [Cc _].
  split.
  - constructor; [rewrite EN; auto | lia | rewrite Cc; auto | eapply flat_stable; eauto].
  - unfold obs_var, var_val. rewrite EN, E, Cc, V. apply flat_obs_stable; auto.
Qed.

(* a property *)
Lemma prop_stable : forall n st st' o p co oa c a T, prop_name st o p co oa c a -> env st' = env st ->
  touches T (hp st) (hp st') -> avoids (prop_sup (hp st) co oa c a) T (hp st) ->
  prop_name st' o p co oa c a /\ obs_base n st' (BProp o p) = obs_base n st (BProp o p).
Proof.
  intros n st st' o p co oa c a T [E O S [L1 [L2 L3]] V F] EN [N TS] AV.
  assert (G : forall y, In y (prop_sup (hp st) co oa c a) -> same_at (hp st) (hp st') y).
  { intros y Hy. destruct (AV y Hy). apply TS; auto. }
  destruct (G co) as [Cco _]; [left; auto|].
  destruct (G oa) as [_ [_ Poa]]; [right; left; auto|].
  destruct (G c) as [Cc _]; [right; right; left; auto|].
  assert (SA : forall y, y = a \/ In y (spine (hp st) a) -> same_at (hp st) (hp st') y).
  { intros y Hy. apply G. right; right; right. destruct Hy as [->|Hy]; [left; auto | right; auto]. }
  split.
  - constructor; try (rewrite EN; auto); try lia.
    + rewrite Cco; auto.
    + rewrite Poa; auto.
    + rewrite Cc; auto.
    + eapply flat_stable; eauto.
  - unfold obs_base, base_val, var_val. rewrite EN, E, Cco, O. unfold get_prop. rewrite Poa, S, Cc, V.
    apply flat_obs_stable; auto.
Qed.

(* an element: its lookup depends on the container's spine and the names of the container's cells *)
Lemma find_named_agree : forall h h' l nm j, (forall c, In c l -> cell_at h' c = cell_at h c) ->
  find_named h' l nm j = find_named h l nm j.
Proof.
  induction l as [|c r IH]; intros nm j H; simpl; [reflexivity|].
  rewrite (H c (or_introl eq_refl)). destruct (name_eqb (cname (cell_at h c)) nm); [reflexivity|].
  apply IH. intros d Hd. apply H. right. exact Hd.
Qed.

Lemma find_named_range : forall h l nm j0 j, find_named h l nm j0 = Some j -> j0 <= j < j0 + List.length l.
Proof.
  induction l as [|c r IH]; intros nm j0 j H; simpl in *; [discriminate|].
  destruct (name_eqb (cname (cell_at h c)) nm).
  - inversion H; subst. lia.
  - apply IH in H. lia.
Qed.

Lemma find_named_in : forall h l nm j, find_named h l nm 0 = Some j -> In (nth j l 0%nat) l.
Proof. intros h l nm j H. apply find_named_range in H. apply nth_In. lia. Qed.

Lemma container_get_agree : forall h h' W k, spine h' W = spine h W ->
  (forall c, In c (spine h W) -> cell_at h' c = cell_at h c) ->
  container_get h' (VArr W) k = container_get h (VArr W) k.
Proof.
  intros h h' W k S C. destruct k as [i|s]; simpl.
  - unfold find_slot_int. rewrite S, (find_named_agree h h' (spine h W) (NInt i) 0 C).
    destruct (find_named h (spine h W) (NInt i) 0) as [j|] eqn:F.
    + rewrite (C _ (find_named_in _ _ _ _ F)). reflexivity.
    + destruct (i <? 0)%Z; [reflexivity|].
      destruct (nth_error (spine h W) (Z.to_nat i)) as [c|] eqn:E; [|reflexivity].
      assert (I : In c (spine h W)) by (eapply nth_error_In; eauto). rewrite (C _ I).
      destruct (cname (cell_at h c)); try reflexivity.
      rewrite (nth_error_nth _ _ 0%nat E). rewrite (C _ I). reflexivity.
  - rewrite S, (find_named_agree h h' (spine h W) (NStr s) 0 C).
    destruct (find_named h (spine h W) (NStr s) 0) as [j|] eqn:F; [|reflexivity].
    rewrite (C _ (find_named_in _ _ _ _ F)). reflexivity.
Qed.

Lemma elem_stable : forall n st st' w k cw W a T, elem_name st w k cw W a -> env st' = env st ->
  touches T (hp st) (hp st') -> avoids (elem_sup (hp st) cw W a) T (hp st) ->
  elem_name st' w k cw W a /\
  obs n (hp st') (container_get (hp st') (var_val st' w) k) = obs n (hp st) (container_get (hp st) (var_val st w) k).
Proof.
  intros n st st' w k cw W a T [E A [L1 L2] BD NR G F] EN [N TS] AV.
  assert (S : forall y, In y (elem_sup (hp st) cw W a) -> same_at (hp st) (hp st') y).
  { intros y Hy. destruct (AV y Hy). apply TS; auto. }
  destruct (S cw) as [Ccw _]; [left; auto|].
  destruct (S W) as [_ [SW _]]; [right; left; auto|].
  assert (CW : forall c, In c (spine (hp st) W) -> cell_at (hp st') c = cell_at (hp st) c).
  { intros c Hc. destruct (S c) as [C _]; auto. right; right. apply in_or_app. left. exact Hc. }
  assert (SA : forall y, y = a \/ In y (spine (hp st) a) -> same_at (hp st) (hp st') y).
  { intros y Hy. apply S. right; right. apply in_or_app. right. destruct Hy as [->|Hy]; [left; auto | right; auto]. }
  assert (G' : container_get (hp st') (VArr W) k = VArr a).
  { rewrite (container_get_agree (hp st) (hp st') W k SW CW). exact G. }
  split.
  - constructor; try (rewrite EN; auto); try lia.
    + rewrite Ccw; auto.
    + intros c Hc. rewrite SW in Hc. specialize (BD c Hc). lia.
    + intros c Hc. rewrite SW in Hc. rewrite (CW c Hc). apply NR; auto.
    + exact G'.
    + eapply flat_stable; eauto.
  - unfold var_val. rewrite EN, E, Ccw, A, G', G. apply flat_obs_stable; auto.
Qed.

(* ------------------------------------------------------------------ what each write statement does *)
Lemma flat_noref_bounded : forall h a, flat_array h a -> noref h a /\ bounded h a.
Proof. intros h a [_ [B [N _]]]. split; auto. Qed.

(* $x[..] = v ; $x[] = v ; unset($x[..]) ; sort($x) ; array_push($x, v) ; array_pop($x) *)
Lemma write_var : forall st x c a path act m, var_name st x c a -> mut_of path act = Some m ->
  let st' := exec st (SMut (BVar x) path act) in
  env st' = env st /\ touches [a] (hp st) (hp st').
Proof.
  intros st x c a path act m [E L V F] Hm. cbv zeta.
  rewrite (exec_smut_var st x c a path act m E V Hm). simpl. split; [reflexivity|].
  destruct (flat_noref_bounded _ _ F) as [NR BD]. apply ue_touches. apply apply_mut_spec; auto.
Qed.

(* the same through a property: the array is mutated, then stored back into the property
   (SetProperty clones it and overwrites the property's cell) *)
Lemma write_prop : forall st o p co oa c a path act m, prop_name st o p co oa c a ->
  co <> a -> oa <> a -> c <> a -> mut_of path act = Some m ->
  let st' := exec st (SMut (BProp o p) path act) in
  env st' = env st /\ touches [a; c] (hp st) (hp st').
Proof.
  intros st o p co oa c a path act m [E O S [L1 [L2 L3]] V F] N1 N2 N3 Hm. cbv zeta.
  destruct (flat_noref_bounded _ _ F) as [NR BD].
  pose proof (apply_mut_spec (hp st) a m NR BD) as U. destruct U as [UN U].
  destruct (U co L1 N1) as [Cco _]. destruct (U oa L2 N2) as [_ [_ Poa]]. destruct (U c L3 N3) as [Cc _].
  assert (BV : base_val st (BProp o p) = VArr a).
  { simpl. unfold var_val. rewrite E, O. unfold get_prop. rewrite S, V. reflexivity. }
  cbv beta iota zeta delta [exec]. rewrite BV. rewrite (mutate_at_is_apply_mut _ _ _ _ _ Hm).
  set (h1 := apply_mut (hp st) a m) in *.
  unfold base_write_back, var_val. simpl env. rewrite E. simpl hp. rewrite Cco, O.
  simpl. split; [reflexivity|].
  unfold set_prop, copy_for_store, clone_array. simpl.
  assert (PL : plookup (props (fst (alloc_arr h1 (spine h1 a))) oa) p = Some c).
  { unfold props. simpl. fold (props h1 oa). rewrite Poa. exact S. }
  unfold alloc_arr in *. simpl in PL. rewrite PL.
  change [a; c] with ([a] ++ [] ++ [c]).
  eapply touches_trans; [apply ue_touches; split; [exact UN | exact U]|].
  eapply touches_trans; [apply (touches_alloc_arr h1 (spine h1 a))|].
  apply touches_set_cell.
Qed.

(* a write addressed through an array element $w[k]: the inner array is mutated and then stored
   again under k in the containing array *)
Lemma mutate_at_elem : forall h W k ai path act m, mut_of path act = Some m ->
  container_get h (VArr W) k = VArr ai ->
  mutate_at h (VArr W) (k :: path) act = container_set (apply_mut h ai m) (VArr W) k (VArr ai).
Proof.
  intros h W k ai path act m Hm G.
  rewrite <- (mutate_at_is_apply_mut h ai path act m Hm).
  destruct path as [|[i|s] [|k2 r]]; destruct act; simpl in Hm; try discriminate;
    cbn [mutate_at]; rewrite G; reflexivity.
Qed.

Lemma container_set_touches : forall h W k v, noref h W -> bounded h W ->
  touches [W] h (container_set h (VArr W) k v).
Proof.
  intros h W k v NR BD. apply ue_touches. destruct k; simpl.
  - apply set_int_key_spec; auto.
  - apply set_str_key_spec; auto.
Qed.

Lemma write_elem : forall st w k cw W a path act m, elem_name st w k cw W a ->
  cw <> a -> W <> a -> (forall c, In c (spine (hp st) W) -> c <> a) -> mut_of path act = Some m ->
  let st' := exec st (SMut (BVar w) (k :: path) act) in
  env st' = env st /\ touches [a; W] (hp st) (hp st').
Proof.
  intros st w k cw W a path act m [E A [L1 L2] BD NR G F] N1 N2 N3 Hm. cbv zeta.
  destruct (flat_noref_bounded _ _ F) as [NRa BDa].
  pose proof (apply_mut_spec (hp st) a m NRa BDa) as U. destruct U as [UN U].
  assert (VV : var_val st w = VArr W) by (unfold var_val; rewrite E, A; reflexivity).
  cbv beta iota zeta delta [exec base_val]. rewrite !VV. cbv beta iota zeta delta [base_write_back].
  rewrite (mutate_at_elem _ _ _ _ _ _ _ Hm G). simpl hp. simpl env. split; [reflexivity|].
  set (h1 := apply_mut (hp st) a m) in *.
  destruct (U W L2 N2) as [_ [SW _]].
  assert (NR1 : noref h1 W).
  { intros c Hc. rewrite SW in Hc. destruct (U c (BD c Hc) (N3 c Hc)) as [C _]. rewrite C. apply NR; auto. }
  assert (BD1 : bounded h1 W).
  { intros c Hc. rewrite SW in Hc. specialize (BD c Hc). lia. }
  change [a; W] with ([a] ++ [W]).
  eapply touches_trans; [apply ue_touches; split; [exact UN | exact U]|].
  apply container_set_touches; auto.
Qed.
