(* C06 — the hypotheses of the route theorems are satisfiable: concrete states reached by running
   setup statements inhabit every precondition record. *)
From Coq Require Import List String ZArith Bool Arith Lia.
From V.C06 Require Import Model Spec Proofs ProofsRoutes Frame RouteThms.
Import ListNotations.
Open Scope string_scope.
Open Scope Z_scope.

Definition L3 : lit := LList [LInt 3; LInt 1; LInt 2].

Ltac notin := let H := fresh "H" in intro H; vm_compute in H; intuition lia.
Ltac flat_tac :=
  split; [vm_compute; lia|]; split; [|split];
  [ intros c Hc; vm_compute in Hc; vm_compute; repeat (destruct Hc as [<-|Hc]; [lia|]); destruct Hc
  | intros c Hc; vm_compute in Hc; repeat (destruct Hc as [<-|Hc]; [vm_compute; reflexivity|]); destruct Hc
  | intros c Hc; vm_compute in Hc;
    repeat (destruct Hc as [<-|Hc]; [split; [vm_compute; reflexivity | vm_compute; lia]|]); destruct Hc ].

(* $o = new C (public $p = [3,1,2]); $b = 0; *)
Definition s_pr : state := run [SNewObj "o" "p" L3; SSetInt "b" 0] state0.
Example ex_prop_name : prop_name s_pr "o" "p" 7 4 6 5.
Proof.
  constructor; try (vm_compute; reflexivity).
  - vm_compute. repeat split; lia.
  - flat_tac.
Qed.
Example ex_pre_prop_read : pre_prop_read s_pr "o" "p" "b" 7 4 6 5 8.
Proof.
  constructor; [exact ex_prop_name | vm_compute; reflexivity | vm_compute; lia | |].
  - repeat split; try lia. notin.
  - repeat split; try lia; notin.
Qed.
Example ex_pre_clone : pre_clone s_pr "o" "p" "b" 7 4 6 5 8.
Proof.
  constructor; [exact ex_prop_name | vm_compute; reflexivity | vm_compute; lia | | | |].
  - vm_compute. constructor; [intros []|constructor].
  - intros k c0 H. vm_compute in H. destruct H as [H|[]]. inversion H; subst. split; [vm_compute; lia | vm_compute; exact I].
  - repeat split; try lia. notin.
  - repeat split; try lia; notin.
Qed.
(* objects_by_handle with $h := $b *)
Example ex_handle_hyps :
  vlookup (env s_pr) "b" = Some 8%nat /\ (8 < next (hp s_pr))%nat /\
  (8 <> 7 /\ 8 <> 4 /\ 8 <> 6 /\ 8 <> 5 /\ ~ In 8 (spine (hp s_pr) 5))%nat /\
  (7 <> 5 /\ 4 <> 5 /\ 6 <> 5 /\ 7 <> 6 /\ 4 <> 6)%nat.
Proof. split; [vm_compute; reflexivity|]. split; [vm_compute; lia|]. split; repeat split; try lia. notin. Qed.

(* $a = [3,1,2]; $o = new C (public $p = 0); *)
Definition s_ps : state := run [SLit "a" L3; SNewObj "o" "p" (LInt 0)] state0.
Example ex_pre_prop_store : pre_prop_store s_ps "o" "p" "a" 8 6 7 4 5.
Proof.
  constructor; try (vm_compute; reflexivity).
  - constructor; try (vm_compute; reflexivity); [vm_compute; lia | flat_tac].
  - vm_compute. repeat split; lia.
  - repeat split; try lia; notin.
Qed.

(* $a = [3,1,2]; $w = []; $w['x'] = $a; $b = 0; *)
Definition s_er : state :=
  run [SLit "a" L3; SLit "w" (LList []); SElemStore "w" (KS "x") "a"; SSetInt "b" 0] state0.
Example ex_pre_elem_read : pre_elem_read s_er "w" (KS "x") "b" 7 8 9 11.
Proof.
  constructor; try (vm_compute; reflexivity).
  - constructor; try (vm_compute; reflexivity).
    + vm_compute. split; lia.
    + intros c Hc. vm_compute in Hc. destruct Hc as [<-|[]]. vm_compute. lia.
    + intros c Hc. vm_compute in Hc. destruct Hc as [<-|[]]. vm_compute. reflexivity.
    + flat_tac.
  - vm_compute. lia.
  - repeat split; try lia; try notin; try (intros c Hc; vm_compute in Hc; destruct Hc as [<-|[]]; lia).
Qed.

(* $a = [3,1,2]; $w = []; *)
Definition s_es : state := run [SLit "a" L3; SLit "w" (LList [])] state0.
Example ex_pre_elem_store : pre_elem_store s_es "w" "a" 7 8 4 5.
Proof.
  constructor; try (vm_compute; reflexivity).
  - constructor; try (vm_compute; reflexivity); [vm_compute; lia | flat_tac].
  - vm_compute. split; lia.
  - intros c Hc. vm_compute in Hc. destruct Hc.
  - intros c Hc. vm_compute in Hc. destruct Hc.
  - repeat split; try lia; notin.
Qed.
Example ex_elem_store_side_conditions :
  (forall c, In c (spine (hp s_es) 8) -> cname (cell_at (hp s_es) c) = NNone) /\
  find_named (hp s_es) (spine (hp s_es) 8) (NStr "x") 0 = None.
Proof. split; [intros c Hc; vm_compute in Hc; destruct Hc | vm_compute; reflexivity]. Qed.
