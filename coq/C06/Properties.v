(* placeholder while the tie is being validated *)
From V.C06 Require Import Model.
