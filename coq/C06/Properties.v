(* C06 — the property, clause by clause.  Only statements here; every proof is `exact lemma`. *)
From Coq Require Import List String ZArith Bool Arith.
From V.C06 Require Import Model Spec Proofs ProofsRoutes Frame RouteThms.
Import ListNotations.

(* FRAME (any depth, any route): a write — element store by int or string key, append, unset,
   in-place sort, push, pop — on the array object X changes the tree of no value from which X is
   not reachable.  Hypotheses: X has no reference-bound cell (no `&` was taken on an element),
   its cells exist.  This is what makes "not observable through the other name" true whenever the
   two names denote different array objects, shared cells or not. *)
Theorem write_frame : forall n h X m v, noref h X -> bounded h X ->
  (forall x, In x (reach n h v) -> x < next h /\ x <> X) ->
  unchanged (obs n h v) (obs n (apply_mut h X m) v).
Proof. exact write_frame_u. Qed.
Print Assumptions write_frame.

(* depth 1: two distinct array objects that share any of their cells (a copy and its original
   share all of them) are independent under every write *)
Theorem frame_spine : forall n h a b m, flat_array h a -> flat_array h b -> a <> b ->
  (forall c, In c (spine h b) -> c <> a) ->
  unchanged (obs n h (VArr b)) (obs n (apply_mut h a m) (VArr b)).
Proof. exact frame_spine_u. Qed.
Print Assumptions frame_spine.

(* copy by CloneArrayValue — the one copy every route performs: assignment, by-value parameter,
   returned value (SetVariableValue), property store / clone (ObjectValue.SetProperty), element
   store and list literal (IndexExpression.SetValue, node/array.go after 6d28fe1) — then any write
   through either name: the other name's tree is unchanged, for every depth-1 array, every key,
   every value *)
Theorem copy_then_mutate : forall n h a m, flat_array h a ->
  let h1 := fst (clone_array h a) in
  let b := snd (clone_array h a) in
  obs n h1 (VArr b) = obs n h1 (VArr a) /\
  obs n (apply_mut h1 b m) (VArr a) = obs n h1 (VArr a) /\
  obs n (apply_mut h1 a m) (VArr b) = obs n h1 (VArr b).
Proof. exact copy_then_mutate_l. Qed.
Print Assumptions copy_then_mutate.

(* the script-level write statements on a depth-1 array are those writes *)
Theorem statement_is_write : forall h X path act m,
  mut_of path act = Some m -> mutate_at h (VArr X) path act = apply_mut h X m.
Proof. exact mutate_at_is_apply_mut. Qed.

(* through the statement interpreter: `$xb = $xa;` (assignment — also the model image of by-value
   parameter binding and of a returned value) and then any depth-1 write statement
   ($x[k] = v, $x[] = v, unset($x[k]), sort($x), array_push($x, v), array_pop($x)) through either
   variable: both denote equal trees after the copy and the write never shows through the other *)
Theorem assign_then_write : forall n st xa xb ca cb a path act m,
  two_vars st xa xb ca cb a -> mut_of path act = Some m ->
  let st1 := exec st (SCopy xb xa) in
  obs_var n st1 xb = obs_var n st1 xa /\
  obs_var n (exec st1 (SMut (BVar xb) path act)) xa = obs_var n st1 xa /\
  obs_var n (exec st1 (SMut (BVar xa) path act)) xb = obs_var n st1 xb.
Proof. exact assign_then_write_l. Qed.
Print Assumptions assign_then_write.

(* ---- every copy route THROUGH THE STATEMENT INTERPRETER `exec`: after the route statement the two
   names denote equal trees, and any depth-1 write statement ($x[k] = v, $x[] = v, unset($x[k]),
   sort($x), array_push($x, v), array_pop($x) — `mut_of path act = Some m`) through either name
   leaves the other name's tree unchanged.  Each precondition record describes the state before the
   route statement (existing slots, a depth-1 array, distinct addresses); ExamplesRoutes.v inhabits
   every one of them with a state reached by running setup statements. ---- *)

(* read from an object property  $b = $o->p   (also: $b = $o->method() returning the property) *)
Theorem prop_read_then_write : forall n st o p b co oa cp ap cb path act m,
  pre_prop_read st o p b co oa cp ap cb -> mut_of path act = Some m ->
  let st1 := exec st (SPropRead b o p) in
  obs_var n st1 b = obs_base n st1 (BProp o p) /\
  obs_base n (exec st1 (SMut (BVar b) path act)) (BProp o p) = obs_base n st1 (BProp o p) /\
  obs_var n (exec st1 (SMut (BProp o p) path act)) b = obs_var n st1 b.
Proof. exact prop_read_then_write_l. Qed.
Print Assumptions prop_read_then_write.

(* stored into an object property  $o->p = $a *)
Theorem prop_store_then_write : forall n st o p a co oa cp ca aa path act m,
  pre_prop_store st o p a co oa cp ca aa -> mut_of path act = Some m ->
  let st1 := exec st (SPropStore o p a) in
  obs_base n st1 (BProp o p) = obs_var n st1 a /\
  obs_var n (exec st1 (SMut (BProp o p) path act)) a = obs_var n st1 a /\
  obs_base n (exec st1 (SMut (BVar a) path act)) (BProp o p) = obs_base n st1 (BProp o p).
Proof. exact prop_store_then_write_l. Qed.
Print Assumptions prop_store_then_write.

(* read from another array  $b = $w[k]   (also: $b = end($w) / reset($w) / current($w)) *)
Theorem elem_read_then_write : forall n st w k b cw W a cb path act m,
  pre_elem_read st w k b cw W a cb -> mut_of path act = Some m ->
  let st1 := exec st (SElemRead b w k) in
  let elem st := obs n (hp st) (container_get (hp st) (var_val st w) k) in
  obs_var n st1 b = elem st1 /\
  elem (exec st1 (SMut (BVar b) path act)) = elem st1 /\
  obs_var n (exec st1 (SMut (BVar w) (k :: path) act)) b = obs_var n st1 b.
Proof. exact elem_read_then_write_l. Qed.
Print Assumptions elem_read_then_write.

(* stored into another array  $w[] = $a  (a list)  and  $w['x'] = $a  (a new string key) *)
Theorem elem_append_then_write : forall n st w a cw W ca aa path act m,
  pre_elem_store st w a cw W ca aa ->
  (forall c, In c (spine (hp st) W) -> cname (cell_at (hp st) c) = NNone) ->
  mut_of path act = Some m ->
  let k := KI (Z.of_nat (List.length (spine (hp st) W))) in
  let st1 := exec st (SElemAppend w a) in
  let elem st := obs n (hp st) (container_get (hp st) (var_val st w) k) in
  elem st1 = obs_var n st1 a /\
  obs_var n (exec st1 (SMut (BVar w) (k :: path) act)) a = obs_var n st1 a /\
  elem (exec st1 (SMut (BVar a) path act)) = elem st1.
Proof. exact elem_append_then_write_l. Qed.
Theorem elem_store_str_then_write : forall n st w a x cw W ca aa path act m,
  pre_elem_store st w a cw W ca aa ->
  find_named (hp st) (spine (hp st) W) (NStr x) 0 = None ->
  mut_of path act = Some m ->
  let k := KS x in
  let st1 := exec st (SElemStore w k a) in
  let elem st := obs n (hp st) (container_get (hp st) (var_val st w) k) in
  elem st1 = obs_var n st1 a /\
  obs_var n (exec st1 (SMut (BVar w) (k :: path) act)) a = obs_var n st1 a /\
  elem (exec st1 (SMut (BVar a) path act)) = elem st1.
Proof. exact elem_store_str_then_write_l. Qed.
Print Assumptions elem_append_then_write.
Print Assumptions elem_store_str_then_write.

(* ---- "Objects are shared by handle, and clone yields an object whose own properties (including
   array-valued ones) change independently." ---- *)

(* $h = $o copies nothing (no allocation, both variables hold the same object) and a write through
   $h->p is the write through $o->p.  (The last conjunct is a corollary of the two handles being equal:
   it says that the model has ONE object there, nothing deeper; what ties it to the code is the
   handle-copy route of the check, where the implementation's snapshots through both names are compared
   with the model's after every mutation.) *)
Theorem objects_by_handle : forall n st o h p co ch oa c a path act m,
  prop_name st o p co oa c a -> vlookup (env st) h = Some ch -> ch < next (hp st) ->
  ch <> co /\ ch <> oa /\ ch <> c /\ ch <> a /\ ~ In ch (spine (hp st) a) ->
  co <> a /\ oa <> a /\ c <> a /\ co <> c /\ oa <> c ->
  mut_of path act = Some m ->
  let st1 := exec st (SCopy h o) in
  let st2 := exec st1 (SMut (BProp h p) path act) in
  next (hp st1) = next (hp st) /\ var_val st1 h = VObj oa /\ var_val st1 o = VObj oa /\
  obs_base n st2 (BProp o p) = obs_base n st2 (BProp h p).
Proof. exact objects_by_handle_l. Qed.
Print Assumptions objects_by_handle.

(* $c = clone $o : for an object with any number of properties (scalar, object or array valued), the
   array-valued property p of the clone equals the original's and each changes independently *)
Theorem clone_then_write : forall n st o p c co oa cp ap cc path act m,
  pre_clone st o p c co oa cp ap cc -> mut_of path act = Some m ->
  let st1 := exec st (SCloneObj c o) in
  obs_base n st1 (BProp c p) = obs_base n st1 (BProp o p) /\
  obs_base n (exec st1 (SMut (BProp c p) path act)) (BProp o p) = obs_base n st1 (BProp o p) /\
  obs_base n (exec st1 (SMut (BProp o p) path act)) (BProp c p) = obs_base n st1 (BProp c p).
Proof. exact clone_then_write_l. Qed.
Print Assumptions clone_then_write.

(* a list literal of scalars is a depth-1 array in the sense of the hypotheses above *)
Theorem literal_is_flat : forall h vs, (forall v, In v vs -> scalar v = true) ->
  let (h1, a) := new_array h vs in flat_array h1 a.
Proof. exact new_array_flat. Qed.
Print Assumptions literal_is_flat.

(* "unless a reference (&) was taken explicitly": a store to a reference-bound slot is written
   into the shared cell, so every array holding that cell sees it *)
Theorem ref_writes_through : forall h X j n v c,
  nth_error (spine h X) j = Some c -> cref (cell_at h c) = true ->
  cval (cell_at (store_slot h X j n v) c) = v /\ spine (store_slot h X j n v) X = spine h X.
Proof. exact ref_store_in_place. Qed.
Print Assumptions ref_writes_through.

(* ---- audit follow-up -------------------------------------------------------------------------
   The writes that go THROUGH a cell instead of replacing it - a by-reference parameter bound to an
   element ( f($b[k]) with f(&$x) ), $r = &$b[k]; $r = z, usort($b, ...), array_walk($b, ...) - were
   depth-1 leaks of the code (CloneArrayValue shares the cells) until ArrayValue.OwnSlot (/repo b95af9a,
   5b57fff, 3f03ea0).  The depth-1 copy theorem, for every write that has the frame property: *)
Theorem copy_then_any_frame_write : forall W, frame_write W -> forall n h a, flat_array h a ->
  let h1 := fst (clone_array h a) in
  let b := snd (clone_array h a) in
  obs n h1 (VArr b) = obs n h1 (VArr a) /\
  obs n (W h1 b) (VArr a) = obs n h1 (VArr a) /\
  obs n (W h1 a) (VArr b) = obs n h1 (VArr b).
Proof. exact copy_then_write_gen. Qed.
(* ... and these writes have it (as every apply_mut has: apply_mut_frame_write) *)
Theorem ref_store_is_frame_write : forall k z bind, frame_write (fun h X => ref_store h (VArr X) [k] z bind).
Proof. exact ref_store_frame_write. Qed.
Theorem usort_is_frame_write : frame_write usort_arr.
Proof. exact usort_frame_write. Qed.
Theorem array_walk_is_frame_write : forall z, frame_write (fun h X => walk_arr h X z).
Proof. exact walk_frame_write. Qed.
Print Assumptions copy_then_any_frame_write.
Print Assumptions usort_is_frame_write.

(* A write TAKES EFFECT (the frame theorems alone are satisfied by a write that does nothing).
   Representation level: the written position holds a cell of the array's own with the new value, every
   older cell is untouched.  Tree level (flat arrays, store through a reference): the snapshot of the
   written name is the old snapshot with entry j replaced, under the same key. *)
Theorem store_takes_effect : forall h X j n v c0, nth_error (spine h X) j = Some c0 ->
  cref (cell_at h c0) = false ->
  let h' := store_slot h X j n v in
  spine h' X = set_nth j (next h) (spine h X) /\ cell_at h' (next h) = plain n v /\
  (forall c, c < next h -> cell_at h' c = cell_at h c).
Proof. exact store_slot_takes_effect. Qed.
Theorem append_takes_effect : forall h X n v,
  let h' := arr_append_cell h X n v in
  spine h' X = (spine h X ++ [next h])%list /\ cell_at h' (next h) = plain n v /\
  (forall c, c < next h -> cell_at h' c = cell_at h c).
Proof. exact append_takes_effect. Qed.
Theorem ref_store_snapshot : forall n h X k z bind j c0, flat_array h X ->
  zval_pos h X k = Some j -> nth_error (spine h X) j = Some c0 ->
  obs (S n) (ref_store h (VArr X) [k] z bind) (VArr X) =
  TArr (set_nth j (key_of j (cname (cell_at h c0)), TInt z) (obs_items (obs n h) h (spine h X) 0)).
Proof. exact ref_store_snapshot. Qed.
Print Assumptions ref_store_snapshot.

(* Depth >= 2, characterised exactly.  CloneArrayValue copies one level, so a copy and its original hold the same
   inner array objects.  For EVERY array a (nested or not) and every write on a third array object X - an inner
   array in particular: afterwards the copy and the original still denote equal trees.  With write_frame this is
   the whole story of a nested write: it is seen through both names or through neither (when neither reaches X),
   never through one only; only writes on the two top-level array objects themselves can tell the names apart
   (copy_then_mutate).  The property demands independence at every depth, so the nested clause stays refuted. *)
Theorem clone_then_third_party_write : forall n h a X m,
  a < next h -> noref h X -> bounded h X -> X <> a -> X < next h ->
  let h1 := fst (clone_array h a) in
  let b := snd (clone_array h a) in
  obs n (apply_mut h1 X m) (VArr b) = obs n (apply_mut h1 X m) (VArr a).
Proof. exact clone_then_third_party_write_l. Qed.
Print Assumptions clone_then_third_party_write.

(* Nested shapes (depth >= 2): the full statement
     forall shape route m, observe_other (mutate m (copy route h)) = observe_other (copy route h)
   is FALSE of the code: inner arrays are shared pointers mutated in place (no copy-on-write);
   Examples.nested_store_leaks_refuted is the witness; KNOWN_FINDINGS nested:value:d<depth>:<mutation class>. *)
