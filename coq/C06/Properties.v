(* C06 — the property, clause by clause.  Only statements here; every proof is `exact lemma`. *)
From Coq Require Import List String ZArith Bool Arith.
From V.C06 Require Import Model Spec Proofs ProofsRoutes.
Import ListNotations.

(* FRAME (any depth, any route): a write — element store by int or string key, append, unset,
   in-place sort, push, pop — on the array object X changes the tree of no value from which X is
   not reachable.  Hypotheses: X has no reference-bound cell (no `&` was taken on an element),
   its cells exist.  This is what makes "not observable through the other name" true whenever the
   two names denote different array objects, shared cells or not. *)
Theorem write_frame : forall n h X m v, noref h X -> bounded h X ->
  (forall x, In x (reach n h v) -> x < next h /\ x <> X) ->
  unchanged (obs n h v) (obs n (apply_mut h X m) v).
Proof. exact write_frame_u. Qed.
Print Assumptions write_frame.

(* depth 1: two distinct array objects that share any of their cells (a copy and its original
   share all of them) are independent under every write *)
Theorem frame_spine : forall n h a b m, flat_array h a -> flat_array h b -> a <> b ->
  (forall c, In c (spine h b) -> c <> a) ->
  unchanged (obs n h (VArr b)) (obs n (apply_mut h a m) (VArr b)).
Proof. exact frame_spine_u. Qed.
Print Assumptions frame_spine.

(* copy by CloneArrayValue — the one copy every route performs: assignment, by-value parameter,
   returned value (SetVariableValue), property store / clone (ObjectValue.SetProperty), element
   store and list literal (IndexExpression.SetValue, node/array.go after 6d28fe1) — then any write
   through either name: the other name's tree is unchanged, for every depth-1 array, every key,
   every value *)
Theorem copy_then_mutate : forall n h a m, flat_array h a ->
  let h1 := fst (clone_array h a) in
  let b := snd (clone_array h a) in
  obs n h1 (VArr b) = obs n h1 (VArr a) /\
  obs n (apply_mut h1 b m) (VArr a) = obs n h1 (VArr a) /\
  obs n (apply_mut h1 a m) (VArr b) = obs n h1 (VArr b).
Proof. exact copy_then_mutate_l. Qed.
Print Assumptions copy_then_mutate.

(* the script-level write statements on a depth-1 array are those writes *)
Theorem statement_is_write : forall h X path act m,
  mut_of path act = Some m -> mutate_at h (VArr X) path act = apply_mut h X m.
Proof. exact mutate_at_is_apply_mut. Qed.

(* through the statement interpreter: `$xb = $xa;` (assignment — also the model image of by-value
   parameter binding and of a returned value) and then any depth-1 write statement
   ($x[k] = v, $x[] = v, unset($x[k]), sort($x), array_push($x, v), array_pop($x)) through either
   variable: both denote equal trees after the copy and the write never shows through the other *)
Theorem assign_then_write : forall n st xa xb ca cb a path act m,
  two_vars st xa xb ca cb a -> mut_of path act = Some m ->
  let st1 := exec st (SCopy xb xa) in
  obs_var n st1 xb = obs_var n st1 xa /\
  obs_var n (exec st1 (SMut (BVar xb) path act)) xa = obs_var n st1 xa /\
  obs_var n (exec st1 (SMut (BVar xa) path act)) xb = obs_var n st1 xb.
Proof. exact assign_then_write_l. Qed.
Print Assumptions assign_then_write.

(* a list literal of scalars is a depth-1 array in the sense of the hypotheses above *)
Theorem literal_is_flat : forall h vs, (forall v, In v vs -> scalar v = true) ->
  let (h1, a) := new_array h vs in flat_array h1 a.
Proof. exact new_array_flat. Qed.
Print Assumptions literal_is_flat.

(* "unless a reference (&) was taken explicitly": a store to a reference-bound slot is written
   into the shared cell, so every array holding that cell sees it *)
Theorem ref_writes_through : forall h X j n v c,
  nth_error (spine h X) j = Some c -> cref (cell_at h c) = true ->
  cval (cell_at (store_slot h X j n v) c) = v /\ spine (store_slot h X j n v) X = spine h X.
Proof. exact ref_store_in_place. Qed.
Print Assumptions ref_writes_through.

(* Nested shapes (depth >= 2): the full statement
     forall shape route m, observe_other (mutate m (copy route h)) = observe_other (copy route h)
   is FALSE of the code: inner arrays are shared pointers mutated in place (no copy-on-write);
   Examples.nested_store_leaks_refuted is the witness; KNOWN_FINDINGS nested:mutation=*. *)
