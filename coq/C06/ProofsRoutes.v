(* C06 — statement level: the assignment route (also the model image of by-value parameter
   binding and of returning a value) followed by a depth-1 write, through the interpreter `exec`. *)
From Coq Require Import List String ZArith Bool Arith Lia.
From V.C06 Require Import Model Spec Proofs.
Import ListNotations.
Local Open Scope list_scope.

(* two existing variables whose slots are ordinary cells, the first denoting a depth-1 array *)
Record two_vars (st : state) (xa xb : string) (ca cb a : nat) : Prop := {
  tv_a : vlookup (env st) xa = Some ca;
  tv_b : vlookup (env st) xb = Some cb;
  tv_ne : ca <> cb;
  tv_val : cval (cell_at (hp st) ca) = VArr a;
  tv_flat : flat_array (hp st) a;
  tv_ca : ca < next (hp st) /\ ca <> a /\ ~ In ca (spine (hp st) a);
  tv_cb : cb < next (hp st) /\ cb <> a /\ ~ In cb (spine (hp st) a) }.

Lemma var_val_found : forall st x c, vlookup (env st) x = Some c -> var_val st x = cval (cell_at (hp st) c).
Proof. intros st x c H. unfold var_val. rewrite H. reflexivity. Qed.

(* $xb = $xa : the copy lives in a fresh array object with the same cells; only xb's slot changes *)
Lemma assign_gives_clone : forall st xa xb ca cb a, two_vars st xa xb ca cb a ->
  let st1 := exec st (SCopy xb xa) in
  let b := next (hp st) in
  env st1 = env st /\ next (hp st1) = S b /\
  var_val st1 xa = VArr a /\ var_val st1 xb = VArr b /\
  spine (hp st1) b = spine (hp st) a /\ spine (hp st1) a = spine (hp st) a /\
  (forall c, c <> cb -> cell_at (hp st1) c = cell_at (hp st) c).
Proof.
  intros st xa xb ca cb a [Ha Hb Hne Hv [La _] _ _]. simpl.
  unfold set_var, var_cell. rewrite Hb. rewrite (var_val_found st xa ca Ha), Hv. simpl.
  unfold var_val; simpl. rewrite Ha, Hb.
  repeat split.
  - unfold cell_at; simpl. destruct (Nat.eqb_spec cb ca); [congruence|]. exact Hv.
  - unfold cell_at; simpl. rewrite Nat.eqb_refl. reflexivity.
  - unfold spine; simpl. rewrite Nat.eqb_refl. reflexivity.
  - unfold spine; simpl. destruct (Nat.eqb_spec (next (hp st)) a); [lia|]. reflexivity.
  - intros c Hc. unfold cell_at; simpl. destruct (Nat.eqb_spec cb c); [congruence|]. reflexivity.
Qed.

Lemma flat_transfer : forall h h' x, flat_array h x -> next h <= next h' ->
  spine h' x = spine h x -> (forall c, In c (spine h x) -> cell_at h' c = cell_at h c) ->
  flat_array h' x.
Proof.
  intros h h' x [L [BD [NR F]]] N S C. split; [lia|]. split; [|split].
  - intros c Hc. rewrite S in Hc. specialize (BD c Hc). lia.
  - intros c Hc. rewrite S in Hc. rewrite (C c Hc). apply NR; auto.
  - intros c Hc. rewrite S in Hc. rewrite (C c Hc). apply F; auto.
Qed.

(* a write statement on a variable that denotes array X *)
Lemma exec_smut_var : forall st x c X path act m,
  vlookup (env st) x = Some c -> cval (cell_at (hp st) c) = VArr X ->
  mut_of path act = Some m ->
  exec st (SMut (BVar x) path act) = {| hp := apply_mut (hp st) X m; env := env st |}.
Proof.
  intros st x c X path act m Hx Hv Hm. simpl. unfold var_val. rewrite Hx, Hv.
  rewrite (mutate_at_is_apply_mut _ _ _ _ _ Hm). reflexivity.
Qed.

Lemma assign_then_write_l : forall n st xa xb ca cb a path act m,
  two_vars st xa xb ca cb a -> mut_of path act = Some m ->
  let st1 := exec st (SCopy xb xa) in
  obs_var n st1 xb = obs_var n st1 xa /\
  obs_var n (exec st1 (SMut (BVar xb) path act)) xa = obs_var n st1 xa /\
  obs_var n (exec st1 (SMut (BVar xa) path act)) xb = obs_var n st1 xb.
Proof.
  intros n st xa xb ca cb a path act m TV Hm.
  pose proof (assign_gives_clone st xa xb ca cb a TV) as G. cbv zeta in G.
  destruct TV as [Ha Hb Hne Hv FA [Lca [Nca Ica]] [Lcb [Ncb Icb]]].
  remember (exec st (SCopy xb xa)) as st1 eqn:Est1. cbv zeta.
  set (b := next (hp st)) in *.
  destruct G as [E [N [Va [Vb [Sb [Sa C]]]]]].
  assert (Ha1 : vlookup (env st1) xa = Some ca) by (rewrite E; exact Ha).
  assert (Hb1 : vlookup (env st1) xb = Some cb) by (rewrite E; exact Hb).
  assert (Cin : forall c, In c (spine (hp st) a) -> cell_at (hp st1) c = cell_at (hp st) c).
  { intros c Hc. apply C. intros ->. contradiction. }
  assert (FA1 : flat_array (hp st1) a).
  { apply (flat_transfer (hp st) (hp st1) a FA); [lia | exact Sa | exact Cin]. }
  assert (FB1 : flat_array (hp st1) b).
  { destruct FA as [L [BD [NR F]]]. split; [lia|]. split; [|split].
    - intros c Hc. rewrite Sb in Hc. specialize (BD c Hc). lia.
    - intros c Hc. rewrite Sb in Hc. rewrite (Cin c Hc). apply NR; auto.
    - intros c Hc. rewrite Sb in Hc. rewrite (Cin c Hc). split; [apply F; auto|].
      specialize (BD c Hc). unfold b. lia. }
  assert (NEab : a <> b). { destruct FA as [L _]. unfold b. lia. }
  assert (Vca : cval (cell_at (hp st1) ca) = VArr a).
  { rewrite <- Va. symmetry. apply var_val_found; auto. }
  assert (Vcb : cval (cell_at (hp st1) cb) = VArr b).
  { rewrite <- Vb. symmetry. apply var_val_found; auto. }
  split; [|split].
  - unfold obs_var. rewrite Va, Vb. destruct n; simpl; [reflexivity|]. rewrite Sa, Sb. reflexivity.
  - rewrite (exec_smut_var st1 xb cb b path act m Hb1 Vcb Hm).
    unfold obs_var, var_val; simpl. rewrite Ha1.
    destruct FB1 as [Lb [BDb [NRb Fb]]].
    destruct (apply_mut_spec (hp st1) b m NRb BDb) as [_ U].
    destruct (U ca) as [Cc _]; [lia | unfold b; lia |]. rewrite Cc, Vca.
    apply (frame_spine_l n (hp st1) b a m); auto.
    + split; [exact Lb|]. split; [exact BDb|]. split; [exact NRb|exact Fb].
    + intros c Hc. rewrite Sa in Hc. destruct FA as [_ [BD _]]. specialize (BD c Hc). unfold b. lia.
  - rewrite (exec_smut_var st1 xa ca a path act m Ha1 Vca Hm).
    unfold obs_var, var_val; simpl. rewrite Hb1.
    destruct FA1 as [La1 [BDa [NRa Fa]]].
    destruct (apply_mut_spec (hp st1) a m NRa BDa) as [_ U].
    destruct (U cb) as [Cc _]; [lia | auto |]. rewrite Cc, Vcb.
    apply (frame_spine_l n (hp st1) a b m); auto.
    + split; [exact La1|]. split; [exact BDa|]. split; [exact NRa|exact Fa].
    + intros c Hc. rewrite Sb in Hc. destruct FA as [_ [_ [_ F]]]. apply F; auto.
Qed.
