(* C06 — frame theorem for array writes; copy-then-mutate for depth-1 arrays. *)
From Coq Require Import List String ZArith Bool Arith Lia.
From V.C06 Require Import Model Spec.
Import ListNotations.
Local Open Scope list_scope.

(* ------------------------------------------------------------------ lookups after primitive updates *)
Lemma nlookup_cons : forall (A : Type) (m : list (nat * A)) k v k',
  nlookup ((k, v) :: m) k' = if Nat.eqb k k' then Some v else nlookup m k'.
Proof. reflexivity. Qed.

(* everything that exists (address below the allocation counter) and is not X reads the same *)
Definition same_at (h h' : heap) (x : nat) : Prop :=
  cell_at h' x = cell_at h x /\ spine h' x = spine h x /\ props h' x = props h x.

Definition unchanged_except (X : nat) (h h' : heap) : Prop :=
  next h <= next h' /\ forall x, x < next h -> x <> X -> same_at h h' x.

Lemma ue_refl : forall X h, unchanged_except X h h.
Proof. intros; split; [lia|]. intros; repeat split. Qed.

Lemma ue_trans : forall X h1 h2 h3,
  unchanged_except X h1 h2 -> unchanged_except X h2 h3 -> unchanged_except X h1 h3.
Proof.
  intros X h1 h2 h3 [L1 H1] [L2 H2]. split; [lia|].
  intros x Hx Hn. destruct (H1 x Hx Hn) as [A [B C]].
  assert (Hx2 : x < next h2) by lia. destruct (H2 x Hx2 Hn) as [A2 [B2 C2]].
  repeat split; congruence.
Qed.

Lemma ue_alloc_cell : forall X h c, unchanged_except X h (fst (alloc_cell h c)).
Proof.
  intros X h c. split; simpl; [lia|]. intros x Hx _. unfold same_at, cell_at, spine, props; simpl.
  destruct (Nat.eqb_spec (next h) x); [lia|]. repeat split.
Qed.

Lemma ue_set_spine : forall X h l, unchanged_except X h (set_spine h X l).
Proof.
  intros X h l. split; simpl; [lia|]. intros x Hx Hn. unfold same_at, cell_at, spine, props; simpl.
  destruct (Nat.eqb_spec X x); [congruence|]. repeat split.
Qed.

Lemma ue_alloc_arr : forall X h l, unchanged_except X h (fst (alloc_arr h l)).
Proof.
  intros X h l. split; simpl; [lia|]. intros x Hx _. unfold same_at, cell_at, spine, props; simpl.
  destruct (Nat.eqb_spec (next h) x); [lia|]. repeat split.
Qed.

(* ------------------------------------------------------------------ no reference-bound cell in X *)
Definition noref (h : heap) (X : nat) : Prop :=
  forall c, In c (spine h X) -> cref (cell_at h c) = false.
Definition bounded (h : heap) (X : nat) : Prop :=
  forall c, In c (spine h X) -> c < next h.

Lemma spine_set_spine : forall h X l, spine (set_spine h X l) X = l.
Proof. intros. unfold spine, set_spine; simpl. rewrite Nat.eqb_refl. reflexivity. Qed.
Lemma cell_set_spine : forall h X l c, cell_at (set_spine h X l) c = cell_at h c.
Proof. reflexivity. Qed.
Lemma next_set_spine : forall h X l, next (set_spine h X l) = next h.
Proof. reflexivity. Qed.

Lemma set_nth_in : forall (A : Type) j (x : A) l y, In y (set_nth j x l) -> y = x \/ In y l.
Proof.
  induction j; destruct l; simpl; intros y H; auto.
  - destruct H; auto.
  - destruct H; auto. apply IHj in H. tauto.
Qed.
Lemma remove_nth_in : forall (A : Type) j (l : list A) y, In y (remove_nth j l) -> In y l.
Proof.
  induction j; destruct l; simpl; intros y H; auto. destruct H; auto.
Qed.

(* store_slot on an array without reference cells: allocate + set_spine *)
Lemma store_slot_spec : forall h X j n v, noref h X -> bounded h X ->
  let h' := store_slot h X j n v in
  unchanged_except X h h' /\ noref h' X /\ bounded h' X /\
  List.length (spine h' X) = List.length (spine h X).
Proof.
  intros h X j n v NR BD. unfold store_slot.
  destruct (nth_error (spine h X) j) as [c|] eqn:E.
  2:{ simpl. split; [apply ue_refl|]. repeat split; auto. }
  assert (Ic : In c (spine h X)) by (eapply nth_error_In; eauto).
  rewrite (NR c Ic). simpl.
  set (h1 := {| cells := (next h, plain n v) :: cells h; arrs := arrs h; maps := maps h; next := S (next h) |}).
  assert (S1 : spine h1 X = spine h X) by reflexivity.
  split; [|split; [|split]].
  - eapply ue_trans; [apply (ue_alloc_cell X h (plain n v)) | apply ue_set_spine].
  - intros d Hd. rewrite spine_set_spine in Hd. rewrite cell_set_spine.
    apply set_nth_in in Hd. destruct Hd as [->|Hd].
    + unfold cell_at, h1; simpl. rewrite Nat.eqb_refl. reflexivity.
    + unfold cell_at, h1; simpl. destruct (Nat.eqb_spec (next h) d).
      * subst. specialize (BD _ Hd). lia.
      * apply NR; auto.
  - intros d Hd. rewrite spine_set_spine in Hd. rewrite next_set_spine. simpl.
    apply set_nth_in in Hd. destruct Hd as [->|Hd]; [lia|]. specialize (BD _ Hd). lia.
  - rewrite spine_set_spine. clear. generalize (spine h X) as l. revert j.
    induction j; destruct l; simpl; auto.
Qed.

Lemma append_cell_spec : forall h X n v, noref h X -> bounded h X ->
  let h' := arr_append_cell h X n v in
  unchanged_except X h h' /\ noref h' X /\ bounded h' X.
Proof.
  intros h X n v NR BD. unfold arr_append_cell. simpl.
  set (h1 := {| cells := (next h, plain n v) :: cells h; arrs := arrs h; maps := maps h; next := S (next h) |}).
  split; [|split].
  - eapply ue_trans; [apply (ue_alloc_cell X h (plain n v)) | apply ue_set_spine].
  - intros d Hd. rewrite spine_set_spine in Hd. rewrite cell_set_spine.
    apply in_app_or in Hd. destruct Hd as [Hd|[<-|[]]].
    + unfold cell_at, h1; simpl. destruct (Nat.eqb_spec (next h) d).
      * subst. specialize (BD _ Hd). lia.
      * apply NR; auto.
    + unfold cell_at, h1; simpl. rewrite Nat.eqb_refl. reflexivity.
  - intros d Hd. rewrite spine_set_spine in Hd. rewrite next_set_spine. simpl.
    apply in_app_or in Hd. destruct Hd as [Hd|[<-|[]]]; [specialize (BD _ Hd); lia | lia].
Qed.

Lemma set_spine_sub_spec : forall h X l, noref h X -> bounded h X ->
  (forall c, In c l -> In c (spine h X)) ->
  let h' := set_spine h X l in
  unchanged_except X h h' /\ noref h' X /\ bounded h' X.
Proof.
  intros h X l NR BD SUB. split; [apply ue_set_spine|]. split.
  - intros d Hd. rewrite spine_set_spine in Hd. rewrite cell_set_spine. apply NR; auto.
  - intros d Hd. rewrite spine_set_spine in Hd. rewrite next_set_spine. apply BD; auto.
Qed.

Lemma set_int_key_spec : forall h X i v, noref h X -> bounded h X ->
  unchanged_except X h (set_int_key h X i v).
Proof.
  intros h X i v NR BD. unfold set_int_key.
  destruct (find_slot_int h X i).
  - apply store_slot_spec; auto.
  - destruct (i <? 0)%Z; [apply ue_refl|].
    destruct (Nat.eqb (Z.to_nat i) (List.length (spine h X))); [apply append_cell_spec; auto|].
    destruct (Nat.ltb (List.length (spine h X)) (Z.to_nat i)); [apply append_cell_spec; auto|].
    destruct (nth_error (spine h X) (Z.to_nat i)) as [c|] eqn:E; [|apply ue_refl].
    assert (Ic : In c (spine h X)) by (eapply nth_error_In; eauto).
    rewrite (NR c Ic). simpl.
    eapply ue_trans; [apply (ue_alloc_cell X h (plain NNone v)) | apply ue_set_spine].
Qed.

Lemma set_str_key_spec : forall h X k v, noref h X -> bounded h X ->
  unchanged_except X h (set_str_key h X k v).
Proof.
  intros h X k v NR BD. unfold set_str_key.
  destruct (find_named h (spine h X) (NStr k) 0).
  - apply store_slot_spec; auto.
  - apply append_cell_spec; auto.
Qed.

Lemma normalize_from_spec : forall n h X j, noref h X -> bounded h X ->
  let h' := normalize_from h X j n in
  unchanged_except X h h' /\ noref h' X /\ bounded h' X.
Proof.
  induction n; intros h X j NR BD; simpl.
  - split; [apply ue_refl|]. split; auto.
  - set (h1 := match nth_error (spine h X) j with
               | Some c => match cname (cell_at h c) with
                           | NNone => store_slot h X j (NInt (Z.of_nat j)) (cval (cell_at h c))
                           | _ => h
                           end
               | None => h
               end).
    assert (H1 : unchanged_except X h h1 /\ noref h1 X /\ bounded h1 X).
    { unfold h1. destruct (nth_error (spine h X) j); [|split; [apply ue_refl|split; auto]].
      destruct (cname (cell_at h n0)); try (split; [apply ue_refl|split; auto]).
      destruct (store_slot_spec h X j (NInt (Z.of_nat j)) (cval (cell_at h n0)) NR BD) as [A [B [C _]]].
      auto. }
    destruct H1 as [U1 [NR1 BD1]].
    destruct (IHn h1 X (S j) NR1 BD1) as [U2 [NR2 BD2]].
    split; [eapply ue_trans; eauto | auto].
Qed.

Lemma unset_int_spec : forall h X i, noref h X -> bounded h X ->
  unchanged_except X h (unset_int h X i).
Proof.
  intros h X i NR BD. unfold unset_int, normalize.
  destruct (normalize_from_spec (List.length (spine h X)) h X 0 NR BD) as [U [NR1 BD1]].
  set (h1 := normalize_from h X 0 (List.length (spine h X))) in *.
  destruct (find_named h1 (spine h1 X) (NInt i) 0); [|exact U].
  eapply ue_trans; [exact U | apply ue_set_spine].
Qed.

Lemma unset_str_spec : forall h X k, unchanged_except X h (unset_str h X k).
Proof.
  intros h X k. unfold unset_str.
  destruct (find_named h (spine h X) (NStr k) 0); [apply ue_set_spine | apply ue_refl].
Qed.

(* the writes of the property on array object X *)
Definition apply_mut (h : heap) (X : nat) (m : mutation) : heap :=
  match m with
  | MStoreInt i v => set_int_key h X i v
  | MStoreStr k v => set_str_key h X k v
  | MAppend v => arr_append_cell h X NNone v
  | MUnsetInt i => unset_int h X i
  | MUnsetStr k => unset_str h X k
  | MSort => sort_spine h X
  | MPush v => arr_push h X v
  | MPop => arr_pop h X
  end.

Lemma apply_mut_spec : forall h X m, noref h X -> bounded h X ->
  unchanged_except X h (apply_mut h X m).
Proof.
  intros h X m NR BD. destruct m; simpl.
  - apply set_int_key_spec; auto.
  - apply set_str_key_spec; auto.
  - apply append_cell_spec; auto.
  - apply unset_int_spec; auto.
  - apply unset_str_spec.
  - apply ue_set_spine.
  - apply append_cell_spec; auto.
  - apply ue_set_spine.
Qed.

(* ------------------------------------------------------------------ reachability and the frame theorem *)
Fixpoint reach (n : nat) (h : heap) (v : val) : list nat :=
  match v with
  | VArr a =>
      a :: match n with
           | O => []
           | S f => flat_map (fun c => c :: reach f h (cval (cell_at h c))) (spine h a)
           end
  | VMap o =>
      o :: match n with
           | O => []
           | S f => flat_map (fun kc => snd kc :: reach f h (cval (cell_at h (snd kc)))) (props h o)
           end
  | _ => []
  end.

Lemma obs_items_agree : forall (r r' : val -> tree) h h' l j,
  (forall c, In c l -> cell_at h' c = cell_at h c /\ r' (cval (cell_at h c)) = r (cval (cell_at h c))) ->
  obs_items r' h' l j = obs_items r h l j.
Proof.
  induction l as [|c l IH]; intros j H; simpl; [reflexivity|].
  destruct (H c (or_introl eq_refl)) as [E1 E2]. rewrite E1, E2. f_equal.
  apply IH. intros d Hd. apply H. right. exact Hd.
Qed.

Lemma obs_agree : forall n h h' v,
  (forall x, In x (reach n h v) -> same_at h h' x) -> obs n h' v = obs n h v.
Proof.
  induction n; intros h h' v H; destruct v; simpl; try reflexivity.
  - (* VArr, S n *)
    assert (Sa : spine h' a = spine h a). { destruct (H a) as [_ [S _]]; simpl; auto. }
    rewrite Sa. f_equal. apply obs_items_agree. intros c Hc.
    assert (Hin : forall x, In x (c :: reach n h (cval (cell_at h c))) -> In x (reach (S n) h (VArr a))).
    { intros x Hx. simpl. right. apply in_flat_map. exists c. split; auto. }
    split.
    + destruct (H c) as [C _]; auto. apply Hin. left. reflexivity.
    + apply IHn. intros x Hx. apply H. apply Hin. right. exact Hx.
  - (* VMap, S n *)
    assert (Sa : props h' o = props h o). { destruct (H o) as [_ [_ S]]; simpl; auto. }
    rewrite Sa. f_equal. apply map_ext_in. intros [k c] Hc. simpl.
    assert (Hin : forall x, In x (c :: reach n h (cval (cell_at h c))) -> In x (reach (S n) h (VMap o))).
    { intros x Hx. simpl. right. apply in_flat_map. exists (k, c). split; auto. }
    assert (C : cell_at h' c = cell_at h c). { destruct (H c) as [C _]; auto. apply Hin. left. reflexivity. }
    rewrite C. f_equal. apply IHn. intros x Hx. apply H. apply Hin. right. exact Hx.
Qed.

(* FRAME: a write on array object X leaves the tree of every value that does not reach X
   unchanged — at any depth *)
Lemma write_frame_l : forall n h X m v, noref h X -> bounded h X ->
  (forall x, In x (reach n h v) -> x < next h /\ x <> X) ->
  obs n (apply_mut h X m) v = obs n h v.
Proof.
  intros n h X m v NR BD R. apply obs_agree. intros x Hx.
  destruct (apply_mut_spec h X m NR BD) as [_ U]. destruct (R x Hx). apply U; auto.
Qed.

(* ------------------------------------------------------------------ depth 1: copy, then write *)
Definition flat_array (h : heap) (a : nat) : Prop :=
  a < next h /\ bounded h a /\ noref h a /\
  (forall c, In c (spine h a) -> scalar (cval (cell_at h c)) = true /\ c <> a).

Lemma reach_scalar : forall n h v, scalar v = true -> reach n h v = [].
Proof. intros n h v H. destruct v, n; simpl in *; try discriminate; reflexivity. Qed.

Lemma reach_flat : forall n h a x, flat_array h a -> In x (reach n h (VArr a)) -> x = a \/ In x (spine h a).
Proof.
  intros n h a x [_ [_ [_ F]]] H. destruct n; simpl in H.
  - destruct H as [H|[]]; auto.
  - destruct H as [H|H]; auto. apply in_flat_map in H. destruct H as [c [Hc Hx]].
    destruct (F c Hc) as [Sc _]. rewrite (reach_scalar n h _ Sc) in Hx.
    destruct Hx as [<-|[]]. right. exact Hc.
Qed.

Lemma copy_then_mutate_l : forall n h a m, flat_array h a ->
  let h1 := fst (clone_array h a) in
  let b := snd (clone_array h a) in
  (* the two names denote the same tree right after the copy *)
  obs n h1 (VArr b) = obs n h1 (VArr a) /\
  (* a write through the copy does not show through the original *)
  obs n (apply_mut h1 b m) (VArr a) = obs n h1 (VArr a) /\
  (* a write through the original does not show through the copy *)
  obs n (apply_mut h1 a m) (VArr b) = obs n h1 (VArr b).
Proof.
  intros n h a m FA. destruct FA as [La [BD [NR F]]].
  unfold clone_array, alloc_arr. simpl.
  set (h1 := {| cells := cells h; arrs := (next h, spine h a) :: arrs h; maps := maps h; next := S (next h) |}).
  set (b := next h).
  assert (Sb : spine h1 b = spine h a).
  { unfold spine, h1; simpl. unfold b. rewrite Nat.eqb_refl. reflexivity. }
  assert (Sa : spine h1 a = spine h a).
  { unfold spine at 1, h1; simpl. destruct (Nat.eqb_spec (next h) a); [lia|reflexivity]. }
  assert (C : forall c, cell_at h1 c = cell_at h c) by reflexivity.
  assert (FA1 : flat_array h1 a).
  { split; [simpl; lia|]. split; [intros c Hc; rewrite Sa in Hc; simpl; specialize (BD c Hc); lia|].
    split; [intros c Hc; rewrite Sa in Hc; rewrite C; apply NR; auto|].
    intros c Hc. rewrite Sa in Hc. rewrite C. apply F; auto. }
  assert (FB1 : flat_array h1 b).
  { split; [simpl; unfold b; lia|]. split; [intros c Hc; rewrite Sb in Hc; simpl; specialize (BD c Hc); lia|].
    split; [intros c Hc; rewrite Sb in Hc; rewrite C; apply NR; auto|].
    intros c Hc. rewrite Sb in Hc. rewrite C. split; [apply F; auto|]. specialize (BD c Hc). unfold b. lia. }
  split; [|split].
  - destruct n; simpl; [reflexivity|]. rewrite Sa, Sb. reflexivity.
  - destruct FB1 as [_ [BDb [NRb _]]].
    apply write_frame_l; auto. intros x Hx. apply (reach_flat n h1 a x FA1) in Hx.
    destruct Hx as [->|Hx].
    + simpl. unfold b. lia.
    + rewrite Sa in Hx. specialize (BD x Hx). simpl. unfold b. lia.
  - destruct FA1 as [_ [BDa [NRa _]]].
    apply write_frame_l; auto. intros x Hx. apply (reach_flat n h1 b x FB1) in Hx.
    destruct Hx as [->|Hx].
    + simpl. unfold b. lia.
    + rewrite Sb in Hx. split; [specialize (BD x Hx); simpl; lia|]. apply F; auto.
Qed.

(* ------------------------------------------------------------------ explicit references write through *)
Lemma ref_store_in_place : forall h X j n v c,
  nth_error (spine h X) j = Some c -> cref (cell_at h c) = true ->
  cval (cell_at (store_slot h X j n v) c) = v /\ spine (store_slot h X j n v) X = spine h X.
Proof.
  intros h X j n v c E R. unfold store_slot. rewrite E, R. split.
  - unfold cell_at, set_cell; simpl. rewrite Nat.eqb_refl. reflexivity.
  - reflexivity.
Qed.

(* a list literal builds a flat array when its elements are ints *)
Lemma alloc_cells_spec : forall vs h, let (h1, cs) := alloc_cells h vs in
  next h1 = next h + List.length vs /\ List.length cs = List.length vs /\
  (forall c, c < next h -> cell_at h1 c = cell_at h c) /\
  (forall x, spine h1 x = spine h x) /\
  (forall c, In c cs -> next h <= c < next h1 /\ cref (cell_at h1 c) = false /\ In (cval (cell_at h1 c)) vs).
Proof.
  induction vs as [|v r IH]; intros h; simpl.
  - repeat split; auto; try lia; try (intros c []).
  - set (h0 := {| cells := (next h, plain NNone v) :: cells h; arrs := arrs h; maps := maps h; next := S (next h) |}).
    specialize (IH h0). destruct (alloc_cells h0 r) as [h2 cs] eqn:E.
    destruct IH as [N [L [C [S I]]]]. simpl in N.
    split; [lia|]. split; [simpl; lia|]. split; [|split].
    + intros c Hc. rewrite C by (simpl; lia). unfold cell_at, h0; simpl.
      destruct (Nat.eqb_spec (next h) c); [lia|reflexivity].
    + intros x. rewrite S. reflexivity.
    + intros c [<-|Hc].
      * split; [simpl in N; lia|]. rewrite C by (simpl; lia).
        unfold cell_at, h0; simpl. rewrite Nat.eqb_refl. simpl. auto.
      * destruct (I c Hc) as [B [R V]]. simpl in B. split; [lia|]. split; auto.
Qed.

Lemma new_array_flat : forall h vs, (forall v, In v vs -> scalar v = true) ->
  let (h1, a) := new_array h vs in flat_array h1 a.
Proof.
  intros h vs SC. unfold new_array.
  pose proof (alloc_cells_spec vs h) as AS. destruct (alloc_cells h vs) as [h1 cs].
  destruct AS as [N [L [C [Sp0 I]]]]. unfold alloc_arr. simpl.
  set (h2 := {| cells := cells h1; arrs := (next h1, cs) :: arrs h1; maps := maps h1; next := S (next h1) |}).
  assert (Sp : spine h2 (next h1) = cs). { unfold spine, h2; simpl. rewrite Nat.eqb_refl. reflexivity. }
  split; [simpl; lia|]. split; [|split].
  - intros c Hc. rewrite Sp in Hc. destruct (I c Hc) as [B _]. simpl. lia.
  - intros c Hc. rewrite Sp in Hc. destruct (I c Hc) as [_ [R _]]. exact R.
  - intros c Hc. rewrite Sp in Hc. destruct (I c Hc) as [B [_ V]]. split; [apply SC; exact V | lia].
Qed.

(* FRAME at depth 1, the form the routes use: two DISTINCT array objects — they may share every
   cell, as a copy and its original do — are independent under every write *)
Lemma frame_spine_l : forall n h a b m, flat_array h a -> flat_array h b -> a <> b ->
  (forall c, In c (spine h b) -> c <> a) ->
  obs n (apply_mut h a m) (VArr b) = obs n h (VArr b).
Proof.
  intros n h a b m FA FB NE NC. destruct FA as [_ [BDa [NRa _]]].
  apply write_frame_l; auto. intros x Hx. apply (reach_flat n h b x FB) in Hx.
  destruct FB as [Lb [BDb _]]. destruct Hx as [->|Hx]; [split; auto|].
  split; [apply BDb; auto | apply NC; auto].
Qed.

(* the depth-1 statement forms  $x[k] = v;  $x[] = v;  unset($x[k]);  sort($x);  array_push($x, v);
   array_pop($x)  are exactly the writes of apply_mut on the array object the name denotes *)
Definition mut_of (path : list key) (act : action) : option mutation :=
  match path, act with
  | [KI i], AStore v => Some (MStoreInt i (VInt v))
  | [KS s], AStore v => Some (MStoreStr s (VInt v))
  | [KI i], AUnset => Some (MUnsetInt i)
  | [KS s], AUnset => Some (MUnsetStr s)
  | [], AAppend v => Some (MAppend (VInt v))
  | [], ASort => Some MSort
  | [], APush v => Some (MPush (VInt v))
  | [], APop => Some MPop
  | _, _ => None
  end.

Lemma mutate_at_is_apply_mut : forall h X path act m,
  mut_of path act = Some m -> mutate_at h (VArr X) path act = apply_mut h X m.
Proof.
  intros h X path act m H.
  destruct path as [|[i|s] [|k2 r]]; destruct act; simpl in H; inversion H; subst; reflexivity.
Qed.

Lemma write_frame_u : forall n h X m v, noref h X -> bounded h X ->
  (forall x, In x (reach n h v) -> x < next h /\ x <> X) ->
  unchanged (obs n h v) (obs n (apply_mut h X m) v).
Proof. intros; symmetry; apply write_frame_l; auto. Qed.
Lemma frame_spine_u : forall n h a b m, flat_array h a -> flat_array h b -> a <> b ->
  (forall c, In c (spine h b) -> c <> a) ->
  unchanged (obs n h (VArr b)) (obs n (apply_mut h a m) (VArr b)).
Proof. intros; symmetry; apply frame_spine_l; auto. Qed.
