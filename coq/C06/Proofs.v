(* C06 — frame theorem for array writes; copy-then-mutate for depth-1 arrays. *)
From Coq Require Import List String ZArith Bool Arith Lia.
From V.C06 Require Import Model Spec.
Import ListNotations.
Local Open Scope list_scope.

(* ------------------------------------------------------------------ lookups after primitive updates *)
Lemma nlookup_cons : forall (A : Type) (m : list (nat * A)) k v k',
  nlookup ((k, v) :: m) k' = if Nat.eqb k k' then Some v else nlookup m k'.
Proof. reflexivity. Qed.

(* everything that exists (address below the allocation counter) and is not X reads the same *)
Definition same_at (h h' : heap) (x : nat) : Prop :=
  cell_at h' x = cell_at h x /\ spine h' x = spine h x /\ props h' x = props h x.

Definition unchanged_except (X : nat) (h h' : heap) : Prop :=
  next h <= next h' /\ forall x, x < next h -> x <> X -> same_at h h' x.

Lemma ue_refl : forall X h, unchanged_except X h h.
Proof. intros; split; [lia|]. intros; repeat split. Qed.

Lemma ue_trans : forall X h1 h2 h3,
  unchanged_except X h1 h2 -> unchanged_except X h2 h3 -> unchanged_except X h1 h3.
Proof.
  intros X h1 h2 h3 [L1 H1] [L2 H2]. split; [lia|].
  intros x Hx Hn. destruct (H1 x Hx Hn) as [A [B C]].
  assert (Hx2 : x < next h2) by lia. destruct (H2 x Hx2 Hn) as [A2 [B2 C2]].
  repeat split; congruence.
Qed.

Lemma ue_alloc_cell : forall X h c, unchanged_except X h (fst (alloc_cell h c)).
Proof.
  intros X h c. split; simpl; [lia|]. intros x Hx _. unfold same_at, cell_at, spine, props; simpl.
  destruct (Nat.eqb_spec (next h) x); [lia|]. repeat split.
Qed.

Lemma ue_set_spine : forall X h l, unchanged_except X h (set_spine h X l).
Proof.
  intros X h l. split; simpl; [lia|]. intros x Hx Hn. unfold same_at, cell_at, spine, props; simpl.
  destruct (Nat.eqb_spec X x); [congruence|]. repeat split.
Qed.

Lemma ue_alloc_arr : forall X h l, unchanged_except X h (fst (alloc_arr h l)).
Proof.
  intros X h l. split; simpl; [lia|]. intros x Hx _. unfold same_at, cell_at, spine, props; simpl.
  destruct (Nat.eqb_spec (next h) x); [lia|]. repeat split.
Qed.

(* ------------------------------------------------------------------ no reference-bound cell in X *)
Definition noref (h : heap) (X : nat) : Prop :=
  forall c, In c (spine h X) -> cref (cell_at h c) = false.
Definition bounded (h : heap) (X : nat) : Prop :=
  forall c, In c (spine h X) -> c < next h.

Lemma spine_set_spine : forall h X l, spine (set_spine h X l) X = l.
Proof. intros. unfold spine, set_spine; simpl. rewrite Nat.eqb_refl. reflexivity. Qed.
Lemma cell_set_spine : forall h X l c, cell_at (set_spine h X l) c = cell_at h c.
Proof. reflexivity. Qed.
Lemma next_set_spine : forall h X l, next (set_spine h X l) = next h.
Proof. reflexivity. Qed.

Lemma set_nth_in : forall (A : Type) j (x : A) l y, In y (set_nth j x l) -> y = x \/ In y l.
Proof.
  induction j; destruct l; simpl; intros y H; auto.
  - destruct H; auto.
  - destruct H; auto. apply IHj in H. tauto.
Qed.
Lemma remove_nth_in : forall (A : Type) j (l : list A) y, In y (remove_nth j l) -> In y l.
Proof.
  induction j; destruct l; simpl; intros y H; auto. destruct H; auto.
Qed.

(* store_slot on an array without reference cells: allocate + set_spine *)
Lemma store_slot_spec : forall h X j n v, noref h X -> bounded h X ->
  let h' := store_slot h X j n v in
  unchanged_except X h h' /\ noref h' X /\ bounded h' X /\
  List.length (spine h' X) = List.length (spine h X).
Proof.
  intros h X j n v NR BD. unfold store_slot.
  destruct (nth_error (spine h X) j) as [c|] eqn:E.
  2:{ simpl. split; [apply ue_refl|]. repeat split; auto. }
  assert (Ic : In c (spine h X)) by (eapply nth_error_In; eauto).
  rewrite (NR c Ic). simpl.
  set (h1 := {| cells := (next h, plain n v) :: cells h; arrs := arrs h; maps := maps h; next := S (next h) |}).
  assert (S1 : spine h1 X = spine h X) by reflexivity.
  split; [|split; [|split]].
  - eapply ue_trans; [apply (ue_alloc_cell X h (plain n v)) | apply ue_set_spine].
  - intros d Hd. rewrite spine_set_spine in Hd. rewrite cell_set_spine.
    apply set_nth_in in Hd. destruct Hd as [->|Hd].
    + unfold cell_at, h1; simpl. rewrite Nat.eqb_refl. reflexivity.
    + unfold cell_at, h1; simpl. destruct (Nat.eqb_spec (next h) d).
      * subst. specialize (BD _ Hd). lia.
      * apply NR; auto.
  - intros d Hd. rewrite spine_set_spine in Hd. rewrite next_set_spine. simpl.
    apply set_nth_in in Hd. destruct Hd as [->|Hd]; [lia|]. specialize (BD _ Hd). lia.
  - rewrite spine_set_spine. clear. generalize (spine h X) as l. revert j.
    induction j; destruct l; simpl; auto.
Qed.

Lemma append_cell_spec : forall h X n v, noref h X -> bounded h X ->
  let h' := arr_append_cell h X n v in
  unchanged_except X h h' /\ noref h' X /\ bounded h' X.
Proof.
  intros h X n v NR BD. unfold arr_append_cell. simpl.
  set (h1 := {| cells := (next h, plain n v) :: cells h; arrs := arrs h; maps := maps h; next := S (next h) |}).
  split; [|split].
  - eapply ue_trans; [apply (ue_alloc_cell X h (plain n v)) | apply ue_set_spine].
  - intros d Hd. rewrite spine_set_spine in Hd. rewrite cell_set_spine.
    apply in_app_or in Hd. destruct Hd as [Hd|[<-|[]]].
    + unfold cell_at, h1; simpl. destruct (Nat.eqb_spec (next h) d).
      * subst. specialize (BD _ Hd). lia.
      * apply NR; auto.
    + unfold cell_at, h1; simpl. rewrite Nat.eqb_refl. reflexivity.
  - intros d Hd. rewrite spine_set_spine in Hd. rewrite next_set_spine. simpl.
    apply in_app_or in Hd. destruct Hd as [Hd|[<-|[]]]; [specialize (BD _ Hd); lia | lia].
Qed.

Lemma set_spine_sub_spec : forall h X l, noref h X -> bounded h X ->
  (forall c, In c l -> In c (spine h X)) ->
  let h' := set_spine h X l in
  unchanged_except X h h' /\ noref h' X /\ bounded h' X.
Proof.
  intros h X l NR BD SUB. split; [apply ue_set_spine|]. split.
  - intros d Hd. rewrite spine_set_spine in Hd. rewrite cell_set_spine. apply NR; auto.
  - intros d Hd. rewrite spine_set_spine in Hd. rewrite next_set_spine. apply BD; auto.
Qed.

Lemma set_int_key_spec : forall h X i v, noref h X -> bounded h X ->
  unchanged_except X h (set_int_key h X i v).
Proof.
  intros h X i v NR BD. unfold set_int_key.
  destruct (find_slot_int h X i).
  - apply store_slot_spec; auto.
  - destruct (i <? 0)%Z; [apply ue_refl|].
    destruct (Nat.eqb (Z.to_nat i) (List.length (spine h X))); [apply append_cell_spec; auto|].
    destruct (Nat.ltb (List.length (spine h X)) (Z.to_nat i)); [apply append_cell_spec; auto|].
    destruct (nth_error (spine h X) (Z.to_nat i)) as [c|] eqn:E; [|apply ue_refl].
    assert (Ic : In c (spine h X)) by (eapply nth_error_In; eauto).
    rewrite (NR c Ic). simpl.
    eapply ue_trans; [apply (ue_alloc_cell X h (plain NNone v)) | apply ue_set_spine].
Qed.

Lemma set_str_key_spec : forall h X k v, noref h X -> bounded h X ->
  unchanged_except X h (set_str_key h X k v).
Proof.
  intros h X k v NR BD. unfold set_str_key.
  destruct (find_named h (spine h X) (NStr k) 0).
  - apply store_slot_spec; auto.
  - apply append_cell_spec; auto.
Qed.

Lemma normalize_from_spec : forall n h X j, noref h X -> bounded h X ->
  let h' := normalize_from h X j n in
  unchanged_except X h h' /\ noref h' X /\ bounded h' X.
Proof.
  induction n; intros h X j NR BD; simpl.
  - split; [apply ue_refl|]. split; auto.
  - set (h1 := match nth_error (spine h X) j with
               | Some c => match cname (cell_at h c) with
                           | NNone => store_slot h X j (NInt (Z.of_nat j)) (cval (cell_at h c))
                           | _ => h
                           end
               | None => h
               end).
    assert (H1 : unchanged_except X h h1 /\ noref h1 X /\ bounded h1 X).
    { unfold h1. destruct (nth_error (spine h X) j); [|split; [apply ue_refl|split; auto]].
      destruct (cname (cell_at h n0)); try (split; [apply ue_refl|split; auto]).
      destruct (store_slot_spec h X j (NInt (Z.of_nat j)) (cval (cell_at h n0)) NR BD) as [A [B [C _]]].
      auto. }
    destruct H1 as [U1 [NR1 BD1]].
    destruct (IHn h1 X (S j) NR1 BD1) as [U2 [NR2 BD2]].
    split; [eapply ue_trans; eauto | auto].
Qed.

Lemma unset_int_spec : forall h X i, noref h X -> bounded h X ->
  unchanged_except X h (unset_int h X i).
Proof.
  intros h X i NR BD. unfold unset_int, normalize.
  destruct (normalize_from_spec (List.length (spine h X)) h X 0 NR BD) as [U [NR1 BD1]].
  set (h1 := normalize_from h X 0 (List.length (spine h X))) in *.
  destruct (find_named h1 (spine h1 X) (NInt i) 0); [|exact U].
  eapply ue_trans; [exact U | apply ue_set_spine].
Qed.

Lemma unset_str_spec : forall h X k, unchanged_except X h (unset_str h X k).
Proof.
  intros h X k. unfold unset_str.
  destruct (find_named h (spine h X) (NStr k) 0); [apply ue_set_spine | apply ue_refl].
Qed.

(* the writes of the property on array object X *)
Definition apply_mut (h : heap) (X : nat) (m : mutation) : heap :=
  match m with
  | MStoreInt i v => set_int_key h X i v
  | MStoreStr k v => set_str_key h X k v
  | MAppend v => arr_append_cell h X NNone v
  | MUnsetInt i => unset_int h X i
  | MUnsetStr k => unset_str h X k
  | MSort => sort_spine h X
  | MPush v => arr_push h X v
  | MPop => arr_pop h X
  end.

Lemma apply_mut_spec : forall h X m, noref h X -> bounded h X ->
  unchanged_except X h (apply_mut h X m).
Proof.
  intros h X m NR BD. destruct m; simpl.
  - apply set_int_key_spec; auto.
  - apply set_str_key_spec; auto.
  - apply append_cell_spec; auto.
  - apply unset_int_spec; auto.
  - apply unset_str_spec.
  - apply ue_set_spine.
  - apply append_cell_spec; auto.
  - apply ue_set_spine.
Qed.

(* ------------------------------------------------------------------ reachability and the frame theorem *)
Fixpoint reach (n : nat) (h : heap) (v : val) : list nat :=
  match v with
  | VArr a =>
      a :: match n with
           | O => []
           | S f => flat_map (fun c => c :: reach f h (cval (cell_at h c))) (spine h a)
           end
  | VMap o =>
      o :: match n with
           | O => []
           | S f => flat_map (fun kc => snd kc :: reach f h (cval (cell_at h (snd kc)))) (props h o)
           end
  | _ => []
  end.

Lemma obs_items_agree : forall (r r' : val -> tree) h h' l j,
  (forall c, In c l -> cell_at h' c = cell_at h c /\ r' (cval (cell_at h c)) = r (cval (cell_at h c))) ->
  obs_items r' h' l j = obs_items r h l j.
Proof.
  induction l as [|c l IH]; intros j H; simpl; [reflexivity|].
  destruct (H c (or_introl eq_refl)) as [E1 E2]. rewrite E1, E2. f_equal.
  apply IH. intros d Hd. apply H. right. exact Hd.
Qed.

Lemma obs_agree : forall n h h' v,
  (forall x, In x (reach n h v) -> same_at h h' x) -> obs n h' v = obs n h v.
Proof.
  induction n; intros h h' v H; destruct v; simpl; try reflexivity.
  - (* VArr, S n *)
    assert (Sa : spine h' a = spine h a). { destruct (H a) as [_ [S _]]; simpl; auto. }
    rewrite Sa. f_equal. apply obs_items_agree. intros c Hc.
    assert (Hin : forall x, In x (c :: reach n h (cval (cell_at h c))) -> In x (reach (S n) h (VArr a))).
    { intros x Hx. simpl. right. apply in_flat_map. exists c. split; auto. }
    split.
    + destruct (H c) as [C _]; auto. apply Hin. left. reflexivity.
    + apply IHn. intros x Hx. apply H. apply Hin. right. exact Hx.
  - (* VMap, S n *)
    assert (Sa : props h' o = props h o). { destruct (H o) as [_ [_ S]]; simpl; auto. }
    rewrite Sa. f_equal. apply map_ext_in. intros [k c] Hc. simpl.
    assert (Hin : forall x, In x (c :: reach n h (cval (cell_at h c))) -> In x (reach (S n) h (VMap o))).
    { intros x Hx. simpl. right. apply in_flat_map. exists (k, c). split; auto. }
    assert (C : cell_at h' c = cell_at h c). { destruct (H c) as [C _]; auto. apply Hin. left. reflexivity. }
    rewrite C. f_equal. apply IHn. intros x Hx. apply H. apply Hin. right. exact Hx.
Qed.

(* FRAME: a write on array object X leaves the tree of every value that does not reach X
   unchanged — at any depth *)
Lemma write_frame_l : forall n h X m v, noref h X -> bounded h X ->
  (forall x, In x (reach n h v) -> x < next h /\ x <> X) ->
  obs n (apply_mut h X m) v = obs n h v.
Proof.
  intros n h X m v NR BD R. apply obs_agree. intros x Hx.
  destruct (apply_mut_spec h X m NR BD) as [_ U]. destruct (R x Hx). apply U; auto.
Qed.

(* ------------------------------------------------------------------ depth 1: copy, then write *)
Definition flat_array (h : heap) (a : nat) : Prop :=
  a < next h /\ bounded h a /\ noref h a /\
  (forall c, In c (spine h a) -> scalar (cval (cell_at h c)) = true /\ c <> a).

Lemma reach_scalar : forall n h v, scalar v = true -> reach n h v = [].
Proof. intros n h v H. destruct v, n; simpl in *; try discriminate; reflexivity. Qed.

Lemma reach_flat : forall n h a x, flat_array h a -> In x (reach n h (VArr a)) -> x = a \/ In x (spine h a).
Proof.
  intros n h a x [_ [_ [_ F]]] H. destruct n; simpl in H.
  - destruct H as [H|[]]; auto.
  - destruct H as [H|H]; auto. apply in_flat_map in H. destruct H as [c [Hc Hx]].
    destruct (F c Hc) as [Sc _]. rewrite (reach_scalar n h _ Sc) in Hx.
    destruct Hx as [<-|[]]. right. exact Hc.
Qed.

Lemma copy_then_mutate_l : forall n h a m, flat_array h a ->
  let h1 := fst (clone_array h a) in
  let b := snd (clone_array h a) in
  (* the two names denote the same tree right after the copy *)
  obs n h1 (VArr b) = obs n h1 (VArr a) /\
  (* a write through the copy does not show through the original *)
  obs n (apply_mut h1 b m) (VArr a) = obs n h1 (VArr a) /\
  (* a write through the original does not show through the copy *)
  obs n (apply_mut h1 a m) (VArr b) = obs n h1 (VArr b).
Proof.
  intros n h a m FA. destruct FA as [La [BD [NR F]]].
  unfold clone_array, alloc_arr. simpl.
  set (h1 := {| cells := cells h; arrs := (next h, spine h a) :: arrs h; maps := maps h; next := S (next h) |}).
  set (b := next h).
  assert (Sb : spine h1 b = spine h a).
  { unfold spine, h1; simpl. unfold b. rewrite Nat.eqb_refl. reflexivity. }
  assert (Sa : spine h1 a = spine h a).
  { unfold spine at 1, h1; simpl. destruct (Nat.eqb_spec (next h) a); [lia|reflexivity]. }
  assert (C : forall c, cell_at h1 c = cell_at h c) by reflexivity.
  assert (FA1 : flat_array h1 a).
  { split; [simpl; lia|]. split; [intros c Hc; rewrite Sa in Hc; simpl; specialize (BD c Hc); lia|].
    split; [intros c Hc; rewrite Sa in Hc; rewrite C; apply NR; auto|].
    intros c Hc. rewrite Sa in Hc. rewrite C. apply F; auto. }
  assert (FB1 : flat_array h1 b).
  { split; [simpl; unfold b; lia|]. split; [intros c Hc; rewrite Sb in Hc; simpl; specialize (BD c Hc); lia|].
    split; [intros c Hc; rewrite Sb in Hc; rewrite C; apply NR; auto|].
    intros c Hc. rewrite Sb in Hc. rewrite C. split; [apply F; auto|]. specialize (BD c Hc). unfold b. lia. }
  split; [|split].
  - destruct n; simpl; [reflexivity|]. rewrite Sa, Sb. reflexivity.
  - destruct FB1 as [_ [BDb [NRb _]]].
    apply write_frame_l; auto. intros x Hx. apply (reach_flat n h1 a x FA1) in Hx.
    destruct Hx as [->|Hx].
    + simpl. unfold b. lia.
    + rewrite Sa in Hx. specialize (BD x Hx). simpl. unfold b. lia.
  - destruct FA1 as [_ [BDa [NRa _]]].
    apply write_frame_l; auto. intros x Hx. apply (reach_flat n h1 b x FB1) in Hx.
    destruct Hx as [->|Hx].
    + simpl. unfold b. lia.
    + rewrite Sb in Hx. split; [specialize (BD x Hx); simpl; lia|]. apply F; auto.
Qed.

(* ------------------------------------------------------------------ explicit references write through *)
Lemma ref_store_in_place : forall h X j n v c,
  nth_error (spine h X) j = Some c -> cref (cell_at h c) = true ->
  cval (cell_at (store_slot h X j n v) c) = v /\ spine (store_slot h X j n v) X = spine h X.
Proof.
  intros h X j n v c E R. unfold store_slot. rewrite E, R. split.
  - unfold cell_at, set_cell; simpl. rewrite Nat.eqb_refl. reflexivity.
  - reflexivity.
Qed.

(* a list literal builds a flat array when its elements are ints *)
Lemma alloc_cells_spec : forall vs h, let (h1, cs) := alloc_cells h vs in
  next h1 = next h + List.length vs /\ List.length cs = List.length vs /\
  (forall c, c < next h -> cell_at h1 c = cell_at h c) /\
  (forall x, spine h1 x = spine h x) /\
  (forall c, In c cs -> next h <= c < next h1 /\ cref (cell_at h1 c) = false /\ In (cval (cell_at h1 c)) vs).
Proof.
  induction vs as [|v r IH]; intros h; simpl.
  - repeat split; auto; try lia; try (intros c []).
  - set (h0 := {| cells := (next h, plain NNone v) :: cells h; arrs := arrs h; maps := maps h; next := S (next h) |}).
    specialize (IH h0). destruct (alloc_cells h0 r) as [h2 cs] eqn:E.
    destruct IH as [N [L [C [S I]]]]. simpl in N.
    split; [lia|]. split; [simpl; lia|]. split; [|split].
    + intros c Hc. rewrite C by (simpl; lia). unfold cell_at, h0; simpl.
      destruct (Nat.eqb_spec (next h) c); [lia|reflexivity].
    + intros x. rewrite S. reflexivity.
    + intros c [<-|Hc].
      * split; [simpl in N; lia|]. rewrite C by (simpl; lia).
        unfold cell_at, h0; simpl. rewrite Nat.eqb_refl. simpl. auto.
      * destruct (I c Hc) as [B [R V]]. simpl in B. split; [lia|]. split; auto.
Qed.

Lemma new_array_flat : forall h vs, (forall v, In v vs -> scalar v = true) ->
  let (h1, a) := new_array h vs in flat_array h1 a.
Proof.
  intros h vs SC. unfold new_array.
  pose proof (alloc_cells_spec vs h) as AS. destruct (alloc_cells h vs) as [h1 cs].
  destruct AS as [N [L [C [Sp0 I]]]]. unfold alloc_arr. simpl.
  set (h2 := {| cells := cells h1; arrs := (next h1, cs) :: arrs h1; maps := maps h1; next := S (next h1) |}).
  assert (Sp : spine h2 (next h1) = cs). { unfold spine, h2; simpl. rewrite Nat.eqb_refl. reflexivity. }
  split; [simpl; lia|]. split; [|split].
  - intros c Hc. rewrite Sp in Hc. destruct (I c Hc) as [B _]. simpl. lia.
  - intros c Hc. rewrite Sp in Hc. destruct (I c Hc) as [_ [R _]]. exact R.
  - intros c Hc. rewrite Sp in Hc. destruct (I c Hc) as [B [_ V]]. split; [apply SC; exact V | lia].
Qed.

(* FRAME at depth 1, the form the routes use: two DISTINCT array objects — they may share every
   cell, as a copy and its original do — are independent under every write *)
Lemma frame_spine_l : forall n h a b m, flat_array h a -> flat_array h b -> a <> b ->
  (forall c, In c (spine h b) -> c <> a) ->
  obs n (apply_mut h a m) (VArr b) = obs n h (VArr b).
Proof.
  intros n h a b m FA FB NE NC. destruct FA as [_ [BDa [NRa _]]].
  apply write_frame_l; auto. intros x Hx. apply (reach_flat n h b x FB) in Hx.
  destruct FB as [Lb [BDb _]]. destruct Hx as [->|Hx]; [split; auto|].
  split; [apply BDb; auto | apply NC; auto].
Qed.

(* the depth-1 statement forms  $x[k] = v;  $x[] = v;  unset($x[k]);  sort($x);  array_push($x, v);
   array_pop($x)  are exactly the writes of apply_mut on the array object the name denotes *)
Definition mut_of (path : list key) (act : action) : option mutation :=
  match path, act with
  | [KI i], AStore v => Some (MStoreInt i (VInt v))
  | [KS s], AStore v => Some (MStoreStr s (VInt v))
  | [KI i], AUnset => Some (MUnsetInt i)
  | [KS s], AUnset => Some (MUnsetStr s)
  | [], AAppend v => Some (MAppend (VInt v))
  | [], ASort => Some MSort
  | [], APush v => Some (MPush (VInt v))
  | [], APop => Some MPop
  | _, _ => None
  end.

Lemma mutate_at_is_apply_mut : forall h X path act m,
  mut_of path act = Some m -> mutate_at h (VArr X) path act = apply_mut h X m.
Proof.
  intros h X path act m H.
  destruct path as [|[i|s] [|k2 r]]; destruct act; simpl in H; inversion H; subst; reflexivity.
Qed.

Lemma write_frame_u : forall n h X m v, noref h X -> bounded h X ->
  (forall x, In x (reach n h v) -> x < next h /\ x <> X) ->
  unchanged (obs n h v) (obs n (apply_mut h X m) v).
Proof. intros; symmetry; apply write_frame_l; auto. Qed.
Lemma frame_spine_u : forall n h a b m, flat_array h a -> flat_array h b -> a <> b ->
  (forall c, In c (spine h b) -> c <> a) ->
  unchanged (obs n h (VArr b)) (obs n (apply_mut h a m) (VArr b)).
Proof. intros; symmetry; apply frame_spine_l; auto. Qed.

(* ================================================================== audit follow-up
   (1) the depth-1 copy theorem for ANY write that has the frame property, so that the writes added
       later (by-reference parameter bound to an element, $r = &elem, usort, array_walk) are covered by
       the same statement;
   (2) the writes TAKE EFFECT: what the written name denotes afterwards is stated, not only that the
       other name is unchanged (an identity function satisfies every frame theorem). *)

Definition frame_write (W : heap -> nat -> heap) : Prop :=
  forall h X, noref h X -> bounded h X -> unchanged_except X h (W h X).

Lemma apply_mut_frame_write : forall m, frame_write (fun h X => apply_mut h X m).
Proof. intros m h X NR BD. apply apply_mut_spec; auto. Qed.

Lemma copy_then_write_gen : forall W, frame_write W -> forall n h a, flat_array h a ->
  let h1 := fst (clone_array h a) in
  let b := snd (clone_array h a) in
  obs n h1 (VArr b) = obs n h1 (VArr a) /\
  obs n (W h1 b) (VArr a) = obs n h1 (VArr a) /\
  obs n (W h1 a) (VArr b) = obs n h1 (VArr b).
Proof.
  intros W FW n h a FA. destruct FA as [La [BD [NR F]]].
  unfold clone_array, alloc_arr. simpl.
  set (h1 := {| cells := cells h; arrs := (next h, spine h a) :: arrs h; maps := maps h; next := S (next h) |}).
  set (b := next h).
  assert (Sb : spine h1 b = spine h a).
  { unfold spine, h1; simpl. unfold b. rewrite Nat.eqb_refl. reflexivity. }
  assert (Sa : spine h1 a = spine h a).
  { unfold spine at 1, h1; simpl. destruct (Nat.eqb_spec (next h) a); [lia|reflexivity]. }
  assert (C : forall c, cell_at h1 c = cell_at h c) by reflexivity.
  assert (FA1 : flat_array h1 a).
  { split; [simpl; lia|]. split; [intros c Hc; rewrite Sa in Hc; simpl; specialize (BD c Hc); lia|].
    split; [intros c Hc; rewrite Sa in Hc; rewrite C; apply NR; auto|].
    intros c Hc. rewrite Sa in Hc. rewrite C. apply F; auto. }
  assert (FB1 : flat_array h1 b).
  { split; [simpl; unfold b; lia|]. split; [intros c Hc; rewrite Sb in Hc; simpl; specialize (BD c Hc); lia|].
    split; [intros c Hc; rewrite Sb in Hc; rewrite C; apply NR; auto|].
    intros c Hc. rewrite Sb in Hc. rewrite C. split; [apply F; auto|]. specialize (BD c Hc). unfold b. lia. }
  split; [|split].
  - destruct n; simpl; [reflexivity|]. rewrite Sa, Sb. reflexivity.
  - destruct FB1 as [_ [BDb [NRb _]]].
    apply obs_agree. intros x Hx. destruct (FW h1 b NRb BDb) as [_ U].
    apply (reach_flat n h1 a x FA1) in Hx. destruct Hx as [->|Hx].
    + apply U; simpl; unfold b; lia.
    + rewrite Sa in Hx. specialize (BD x Hx). apply U; simpl; unfold b; lia.
  - destruct FA1 as [_ [BDa [NRa _]]].
    apply obs_agree. intros x Hx. destruct (FW h1 a NRa BDa) as [_ U].
    apply (reach_flat n h1 b x FB1) in Hx. destruct Hx as [->|Hx].
    + apply U; simpl; unfold b; lia.
    + rewrite Sb in Hx. apply U; [specialize (BD x Hx); simpl; lia | apply F; auto].
Qed.

(* ---- OwnSlot *)
Lemma set_nth_length : forall (A : Type) j (x : A) l, List.length (set_nth j x l) = List.length l.
Proof. induction j; destruct l; simpl; auto. Qed.

Lemma own_slot_spec : forall h X j c0, noref h X -> bounded h X -> nth_error (spine h X) j = Some c0 ->
  let h' := fst (own_slot h X j) in
  snd (own_slot h X j) = Some (next h) /\
  unchanged_except X h h' /\ noref h' X /\ bounded h' X /\
  spine h' X = set_nth j (next h) (spine h X) /\
  cell_at h' (next h) = {| cname := cname (cell_at h c0); cval := cval (cell_at h c0); cref := false |} /\
  next h' = S (next h) /\
  (forall c, c < next h -> cell_at h' c = cell_at h c).
Proof.
  intros h X j c0 NR BD E. unfold own_slot. rewrite E.
  assert (Ic : In c0 (spine h X)) by (eapply nth_error_In; eauto).
  rewrite (NR c0 Ic). simpl.
  set (cl := {| cname := cname (cell_at h c0); cval := cval (cell_at h c0); cref := false |}).
  set (h1 := {| cells := (next h, cl) :: cells h; arrs := arrs h; maps := maps h; next := S (next h) |}).
  split; [reflexivity|]. split; [|split; [|split; [|split; [|split; [|split]]]]].
  - eapply ue_trans; [apply (ue_alloc_cell X h cl) | apply ue_set_spine].
  - intros d Hd. rewrite spine_set_spine in Hd. rewrite cell_set_spine.
    apply set_nth_in in Hd. destruct Hd as [->|Hd].
    + unfold cell_at, h1; simpl. rewrite Nat.eqb_refl. reflexivity.
    + unfold cell_at, h1; simpl. destruct (Nat.eqb_spec (next h) d).
      * subst. specialize (BD _ Hd). lia.
      * apply NR; auto.
  - intros d Hd. rewrite spine_set_spine in Hd. rewrite next_set_spine. simpl.
    apply set_nth_in in Hd. destruct Hd as [->|Hd]; [lia|]. specialize (BD _ Hd). lia.
  - rewrite spine_set_spine. reflexivity.
  - rewrite cell_set_spine. unfold cell_at, h1; simpl. rewrite Nat.eqb_refl. reflexivity.
  - reflexivity.
  - intros c Hc. rewrite cell_set_spine. unfold cell_at, h1; simpl.
    destruct (Nat.eqb_spec (next h) c); [lia|reflexivity].
Qed.

Lemma ue_set_cell_above : forall X h0 h c x, unchanged_except X h0 h -> next h0 <= c ->
  unchanged_except X h0 (set_cell h c x).
Proof.
  intros X h0 h c x [L U] Hc. split; [exact L|].
  intros y Hy Hn. destruct (U y Hy Hn) as [A [B C]]. repeat split; auto.
  unfold cell_at, set_cell; simpl. destruct (Nat.eqb_spec c y); [lia|]. exact A.
Qed.

Lemma find_named_pos : forall h n l j0 j, find_named h l n j0 = Some j ->
  exists c, nth_error l (j - j0) = Some c /\ j0 <= j.
Proof.
  intros h n. induction l as [|c l IH]; intros j0 j H; simpl in H; [discriminate|].
  destruct (name_eqb (cname (cell_at h c)) n).
  - inversion H; subst. rewrite Nat.sub_diag. exists c. split; [reflexivity|lia].
  - destruct (IH _ _ H) as [d [E L]]. exists d. split; [|lia].
    replace (j - j0) with (S (j - S j0)) by lia. exact E.
Qed.

Lemma zval_pos_nth : forall h X k j, zval_pos h X k = Some j -> exists c, nth_error (spine h X) j = Some c.
Proof.
  intros h X k j H. destruct k as [i|s]; simpl in H.
  - destruct (i <? 0)%Z; [discriminate|].
    destruct (Nat.ltb (Z.to_nat i) (List.length (spine h X))) eqn:L; [|discriminate].
    inversion H; subst. apply Nat.ltb_lt in L.
    destruct (nth_error (spine h X) (Z.to_nat i)) eqn:E; [eauto|]. apply nth_error_None in E. lia.
  - destruct (find_named_pos _ _ _ _ _ H) as [c [E _]]. rewrite Nat.sub_0_r in E. eauto.
Qed.

(* a by-reference parameter bound to an element of X / $r = &X[k], then a store through it *)
Lemma ref_store_frame_write : forall k z bind, frame_write (fun h X => ref_store h (VArr X) [k] z bind).
Proof.
  intros k z bind h X NR BD. unfold ref_store. simpl.
  destruct (zval_pos h X k) as [j|] eqn:Z; [|apply ue_refl].
  destruct (zval_pos_nth _ _ _ _ Z) as [c0 E].
  destruct (own_slot_spec h X j c0 NR BD E) as [O [U [_ [_ [_ [_ [N _]]]]]]].
  destruct (own_slot h X j) as [h1 oc]. simpl in *. subst oc.
  apply ue_set_cell_above; [exact U | lia].
Qed.

(* it takes effect: position j of X now holds a cell of X's own with the stored value and the old key;
   every other position keeps its cell *)
Lemma ref_store_takes_effect : forall h X k z bind j c0, noref h X -> bounded h X ->
  zval_pos h X k = Some j -> nth_error (spine h X) j = Some c0 ->
  let h' := ref_store h (VArr X) [k] z bind in
  spine h' X = set_nth j (next h) (spine h X) /\
  cell_at h' (next h) = {| cname := cname (cell_at h c0); cval := VInt z; cref := bind |} /\
  (forall c, c < next h -> cell_at h' c = cell_at h c).
Proof.
  intros h X k z bind j c0 NR BD Z E. unfold ref_store. simpl. rewrite Z.
  destruct (own_slot_spec h X j c0 NR BD E) as [O [_ [_ [_ [S [C [_ K]]]]]]].
  destruct (own_slot h X j) as [h1 oc]. simpl in *. subst oc.
  split; [|split].
  - unfold spine, set_cell; simpl. exact S.
  - unfold cell_at at 1, set_cell; simpl. rewrite Nat.eqb_refl. rewrite C. simpl.
    rewrite Bool.orb_false_r. reflexivity.
  - intros c Hc. unfold cell_at at 1, set_cell; simpl.
    destruct (Nat.eqb_spec (next h) c); [lia|]. apply K; auto.
Qed.

(* element store / append take effect (representation level) *)
Lemma store_slot_takes_effect : forall h X j n v c0, nth_error (spine h X) j = Some c0 ->
  cref (cell_at h c0) = false ->
  let h' := store_slot h X j n v in
  spine h' X = set_nth j (next h) (spine h X) /\ cell_at h' (next h) = plain n v /\
  (forall c, c < next h -> cell_at h' c = cell_at h c).
Proof.
  intros h X j n v c0 E R. unfold store_slot. rewrite E, R. simpl. split; [|split].
  - rewrite spine_set_spine. reflexivity.
  - rewrite cell_set_spine. unfold cell_at; simpl. rewrite Nat.eqb_refl. reflexivity.
  - intros c Hc. rewrite cell_set_spine. unfold cell_at; simpl.
    destruct (Nat.eqb_spec (next h) c); [lia|reflexivity].
Qed.

Lemma append_takes_effect : forall h X n v,
  let h' := arr_append_cell h X n v in
  spine h' X = spine h X ++ [next h] /\ cell_at h' (next h) = plain n v /\
  (forall c, c < next h -> cell_at h' c = cell_at h c).
Proof.
  intros h X n v. unfold arr_append_cell. simpl. split; [|split].
  - rewrite spine_set_spine. reflexivity.
  - rewrite cell_set_spine. unfold cell_at; simpl. rewrite Nat.eqb_refl. reflexivity.
  - intros c Hc. rewrite cell_set_spine. unfold cell_at; simpl.
    destruct (Nat.eqb_spec (next h) c); [lia|reflexivity].
Qed.

(* the same at the level of trees, for a flat array: the snapshot of the written name is the old
   snapshot with entry j replaced (same key) *)
Lemma obs_items_set_nth : forall (r : val -> tree) h h' l j0 j c' c0,
  (forall c, In c l -> cell_at h' c = cell_at h c) ->
  nth_error l j = Some c0 ->
  obs_items r h' (set_nth j c' l) j0 =
  set_nth j (key_of (j0 + j) (cname (cell_at h' c')), r (cval (cell_at h' c'))) (obs_items r h l j0).
Proof.
  intros r h h'. induction l as [|d l IH]; intros j0 j c' c0 Same E; [destruct j; discriminate|].
  destruct j as [|j]; simpl.
  - rewrite Nat.add_0_r. f_equal.
    apply obs_items_agree. intros c Hc. split; [apply Same; right; exact Hc | reflexivity].
  - rewrite (Same d) by (left; reflexivity). f_equal.
    replace (j0 + S j) with (S j0 + j) by lia.
    apply (IH (S j0) j c' c0); [intros c Hc; apply Same; right; exact Hc | exact E].
Qed.

Lemma obs_scalar_any_heap : forall n n' h h' v, scalar v = true -> obs n h v = obs n' h' v.
Proof. intros n n' h h' v H. destruct v; simpl in H; try discriminate; destruct n, n'; reflexivity. Qed.

Lemma obs_items_scalar_rec : forall n h h' l j0,
  (forall c, In c l -> scalar (cval (cell_at h c)) = true) ->
  obs_items (obs n h') h l j0 = obs_items (obs n h) h l j0.
Proof.
  intros n h h'. induction l as [|c l IH]; intros j0 Sc; simpl; [reflexivity|].
  rewrite (obs_scalar_any_heap n n h' h _ (Sc c (or_introl eq_refl))).
  f_equal. apply IH. intros d Hd. apply Sc. right. exact Hd.
Qed.

Lemma ref_store_snapshot : forall n h X k z bind j c0, flat_array h X ->
  zval_pos h X k = Some j -> nth_error (spine h X) j = Some c0 ->
  obs (S n) (ref_store h (VArr X) [k] z bind) (VArr X) =
  TArr (set_nth j (key_of j (cname (cell_at h c0)), TInt z) (obs_items (obs n h) h (spine h X) 0)).
Proof.
  intros n h X k z bind j c0 [LX [BD [NR F]]] Z E.
  destruct (ref_store_takes_effect h X k z bind j c0 NR BD Z E) as [S [C K]].
  set (h' := ref_store h (VArr X) [k] z bind) in *.
  simpl. rewrite S. f_equal.
  assert (Same : forall c, In c (spine h X) -> cell_at h' c = cell_at h c).
  { intros c Hc. apply K. apply BD. exact Hc. }
  rewrite (obs_items_set_nth (obs n h') h h' (spine h X) 0 j (next h) c0 Same E).
  rewrite C. simpl. f_equal.
  - f_equal. destruct n; reflexivity.
  - (* the other entries are scalars: their observation does not depend on the heap *)
    apply obs_items_scalar_rec. intros c Hc. apply F. exact Hc.
Qed.

(* ---- usort / array_walk: every position gets a cell of the array's own, then that cell is rewritten *)
Lemma own_all_spec : forall (f : cell -> cell), (forall c, cref (f c) = cref c) ->
  forall n h X j, noref h X -> bounded h X ->
  let h' := own_all h X j n f in
  unchanged_except X h h' /\ noref h' X /\ bounded h' X.
Proof.
  intros f Hf. induction n as [|n IH]; intros h X j NR BD; simpl.
  - split; [apply ue_refl|]. split; auto.
  - destruct (nth_error (spine h X) j) as [c0|] eqn:E.
    + destruct (own_slot_spec h X j c0 NR BD E) as [O [U [NR1 [BD1 [Sp [C [N K]]]]]]].
      destruct (own_slot h X j) as [h1 oc]. simpl in *. subst oc.
      set (h2 := set_cell h1 (next h) (f (cell_at h1 (next h)))).
      assert (U2 : unchanged_except X h h2) by (apply ue_set_cell_above; [exact U | lia]).
      assert (NR2 : noref h2 X).
      { intros c Hc. unfold h2 in *. unfold spine, set_cell in Hc; simpl in Hc. fold (spine h1 X) in Hc.
        unfold cell_at at 1, set_cell; simpl. destruct (Nat.eqb_spec (next h) c).
        - rewrite Hf. rewrite C. reflexivity.
        - apply NR1. exact Hc. }
      assert (BD2 : bounded h2 X).
      { intros c Hc. unfold h2 in *. unfold spine, set_cell in Hc; simpl in Hc. fold (spine h1 X) in Hc.
        simpl. apply BD1. exact Hc. }
      destruct (IH h2 X (S j) NR2 BD2) as [U3 [NR3 BD3]].
      split; [eapply ue_trans; eauto | auto].
    + unfold own_slot. rewrite E. simpl. apply IH; auto.
Qed.

Lemma insert_by_in : forall h c l x, In x (insert_by h c l) -> x = c \/ In x l.
Proof.
  intros h c. induction l as [|d l IH]; simpl; intros x H.
  - destruct H as [<-|[]]; auto.
  - destruct (int_of (cval (cell_at h c)) <=? int_of (cval (cell_at h d)))%Z.
    + destruct H as [<-|H]; auto.
    + destruct H as [<-|H]; auto. apply IH in H. tauto.
Qed.
Lemma sorted_in : forall h l x, In x (fold_right (insert_by h) [] l) -> In x l.
Proof.
  intros h. induction l as [|c l IH]; simpl; intros x H; auto.
  apply insert_by_in in H. destruct H as [->|H]; auto.
Qed.

Lemma usort_frame_write : frame_write usort_arr.
Proof.
  intros h X NR BD. unfold usort_arr.
  destruct (set_spine_sub_spec h X (fold_right (insert_by h) [] (spine h X)) NR BD (sorted_in h (spine h X))) as [U1 [NR1 BD1]].
  fold (sort_spine h X) in *.
  destruct (own_all_spec (fun c => {| cname := NNone; cval := cval c; cref := cref c |}) (fun _ => eq_refl)
              (List.length (spine (sort_spine h X) X)) (sort_spine h X) X 0 NR1 BD1) as [U2 _].
  eapply ue_trans; eauto.
Qed.

Lemma walk_frame_write : forall z, frame_write (fun h X => walk_arr h X z).
Proof.
  intros z h X NR BD. unfold walk_arr.
  destruct (own_all_spec (fun c => {| cname := cname c; cval := VInt z; cref := cref c |}) (fun _ => eq_refl)
              (List.length (spine h X)) h X 0 NR BD) as [U _]. exact U.
Qed.

(* ================================================================== depth >= 2, characterised
   CloneArrayValue copies ONE level: the copy has a spine of its own holding the SAME cells, hence the same
   inner array objects.  Consequence, for every array (no flatness assumed) and every write on any THIRD array
   object X - in particular an inner array both names reach: afterwards the copy and the original still denote
   EQUAL trees.  Together with write_frame (a name that does not reach X is unchanged) this says exactly what a
   nested write does: it is seen through both names or through neither, never through one only; the two names
   can only come apart by writes on their own top level. *)
Lemma clone_then_third_party_write_l : forall n h a X m,
  a < next h -> noref h X -> bounded h X -> X <> a -> X < next h ->
  let h1 := fst (clone_array h a) in
  let b := snd (clone_array h a) in
  obs n (apply_mut h1 X m) (VArr b) = obs n (apply_mut h1 X m) (VArr a).
Proof.
  intros n h a X m La NR BD Xa LX. unfold clone_array, alloc_arr. simpl.
  set (h1 := {| cells := cells h; arrs := (next h, spine h a) :: arrs h; maps := maps h; next := S (next h) |}).
  set (b := next h).
  assert (SX : spine h1 X = spine h X).
  { unfold spine at 1, h1; simpl. destruct (Nat.eqb_spec (next h) X); [lia|reflexivity]. }
  assert (NR1 : noref h1 X) by (intros c Hc; rewrite SX in Hc; apply NR; exact Hc).
  assert (BD1 : bounded h1 X) by (intros c Hc; rewrite SX in Hc; specialize (BD c Hc); simpl; lia).
  destruct (apply_mut_spec h1 X m NR1 BD1) as [_ U].
  assert (Sa : spine (apply_mut h1 X m) a = spine h a).
  { destruct (U a) as [_ [S _]]; [simpl; lia | congruence |].
    rewrite S. unfold spine at 1, h1; simpl. destruct (Nat.eqb_spec (next h) a); [lia|reflexivity]. }
  assert (Sb : spine (apply_mut h1 X m) b = spine h a).
  { destruct (U b) as [_ [S _]]; [simpl; unfold b; lia | unfold b; lia |].
    rewrite S. unfold spine at 1, h1; simpl. unfold b. rewrite Nat.eqb_refl. reflexivity. }
  destruct n; simpl; [reflexivity|]. rewrite Sa, Sb. reflexivity.
Qed.
