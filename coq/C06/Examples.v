(* C06 — non-vacuity, concrete runs, refutations. *)
From Coq Require Import List String ZArith Bool Arith Lia.
From V.C06 Require Import Model Spec Proofs ProofsRoutes Run.
Import ListNotations.
Open Scope string_scope.
Open Scope Z_scope.

(* ---- $a = [3,1,2]; $b = $a; ---- *)
Definition st_copy : state := run [SLit "a" (LList [LInt 3; LInt 1; LInt 2]); SCopy "b" "a"] state0.
Example ex_copy_same : obs_var 4 st_copy "a" = obs_var 4 st_copy "b".
Proof. vm_compute. reflexivity. Qed.
(* $b[0] = 9 does not show through $a (it did before e238f5c: see pre_fix_store_leaks) *)
Example ex_store_int :
  let st := exec st_copy (SMut (BVar "b") [KI 0] (AStore 9)) in
  obs_var 4 st "a" = TArr [(TKI 0, TInt 3); (TKI 1, TInt 1); (TKI 2, TInt 2)] /\
  obs_var 4 st "b" = TArr [(TKI 0, TInt 9); (TKI 1, TInt 1); (TKI 2, TInt 2)].
Proof. vm_compute. split; reflexivity. Qed.
(* unset($a[0]) after array_pop($b): the copy keeps its keys (normalizeDenseIntKeys no longer renames shared cells) *)
Example ex_unset_after_pop :
  let st := run [SMut (BVar "b") [] APop; SMut (BVar "a") [KI 0] AUnset] st_copy in
  obs_var 4 st "b" = TArr [(TKI 0, TInt 3); (TKI 1, TInt 1)] /\
  obs_var 4 st "a" = TArr [(TKI 1, TInt 1); (TKI 2, TInt 2)].
Proof. vm_compute. split; reflexivity. Qed.

(* the hypotheses of the theorems hold of the array $a denotes here *)
Definition a_addr : nat := match var_val st_copy "a" with VArr a => a | _ => 0%nat end.
Definition b_addr : nat := match var_val st_copy "b" with VArr a => a | _ => 0%nat end.
Example ex_flat : flat_array (hp st_copy) a_addr.
Proof.
  split; [vm_compute; lia|]. split; [|split].
  - intros c Hc. vm_compute in Hc. vm_compute. repeat (destruct Hc as [<-|Hc]; [lia|]). destruct Hc.
  - intros c Hc. vm_compute in Hc. repeat (destruct Hc as [<-|Hc]; [vm_compute; reflexivity|]). destruct Hc.
  - intros c Hc. vm_compute in Hc.
    repeat (destruct Hc as [<-|Hc]; [split; [vm_compute; reflexivity | vm_compute; lia]|]). destruct Hc.
Qed.
Example ex_distinct_objects_shared_cells :
  a_addr <> b_addr /\ spine (hp st_copy) a_addr = spine (hp st_copy) b_addr.
Proof. vm_compute. split; [lia | reflexivity]. Qed.

(* ---- explicit reference: $x = &$a[0]; $b = $a; $b[0] = 9  — seen through $a and $x ---- *)
Example ex_ref_slot :
  let st := run [SLit "a" (LList [LInt 1; LInt 2]); SRefSlot "x" "a" 0; SCopy "b" "a";
                 SMut (BVar "b") [KI 0] (AStore 9)] state0 in
  obs_var 4 st "a" = TArr [(TKI 0, TInt 9); (TKI 1, TInt 2)] /\ obs_var 4 st "x" = TInt 9.
Proof. vm_compute. split; reflexivity. Qed.

(* ---- objects are handles; clone gives independent array-valued properties ---- *)
Example ex_handle_and_clone :
  let st := run [SNewObj "o" "p" (LList [LInt 1; LInt 2]); SCopy "h" "o"; SCloneObj "c" "o";
                 SMut (BProp "h" "p") [KI 0] (AStore 9); SMut (BProp "c" "p") [] (AAppend 7)] state0 in
  obs_base 4 st (BProp "o" "p") = TArr [(TKI 0, TInt 9); (TKI 1, TInt 2)] /\
  obs_base 4 st (BProp "c" "p") = TArr [(TKI 0, TInt 1); (TKI 1, TInt 2); (TKI 2, TInt 7)].
Proof. vm_compute. split; reflexivity. Qed.

(* ---- REFUTED for nested shapes: $a = [[1,2],[3]]; $b = $a; $b[0][0] = 9 changes $a ---- *)
Example nested_store_leaks_refuted :
  exists pre mut,
    let st0 := run pre state0 in
    let st1 := run mut st0 in
    obs_var 4 st0 "a" <> obs_var 4 st1 "a".
Proof.
  exists [SLit "a" (LList [LList [LInt 1; LInt 2]; LList [LInt 3]]); SCopy "b" "a"],
         [SMut (BVar "b") [KI 0; KI 0] (AStore 9)].
  vm_compute. discriminate.
Qed.

(* ---- the code before e238f5c: SetIntKey wrote into the shared cell ---- *)
Example pre_fix_store_leaks :
  let h := hp st_copy in
  obs 4 (set_int_key_prefix h b_addr 0 (VInt 9)) (VArr a_addr) <> obs 4 h (VArr a_addr).
Proof. vm_compute. discriminate. Qed.

(* ---- the checker accepts a faithful observation and flags a leak ---- *)
Definition ex_case (a1 : tree) : case :=
  {| c_pre := [SLit "a" (LList [LInt 3; LInt 1]); SCopy "b" "a"]; c_mut := [SMut (BVar "b") [KI 0] (AStore 9)];
     c_a := OVar "a"; c_b := OVar "b"; c_other_is_a := true; c_ref := false;
     i_a0 := TArr [(TKI 0, TInt 3); (TKI 1, TInt 1)]; i_b0 := TArr [(TKI 0, TInt 3); (TKI 1, TInt 1)];
     i_a1 := a1; i_b1 := TArr [(TKI 0, TInt 9); (TKI 1, TInt 1)];
     r_o0 := TArr [(TKI 0, TInt 3); (TKI 1, TInt 1)]; r_o1 := a1 |}.
Example ex_check_ok : check_case (ex_case (TArr [(TKI 0, TInt 3); (TKI 1, TInt 1)])) = [].
Proof. vm_compute. reflexivity. Qed.
Example ex_check_leak : check_case (ex_case (TArr [(TKI 0, TInt 9); (TKI 1, TInt 1)])) = [1%nat; 2%nat; 3%nat].
Proof. vm_compute. reflexivity. Qed.
(* the other name's values are intact but its int keys came back as the strings "0", "1": the
   normalised snapshots agree (clauses 1, 2 pass), the key-type-exact ones do not (clause 3) *)
Example ex_check_key_types :
  check_case {| c_pre := c_pre (ex_case TNull); c_mut := c_mut (ex_case TNull); c_a := OVar "a"; c_b := OVar "b";
                c_other_is_a := true; c_ref := false;
                i_a0 := TArr [(TKI 0, TInt 3); (TKI 1, TInt 1)]; i_b0 := TArr [(TKI 0, TInt 3); (TKI 1, TInt 1)];
                i_a1 := TArr [(TKI 0, TInt 3); (TKI 1, TInt 1)]; i_b1 := TArr [(TKI 0, TInt 9); (TKI 1, TInt 1)];
                r_o0 := TArr [(TKI 0, TInt 3); (TKI 1, TInt 1)];
                r_o1 := TArr [(TKS "0", TInt 3); (TKS "1", TInt 1)] |} = [3%nat].
Proof. vm_compute. reflexivity. Qed.

(* ---- the hypotheses of assign_then_write hold after  $a = [3,1,2]; $b = 0;  ---- *)
Definition st_two : state := run [SLit "a" (LList [LInt 3; LInt 1; LInt 2]); SSetInt "b" 0] state0.
Example ex_two_vars : exists ca cb a, two_vars st_two "a" "b" ca cb a.
Proof.
  exists 4%nat, 6%nat, 5%nat. constructor; try (vm_compute; reflexivity).
  - lia.
  - split; [vm_compute; lia|]. split; [|split].
    + intros c Hc. vm_compute in Hc. vm_compute. repeat (destruct Hc as [<-|Hc]; [lia|]). destruct Hc.
    + intros c Hc. vm_compute in Hc. repeat (destruct Hc as [<-|Hc]; [vm_compute; reflexivity|]). destruct Hc.
    + intros c Hc. vm_compute in Hc.
      repeat (destruct Hc as [<-|Hc]; [split; [vm_compute; reflexivity | vm_compute; lia]|]). destruct Hc.
  - split; [vm_compute; lia|]. split; [lia|]. vm_compute. intros H. repeat (destruct H as [H|H]; [lia|]). exact H.
  - split; [vm_compute; lia|]. split; [lia|]. vm_compute. intros H. repeat (destruct H as [H|H]; [lia|]). exact H.
Qed.

(* ---- audit follow-up: the reference writes on the model, with the copy in place ----
   $a = [3,1,2]; $b = $a; f($b[1]) with f(&$x){ $x = 99; }  leaves $a alone and changes $b[1] *)
Definition st_rc : state := run [SLit "a" (LList [LInt 3; LInt 1; LInt 2]); SCopy "b" "a"] state0.
Example ex_refparam_after_copy :
  let st1 := exec st_rc (SRefParamStore (BVar "b") [KI 1] 99) in
  obs_var 3 st1 "a" = TArr [(TKI 0, TInt 3); (TKI 1, TInt 1); (TKI 2, TInt 2)] /\
  obs_var 3 st1 "b" = TArr [(TKI 0, TInt 3); (TKI 1, TInt 99); (TKI 2, TInt 2)].
Proof. vm_compute. split; reflexivity. Qed.
(* the same store without OwnSlot (writing the shared cell, what the code did before b95af9a) shows through *)
Example ex_refparam_shared_cell_leaks :
  let h := hp st_rc in
  let b := match var_val st_rc "b" with VArr b => b | _ => 0%nat end in
  let c := nth 1 (spine h b) 0%nat in
  obs 3 (set_cell h c {| cname := cname (cell_at h c); cval := VInt 99; cref := false |}) (var_val st_rc "a")
  = TArr [(TKI 0, TInt 3); (TKI 1, TInt 99); (TKI 2, TInt 2)].
Proof. vm_compute. reflexivity. Qed.
Example ex_usort_after_copy :
  let st1 := exec st_rc (SUsort "b") in
  obs_var 3 st1 "a" = TArr [(TKI 0, TInt 3); (TKI 1, TInt 1); (TKI 2, TInt 2)] /\
  obs_var 3 st1 "b" = TArr [(TKI 0, TInt 1); (TKI 1, TInt 2); (TKI 2, TInt 3)].
Proof. vm_compute. split; reflexivity. Qed.
(* $x = &$a[0]; $b = $a : the reference-bound slot stays shared by both arrays (PHP does the same); a write
   through $x is seen by both, a store to $b[1] by $b only *)
Example ex_ref_slot_then_copy :
  let st1 := run [SRefSlot "x" "a" 0; SCopy "b" "a"; SSetInt "x" 7; SMut (BVar "b") [KI 1] (AStore 8)]
                 (run [SLit "a" (LList [LInt 3; LInt 1])] state0) in
  obs_var 3 st1 "a" = TArr [(TKI 0, TInt 7); (TKI 1, TInt 1)] /\
  obs_var 3 st1 "b" = TArr [(TKI 0, TInt 7); (TKI 1, TInt 8)].
Proof. vm_compute. split; reflexivity. Qed.
(* hypotheses of ref_store_snapshot are satisfiable: the array of st_two *)
Example ex_ref_store_snapshot_hyp : exists c0, zval_pos (hp st_two) 5 (KI 1) = Some 1%nat /\ nth_error (spine (hp st_two) 5) 1 = Some c0.
Proof. eexists. vm_compute. split; reflexivity. Qed.

(* hypotheses of clone_then_third_party_write hold for the nested array [[5,6],[7]] and its inner array:
   a = the outer array of $a, X = the array stored at $a[0] *)
Definition st_nest : state := run [SLit "a" (LList [LList [LInt 5; LInt 6]; LList [LInt 7]])] state0.
Example ex_third_party_hyp :
  match var_val st_nest "a", container_get (hp st_nest) (var_val st_nest "a") (KI 0) with
  | VArr a, VArr X => Nat.ltb a (next (hp st_nest)) = true /\ Nat.ltb X (next (hp st_nest)) = true /\ X <> a /\
                      forallb (fun c => negb (cref (cell_at (hp st_nest) c)) && Nat.ltb c (next (hp st_nest))) (spine (hp st_nest) X) = true
  | _, _ => False
  end.
Proof. vm_compute. repeat split; try reflexivity. discriminate. Qed.
