From V.C06 Require Import Model.
