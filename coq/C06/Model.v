(* C06 — executable heap model of arrays as the code implements them (no proofs here).

   Transcribed from (after the /repo fixes e238f5c, 60544cc and the copy-on-element-store fix):
     data/zval.go            ZVal {Name, Value, RefSlotCount}                      -> cell
     data/value_array.go     ArrayValue.List []*ZVal (spine of cell pointers), NewArrayValue,
                             CloneArrayValue (new spine, SAME cells), FindSlotByIntKey, storeSlot,
                             SetIntKey, SetStrKey, normalizeDenseIntKeys, UnsetKey
     data/value_object.go    ObjectValue (string-keyed literal arrays), CloneObjectValue (new
                             cells, same values), SetProperty (clones an array-valued entry on
                             store), data/ordered_map.go Set/Delete
     data/value_class.go     ClassValue.SetProperty (class instances: the same clone-on-store)
     runtime/context.go      SetVariableValue (array -> CloneArrayValue, ObjectValue -> CloneObjectValue,
                             ReferenceValue / ArraySlotRef -> share the ZVal)
     node/index.go           IndexExpression.SetValue (int / string / append branches, nested
                             write-back through writeBackArrayProperty / indexSetValueOnContainer)
     node/unset.go           unset($a[k]) with write-back
     node/clone.go           clone $o: SetProperty of every property on a new object
     node/array.go, kv.go    list literal (fresh cells), all-keyed literal (ObjectValue via SetProperty)
     std/php/array           sort (in-place reorder of the spine), array_push, array_pop

   Abstractions (trusted, see checks/C06.py): a ZVal.Name is "" | a canonical decimal integer |
   another string, modelled as NNone | NInt z | NStr s (strconv.Itoa/Atoi round trip assumed; string
   keys used by the generators are never numeric); element payloads are ints; two ArrayValue objects
   never share a Go backing array (CloneArrayValue / NewArrayValue allocate), so a spine is a pure
   list per array object; call frames are distinct variable names. *)
From Coq Require Import List String ZArith Bool Arith.
Import ListNotations.
Open Scope string_scope.

(* ------------------------------------------------------------------ values, cells, heap *)
Inductive name := NNone | NInt (z : Z) | NStr (s : string).

Inductive val :=
| VNull | VInt (z : Z)
| VArr (a : nat)          (* *data.ArrayValue at address a *)
| VMap (o : nat)          (* *data.ObjectValue used as a string-keyed array: copied on assignment *)
| VObj (o : nat).         (* class instance, a data.ClassValue pointer: a handle, never copied *)

Record cell := { cname : name; cval : val; cref : bool (* RefSlotCount > 0 *) }.

Record heap := {
  cells : list (nat * cell);                 (* address -> ZVal; latest binding first *)
  arrs : list (nat * list nat);              (* ArrayValue address -> spine of cell addresses *)
  maps : list (nat * list (string * nat));   (* ObjectValue / ClassValue address -> OrderedMap: key -> cell *)
  next : nat }.                              (* allocation counter, shared by all kinds *)

Definition heap0 : heap := {| cells := []; arrs := []; maps := []; next := 0 |}.

Fixpoint nlookup {A} (m : list (nat * A)) (k : nat) : option A :=
  match m with [] => None | (k', v) :: r => if Nat.eqb k' k then Some v else nlookup r k end.

Definition dummy_cell : cell := {| cname := NNone; cval := VNull; cref := false |}.
Definition cell_at (h : heap) (c : nat) : cell :=
  match nlookup (cells h) c with Some x => x | None => dummy_cell end.
Definition spine (h : heap) (a : nat) : list nat :=
  match nlookup (arrs h) a with Some l => l | None => [] end.
Definition props (h : heap) (o : nat) : list (string * nat) :=
  match nlookup (maps h) o with Some l => l | None => [] end.

Definition set_cell (h : heap) (c : nat) (x : cell) : heap :=
  {| cells := (c, x) :: cells h; arrs := arrs h; maps := maps h; next := next h |}.
Definition set_spine (h : heap) (a : nat) (l : list nat) : heap :=
  {| cells := cells h; arrs := (a, l) :: arrs h; maps := maps h; next := next h |}.
Definition set_props (h : heap) (o : nat) (l : list (string * nat)) : heap :=
  {| cells := cells h; arrs := arrs h; maps := (o, l) :: maps h; next := next h |}.
Definition alloc_cell (h : heap) (x : cell) : heap * nat :=
  ({| cells := (next h, x) :: cells h; arrs := arrs h; maps := maps h; next := S (next h) |}, next h).
Definition alloc_arr (h : heap) (l : list nat) : heap * nat :=
  ({| cells := cells h; arrs := (next h, l) :: arrs h; maps := maps h; next := S (next h) |}, next h).
Definition alloc_map (h : heap) (l : list (string * nat)) : heap * nat :=
  ({| cells := cells h; arrs := arrs h; maps := (next h, l) :: maps h; next := S (next h) |}, next h).

Definition plain (n : name) (v : val) : cell := {| cname := n; cval := v; cref := false |}.

(* ------------------------------------------------------------------ data/value_array.go *)

(* NewArrayValue(vs): a fresh unnamed cell per value *)
Fixpoint alloc_cells (h : heap) (vs : list val) : heap * list nat :=
  match vs with
  | [] => (h, [])
  | v :: r => let (h1, c) := alloc_cell h (plain NNone v) in
              let (h2, cs) := alloc_cells h1 r in (h2, c :: cs)
  end.
Definition new_array (h : heap) (vs : list val) : heap * nat :=
  let (h1, cs) := alloc_cells h vs in alloc_arr h1 cs.

(* CloneArrayValue: list := make(len); copy(list, src.List) — new spine, same cells *)
Definition clone_array (h : heap) (a : nat) : heap * nat := alloc_arr h (spine h a).

Definition name_eqb (a b : name) : bool :=
  match a, b with
  | NNone, NNone => true
  | NInt x, NInt y => Z.eqb x y
  | NStr x, NStr y => String.eqb x y
  | _, _ => false
  end.

(* position of the first cell of the spine whose Name is n *)
Fixpoint find_named (h : heap) (l : list nat) (n : name) (j : nat) : option nat :=
  match l with
  | [] => None
  | c :: r => if name_eqb (cname (cell_at h c)) n then Some j else find_named h r n (S j)
  end.

(* FindSlotByIntKey: by Name == itoa(i) first, then the dense position i when that cell is unnamed *)
Definition find_slot_int (h : heap) (a : nat) (i : Z) : option nat :=
  match find_named h (spine h a) (NInt i) 0 with
  | Some j => Some j
  | None =>
      if (i <? 0)%Z then None
      else match nth_error (spine h a) (Z.to_nat i) with
           | Some c => match cname (cell_at h c) with NNone => Some (Z.to_nat i) | _ => None end
           | None => None
           end
  end.

Fixpoint set_nth {A} (j : nat) (x : A) (l : list A) : list A :=
  match l, j with
  | [], _ => []
  | _ :: r, O => x :: r
  | y :: r, S k => y :: set_nth k x r
  end.

(* storeSlot(j, name, value): write through a reference-bound cell, otherwise install a fresh ZVal *)
Definition store_slot (h : heap) (a : nat) (j : nat) (n : name) (v : val) : heap :=
  match nth_error (spine h a) j with
  | None => h
  | Some c =>
      if cref (cell_at h c)
      then set_cell h c {| cname := n; cval := v; cref := true |}
      else let (h1, c') := alloc_cell h (plain n v) in set_spine h1 a (set_nth j c' (spine h a))
  end.

(* ArrayValue.OwnSlot(j) (data/value_array.go): the cell at position j, private to this array: a cell that
   is not reference-bound is replaced by a fresh copy in THIS array's spine first (CloneArrayValue shares
   the cells between an array and its copies; whoever is about to write the cell itself - a by-reference
   parameter bound to $b[j], $x = &$b[j], usort, array_walk - must not reach the other array) *)
Definition own_slot (h : heap) (a : nat) (j : nat) : heap * option nat :=
  match nth_error (spine h a) j with
  | None => (h, None)
  | Some c =>
      if cref (cell_at h c) then (h, Some c)
      else let (h1, c') := alloc_cell h {| cname := cname (cell_at h c); cval := cval (cell_at h c); cref := false |} in
           (set_spine h1 a (set_nth j c' (spine h a)), Some c')
  end.

Definition arr_append_cell (h : heap) (a : nat) (n : name) (v : val) : heap :=
  let (h1, c) := alloc_cell h (plain n v) in set_spine h1 a (spine h a ++ [c])%list.

(* SetIntKey *)
Definition set_int_key (h : heap) (a : nat) (i : Z) (v : val) : heap :=
  match find_slot_int h a i with
  | Some j => store_slot h a j (cname (cell_at h (nth j (spine h a) 0%nat))) v
  | None =>
      if (i <? 0)%Z then h
      else
        let len := List.length (spine h a) in
        if Nat.eqb (Z.to_nat i) len then arr_append_cell h a NNone v
        else if Nat.ltb len (Z.to_nat i) then arr_append_cell h a (NInt i) v
        else (* a named cell sits at position i: it is overwritten by an unnamed one *)
          match nth_error (spine h a) (Z.to_nat i) with
          | Some c =>
              if cref (cell_at h c)
              then set_cell h c {| cname := cname (cell_at h c); cval := v; cref := true |}
              else let (h1, c') := alloc_cell h (plain NNone v) in
                   set_spine h1 a (set_nth (Z.to_nat i) c' (spine h a))
          | None => h
          end
  end.

(* SetStrKey *)
Definition set_str_key (h : heap) (a : nat) (k : string) (v : val) : heap :=
  match find_named h (spine h a) (NStr k) 0 with
  | Some j => store_slot h a j (NStr k) v
  | None => arr_append_cell h a (NStr k) v
  end.

(* normalizeDenseIntKeys: every unnamed cell at position j gets Name itoa(j) (through storeSlot) *)
Fixpoint normalize_from (h : heap) (a : nat) (j : nat) (n : nat) : heap :=
  match n with
  | O => h
  | S n' =>
      let h1 :=
        match nth_error (spine h a) j with
        | Some c => match cname (cell_at h c) with
                    | NNone => store_slot h a j (NInt (Z.of_nat j)) (cval (cell_at h c))
                    | _ => h
                    end
        | None => h
        end in
      normalize_from h1 a (S j) n'
  end.
Definition normalize (h : heap) (a : nat) : heap := normalize_from h a 0 (List.length (spine h a)).

Fixpoint remove_nth {A} (j : nat) (l : list A) : list A :=
  match l, j with
  | [], _ => []
  | _ :: r, O => r
  | y :: r, S k => y :: remove_nth k r
  end.

(* UnsetKey(int): normalize, then drop the first cell named itoa(i); UnsetKey(string): drop by name *)
Definition unset_int (h : heap) (a : nat) (i : Z) : heap :=
  let h1 := normalize h a in
  match find_named h1 (spine h1 a) (NInt i) 0 with
  | Some j => set_spine h1 a (remove_nth j (spine h1 a))
  | None => h1
  end.
Definition unset_str (h : heap) (a : nat) (k : string) : heap :=
  match find_named h (spine h a) (NStr k) 0 with
  | Some j => set_spine h a (remove_nth j (spine h a))
  | None => h
  end.

(* sort(): sort.Slice reorders the cell pointers of the array's own spine by value (ints; the
   generators sort arrays of distinct ints only, so stability is irrelevant) *)
Definition int_of (v : val) : Z := match v with VInt z => z | _ => 0%Z end.
Fixpoint insert_by (h : heap) (c : nat) (l : list nat) : list nat :=
  match l with
  | [] => [c]
  | d :: r => if (int_of (cval (cell_at h c)) <=? int_of (cval (cell_at h d)))%Z then c :: l
              else d :: insert_by h c r
  end.
Definition sort_spine (h : heap) (a : nat) : heap :=
  set_spine h a (fold_right (insert_by h) [] (spine h a)).
(* array_push / array_pop *)
Definition arr_push (h : heap) (a : nat) (v : val) : heap := arr_append_cell h a NNone v.
Definition arr_pop (h : heap) (a : nat) : heap := set_spine h a (removelast (spine h a)).

(* ------------------------------------------------------------------ data/value_object.go *)
Fixpoint plookup (l : list (string * nat)) (k : string) : option nat :=
  match l with [] => None | (k', c) :: r => if String.eqb k' k then Some c else plookup r k end.

(* CloneObjectValue: a new OrderedMap, Set(key, value) for each entry: new cells, same values *)
Fixpoint clone_entries (h : heap) (l : list (string * nat)) : heap * list (string * nat) :=
  match l with
  | [] => (h, [])
  | (k, c) :: r => let (h1, c') := alloc_cell h (plain (NStr k) (cval (cell_at h c))) in
                   let (h2, r') := clone_entries h1 r in (h2, (k, c') :: r')
  end.
Definition clone_map (h : heap) (o : nat) : heap * nat :=
  let (h1, l) := clone_entries h (props h o) in alloc_map h1 l.

(* what SetVariableValue / ObjectValue.SetProperty store for a value: arrays get a new spine,
   string-keyed arrays new cells, everything else (ints, class instances) is stored as is *)
Definition copy_for_store (h : heap) (v : val) : heap * val :=
  match v with
  | VArr a => let (h1, a') := clone_array h a in (h1, VArr a')
  | VMap o => let (h1, o') := clone_map h o in (h1, VMap o')
  | _ => (h, v)
  end.

(* ObjectValue.SetProperty(name, value): clone arrays, then OrderedMap.Set (existing key: the
   cell's Value is overwritten in place; new key: a new cell at the end) *)
Definition set_prop (h : heap) (o : nat) (k : string) (v : val) : heap :=
  let (h1, v1) := copy_for_store h v in
  match plookup (props h1 o) k with
  | Some c => set_cell h1 c {| cname := cname (cell_at h1 c); cval := v1; cref := cref (cell_at h1 c) |}
  | None => let (h2, c) := alloc_cell h1 (plain (NStr k) v1) in
            set_props h2 o (props h2 o ++ [(k, c)])%list
  end.
Definition get_prop (h : heap) (o : nat) (k : string) : val :=
  match plookup (props h o) k with Some c => cval (cell_at h c) | None => VNull end.
(* OrderedMap.Delete *)
Definition del_prop (h : heap) (o : nat) (k : string) : heap :=
  set_props h o (filter (fun kc => negb (String.eqb (fst kc) k)) (props h o)).

(* ------------------------------------------------------------------ containers and paths *)
Inductive key := KI (i : Z) | KS (s : string).

Definition container_get (h : heap) (cont : val) (k : key) : val :=
  match cont, k with
  | VArr a, KI i => match find_slot_int h a i with
                    | Some j => cval (cell_at h (nth j (spine h a) 0%nat))
                    | None => VNull
                    end
  | VArr a, KS s => match find_named h (spine h a) (NStr s) 0 with
                    | Some j => cval (cell_at h (nth j (spine h a) 0%nat))
                    | None => VNull
                    end
  | VMap o, KS s | VObj o, KS s => get_prop h o s
  | _, _ => VNull
  end.

(* IndexExpression.SetValue / indexSetValueOnContainer on one container *)
Definition container_set (h : heap) (cont : val) (k : key) (v : val) : heap :=
  match cont, k with
  | VArr a, KI i => set_int_key h a i v
  | VArr a, KS s => set_str_key h a s v
  | VMap o, KS s => set_prop h o s v
  | _, _ => h
  end.
Definition container_unset (h : heap) (cont : val) (k : key) : heap :=
  match cont, k with
  | VArr a, KI i => unset_int h a i
  | VArr a, KS s => unset_str h a s
  | VMap o, KS s => del_prop h o s
  | _, _ => h
  end.

Inductive action := AStore (v : Z) | AAppend (v : Z) | AUnset | ASort | APush (v : Z) | APop.

(* the action at the addressed container, then the write-back chain: each enclosing container gets
   the (same) sub-container stored again under its key (writeBackArrayProperty) *)
Fixpoint mutate_at (h : heap) (cont : val) (path : list key) (act : action) : heap :=
  match path with
  | [] =>
      match cont, act with
      | VArr a, AAppend v => arr_append_cell h a NNone (VInt v)
      | VArr a, ASort => sort_spine h a
      | VArr a, APush v => arr_push h a (VInt v)
      | VArr a, APop => arr_pop h a
      | _, _ => h
      end
  | k :: rest =>
      match rest, act with
      | [], AStore v => container_set h cont k (VInt v)
      | [], AUnset => container_unset h cont k
      | _, _ =>
          let inner := container_get h cont k in
          match inner with
          | VArr _ | VMap _ =>
              let h1 := mutate_at h inner rest act in
              container_set h1 cont k inner
          | _ => h     (* auto-vivification is not modelled; the generators never address a missing level *)
          end
      end
  end.

(* ---- writes that go through a cell instead of replacing it
   IndexExpression.GetZVal (by-reference parameter bound to an element) and ValueReference.resolveIndexRef
   ($x = &$b[k]) evaluate the array expression by GetValue - no copy on the way down - and take the cell
   at POSITION k (integer key) or the first cell named k (string key) of the last container. *)
Definition zval_pos (h : heap) (a : nat) (k : key) : option nat :=
  match k with
  | KI i => if (i <? 0)%Z then None
            else if Nat.ltb (Z.to_nat i) (List.length (spine h a)) then Some (Z.to_nat i) else None
  | KS s => find_named h (spine h a) (NStr s) 0
  end.
Fixpoint ref_target (h : heap) (cont : val) (path : list key) : option (val * key) :=
  match path with
  | [] => None
  | k :: rest => match rest with
                 | [] => Some (cont, k)
                 | _ => ref_target h (container_get h cont k) rest
                 end
  end.
(* bind = true: the cell stays reference-bound afterwards (AddRefSlot is never undone) *)
Definition ref_store (h : heap) (cont : val) (path : list key) (z : Z) (bind : bool) : heap :=
  match ref_target h cont path with
  | Some (VArr a, k) =>
      match zval_pos h a k with
      | Some j =>
          let (h1, oc) := own_slot h a j in
          match oc with
          | Some c => set_cell h1 c {| cname := cname (cell_at h1 c); cval := VInt z; cref := bind || cref (cell_at h1 c) |}
          | None => h
          end
      | None => h
      end
  | Some (VMap o, KS s) =>
      (* ObjectValue.GetZVal: the property's own cell (CloneObjectValue gave the copy cells of its own) *)
      match plookup (props h o) s with
      | Some c => set_cell h c {| cname := cname (cell_at h c); cval := VInt z; cref := cref (cell_at h c) |}
      | None => h
      end
  | _ => h
  end.

(* usort (std/php/array/usort.go): sort.SliceStable on the array's own spine, then OwnSlot(i).Name = "" for every i *)
Fixpoint own_all (h : heap) (a : nat) (j : nat) (n : nat) (f : cell -> cell) : heap :=
  match n with
  | O => h
  | S n' =>
      let (h1, oc) := own_slot h a j in
      let h2 := match oc with Some c => set_cell h1 c (f (cell_at h1 c)) | None => h1 end in
      own_all h2 a (S j) n' f
  end.
Definition usort_arr (h : heap) (a : nat) : heap :=
  let h1 := sort_spine h a in
  own_all h1 a 0 (List.length (spine h1 a)) (fun c => {| cname := NNone; cval := cval c; cref := cref c |}).
(* array_walk (std/php/array/array_walk.go) with a callback that produces z for every element: OwnSlot(i).Value = z *)
Definition walk_arr (h : heap) (a : nat) (z : Z) : heap :=
  own_all h a 0 (List.length (spine h a)) (fun c => {| cname := cname c; cval := VInt z; cref := cref c |}).

(* ------------------------------------------------------------------ variables, statements *)
Record state := { hp : heap; env : list (string * nat) }.   (* variable -> its ZVal *)
Definition state0 : state := {| hp := heap0; env := [] |}.

Fixpoint vlookup (e : list (string * nat)) (x : string) : option nat :=
  match e with [] => None | (y, c) :: r => if String.eqb y x then Some c else vlookup r x end.

(* the slot of a variable (slots pre-exist in the code: created null on first use here) *)
Definition var_cell (st : state) (x : string) : state * nat :=
  match vlookup (env st) x with
  | Some c => (st, c)
  | None => let (h1, c) := alloc_cell (hp st) (plain NNone VNull) in
            ({| hp := h1; env := (x, c) :: env st |}, c)
  end.
Definition var_val (st : state) (x : string) : val :=
  match vlookup (env st) x with Some c => cval (cell_at (hp st) c) | None => VNull end.

(* Context.SetVariableValue: c.variables[i].Value = clone(value) — the variable's ZVal is written
   in place (so `&` aliases of the variable see it) *)
Definition set_var (st : state) (x : string) (v : val) : state :=
  let (st1, c) := var_cell st x in
  let (h1, v1) := copy_for_store (hp st1) v in
  {| hp := set_cell h1 c {| cname := cname (cell_at h1 c); cval := v1; cref := cref (cell_at h1 c) |};
     env := env st1 |}.

Inductive base := BVar (x : string) | BProp (o : string) (p : string).

Definition base_val (st : state) (b : base) : val :=
  match b with
  | BVar x => var_val st x
  | BProp o p => match var_val st o with VObj oa => get_prop (hp st) oa p | _ => VNull end
  end.
(* writeBackArrayProperty at the root: a property gets the array stored again (SetProperty clones);
   a plain variable already points at the mutated array *)
Definition base_write_back (st : state) (b : base) (v : val) : state :=
  match b with
  | BVar _ => st
  | BProp o p => match var_val st o with
                 | VObj oa => {| hp := set_prop (hp st) oa p v; env := env st |}
                 | _ => st
                 end
  end.

(* literals *)
Inductive lit := LInt (z : Z) | LList (l : list lit) | LAssoc (l : list (string * lit)).
Fixpoint build_lit (h : heap) (t : lit) {struct t} : heap * val :=
  match t with
  | LInt z => (h, VInt z)
  | LList l =>
      let (h1, vs) :=
        (fix go (h : heap) (l : list lit) : heap * list val :=
           match l with
           | [] => (h, [])
           | x :: r => let (h1, v) := build_lit h x in
                       let (h2, vs) := go h1 r in (h2, v :: vs)
           end) h l in
      let (h2, a) := new_array h1 vs in (h2, VArr a)
  | LAssoc l =>
      (* node/kv.go: obj := NewObjectValue(); obj.SetProperty(k, v) for each pair *)
      let (h0, o) := alloc_map h [] in
      let h1 :=
        (fix go (h : heap) (l : list (string * lit)) : heap :=
           match l with
           | [] => h
           | (k, x) :: r => let (h1, v) := build_lit h x in go (set_prop h1 o k v) r
           end) h0 l in
      (h1, VMap o)
  end.

Inductive stmt :=
| SLit (x : string) (t : lit)                       (* $x = <literal> *)
| SCopy (x y : string)                              (* $x = $y   (also: by-value parameter, return value) *)
| SMut (b : base) (path : list key) (act : action)  (* b[path] = v / b[path][] = v / unset(b[path]) / sort(b) ... *)
| SNewObj (o : string) (p : string) (t : lit)       (* $o = new C   where C declares  public $p = <literal> *)
| SPropStore (o p y : string)                       (* $o->p = $y *)
| SPropRead (x o p : string)                        (* $x = $o->p *)
| SCloneObj (c o : string)                          (* $c = clone $o *)
| SElemStore (w : string) (k : key) (y : string)    (* $w[k] = $y *)
| SElemAppend (w : string) (y : string)             (* $w[] = $y *)
| SListOf (w : string) (ys : list string)           (* $w = [$y1, $y2, ...] *)
| SElemRead (x w : string) (k : key)                (* $x = $w[k] *)
| SRefVar (x y : string)                            (* $x = &$y *)
| SRefSlot (x y : string) (i : Z)                   (* $x = &$y[i] *)
| SSetInt (x : string) (z : Z)                      (* $x = z *)
| SRefParamStore (b : base) (path : list key) (z : Z)  (* f(b[path])  with  function f(&$x) { $x = z; } *)
| SRefBindStore (b : base) (path : list key) (z : Z)   (* $r = &b[path]; $r = z;   ($r stays bound: unset($r) writes null THROUGH the reference in this interpreter) *)
| SUsort (x : string)                               (* usort($x, fn($p, $q) => $p <=> $q) *)
| SWalkStore (x : string) (z : Z).                  (* array_walk($x, fn(&$v) ...) leaving z in every element *)

Definition exec (st : state) (s : stmt) : state :=
  match s with
  | SLit x t => let (h1, v) := build_lit (hp st) t in
                set_var {| hp := h1; env := env st |} x v
  | SCopy x y => set_var st x (var_val st y)
  | SMut b path act =>
      let cont := base_val st b in
      match cont with
      | VArr _ | VMap _ =>
          let h1 := mutate_at (hp st) cont path act in
          base_write_back {| hp := h1; env := env st |} b cont
      | _ => st
      end
  | SNewObj o p t =>
      let (h1, v) := build_lit (hp st) t in
      let (h2, oa) := alloc_map h1 [] in
      set_var {| hp := set_prop h2 oa p v; env := env st |} o (VObj oa)
  | SPropStore o p y =>
      match var_val st o with
      | VObj oa => {| hp := set_prop (hp st) oa p (var_val st y); env := env st |}
      | _ => st
      end
  | SPropRead x o p =>
      match var_val st o with
      | VObj oa => set_var st x (get_prop (hp st) oa p)
      | _ => st
      end
  | SCloneObj c o =>
      match var_val st o with
      | VObj oa =>
          (* cloned := NewClassValue; obj.RangeProperties(cloned.SetProperty) *)
          let (h1, ca) := alloc_map (hp st) [] in
          let h2 := fold_left (fun h kc => set_prop h ca (fst kc) (cval (cell_at h (snd kc)))) (props h1 oa) h1 in
          set_var {| hp := h2; env := env st |} c (VObj ca)
      | _ => st
      end
  | SElemStore w k y =>
      (* IndexExpression.SetValue: the stored value is copied first (arrays are values) *)
      match var_val st w with
      | VArr _ | VMap _ =>
          let (h1, v1) := copy_for_store (hp st) (var_val st y) in
          {| hp := container_set h1 (var_val st w) k v1; env := env st |}
      | _ => st
      end
  | SElemAppend w y =>
      match var_val st w with
      | VArr a =>
          let (h1, v1) := copy_for_store (hp st) (var_val st y) in
          {| hp := arr_append_cell h1 a NNone v1; env := env st |}
      | _ => st
      end
  | SListOf w ys =>
      (* node/array.go: each element that is an array is copied, NewArrayValue makes fresh cells *)
      let (h1, vs) :=
        fold_left (fun acc y => let (h, vs) := (acc : heap * list val) in
                                let (h', v) := copy_for_store h (var_val st y) in (h', (vs ++ [v])%list))
                  ys (hp st, []) in
      let (h2, a) := new_array h1 vs in
      set_var {| hp := h2; env := env st |} w (VArr a)
  | SElemRead x w k => set_var st x (container_get (hp st) (var_val st w) k)
  | SRefVar x y =>
      (* ReferenceValue: c.variables[x] = the ZVal of y *)
      let (st1, c) := var_cell st y in
      {| hp := hp st1; env := (x, c) :: env st1 |}
  | SRefSlot x y i =>
      (* ArraySlotRef: slot := Arr.OwnSlot(Idx); slot.AddRefSlot(); c.variables[x] = slot *)
      match var_val st y with
      | VArr a =>
          match zval_pos (hp st) a (KI i) with
          | Some j =>
              let (h1, oc) := own_slot (hp st) a j in
              match oc with
              | Some c =>
                  let cl := cell_at h1 c in
                  {| hp := set_cell h1 c {| cname := cname cl; cval := cval cl; cref := true |};
                     env := (x, c) :: env st |}
              | None => st
              end
          | None => st
          end
      | _ => st
      end
  | SSetInt x z => set_var st x (VInt z)
  | SRefParamStore b path z => {| hp := ref_store (hp st) (base_val st b) path z false; env := env st |}
  | SRefBindStore b path z => {| hp := ref_store (hp st) (base_val st b) path z true; env := env st |}
  | SUsort x => match var_val st x with
                | VArr a => {| hp := usort_arr (hp st) a; env := env st |}
                | _ => st
                end
  | SWalkStore x z => match var_val st x with
                      | VArr a => {| hp := walk_arr (hp st) a z; env := env st |}
                      | _ => st
                      end
  end.

Definition run (prog : list stmt) (st : state) : state := fold_left exec prog st.

(* ------------------------------------------------------------------ observation
   what a snapshot `foreach ($v as $k => $x)` sees, recursively: keys are the cell's Name when it
   has one, else the position; depth bounded by fuel *)
Inductive tkey := TKI (i : Z) | TKS (s : string).
(* TStr: a string / float / bool as the snapshot printed it - the model never produces one (its scalars are
   null and ints), so an implementation snapshot that contains one differs from every model snapshot,
   and two implementation snapshots are compared representation-exactly *)
Inductive tree := TNull | TInt (z : Z) | TArr (l : list (tkey * tree)) | TObjRef (o : nat) | TStr (s : string).

Definition key_of (j : nat) (n : name) : tkey :=
  match n with NNone => TKI (Z.of_nat j) | NInt i => TKI i | NStr s => TKS s end.

(* the entries of one array: rec observes an element value *)
Fixpoint obs_items (rec : val -> tree) (h : heap) (l : list nat) (j : nat) : list (tkey * tree) :=
  match l with
  | [] => []
  | c :: r => (key_of j (cname (cell_at h c)), rec (cval (cell_at h c))) :: obs_items rec h r (S j)
  end.

Fixpoint obs (fuel : nat) (h : heap) (v : val) : tree :=
  match v with
  | VNull => TNull
  | VInt z => TInt z
  | VObj o => TObjRef o
  | VArr a =>
      match fuel with
      | O => TArr []
      | S f => TArr (obs_items (obs f h) h (spine h a) 0%nat)
      end
  | VMap o =>
      match fuel with
      | O => TArr []
      | S f => TArr (map (fun kc => (TKS (fst kc), obs f h (cval (cell_at h (snd kc))))) (props h o))
      end
  end.

Definition obs_var (fuel : nat) (st : state) (x : string) : tree := obs fuel (hp st) (var_val st x).
Definition obs_base (fuel : nat) (st : state) (b : base) : tree := obs fuel (hp st) (base_val st b).

(* ------------------------------------------------------------------ the code before e238f5c
   (SetIntKey wrote into the found cell whether or not it is shared) — kept for Examples.v *)
Definition set_int_key_prefix (h : heap) (a : nat) (i : Z) (v : val) : heap :=
  match find_slot_int h a i with
  | Some j => let c := nth j (spine h a) 0%nat in
              set_cell h c {| cname := cname (cell_at h c); cval := v; cref := cref (cell_at h c) |}
  | None => set_int_key h a i v
  end.
