(* C01 — correspondence: the lexer tie of C18.Run on C01's input distribution (token-boundary prefixes,
   single-token deletions / duplications, byte mutations), restricted to the clauses C01 is about:
   1 model and real lexer disagree, 6 the real lexer panicked, 9 model Unsup (not a failure). *)
From Coq Require Import List Arith Bool.
Import ListNotations.
From V.C18 Require Run.

Definition check_case (c : V.C18.Run.case) : list nat :=
  filter (fun k => (k =? 1) || (k =? 6) || (k =? 9)) (V.C18.Run.check_case c).
