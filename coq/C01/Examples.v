(* C01 — witnesses: the pinned guards fail on exactly the inputs that crashed the pinned binary; the model
   tokenizes them now; non-vacuity of the theorems' hypotheses is immediate (they have none). *)
From Coq Require Import List Arith NArith Bool String.
Import ListNotations.
From V.gen Require Import TokenTable.
From V.Lexer Require Import Model Hex.
From V.C01 Require Import Model Spec.
Open Scope string_scope.

(* source ending in E3 80: pos+2 <= len holds, input[pos+2] does not exist *)
Example fullwidth_guard_pinned_refuted : fullwidth_test 2 [227; 128] = Crash.
Proof. reflexivity. Qed.
Example fullwidth_guard_fixed : fullwidth_test 3 [227; 128] = Ok false.
Proof. reflexivity. Qed.

(* source "$": the raw token list is [DOLLAR] and tokens[i+1] is read at i = 0 *)
Example dollar_guard_pinned_refuted : dollar_next_pinned [mkTok T_DOLLAR [36] 0 1 0] 0 = Crash.
Proof. reflexivity. Qed.
Example dollar_guard_fixed : dollar_next_fixed [mkTok T_DOLLAR [36] 0 1 0] 0 = Ok T_EOF.
Proof. reflexivity. Qed.

(* the model on these sources and on an unterminated everything *)
Example lex_dollar : lex_front false (unhex "24") = FTokens [mkTok T_DOLLAR [36] 0 1 0].
Proof. vm_compute. reflexivity. Qed.
Example lex_garbage : match lex_front false (unhex "2f2a20225c27603c3f2f2f") with FTokens ts => List.length ts | _ => 0 end = 1.
Proof. vm_compute. reflexivity. Qed.
