(* C01 — witnesses: the pinned guards fail on exactly the inputs that crashed the pinned binary; the model
   tokenizes them now; non-vacuity of the theorems' hypotheses is immediate (they have none). *)
From Coq Require Import List Arith NArith Bool String.
Import ListNotations.
From V.gen Require Import TokenTable.
From V.Lexer Require Import Model Hex.
From V.C01 Require Import Model Spec.
Open Scope string_scope.

(* source ending in E3 80: pos+2 <= len holds, input[pos+2] does not exist *)
Example fullwidth_guard_pinned_refuted : fullwidth_test 2 [227; 128] = Crash.
Proof. reflexivity. Qed.
Example fullwidth_guard_fixed : fullwidth_test 3 [227; 128] = Ok false.
Proof. reflexivity. Qed.

(* source "$": the raw token list is [DOLLAR] and tokens[i+1] is read at i = 0 *)
Example dollar_guard_pinned_refuted : dollar_next_pinned [mkTok T_DOLLAR [36] 0 1 0] 0 = Crash.
Proof. reflexivity. Qed.
Example dollar_guard_fixed : dollar_next_fixed [mkTok T_DOLLAR [36] 0 1 0] 0 = Ok T_EOF.
Proof. reflexivity. Qed.

(* the model on these sources and on an unterminated everything *)
Example lex_dollar : lex_front false (unhex "24") = FTokens [mkTok T_DOLLAR [36] 0 1 0].
Proof. vm_compute. reflexivity. Qed.
Example lex_garbage : match lex_front false (unhex "2f2a20225c27603c3f2f2f") with FTokens ts => List.length ts | _ => 0 end = 1.
Proof. vm_compute. reflexivity. Qed.

(* ---- the statement-level parser model on small token lists (non-vacuity of accepted_is_complete, and the
   defect classes it excludes) ---- *)
From V.C04 Require Model.
From V.Stmt Require Model Spec Run.
Module StmtExamples.
Import V.C04.Model V.Stmt.Model V.Stmt.Spec V.Stmt.Run.
Definition v (n : nat) := SAtom (AVar n).
Definition i (k : N) := SAtom (ANum false k).

(* if ($a) { echo 1; } else { $b = $a + 2; } *)
Example accepts_if_else :
  parse_program [SKw KIf; SLp; v 0; SRp; SLbrace; SKw KEcho; i 1; SSemi; SRbrace; SKw KElse; SLbrace; v 1; SAsg AEq; v 0; SBin OAdd; i 2; SSemi; SRbrace]
  = TopOk [SIf (EAtom (AVar 0)) [SEcho [EAtom (ANum false 1)]] []
             [EAsg AEq (EAtom (AVar 1)) (EBin OAdd (EAtom (AVar 0)) (EAtom (ANum false 2)))]].
Proof. vm_compute. reflexivity. Qed.

(* $a = 1 + ;      a missing right operand is a positioned error (was accepted before fix c587cb8) *)
Example rejects_missing_operand : parse_program [v 0; SAsg AEq; i 1; SBin OAdd; SSemi] = TopErr 4.
Proof. vm_compute. reflexivity. Qed.
(* if () { }       an empty condition (fix e8890f1) *)
Example rejects_empty_condition : parse_program [SKw KIf; SLp; SRp; SLbrace; SRbrace] = TopErr 2.
Proof. vm_compute. reflexivity. Qed.
(* function f() { $a = 1;       a block that is never closed (fix d3848db) *)
Example rejects_unclosed_block : parse_program [SKw KFunction; SIdent 7; SLp; SRp; SLbrace; v 0; SAsg AEq; i 1; SSemi] = TopErr 9.
Proof. vm_compute. reflexivity. Qed.
(* $a = ((1);      a parenthesis that is never closed (fix 36c211b) *)
Example rejects_unclosed_paren : parse_program [v 0; SAsg AEq; SLp; SLp; i 1; SRp; SSemi] = TopErr 6.
Proof. vm_compute. reflexivity. Qed.
(* return;  for (;;) { break; }      the optional slots stay empty and the program is complete *)
Example optional_slots :
  match parse_program [SKw KFor; SLp; SSemi; SSemi; SRp; SLbrace; SKw KBreak; SSemi; SRbrace; SKw KReturn; SSemi] with
  | TopOk p => forallb cmp p | _ => false end = true.
Proof. vm_compute. reflexivity. Qed.
(* ) ) )          tokens no parser takes: the no-progress guard answers, the model does not loop *)
Example guard_ends_the_loop : parse_program [SRp; SRp; SRp] = TopErr 0.
Proof. vm_compute. reflexivity. Qed.
End StmtExamples.
