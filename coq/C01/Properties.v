(* C01 — the clauses that are theorems.  PARTIAL: they cover the lexer (both modes, every byte string on which
   the model is defined) and the expression core of the parser (coq/C04); the statement parsers are searched by
   checks/C01.py, not proved. *)
From Coq Require Import List Arith NArith Bool.
Import ListNotations.
From V.gen Require Import TokenTable.
From V.Lexer Require Import Model Proofs.
From V.C04 Require Model Totality.
From V.Stmt Require Model Spec Run Complete Theorems.
From V.C01 Require Import Model Spec Proofs.

(* tokenizing terminates: |s|+1 main-loop iterations always suffice, in both modes, and the preprocessor needs
   at most one step per raw token — `tokenize` (which runs with exactly that fuel) never answers OutOfFuel *)
Theorem lex_total : forall template s, tokenize template s <> OutOfFuel.
Proof. exact tokenize_total. Qed.
Theorem lex_steps : forall f template php rest pos line lastnl acc,
  List.length rest < f -> lex_loop f template php rest pos line lastnl acc <> OutOfFuel.
Proof. exact lex_loop_total. Qed.
Print Assumptions lex_steps.

(* it never crashes: no iteration and no preprocessor pass reaches an out-of-range read *)
Theorem lex_no_crash : forall template s, tokenize template s <> Crash.
Proof. exact tokenize_no_crash. Qed.
Theorem lex_yields_tokens_or_is_unmodelled : forall template s, front_ok (lex_front template s).
Proof. exact lex_front_ok_l. Qed.
Print Assumptions lex_yields_tokens_or_is_unmodelled.

(* the two guards that were wrong on the pinned tree, with explicit partial reads: fixed form never fails *)
Theorem fullwidth_guard_safe : forall rest, fullwidth_test 3 rest = Ok (prefix [227; 128; 128] rest).
Proof. exact fullwidth_fixed_safe_l. Qed.
Theorem dollar_guard_safe : forall ts i, dollar_next_fixed ts i <> Crash.
Proof. exact dollar_fixed_safe_l. Qed.
Print Assumptions dollar_guard_safe.

(* the expression core of the parser (coq/C04) terminates with a fuel linear in the number of tokens, on EVERY token list *)
Theorem expr_core_total : forall ts,
  V.C04.Model.parse (V.C04.Model.fuel_for ts) (V.C04.Model.Lvl 0) ts <> V.C04.Model.Fuel.
Proof. exact V.C04.Totality.parse_top_total. Qed.
Print Assumptions expr_core_total.

(* ---- the statement-level parser core (coq/Stmt): parseProgram with its no-progress guard, blocks, echo / expression
   statements, if/elseif/else, while, do-while, for, foreach, switch, break/continue/return, function declarations
   and calls, array and object literals, try/catch/finally, throw, on top of the 18 expression levels with the nil
   results of the Go code ---- *)

(* it terminates on every token list with a fuel linear in the number of tokens; the guarded loops terminate because
   of the no-progress guard *)
Theorem parse_core_total : forall ts, V.Stmt.Run.parse_program ts <> V.Stmt.Run.TopFuel.
Proof. exact V.Stmt.Theorems.parse_core_total. Qed.
Print Assumptions parse_core_total.

(* the answer is a program, a positioned error, or "outside the modelled core": never a crash *)
Theorem parse_core_result : forall ts,
  (exists prog, V.Stmt.Run.parse_program ts = V.Stmt.Run.TopOk prog) \/
  (exists p, V.Stmt.Run.parse_program ts = V.Stmt.Run.TopErr p) \/ V.Stmt.Run.parse_program ts = V.Stmt.Run.TopUnsup.
Proof. exact V.Stmt.Theorems.parse_core_result. Qed.
Print Assumptions parse_core_result.

(* an accepted program has no missing operand and no missing clause (`cmp`: no nil except in the optional slots) *)
Theorem accepted_is_complete : forall ts prog,
  V.Stmt.Run.parse_program ts = V.Stmt.Run.TopOk prog -> forallb V.Stmt.Spec.cmp prog = true.
Proof. exact V.Stmt.Theorems.accepted_is_complete. Qed.
Print Assumptions accepted_is_complete.
