(* C01 — what is modelled for "any source lexes and parses to a program or a diagnostic, never a crash":
   (a) the byte-level lexer model of coq/Lexer/Model.v (both modes, preprocessor included) — shared with C18;
   (b) the expression parser model of coq/C04/Model.v — the proved core of the parser;
   (c) the two reads of the pinned tree that were not dominated by a bounds test, written here with EXPLICIT
       partial reads (`rd` = Go's input[i], `Crash` when out of range) in their pinned and their fixed form.
   In (a) the remaining reads are written by pattern matching on the rest of the input, each checked by hand
   against the bounds test that dominates it in the Go code; (c) shows what the explicit form looks like and
   that the pinned guards really fail.  No proofs in this file. *)
From Coq Require Import List Arith NArith Bool.
Import ListNotations.
From V.gen Require Import TokenTable.
From V.Lexer Require Import Model.

Definition rd {A} (l : list A) (i : nat) : outcome A :=
  match nth_error l i with Some x => Ok x | None => Crash end.

Definition andc (a : outcome bool) (b : unit -> outcome bool) : outcome bool :=      (* Go's short-circuit && *)
  match a with Ok true => b tt | x => x end.
Definition eqc (a : outcome nat) (v : nat) : outcome bool :=
  match a with Ok x => Ok (x =? v) | Crash => Crash | Unsup => Unsup | OutOfFuel => OutOfFuel end.

(* lexer.go, Tokenize:  if pos+K <= len(input) && input[pos]==0xe3 && input[pos+1]==0x80 && input[pos+2]==0x80
   with K = 2 on the pinned tree and K = 3 after fix 2d07863; `rest` = input[pos:] *)
Definition fullwidth_test (k : nat) (rest : list nat) : outcome bool :=
  andc (Ok (k <=? List.length rest)) (fun _ =>
  andc (eqc (rd rest 0) 227) (fun _ =>
  andc (eqc (rd rest 1) 128) (fun _ => eqc (rd rest 2) 128))).

(* preprocessor.go, Process, case DOLLAR at index i of the raw tokens:
     pinned:  nextType := p.tokens[i+1].Type(); if i+1 < len(p.tokens) && (...)
     fixed :  nextType := EOF; if i+1 < len(p.tokens) { nextType = p.tokens[i+1].Type() } *)
Definition dollar_next_pinned (ts : list tok) (i : nat) : outcome N :=
  match rd ts (i + 1) with Ok t => Ok (ty t) | Crash => Crash | Unsup => Unsup | OutOfFuel => OutOfFuel end.
Definition dollar_next_fixed (ts : list tok) (i : nat) : outcome N :=
  if i + 1 <? List.length ts then dollar_next_pinned ts i else Ok T_EOF.

(* the outcome of the front end on a source, as far as it is modelled *)
Inductive front := FTokens (ts : list tok) | FUnsup | FCrash | FOutOfFuel.
Definition lex_front (template : bool) (s : list nat) : front :=
  match tokenize template s with
  | Ok ts => FTokens ts
  | Unsup => FUnsup
  | Crash => FCrash
  | OutOfFuel => FOutOfFuel
  end.
