From Coq Require Import List Arith NArith Bool Lia.
Import ListNotations.
From V.gen Require Import TokenTable.
From V.Lexer Require Import Model Proofs.
From V.C01 Require Import Model Spec.

Lemma lex_front_ok_l template s : front_ok (lex_front template s).
Proof.
  unfold lex_front. pose proof (tokenize_total template s). pose proof (tokenize_no_crash template s).
  destruct (tokenize template s); cbn; auto.
Qed.

Lemma nth_error_lt {A} (l : list A) i : i < List.length l -> exists x, nth_error l i = Some x.
Proof. intros L. destruct (nth_error l i) eqn:E; [eauto|]. apply nth_error_None in E. lia. Qed.

(* the fixed guard never fails, and it is the prefix test of the model *)
Lemma fullwidth_fixed_safe_l rest : fullwidth_test 3 rest = Ok (prefix [227; 128; 128] rest).
Proof.
  unfold fullwidth_test, andc, eqc, rd.
  destruct rest as [|a [|b [|c r]]]; cbn [length Nat.leb nth_error prefix];
    rewrite ?andb_false_r; try reflexivity.
  rewrite (Nat.eqb_sym 227 a), (Nat.eqb_sym 128 b), (Nat.eqb_sym 128 c).
  destruct (a =? 227); cbn [andb]; [|reflexivity]. destruct (b =? 128); cbn [andb]; [|reflexivity].
  rewrite andb_true_r. reflexivity.
Qed.

Lemma dollar_fixed_safe_l ts i : dollar_next_fixed ts i <> Crash.
Proof.
  unfold dollar_next_fixed. destruct (i + 1 <? List.length ts) eqn:E; [|discriminate].
  apply Nat.ltb_lt in E. unfold dollar_next_pinned, rd. destruct (nth_error_lt ts (i + 1) E) as [x ->]. discriminate.
Qed.
