(* C01 — the property for the modelled front end: tokenizing terminates within a number of main-loop
   iterations bounded by the input length and yields tokens (or is outside the model); parsing the expression
   core terminates with a fixed fuel linear in the number of tokens; neither reaches a crash. *)
From Coq Require Import List Arith.
From V.Lexer Require Import Model.
From V.C01 Require Import Model.

Definition front_ok (f : front) : Prop := match f with FTokens _ | FUnsup => True | FCrash | FOutOfFuel => False end.

(* "within a time bounded by a modest function of the input length", as a count of loop iterations *)
Definition lex_iterations_bound (s : list nat) : nat := S (List.length s).
