(* Termination and no-crash of the statement-level parser model (coq/Stmt/Model.v).

   Measure.  M m s = 2 * W s + rank m s, where W s is the weight of the remaining tokens (40 per token, 81 for a
   signed number: splitting it into `-` `k` loses 1) and rank orders the modes that call each other WITHOUT consuming
   a token (parseProgram > parseStatement > the 18 expression levels > the sub-parsers of parsePrimary; block, if
   condition, argument list and the key/value loops above parseStatement).  Every recursive call of `step` is on a
   smaller measure; the loops that the Go code protects only by the no-progress guard (parseProgram, parseBlock, the
   key/value loops, a case body) continue only after the position has changed, which strictly decreases W.

   good r s  :=  r is neither Fuel nor Crash, and if r = Ok v s' then s' is "not before" s:
                 W s' <= W s, and if nothing was consumed the position is unchanged. *)
From Coq Require Import List NArith Bool Arith Lia.
Import ListNotations.
From V.C04 Require Import Model.
From V.Stmt Require Import Model.

Definition tw (t : stok) : nat := match t with SAtom (ANum true _) => 81 | _ => 40 end.
Fixpoint wl (l : list stok) : nat := match l with [] => 0 | t :: r => tw t + wl r end.
Definition W (s : st) : nat := wl (rest s).

Arguments skip_semis_all : simpl never.
Arguments next : simpl never.
Arguments split_signed : simpl never.

Lemma tw_ge t : 40 <= tw t.
Proof. destruct t as [a| | | | | | | | | | | | | | | | | | | | | |]; try (cbn; lia). destruct a as [| neg k | | | |]; try (cbn; lia). destruct neg; cbn; lia. Qed.

Definition rank (m : mode) (s : st) : nat :=
  match m with
  | Program last _ => 26 + (if pos s =? last then 0 else 1)
  | CaseBody _ _ => 25
  | MainStmt | Block | BlockLoop _ | IfCond | KvLoop _ _ | KvLoopComma _ | JsonLoopB _ | Args _ => 24
  | Stmt => 23
  | Lvl n => 5 + (17 - n)
  | PLbrace | PFunc => 2
  | _ => 0
  end.
Definition M (m : mode) (s : st) : nat := 2 * W s + rank m s.

Lemma rank_le m s : rank m s <= 27.
Proof. destruct m; cbn [rank]; try lia. destruct (pos s =? last); lia. Qed.

Definition le_st (s' s : st) : Prop := W s' <= W s /\ (W s' = W s -> 0 < W s -> pos s' = pos s).
Definition good (r : res) (s : st) : Prop :=
  match r with Fuel | Crash => False | Ok _ s' => le_st s' s | _ => True end.

(* facts about the state transformers, packaged so that the tactics can tell which ones are already known *)
Definition NF (x : st) : Prop := W (next x) <= W x /\ (0 < W x -> W (next x) + 40 <= W x).
Lemma next_NF x : NF x.
Proof. unfold NF, W, next. destruct (rest x) as [|t r]; cbn [rest wl]; [lia | pose proof (tw_ge t); lia]. Qed.

Lemma cur_semi_pos x : is_semi (cur x) = true -> 0 < W x.
Proof. unfold cur, W. destruct (rest x) as [|t r]; cbn; [discriminate|]. intros _. pose proof (tw_ge t). lia. Qed.

Lemma skip_semis_spec f x : skip_semis f x = x \/ W (skip_semis f x) + 40 <= W x.
Proof.
  revert x. induction f as [|f IH]; intros x; cbn [skip_semis]; [left; reflexivity|].
  destruct (is_semi (cur x)) eqn:E; [|left; reflexivity].
  right. pose proof (cur_semi_pos x E) as P. destruct (next_NF x) as [_ N]. specialize (N P).
  destruct (IH (next x)) as [Q|Q]; [rewrite Q; lia | lia].
Qed.
Definition SF (x : st) : Prop :=
  W (skip_semis_all x) <= W x /\ (W (skip_semis_all x) = W x -> pos (skip_semis_all x) = pos x).
Lemma skip_SF x : SF x.
Proof. unfold SF, skip_semis_all. destruct (skip_semis_spec (S (length (rest x))) x) as [Q|Q]; [rewrite Q; lia | lia]. Qed.

Lemma W_pos_of_rest x t r : rest x = t :: r -> 0 < W x.
Proof. intros R. unfold W. rewrite R. cbn. pose proof (tw_ge t). lia. Qed.

Lemma split_W k x t r : rest x = t :: r -> cur x = SAtom (ANum true k) -> W (split_signed k x) + 1 = W x.
Proof. intros R C. unfold cur in C. rewrite R in C. subst t. unfold split_signed, W. rewrite R. cbn. lia. Qed.

Lemma eof_W x : is_eof x = false -> 0 < W x.
Proof. unfold is_eof. destruct (rest x) as [|t r] eqn:R; [discriminate|]. intros _. eapply W_pos_of_rest; eassumption. Qed.

Lemma kind_spec n :
  match kind n with
  | KAssign => n = 0 | KTern => n = 1 | KLoop => n < 15 | KAnd => n = 5 | KCmp => n = 10 | KRange => n = 13
  | KUnary => n = 15 | KPow => n = 16 | KPrim => 17 <= n
  end.
Proof. do 18 (destruct n as [|n]; [cbn; lia|]). cbn. lia. Qed.

(* after the first consumed token every call is on a smaller measure, whatever its mode *)
Definition small (m0 : mode) (s0 x : st) : Prop := 2 * W x + 28 <= M m0 s0.

(* 0 < W x from any hypothesis that says something positive about cur x *)
Ltac wpos x :=
  lazymatch goal with
  | _ : 0 < W x |- _ => fail
  | _ =>
    assert (0 < W x) by
      (let R := fresh "R" in
       destruct (rest x) as [|? ?] eqn:R;
       [ exfalso; unfold cur, peek, is_eof in *; rewrite R in *; cbn in *; congruence
       | eapply W_pos_of_rest; eassumption ])
  end.

Ltac note_facts :=
  repeat match goal with
  | |- context [next ?x] => lazymatch goal with _ : NF x |- _ => fail | _ => pose proof (next_NF x) end
  | _ : context [next ?x] |- _ => lazymatch goal with _ : NF x |- _ => fail | _ => pose proof (next_NF x) end
  | |- context [skip_semis_all ?x] => lazymatch goal with _ : SF x |- _ => fail | _ => pose proof (skip_SF x) end
  | _ : context [skip_semis_all ?x] |- _ => lazymatch goal with _ : SF x |- _ => fail | _ => pose proof (skip_SF x) end
  end;
  repeat match goal with
  | _ : NF ?x |- _ => wpos x
  | _ : cur ?x = _ |- _ => wpos x
  end;
  repeat match goal with
  | H : is_eof ?x = false |- _ => lazymatch goal with _ : 0 < W x |- _ => fail | _ => pose proof (eof_W x H) end
  end.

Ltac eqb_hyps :=
  repeat match goal with
  | H : (_ =? _) = false |- _ => apply Nat.eqb_neq in H
  | H : (_ =? _) = true |- _ => apply Nat.eqb_eq in H
  end;
  repeat match goal with
  | |- context [?a =? ?b] => destruct (Nat.eqb_spec a b)
  end.

Ltac kind_facts :=
  repeat match goal with
  | H : kind ?n = _ |- _ =>
      lazymatch goal with
      | _ : n < 15 |- _ => fail | _ : n = _ |- _ => fail | _ : 17 <= n |- _ => fail
      | _ => let P := fresh "P" in pose proof (kind_spec n) as P; rewrite H in P
      end
  end.

Ltac arith :=
  repeat match goal with H : _ || _ = false |- _ => apply orb_false_iff in H; destruct H end;
  unfold small, good, le_st, M in *; cbn [rank] in *; kind_facts; note_facts; eqb_hyps; unfold NF, SF in *;
  repeat match goal with H : _ /\ _ |- _ => destruct H end; try lia.

Section StepProof.
Variable rec : mode -> st -> res.
Variable m0 : mode.
Variable s0 : st.
Hypothesis IH : forall m x, M m x < M m0 s0 -> good (rec m x) x.

Lemma good_weaken r x s : good r x -> le_st x s -> good r s.
Proof. destruct r; cbn [good]; auto. unfold le_st. intros [A B] [C D]. split; [lia|]. intros E F. assert (W x = W s) by lia. assert (0 < W x) by lia. rewrite B by lia. auto. Qed.

Lemma good_bind r k b s :
  le_st b s -> good r b -> (forall v x, le_st x b -> good (k v x) s) -> good (bind r k) s.
Proof. intros L G Hk. destruct r; cbn [bind good] in *; auto. Qed.

Lemma good_nil_err r k b s :
  le_st b s -> good r b -> (forall v x, le_st x b -> good (k v x) s) -> good (nil_err r k) s.
Proof.
  intros L G Hk. unfold nil_err. eapply good_bind; [exact L | exact G |].
  intros v x Lx. destruct (is_nil v); [exact I | apply Hk; exact Lx].
Qed.

Lemma good_postfix c r s : good r s -> good (postfix c r) s.
Proof.
  intros G. unfold postfix. destruct r; cbn [bind good] in *; auto.
  destruct (cur s1); try exact G; destruct (statement_kw c); try exact G; cbn [good]; arith.
Qed.

Lemma good_kv_ret ps x s : le_st x s -> good (kv_ret ps x) s.
Proof. intros L. unfold kv_ret. destruct (kv_ok ps); cbn [good err]; auto. Qed.

Lemma rec_small m x : small m0 s0 x -> good (rec m x) x.
Proof. intros S. apply IH. unfold small, M in *. pose proof (rank_le m x). lia. Qed.

Ltac base r :=
  lazymatch r with
  | rec _ ?x => x
  | json_key _ ?x => x
  | bind ?r' _ => base r'
  | nil_err ?r' _ => base r'
  | Ok _ ?x => x
  end.

Ltac mode_hyp := try match goal with H : m0 = _ |- _ => rewrite H in * end.
Ltac ar := mode_hyp; arith.

(* lemmas about the sub-parsers that are entered after a token has been consumed: `small x -> good (f rec .. x) x` *)
Ltac sublemma := fail.

(* goals: good E s *)
Ltac go :=
  lazymatch goal with
  | |- context [if ?c then next ?a else ?b] => let E := fresh "E" in destruct c eqn:E; go
  | |- good (Ok _ _) _ => cbn [good]; try solve [ar]
  | |- good (Err _) _ => exact I
  | |- good (err _) _ => exact I
  | |- good Unsup _ => exact I
  | |- good (rec ?m ?x) ?s =>
      apply (good_weaken _ x s);
      [ first [ solve [apply rec_small; ar] | solve [apply IH; ar] | idtac ] | try solve [ar] ]
  | |- good (bind (if ?c then _ else _) _) _ => let E := fresh "E" in destruct c eqn:E; go
  | |- good (nil_err (if ?c then _ else _) _) _ => let E := fresh "E" in destruct c eqn:E; go
  | |- good (bind ?r ?k) ?s =>
      let b := base r in
      let L := fresh "L" in
      assert (L : le_st b s) by ar;
      apply (good_bind r k b s L); [go | let v := fresh "v" in let x := fresh "x" in let Lx := fresh "Lx" in intros v x Lx; go]
  | |- good (nil_err ?r ?k) ?s =>
      let b := base r in
      let L := fresh "L" in
      assert (L : le_st b s) by ar;
      apply (good_nil_err r k b s L); [go | let v := fresh "v" in let x := fresh "x" in let Lx := fresh "Lx" in intros v x Lx; go]
  | |- good (postfix _ _) _ => apply good_postfix; go
  | |- good (kv_ret _ _) _ => apply good_kv_ret; try solve [ar]
  | |- good (if ?c then _ else _) _ => let E := fresh "E" in destruct c eqn:E; go
  | |- good (match ?d with _ => _ end) _ => let E := fresh "E" in destruct d eqn:E; go
  | |- good (let _ := _ in _) _ => cbv zeta; go
  | |- good (?f ?x) ?s => apply (good_weaken _ x s); [ first [ solve [sublemma; ar] | idtac ] | try solve [ar] ]
  | |- _ => idtac
  end.

Lemma good_json_key x : small m0 s0 x -> good (json_key rec x) x.
Proof. intros S. unfold json_key. go. Qed.
Ltac sublemma ::= first [ apply good_json_key ].

Lemma good_for_finish h i c l x : small m0 s0 x -> good (for_finish rec h i c l x) x.
Proof. intros S. unfold for_finish. cbv zeta. go. Qed.
Ltac sublemma ::= first [ apply good_json_key | apply good_for_finish ].

Lemma good_for_after_cond h i c x : small m0 s0 x -> good (for_after_cond rec h i c x) x.
Proof. intros S. unfold for_after_cond. go. Qed.
Ltac sublemma ::= first [ apply good_json_key | apply good_for_finish | apply good_for_after_cond ].

Lemma good_for_after_inits h i x : small m0 s0 x -> good (for_after_inits rec h i x) x.
Proof. intros S. unfold for_after_inits. go. Qed.

Lemma good_foreach_body a k v x : small m0 s0 x -> good (foreach_body rec a k v x) x.
Proof. intros S. unfold foreach_body. go. Qed.

Lemma good_param_fin v acc d x : small m0 s0 x -> good (param_fin rec v acc d x) x.
Proof. intros S. unfold param_fin. cbv zeta. go. Qed.
Ltac sublemma ::= first [ apply good_json_key | apply good_for_finish | apply good_for_after_cond | apply good_for_after_inits
                        | apply good_foreach_body | apply good_param_fin ].

(* --- the sub-parsers of parsePrimary, entered at s0 on a token (0 < W s0) --- *)
Lemma good_prim_paren : 0 < W s0 -> good (prim_paren rec s0) s0.
Proof.
  intros P. unfold prim_paren. go.
  (* the cast branch reads the type name: it is there because is_type_cast said so *)
  all: exfalso; unfold is_type_cast in *;
    match goal with H : peek s0 1 = _ |- _ => rewrite H in * end; discriminate.
Qed.

Lemma good_prim_bracket : 0 < W s0 -> good (prim_bracket rec s0) s0.
Proof. intros P. unfold prim_bracket. cbv zeta. go. Qed.
Lemma good_prim_ident n : 0 < W s0 -> good (prim_ident rec n s0) s0.
Proof. intros P. unfold prim_ident. cbv zeta. go. Qed.
Lemma good_prim_new : 0 < W s0 -> good (prim_new rec s0) s0.
Proof. intros P. unfold prim_new. cbv zeta. go. Qed.
Lemma good_prim_if : 0 < W s0 -> good (prim_if rec s0) s0.
Proof. intros P. unfold prim_if. go. Qed.
Lemma good_prim_while : 0 < W s0 -> good (prim_while rec s0) s0.
Proof. intros P. unfold prim_while. cbv zeta. go. Qed.
Lemma good_prim_do : 0 < W s0 -> good (prim_do rec s0) s0.
Proof. intros P. unfold prim_do. cbv zeta. go. Qed.
Lemma good_prim_for : 0 < W s0 -> good (prim_for rec s0) s0.
Proof. intros P. unfold prim_for. cbv zeta. go. Qed.
Lemma good_prim_foreach : 0 < W s0 -> good (prim_foreach rec s0) s0.
Proof. intros P. unfold prim_foreach. cbv zeta. go. Qed.
Lemma good_prim_switch : 0 < W s0 -> good (prim_switch rec s0) s0.
Proof. intros P. unfold prim_switch. cbv zeta. go. Qed.
Lemma good_prim_break : 0 < W s0 -> good (prim_break s0) s0.
Proof. intros P. unfold prim_break. cbv zeta. go. Qed.
Lemma good_prim_continue : 0 < W s0 -> good (prim_continue s0) s0.
Proof. intros P. unfold prim_continue. cbv zeta. go. Qed.
Lemma good_prim_return : 0 < W s0 -> good (prim_return rec s0) s0.
Proof. intros P. unfold prim_return. cbv zeta. go. Qed.
Lemma good_prim_throw : 0 < W s0 -> good (prim_throw rec s0) s0.
Proof. intros P. unfold prim_throw. cbv zeta. go. Qed.

Ltac sublemma ::= first [ apply good_json_key | apply good_for_finish | apply good_for_after_cond | apply good_for_after_inits
                        | apply good_foreach_body | apply good_param_fin ].

Ltac sublemma ::= first [ apply good_json_key | apply good_for_finish | apply good_for_after_cond | apply good_for_after_inits
                        | apply good_foreach_body | apply good_param_fin
                        | apply good_prim_paren | apply good_prim_bracket | apply good_prim_ident | apply good_prim_new
                        | apply good_prim_if | apply good_prim_while | apply good_prim_do | apply good_prim_for
                        | apply good_prim_foreach | apply good_prim_switch | apply good_prim_break | apply good_prim_continue
                        | apply good_prim_return | apply good_prim_throw ].

(* --- one lemma per mode: under IH for (m0, s0), with m0 the mode in question --- *)
Lemma good_step_prim n : m0 = Lvl n -> kind n = KPrim -> good (step_prim rec s0) s0.
Proof. intros Hm Hk. unfold step_prim. cbv zeta. go. Qed.

Lemma good_step_assign : m0 = Lvl 0 -> good (step_assign rec s0) s0.
Proof. intros Hm. unfold step_assign. go. Qed.
Lemma good_step_tern : m0 = Lvl 1 -> good (step_tern rec s0) s0.
Proof. intros Hm. unfold step_tern. go. Qed.
Lemma good_step_unary : m0 = Lvl 15 -> good (step_unary rec s0) s0.
Proof. intros Hm. unfold step_unary. go. Qed.
Lemma good_step_pow : m0 = Lvl 16 -> good (step_pow rec s0) s0.
Proof. intros Hm. unfold step_pow. cbv zeta. go. Qed.

Lemma good_step_lvl n : m0 = Lvl n -> good (step_lvl rec n s0) s0.
Proof.
  intros Hm. unfold step_lvl. destruct (kind n) eqn:Hk; pose proof (kind_spec n) as P; rewrite Hk in P.
  - subst n. apply good_step_assign; exact Hm.
  - subst n. apply good_step_tern; exact Hm.
  - go.
  - go.
  - go.
  - go.
  - subst n. apply good_step_unary; exact Hm.
  - subst n. apply good_step_pow; exact Hm.
  - eapply good_step_prim; eassumption.
Qed.

Lemma good_step_program last acc : m0 = Program last acc -> good (step_program rec last acc s0) s0.
Proof. intros Hm. unfold step_program. go. Qed.
Lemma good_step_stmt : m0 = Stmt -> good (step_stmt rec s0) s0.
Proof. intros Hm. unfold step_stmt. go. Qed.
Lemma good_step_mainstmt : m0 = MainStmt -> good (step_mainstmt rec s0) s0.
Proof. intros Hm. unfold step_mainstmt. go. Qed.

Lemma good_step_loop n acc : m0 = Loop n acc -> good (step_loop rec n acc s0) s0.
Proof.
  intros Hm. unfold step_loop. go.
  - exfalso. unfold cur in *. match goal with R : rest s0 = [] |- _ => rewrite R in * end. discriminate.
  - (* the signed-number split: W loses 1, same mode *)
    match goal with R : rest s0 = _ :: _, C : cur s0 = SAtom (ANum true ?k) |- _ => pose proof (split_W k s0 _ _ R C) as SW end.
    apply Nat.eqb_eq in E2. subst n. apply IH. rewrite Hm. unfold M. cbn [rank]. lia.
  - match goal with R : rest s0 = _ :: _, C : cur s0 = SAtom (ANum true ?k) |- _ => pose proof (split_W k s0 _ _ R C) as SW end.
    unfold le_st. lia.
Qed.

Lemma good_step_uloop acc : m0 = ULoop acc -> good (step_uloop rec acc s0) s0.
Proof. intros Hm. unfold step_uloop. go. Qed.
Lemma good_step_aloop acc : m0 = ALoop acc -> good (step_aloop rec acc s0) s0.
Proof. intros Hm. unfold step_aloop. go. Qed.
Lemma good_step_ploop acc : m0 = PLoop acc -> good (step_ploop rec acc s0) s0.
Proof. intros Hm. unfold step_ploop. go. Qed.
Lemma good_step_commalist acc : m0 = CommaList acc -> good (step_commalist rec acc s0) s0.
Proof. intros Hm. unfold step_commalist. cbv zeta. go. Qed.
Lemma good_step_suffix e : m0 = Suffix e -> good (step_suffix rec e s0) s0.
Proof. intros Hm. unfold step_suffix. cbv zeta. go. Qed.
Lemma good_step_args acc : m0 = Args acc -> good (step_args rec acc s0) s0.
Proof. intros Hm. unfold step_args. go. Qed.
Lemma good_step_block : m0 = Block -> good (step_block rec s0) s0.
Proof. intros Hm. unfold step_block. go. Qed.
Lemma good_step_blockloop acc : m0 = BlockLoop acc -> good (step_blockloop rec acc s0) s0.
Proof. intros Hm. unfold step_blockloop. cbv zeta. go. Qed.
Lemma good_step_arrskip acc : m0 = ArrSkip acc -> good (step_arrskip rec acc s0) s0.
Proof. intros Hm. unfold step_arrskip. cbv zeta. go. Qed.
Lemma good_step_arraftercomma acc : m0 = ArrAfterComma acc -> good (step_arraftercomma rec acc s0) s0.
Proof. intros Hm. unfold step_arraftercomma. cbv zeta. go. Qed.
Lemma good_step_kvloopcomma acc : m0 = KvLoopComma acc -> good (step_kvloopcomma rec acc s0) s0.
Proof. intros Hm. unfold step_kvloopcomma. cbv zeta. go. Qed.
Lemma good_step_kvloop c acc : m0 = KvLoop c acc -> good (step_kvloop rec c acc s0) s0.
Proof. intros Hm. unfold step_kvloop. go. Qed.
Lemma good_step_jsonloopb acc : m0 = JsonLoopB acc -> good (step_jsonloopb rec acc s0) s0.
Proof. intros Hm. unfold step_jsonloopb. go. Qed.
Lemma good_step_jsonloop acc : m0 = JsonLoop acc -> good (step_jsonloop rec acc s0) s0.
Proof. intros Hm. unfold step_jsonloop. cbv zeta. go. Qed.
Lemma good_step_echoloop acc : m0 = EchoLoop acc -> good (step_echoloop rec acc s0) s0.
Proof. intros Hm. unfold step_echoloop. go. Qed.
Lemma good_step_ifcond : m0 = IfCond -> good (step_ifcond rec s0) s0.
Proof. intros Hm. unfold step_ifcond. go. Qed.
Lemma good_step_elseifs c th acc : m0 = ElseIfs c th acc -> good (step_elseifs rec c th acc s0) s0.
Proof. intros Hm. unfold step_elseifs. cbv zeta. go. Qed.
Lemma good_step_forinits acc : m0 = ForInits acc -> good (step_forinits rec acc s0) s0.
Proof. intros Hm. unfold step_forinits. go. Qed.
Lemma good_step_forincs i c acc : m0 = ForIncs i c acc -> good (step_forincs rec i c acc s0) s0.
Proof. intros Hm. unfold step_forincs. go. Qed.
Lemma good_step_switchloop c cs d : m0 = SwitchLoop c cs d -> good (step_switchloop rec c cs d s0) s0.
Proof. intros Hm. unfold step_switchloop. cbv zeta. go. Qed.
Lemma good_step_casebody b acc : m0 = CaseBody b acc -> good (step_casebody rec b acc s0) s0.
Proof. intros Hm. unfold step_casebody. cbv zeta. go. Qed.
Lemma good_step_returns acc : m0 = Returns acc -> good (step_returns rec acc s0) s0.
Proof. intros Hm. unfold step_returns. go. Qed.
Lemma good_step_catches b acc : m0 = Catches b acc -> good (step_catches rec b acc s0) s0.
Proof. intros Hm. unfold step_catches. cbv zeta. go. Qed.
Lemma good_step_catchtypes acc : m0 = CatchTypes acc -> good (step_catchtypes rec acc s0) s0.
Proof. intros Hm. unfold step_catchtypes. cbv zeta. go. Qed.
Lemma good_step_params acc : m0 = Params acc -> good (step_params rec acc s0) s0.
Proof. intros Hm. unfold step_params. cbv zeta. go. Qed.
Lemma good_step_plbrace : m0 = PLbrace -> good (step_plbrace rec s0) s0.
Proof. intros Hm. unfold step_plbrace. cbv zeta. go. Qed.
Lemma good_step_pfunc : m0 = PFunc -> good (step_pfunc rec s0) s0.
Proof. intros Hm. unfold step_pfunc. cbv zeta. go. Qed.

Lemma good_step m : m0 = m -> good (step rec m s0) s0.
Proof.
  destruct m; intros Hm; cbn [step];
  first [ apply good_step_program | apply good_step_stmt | apply good_step_mainstmt | apply good_step_lvl | apply good_step_loop
        | apply good_step_uloop | apply good_step_aloop | apply good_step_ploop | apply good_step_commalist
        | apply good_step_suffix | apply good_step_args | apply good_step_block | apply good_step_blockloop
        | apply good_step_arraftercomma | apply good_step_arrskip | apply good_step_kvloop | apply good_step_kvloopcomma
        | apply good_step_jsonloop | apply good_step_jsonloopb | apply good_step_echoloop | apply good_step_elseifs
        | apply good_step_ifcond | apply good_step_forinits | apply good_step_forincs | apply good_step_switchloop
        | apply good_step_casebody | apply good_step_returns | apply good_step_catches | apply good_step_catchtypes
        | apply good_step_params | apply good_step_plbrace | apply good_step_pfunc ]; exact Hm.
Qed.

End StepProof.

(* ---------- termination and no crash, all modes, all states ---------- *)
Theorem parse_good : forall f m s, M m s < f -> good (parse f m s) s.
Proof.
  induction f as [|f IHf]; intros m s H; [lia|]. cbn [parse].
  apply (good_step (parse f) m s); [|reflexivity]. intros m' x Hx. apply IHf. lia.
Qed.

Lemma wl_le l : wl l <= 81 * length l.
Proof. induction l as [|t r IHr]; cbn [wl length]; [lia|]. assert (tw t <= 81) by (destruct t as [a| | | | | | | | | | | | | | | | | | | | | |]; try (cbn; lia); destruct a as [| neg k | | | |]; try (cbn; lia); destruct neg; cbn; lia). lia. Qed.

Lemma parse_program_mode_list : forall f last acc s v s', parse f (Program last acc) s = Ok v s' -> exists l, v = EList l.
Proof.
  induction f as [|f IHf]; intros last acc s v s' H; [discriminate|]. cbn [parse step] in H. unfold step_program in H.
  destruct (is_eof s); [inversion H; eauto|].
  destruct (parse f Stmt s) as [v1 s1| | | |]; cbn [bind] in H; try discriminate.
  destruct (is_nil v1).
  - destruct (pos s1 =? last); [discriminate|]. eapply IHf; eassumption.
  - destruct (pos s1 =? pos s); [discriminate|]. eapply IHf; eassumption.
Qed.
