(* Statement model — lemmas (in progress; see Stmt/NoCrash.v etc. when present). *)
From V.Stmt Require Import Model.
