(* Statement model — correspondence: model parse of the real token stream vs the real parser's program tree *)
From Coq Require Import List NArith Bool Arith.
Import ListNotations.
From V.C04 Require Import Model.
From V.Stmt Require Import Model Spec.

Definition nn (n : nat) : N := N.of_nat n.
Definition ser_binop (o : binop) : N :=
  match o with
  | OCoal => 1 | ODot => 2 | OLor => 3 | OLand => 4 | OBor => 5 | OBxor => 6 | OBand => 7 | OEq => 8 | ONe => 9 | OEqS => 10
  | ONeS => 11 | OLt => 12 | OLe => 13 | OGt => 14 | OGe => 15 | OCmp => 16 | OShl => 17 | OShr => 18 | OAdd => 19
  | OSub => 20 | OMul => 21 | ODiv => 22 | ORem => 23 | OPow => 24 end%N.
Definition ser_atom (a : atom) : list N :=
  match a with
  | AVar v => [1; nn v] | ANum neg k => [2; if neg && negb (N.eqb k 0) then 1 else 0; k]   (* the literal -0 is 0 *) | AStr k => [3; nn k]
  | ATrue => [4] | AFalse => [5] | ANull => [6] end%N.

Definition asg_binop (a : asgop) : option binop :=
  match a with
  | AEq => None | AAdd => Some OAdd | ASub => Some OSub | AMul => Some OMul | ADiv => Some ODiv
  | ARem => Some ORem | ADot => Some ODot | ACoal => Some OCoal | ABor => Some OBor | ABand => Some OBand
  | ABxor => Some OBxor | AShl => Some OShl | AShr => Some OShr | APow => Some OPow
  end.

(* a flat, length-prefixed serialisation; compound assignments are expanded like node.NewBinaryExpression *)
Fixpoint ser (e : ast) : list N :=
  let sl (l : list ast) : list N := nn (List.length l) :: flat_map ser l in
  (match e with
  | ENil => [100]
  | EAtom ANull => [110]                    (* the null keyword and the empty index are both node.NullLiteral *)
  | EAtom a => 101 :: ser_atom a
  | EIdentStr n => [102; nn n]
  | EBin o l r => 103 :: ser_binop o :: ser l ++ ser r
  | EAsg a l r =>
      match asg_binop a with
      | None => 104 :: ser l ++ ser r
      | Some o => 104 :: ser l ++ (103 :: ser_binop o :: ser l ++ ser r)
      end
  | EUn u x => 105 :: (match u with UNeg => 1 | UNot => 2 | UBnot => 3 end) :: ser x
  | EPreInc b x => 106 :: (if b then 1 else 0) :: ser x
  | EPostInc b x => 107 :: (if b then 1 else 0) :: ser x
  | ETern c t f => 108 :: ser c ++ ser t ++ ser f
  | EIndex a i => 109 :: ser a ++ ser i
  | ENullLit => [110]
  | ENullVal => [111]
  | ECallFn n args => 112 :: nn n :: sl args
  | ECallExpr f args => 113 :: ser f ++ sl args
  | ENew n args => 114 :: nn n :: sl args
  | EArray els => 115 :: sl els
  | EKv ps => 116 :: nn (List.length ps) :: flat_map (fun p => let '(k, v) := p in ser k ++ ser v) ps
  | EVarList vs => 117 :: sl vs
  | EList l => 118 :: sl l
  | SEcho es => 119 :: sl es
  | SIf c th elifs el =>
      120 :: ser c ++ sl th ++
      (nn (List.length elifs) :: flat_map (fun p => let '(c2, b) := p in ser c2 ++ (nn (List.length b) :: flat_map ser b)) elifs) ++ sl el
  | SWhile c b => 121 :: ser c ++ sl b
  | SDoWhile c b => 122 :: ser c ++ sl b
  | SFor i c n b => 123 :: sl i ++ ser c ++ sl n ++ sl b
  | SForeach a k v b => 124 :: ser a ++ ser k ++ ser v ++ sl b
  | SSwitch c cases d =>
      125 :: ser c ++
      (nn (List.length cases) :: flat_map (fun p => let '(v, b) := p in ser v ++ (nn (List.length b) :: flat_map ser b)) cases) ++ sl d
  | SBreak n => [126; n]
  | SContinue n => [127; n]
  | SReturn v => 128 :: ser v
  | SReturns vs => 129 :: sl vs
  | SThrow v => 130 :: ser v
  | STry b cs f =>
      131 :: sl b ++
      (nn (List.length cs) :: flat_map (fun p => let '(tys, v, cb) := p in
          (nn (List.length tys) :: map nn tys) ++ ser v ++ (nn (List.length cb) :: flat_map ser cb)) cs) ++ sl f
  | SFunc n ps b =>
      132 :: nn n :: (nn (List.length ps) :: flat_map (fun p => let '(v, d) := p in nn v :: ser d) ps) ++ sl b
  end)%N.

Fixpoint nlist_eqb (a b : list N) : bool :=
  match a, b with
  | [], [] => true
  | x :: a', y :: b' => N.eqb x y && nlist_eqb a' b'
  | _, _ => false
  end.

Definition fuel_for (ts : list stok) : nat := 200 * (List.length ts + 2).

Inductive top := TopOk (prog : list ast) | TopErr (pos : nat) | TopUnsup | TopCrash | TopFuel.
Definition has_other (ts : list stok) : bool :=
  existsb (fun t => match t with SOther | SEOF => true | _ => false end) ts.
Definition parse_program (ts : list stok) : top :=
  if has_other ts then TopUnsup else
  match parse (fuel_for ts) (Program 0 []) (mkSt [] ts 0) with
  | Ok (EList l) _ => TopOk l
  | Ok _ _ => TopCrash
  | Err p => TopErr p
  | Unsup => TopUnsup
  | Crash => TopCrash
  | Fuel => TopFuel
  end.

Inductive robs := ROk (prog : list ast) | RErr | RBad.
Record case := { rtoks : list stok; real : robs }.

(* 1 = model and real parser disagree; 2 = the REAL parser accepted a tree with a missing operand / clause (the
   property's accepted-is-complete clause, applied to the implementation's own tree); 9 = model Unsup (not a failure) *)
Definition real_complete (c : case) : list nat :=
  match real c with ROk r => if forallb cmp r then [] else [2] | _ => [] end.
Definition check_case (c : case) : list nat :=
  real_complete c ++
  match parse_program (rtoks c), real c with
  | TopUnsup, _ => [9]
  | TopOk m, ROk r => if nlist_eqb (ser (EList m)) (ser (EList r)) then [] else [1]
  | TopErr _, RErr => []
  | _, _ => [1]
  end.
