(* accepted_is_complete: a program accepted by the statement-level parser model has no missing operand and no missing
   clause: the only `ENil` slots of an accepted tree are the ones the language makes optional (return value, for
   condition, foreach key, catch variable, parameter default).

   The Go parse functions return (nil, nil) for "nothing here"; what keeps a nil out of an operand slot is (a) the
   nil checks after each sub-parse (`nil_err`), and (b) ExpressionParser.missingOperand, which refuses to answer nil
   when the current or the previous token is an operator.  (b) is why the proof carries, with every nil result, the
   fact that the parser did not move and that missingOperand answered false in that state. *)
From Coq Require Import List NArith Bool Arith Lia.
Import ListNotations.
From V.C04 Require Import Model.
From V.Stmt Require Import Model Spec Proofs.

Lemma is_nil_true v : is_nil v = true -> v = ENil.
Proof. destruct v; cbn; congruence. Qed.
Lemma opt_optc v : (match v with ENil => true | _ => cmp v end) = optc v.
Proof. destruct v; reflexivity. Qed.
Lemma optc_cmp v : optc v = true -> is_nil v = false -> cmp v = true.
Proof. unfold optc. intros H E. rewrite E in H. exact H. Qed.
Lemma cmp_optc v : cmp v = true -> optc v = true.
Proof. unfold optc. intros ->. apply orb_true_r. Qed.
Lemma cmp_not_nil v : cmp v = true -> is_nil v = false.
Proof. destruct v; cbn; congruence. Qed.
Lemma forallb_rev {A} (f : A -> bool) l : forallb f (rev l) = forallb f l.
Proof. induction l as [|x l IH]; [reflexivity|]. cbn [rev forallb]. rewrite forallb_app, IH. cbn. rewrite andb_true_r. apply andb_comm. Qed.
Lemma var_cmp e : is_variable_node e = true -> cmp e = true.
Proof. destruct e; try discriminate. reflexivity. Qed.
Lemma vars_cmp l : forallb is_variable_node l = true -> forallb cmp l = true.
Proof. induction l as [|x l IH]; [reflexivity|]. cbn [forallb]. rewrite !andb_true_iff. intros [A B]. split; [apply var_cmp; exact A | apply IH; exact B]. Qed.

Lemma foreach_target_cmp v a : foreach_target v = Some a -> cmp a = true.
Proof. destruct v; try discriminate. destruct a0; try discriminate. intros H. injection H as <-. reflexivity. Qed.

(* ---------- specifications ---------- *)

Definition sat (P : ast -> st -> Prop) (r : res) : Prop := match r with Ok v s' => P v s' | _ => True end.

Definition nilat (s : st) : Prop :=
  missing_operand s (cur s) = false /\ (match cur s with SAtom _ | SQ => false | _ => true end) = true.

Definition pairs_opt (ps : list (ast * ast)) : bool := forallb (fun p => let '(k, v) := p in optc k && optc v) ps.
Definition param_ok (p : ast) : bool := match p with EAsg AEq (EAtom (AVar _)) d => optc d | _ => false end.
Definition elifs_ok (l : list (ast * list ast)) : bool := forallb (fun p => let '(c, b) := p in cmp c && forallb cmp b) l.
Definition catches_ok (l : list (list nat * ast * list ast)) : bool :=
  forallb (fun p => let '(_, v, cb) := p in (match v with ENil => true | _ => cmp v end) && forallb cmp cb) l.
Definition is_list_of (P : ast -> bool) (v : ast) : Prop := exists l, v = EList l /\ forallb P l = true.

Definition pre (m : mode) (s : st) : Prop :=
  match m with
  | Program _ acc | Args acc | BlockLoop acc | ArrSkip acc | ArrAfterComma acc | EchoLoop acc | ForInits acc
  | CaseBody _ acc | ForIncs _ _ acc => forallb cmp acc = true
  | Loop n acc => optc acc = true /\ (acc = ENil -> nilat s /\ (cur s = SBin OLt -> n <> 10))
  | ULoop acc | ALoop acc => optc acc = true /\ (acc = ENil -> nilat s)
  | PLoop acc | Suffix acc => cmp acc = true
  | KvLoop _ acc | KvLoopComma acc | JsonLoop acc | JsonLoopB acc => pairs_opt acc = true
  | ElseIfs c th acc => cmp c = true /\ forallb cmp th = true /\ elifs_ok acc = true
  | SwitchLoop c cases def => cmp c = true /\ elifs_ok cases = true /\ forallb cmp def = true
  | Returns acc => forallb optc acc = true /\ (is_comma (cur s) = false -> forallb cmp acc = true)
  | Catches body acc => forallb cmp body = true /\ catches_ok acc = true
  | Params acc => forallb param_ok acc = true
  | _ => True
  end.

Definition post (m : mode) (s : st) (v : ast) (s' : st) : Prop :=
  match m with
  | Program _ _ | Args _ | Block | BlockLoop _ | ForInits _ | ForIncs _ _ _ | CaseBody _ _ => is_list_of cmp v
  | Stmt | MainStmt => optc v = true
  | Lvl n => optc v = true /\ (v = ENil -> s' = s /\ nilat s /\ (n <= 10 -> cur s <> SBin OLt))
  | Loop _ acc | ULoop acc | ALoop acc => optc v = true /\ (v = ENil -> s' = s /\ acc = ENil)
  | CommaList _ | CatchTypes _ => True
  | Params _ => is_list_of param_ok v
  | _ => cmp v = true
  end.

Lemma sat_weaken (P Q : ast -> st -> Prop) r : (forall v x, P v x -> Q v x) -> sat P r -> sat Q r.
Proof. destruct r; cbn; auto. Qed.
Lemma sat_bind (P1 P : ast -> st -> Prop) r k : sat P1 r -> (forall v x, P1 v x -> sat P (k v x)) -> sat P (bind r k).
Proof. destruct r; cbn; auto. Qed.
Lemma sat_nil_err (P1 P : ast -> st -> Prop) r k :
  sat P1 r -> (forall v x, P1 v x -> is_nil v = false -> sat P (k v x)) -> sat P (nil_err r k).
Proof. intros H1 Hk. unfold nil_err. eapply sat_bind; [exact H1|]. intros v x Hv. destruct (is_nil v) eqn:E; [exact I | apply Hk; auto]. Qed.
Lemma sat_postfix c r : sat (fun v _ => cmp v = true) r -> sat (fun v _ => cmp v = true) (postfix c r).
Proof.
  unfold postfix. destruct r; cbn [bind sat]; auto. intros H.
  destruct (cur s); cbn [sat]; auto; destruct (statement_kw c); cbn [sat cmp]; auto.
Qed.
Lemma sat_kv_ret ps x : pairs_opt ps = true -> sat (fun v _ => cmp v = true) (kv_ret ps x).
Proof.
  intros H. unfold kv_ret. destruct (kv_ok ps) eqn:E; cbn [sat]; [|exact I]. cbn [cmp].
  unfold pairs_opt, kv_ok in *. induction ps as [|[k v] ps IH]; [reflexivity|]. cbn [forallb fst snd] in *.
  rewrite !andb_true_iff in *. destruct H as [[Hk Hv] Hr]. destruct E as [[Ek Ev] Er].
  rewrite negb_true_iff in Ek, Ev. repeat split; [apply optc_cmp; assumption | apply optc_cmp; assumption | apply IH; assumption].
Qed.

(* ---------- ExpressionParser.missingOperand ---------- *)
Lemma prev_after_next s t : cur s = t -> t <> SEOF -> prev_tok (next s) 0 = Some t.
Proof.
  unfold cur, next, prev_tok. destruct (rest s) as [|t' r]; intros E N; [congruence|]. subst t'. reflexivity.
Qed.

Lemma missing_after_bin s o c : cur s = SBin o -> missing_operand (next s) c = true.
Proof.
  intros E. unfold missing_operand. rewrite (prev_after_next s (SBin o) E) by discriminate.
  destruct o; cbn [binary_tok]; rewrite ?orb_true_r; reflexivity.
Qed.
Lemma missing_after_asg s a c : cur s = SAsg a -> missing_operand (next s) c = true.
Proof.
  intros E. unfold missing_operand. rewrite (prev_after_next s (SAsg a) E) by discriminate.
  cbn [binary_tok]. rewrite ?orb_true_r. reflexivity.
Qed.

Lemma nilat_bin s o : nilat s -> cur s = SBin o -> o = OLt /\ exists i, peek s 1 = SIdent i.
Proof.
  intros [H _] E. rewrite E in H. unfold missing_operand in H.
  destruct o; cbn [binary_tok] in H; rewrite ?orb_true_r in H; cbn [orb] in H; try discriminate.
  split; [reflexivity|]. destruct (peek s 1); cbn in H; try discriminate. eauto.
Qed.
Lemma nilat_not_asg s a : nilat s -> cur s = SAsg a -> False.
Proof. intros [H _] E. rewrite E in H. unfold missing_operand in H. cbn [binary_tok] in H. rewrite ?orb_true_r in H. cbn [orb] in H. discriminate. Qed.
Lemma nilat_not_elvis s : nilat s -> cur s = SElvis -> False.
Proof. intros [H _] E. rewrite E in H. unfold missing_operand in H. cbn [binary_tok] in H. rewrite ?orb_true_r in H. cbn [orb] in H. discriminate. Qed.
Lemma nilat_not_atom s a : nilat s -> cur s = SAtom a -> False.
Proof. intros [_ H] E. rewrite E in H. discriminate. Qed.
Lemma nilat_not_q s : nilat s -> cur s = SQ -> False.
Proof. intros [_ H] E. rewrite E in H. discriminate. Qed.

Lemma index_pairs_opt l : forall i, forallb cmp l = true -> forallb (fun p : ast * ast => let '(k, v) := p in optc k && optc v) (index_pairs i l) = true.
Proof.
  induction l as [|x l IHl]; intros i H; [reflexivity|]. cbn [index_pairs forallb] in *. rewrite andb_true_iff in H. destruct H as [A B].
  rewrite (cmp_optc x A). cbn. apply IHl. exact B.
Qed.

Lemma optc_all_cmp l : forallb optc l = true -> existsb is_nil l = false -> forallb cmp l = true.
Proof.
  induction l as [|x l IHl]; [reflexivity|]. cbn [forallb existsb]. rewrite andb_true_iff, orb_false_iff. intros [A B] [C D].
  rewrite (optc_cmp x A C). apply IHl; assumption.
Qed.

Lemma func_params_ok l : forallb param_ok l = true ->
  forallb (fun p : nat * ast => let '(_, d) := p in match d with ENil => true | _ => cmp d end) (func_params (EList l)) = true.
Proof.
  unfold func_params. cbn [as_list]. induction l as [|x l IHl]; [reflexivity|]. cbn [forallb map]. rewrite andb_true_iff. intros [A B].
  rewrite (IHl B), andb_true_r. unfold param_ok in A.
  destruct x; try discriminate. destruct a; try discriminate. destruct x1; try discriminate. destruct a; try discriminate.
  rewrite opt_optc. exact A.
Qed.

(* ---------- the step lemma ---------- *)
Ltac b2p :=
  unfold is_list_of, pairs_opt, elifs_ok, catches_ok in *;
  repeat match goal with
  | H : exists _, _ |- _ => destruct H
  | H : _ /\ _ |- _ => destruct H
  | H : EList _ = EList _ |- _ => injection H as H; subst
  | H : ?v = EList _ |- _ => is_var v; subst v
  | H : is_nil ?v = true |- _ => apply is_nil_true in H; subst v
  | H : ?v = ENil |- _ => is_var v; subst v
  | H : ?a = ?a -> _ |- _ => specialize (H eq_refl)
  | H : true = true |- _ => clear H
  | H : ?x = ?y |- _ => is_var x; is_var y; subst x
  end;
  repeat (progress (cbn [cmp forallb is_nil rev app fst snd param_ok as_list optc orb andb negb map] in *;
                    rewrite ?forallb_rev, ?forallb_app, ?opt_optc, ?andb_true_iff, ?andb_true_r in * )).

Ltac fin1 :=
  match goal with
  | |- _ /\ _ => split
  | |- exists l, EList ?x = EList l /\ _ => exists x; split; [reflexivity|]
  | |- forall _, _ => intro
  | H : _ /\ _ |- _ => destruct H
  end.

(* the operand parsed right after an operator token is not nil: missingOperand refuses *)
Ltac opnil :=
  match goal with
  | H : optc ?v = true, H0 : ?v = ENil -> _ |- cmp ?v = true =>
      let N := fresh "N" in let M := fresh "M" in
      destruct (is_nil v) eqn:N;
      [ exfalso; apply is_nil_true in N; destruct (H0 N) as [_ [[M _] _]];
        first [ erewrite missing_after_bin in M by eassumption; discriminate
              | erewrite missing_after_asg in M by eassumption; discriminate ]
      | apply (optc_cmp v H N) ]
  end.

(* a nil left operand in front of an operator token: missingOperand refuses *)
Ltac accnil :=
  match goal with
  | H : optc ?v = true, H0 : ?v = ENil -> _ |- cmp ?v = true =>
      let N := fresh "N" in let X := fresh "X" in let Q := fresh "Q" in
      destruct (is_nil v) eqn:N;
      [ exfalso; apply is_nil_true in N; destruct (H0 N) as [-> [X _]];
        first [ match goal with E : cur _ = SBin _ |- _ => destruct (nilat_bin _ _ X E) as [Q _]; discriminate Q end
              | eapply nilat_not_asg; eassumption | eapply nilat_not_elvis; eassumption
              | eapply nilat_not_q; eassumption | eapply nilat_not_atom; eassumption ]
      | apply (optc_cmp v H N) ]
  end.

Ltac fin :=
  repeat match goal with |- context [if is_nil ?v then _ else _] => let E := fresh "E" in destruct (is_nil v) eqn:E end;
  b2p; repeat (fin1; b2p);
  try solve [ assumption | reflexivity | discriminate | congruence
            | apply cmp_optc; assumption | apply optc_cmp; assumption | apply vars_cmp; assumption | apply var_cmp; assumption
            | opnil | accnil
            | apply func_params_ok; assumption
            | apply index_pairs_opt; rewrite ?forallb_rev; assumption
            | eapply foreach_target_cmp; eassumption | apply cmp_optc; eapply foreach_target_cmp; eassumption
            | match goal with H : optc ?v = true, E : is_nil ?v = false |- _ => rewrite (optc_cmp v H E); reflexivity end ].

Section StepC.
Variable rec : mode -> st -> res.
Hypothesis IH : forall m x, pre m x -> sat (post m x) (rec m x).

Ltac sub2 := fail.

Ltac go2 :=
  lazymatch goal with
  | |- sat _ (Ok _ _) => cbn [sat]; fin
  | |- sat _ (Err _) => exact I
  | |- sat _ (err _) => exact I
  | |- sat _ Unsup => exact I
  | |- sat _ Crash => exact I
  | |- sat _ (rec ?m ?x) =>
      eapply sat_weaken; [| apply (IH m x); cbn [pre]; fin];
      [ let v := fresh "v" in let y := fresh "y" in let Hp := fresh "Hp" in
        cbn beta; intros v y Hp; cbn [post] in Hp; fin | idtac .. ]
  | |- sat _ (bind (Ok _ _) _) => cbn [bind]; go2
  | |- sat _ (bind (if ?c then _ else _) _) => let E := fresh "E" in destruct c eqn:E; go2
  | |- sat _ (nil_err (if ?c then _ else _) _) => let E := fresh "E" in destruct c eqn:E; go2
  | |- sat _ (bind (rec ?m ?x) _) =>
      eapply (sat_bind (post m x)); [apply (IH m x); cbn [pre]; fin |
      let v := fresh "v" in let y := fresh "y" in let Hp := fresh "Hp" in
      intros v y Hp; cbn [post] in Hp; lazymatch type of Hp with is_list_of _ _ => destruct Hp as [? [-> Hp]]; cbn [as_list] | _ => idtac end; go2]
  | |- sat _ (nil_err (rec ?m ?x) _) =>
      eapply (sat_nil_err (post m x)); [apply (IH m x); cbn [pre]; fin |
      let v := fresh "v" in let y := fresh "y" in let Hp := fresh "Hp" in let N := fresh "N" in
      intros v y Hp N; cbn [post] in Hp; go2]
  | |- sat _ (bind ?r _) =>
      eapply (sat_bind (fun v _ => optc v = true)); [sub2 |
      let v := fresh "v" in let y := fresh "y" in let Hp := fresh "Hp" in
      cbn beta; intros v y Hp; go2]
  | |- sat _ (nil_err ?r _) =>
      eapply (sat_nil_err (fun v _ => optc v = true)); [go2 |
      let v := fresh "v" in let y := fresh "y" in let Hp := fresh "Hp" in let N := fresh "N" in
      cbn beta; intros v y Hp N; go2]
  | |- sat (fun v _ => cmp v = true) (postfix _ _) => apply sat_postfix; go2
  | |- sat _ (postfix _ _) => eapply sat_weaken; [| apply sat_postfix; go2]; cbn beta; intros; fin
  | |- sat (fun v _ => cmp v = true) (kv_ret _ _) => apply sat_kv_ret; fin
  | |- sat _ (kv_ret _ _) => eapply sat_weaken; [| apply sat_kv_ret; fin]; cbn beta; intros; fin
  | |- sat _ (if ?c then _ else _) => let E := fresh "E" in destruct c eqn:E; go2
  | |- sat _ (match ?d with _ => _ end) => let E := fresh "E" in destruct d eqn:E; go2
  | |- sat _ (let _ := _ in _) => cbv zeta; go2
  | |- sat _ _ => first [ solve [sub2] | eapply sat_weaken; [| solve [sub2]]; cbn beta; intros; fin | idtac ]
  | |- _ => idtac
  end.

Lemma c_json_key x : sat (fun v _ => optc v = true) (json_key rec x).
Proof. unfold json_key. go2. Qed.
Ltac sub2 ::= first [ apply c_json_key ].

Notation CMP := (fun (v : ast) (_ : st) => cmp v = true).

Lemma c_for_finish h i c l x : forallb cmp i = true -> optc c = true -> forallb cmp l = true -> sat CMP (for_finish rec h i c l x).
Proof. intros Hi Hc Hl. unfold for_finish. cbv zeta. go2. Qed.
Ltac sub2 ::= first [ apply c_json_key | apply c_for_finish; fin ].
Lemma c_for_after_cond h i c x : forallb cmp i = true -> optc c = true -> sat CMP (for_after_cond rec h i c x).
Proof. intros Hi Hc. unfold for_after_cond. go2. Qed.
Ltac sub2 ::= first [ apply c_json_key | apply c_for_finish; fin | apply c_for_after_cond; fin ].
Lemma c_for_after_inits h i x : forallb cmp i = true -> sat CMP (for_after_inits rec h i x).
Proof. intros Hi. unfold for_after_inits. go2. Qed.
Lemma c_foreach_body a k v x : cmp a = true -> optc k = true -> cmp v = true -> sat CMP (foreach_body rec a k v x).
Proof. intros Ha Hk Hv. unfold foreach_body. go2. Qed.
Lemma c_param_fin v acc d x : forallb param_ok acc = true -> optc d = true -> sat (fun v _ => is_list_of param_ok v) (param_fin rec v acc d x).
Proof. intros Ha Hd. unfold param_fin. cbv zeta. go2. Qed.
Ltac sub2 ::= first [ apply c_json_key | apply c_for_finish; fin | apply c_for_after_cond; fin | apply c_for_after_inits; fin
                    | apply c_foreach_body; fin | apply c_param_fin; fin ].

Lemma c_prim_paren s : sat CMP (prim_paren rec s).
Proof. unfold prim_paren. go2. Qed.
Lemma c_prim_bracket s : sat CMP (prim_bracket rec s).
Proof. unfold prim_bracket. cbv zeta. go2. Qed.
Lemma c_prim_ident n s : sat CMP (prim_ident rec n s).
Proof. unfold prim_ident. cbv zeta. go2. Qed.
Lemma c_prim_new s : sat CMP (prim_new rec s).
Proof. unfold prim_new. cbv zeta. go2. Qed.
Lemma c_prim_if s : sat CMP (prim_if rec s).
Proof. unfold prim_if. go2. Qed.
Lemma c_prim_while s : sat CMP (prim_while rec s).
Proof. unfold prim_while. cbv zeta. go2. Qed.
Lemma c_prim_do s : sat CMP (prim_do rec s).
Proof. unfold prim_do. cbv zeta. go2. Qed.
Lemma c_prim_for s : sat CMP (prim_for rec s).
Proof. unfold prim_for. cbv zeta. go2. Qed.
Lemma c_prim_foreach s : sat CMP (prim_foreach rec s).
Proof. unfold prim_foreach. cbv zeta. go2. Qed.
Lemma c_prim_switch s : sat CMP (prim_switch rec s).
Proof. unfold prim_switch. cbv zeta. go2. Qed.
Lemma c_prim_break s : sat CMP (prim_break s).
Proof. unfold prim_break. cbv zeta. go2. Qed.
Lemma c_prim_continue s : sat CMP (prim_continue s).
Proof. unfold prim_continue. cbv zeta. go2. Qed.
Lemma c_prim_return s : sat CMP (prim_return rec s).
Proof. unfold prim_return. cbv zeta. go2. Qed.
Lemma c_prim_throw s : sat CMP (prim_throw rec s).
Proof. unfold prim_throw. cbv zeta. go2. Qed.

Ltac sub2 ::= first [ apply c_json_key | apply c_for_finish; fin | apply c_for_after_cond; fin | apply c_for_after_inits; fin
                    | apply c_foreach_body; fin | apply c_param_fin; fin
                    | apply c_prim_paren | apply c_prim_bracket | apply c_prim_ident | apply c_prim_new | apply c_prim_if
                    | apply c_prim_while | apply c_prim_do | apply c_prim_for | apply c_prim_foreach | apply c_prim_switch
                    | apply c_prim_break | apply c_prim_continue | apply c_prim_return | apply c_prim_throw ].

Lemma c_step_program last acc s : pre (Program last acc) s -> sat (post (Program last acc) s) (step_program rec last acc s).
Proof. unfold pre, post. intros Hpre. unfold step_program. go2. Qed.
Lemma c_step_stmt s : sat (post Stmt s) (step_stmt rec s).
Proof. unfold post. unfold step_stmt. go2. Qed.
Lemma c_step_mainstmt s : sat (post MainStmt s) (step_mainstmt rec s).
Proof. unfold post. unfold step_mainstmt. go2. Qed.
Lemma c_step_commalist acc s : sat (post (CommaList acc) s) (step_commalist rec acc s).
Proof. unfold post. unfold step_commalist. cbv zeta. go2. Qed.
Lemma c_step_suffix e s : pre (Suffix e) s -> sat (post (Suffix e) s) (step_suffix rec e s).
Proof. unfold pre, post. intros Hpre. unfold step_suffix. cbv zeta. go2. Qed.
Lemma c_step_args acc s : pre (Args acc) s -> sat (post (Args acc) s) (step_args rec acc s).
Proof. unfold pre, post. intros Hpre. unfold step_args. go2. Qed.
Lemma c_step_block s : sat (post Block s) (step_block rec s).
Proof. unfold post. unfold step_block. go2. Qed.
Lemma c_step_blockloop acc s : pre (BlockLoop acc) s -> sat (post (BlockLoop acc) s) (step_blockloop rec acc s).
Proof. unfold pre, post. intros Hpre. unfold step_blockloop. cbv zeta. go2. Qed.
Lemma c_step_arrskip acc s : pre (ArrSkip acc) s -> sat (post (ArrSkip acc) s) (step_arrskip rec acc s).
Proof. unfold pre, post. intros Hpre. unfold step_arrskip. cbv zeta. go2. Qed.
Lemma c_step_arraftercomma acc s : pre (ArrAfterComma acc) s -> sat (post (ArrAfterComma acc) s) (step_arraftercomma rec acc s).
Proof. unfold pre, post. intros Hpre. unfold step_arraftercomma. cbv zeta. go2. Qed.
Lemma c_step_kvloopcomma acc s : pre (KvLoopComma acc) s -> sat (post (KvLoopComma acc) s) (step_kvloopcomma rec acc s).
Proof. unfold pre, post. intros Hpre. unfold step_kvloopcomma. cbv zeta. go2. Qed.
Lemma c_step_kvloop c acc s : pre (KvLoop c acc) s -> sat (post (KvLoop c acc) s) (step_kvloop rec c acc s).
Proof. unfold pre, post. intros Hpre. unfold step_kvloop. go2. Qed.
Lemma c_step_jsonloopb acc s : pre (JsonLoopB acc) s -> sat (post (JsonLoopB acc) s) (step_jsonloopb rec acc s).
Proof. unfold pre, post. intros Hpre. unfold step_jsonloopb. go2. Qed.
Lemma c_step_jsonloop acc s : pre (JsonLoop acc) s -> sat (post (JsonLoop acc) s) (step_jsonloop rec acc s).
Proof. unfold pre, post. intros Hpre. unfold step_jsonloop. cbv zeta. go2. Qed.
Lemma c_step_echoloop acc s : pre (EchoLoop acc) s -> sat (post (EchoLoop acc) s) (step_echoloop rec acc s).
Proof. unfold pre, post. intros Hpre. unfold step_echoloop. go2. Qed.
Lemma c_step_ifcond s : sat (post IfCond s) (step_ifcond rec s).
Proof. unfold post. unfold step_ifcond. go2. Qed.
Lemma c_step_elseifs c th acc s : pre (ElseIfs c th acc) s -> sat (post (ElseIfs c th acc) s) (step_elseifs rec c th acc s).
Proof. unfold pre, post. intros Hpre. unfold step_elseifs. cbv zeta. go2. Qed.
Lemma c_step_forinits acc s : pre (ForInits acc) s -> sat (post (ForInits acc) s) (step_forinits rec acc s).
Proof. unfold pre, post. intros Hpre. unfold step_forinits. go2. Qed.
Lemma c_step_forincs i c acc s : pre (ForIncs i c acc) s -> sat (post (ForIncs i c acc) s) (step_forincs rec i c acc s).
Proof. unfold pre, post. intros Hpre. unfold step_forincs. go2. Qed.
Lemma c_step_switchloop c cs d s : pre (SwitchLoop c cs d) s -> sat (post (SwitchLoop c cs d) s) (step_switchloop rec c cs d s).
Proof. unfold pre, post. intros Hpre. unfold step_switchloop. cbv zeta. go2. Qed.
Lemma c_step_casebody b acc s : pre (CaseBody b acc) s -> sat (post (CaseBody b acc) s) (step_casebody rec b acc s).
Proof. unfold pre, post. intros Hpre. unfold step_casebody. cbv zeta. go2. Qed.
Lemma c_step_returns acc s : pre (Returns acc) s -> sat (post (Returns acc) s) (step_returns rec acc s).
Proof.
  unfold pre, post. intros [H1 H2]. unfold step_returns. destruct (is_comma (cur s)) eqn:E.
  - eapply (sat_bind (post Stmt (next s))); [apply (IH Stmt); exact I|]. intros v y Hp. cbn [post] in Hp.
    destruct (is_nil v || existsb is_nil acc) eqn:E0; [exact I|]. apply orb_false_iff in E0 as [A B].
    eapply sat_weaken; [|apply (IH (Returns (v :: acc)) y)]; [auto|]. cbn [pre forallb].
    assert (C : forallb cmp acc = true) by (apply optc_all_cmp; assumption).
    split; [rewrite Hp, H1; reflexivity | intros _; rewrite (optc_cmp v Hp A), C; reflexivity].
  - cbn [sat cmp]. rewrite forallb_rev. apply H2. reflexivity.
Qed.
Lemma c_step_catches b acc s : pre (Catches b acc) s -> sat (post (Catches b acc) s) (step_catches rec b acc s).
Proof. unfold pre, post. intros Hpre. unfold step_catches. cbv zeta. go2. Qed.
Lemma c_step_catchtypes acc s : sat (post (CatchTypes acc) s) (step_catchtypes rec acc s).
Proof. unfold post. unfold step_catchtypes. cbv zeta. go2. Qed.
Lemma c_step_params acc s : pre (Params acc) s -> sat (post (Params acc) s) (step_params rec acc s).
Proof. unfold pre, post. intros Hpre. unfold step_params. cbv zeta. go2. Qed.
Lemma c_step_plbrace s : sat (post PLbrace s) (step_plbrace rec s).
Proof. unfold post. unfold step_plbrace. cbv zeta. go2. Qed.
Lemma c_step_pfunc s : sat (post PFunc s) (step_pfunc rec s).
Proof. unfold post. unfold step_pfunc. cbv zeta. go2. Qed.
Lemma c_step_ploop acc s : pre (PLoop acc) s -> sat (post (PLoop acc) s) (step_ploop rec acc s).
Proof. unfold pre, post. intros Hpre. unfold step_ploop. go2. Qed.

Ltac accnil_asg H4 E :=
  match goal with
  | H3 : optc ?acc = true |- cmp ?acc = true =>
      let N := fresh "N" in destruct (is_nil acc) eqn:N;
      [ exfalso; apply is_nil_true in N; eapply nilat_not_asg; [apply H4; exact N | exact E] | apply optc_cmp; assumption ]
  end.

Lemma c_step_uloop acc s : pre (ULoop acc) s -> sat (post (ULoop acc) s) (step_uloop rec acc s).
Proof.
  unfold pre, post. intros [H3 H4]. unfold step_uloop.
  destruct (cur s) eqn:E; try (cbn [sat]; split; [exact H3 | intros N; split; [reflexivity | exact N]]).
  assert (Ca : cmp acc = true) by accnil_asg H4 E.
  eapply (sat_bind (post (Lvl 0) (next s))); [apply (IH (Lvl 0)); exact I|]. intros v y [Hv Hn].
  assert (Cv : cmp v = true) by opnil.
  eapply sat_weaken; [| apply (IH (ULoop (EAsg a acc v)) y)].
  - intros v0 y0 [A B]. split; [exact A | intros N; destruct (B N) as [_ X]; discriminate].
  - cbn [pre]. split; [unfold optc; cbn [is_nil cmp]; rewrite Ca, Cv; reflexivity | intros X; discriminate].
Qed.

Lemma c_step_aloop acc s : pre (ALoop acc) s -> sat (post (ALoop acc) s) (step_aloop rec acc s).
Proof.
  unfold pre, post. intros [H3 H4]. unfold step_aloop.
  destruct (cur s) eqn:E; try (cbn [sat]; split; [exact H3 | intros N; split; [reflexivity | exact N]]).
  assert (Ca : cmp acc = true) by accnil_asg H4 E.
  eapply (sat_bind (post (Lvl 0) (next s))); [apply (IH (Lvl 0)); exact I|]. intros v y [Hv Hn].
  assert (Cv : cmp v = true) by opnil.
  eapply sat_weaken; [| apply (IH (ALoop (EAsg a acc v)) y)].
  - intros v0 y0 [A B]. split; [exact A | intros N; destruct (B N) as [_ X]; discriminate].
  - cbn [pre]. split; [unfold optc; cbn [is_nil cmp]; rewrite Ca, Cv; reflexivity | intros X; discriminate].
Qed.

Lemma c_step_loop n acc s : pre (Loop n acc) s -> sat (post (Loop n acc) s) (step_loop rec n acc s).
Proof.
  unfold pre, post. intros [H3 H4]. unfold step_loop.
  assert (Triv : sat (fun v s' => optc v = true /\ (v = ENil -> s' = s /\ acc = ENil)) (Ok acc s))
    by (cbn [sat]; split; [exact H3 | intros N; split; [reflexivity | exact N]]).
  destruct (cur s) as [a| o | | | | | | | | | | | | | | | | | | | | |] eqn:E; try exact Triv.
  - (* a signed number where an operator could be: the accumulator is an operand *)
    destruct a as [|neg k| | | |]; try exact Triv. destruct neg; [|exact Triv]. destruct (n =? 12) eqn:En; [|exact Triv].
    destruct (rest s) eqn:R; [exact I|].
    assert (Ca : acc <> ENil) by (intros N; destruct (H4 N) as [X _]; eapply nilat_not_atom; eassumption).
    eapply sat_weaken; [| apply (IH (Loop 12 acc) (split_signed k s))].
    + intros v0 y0 [A B]. split; [exact A | intros N; destruct (B N) as [_ X]; contradiction].
    + cbn [pre]. split; [exact H3 | intros X; contradiction].
  - destruct (level o =? n) eqn:El; [|exact Triv].
    assert (Ca : cmp acc = true).
    { destruct (is_nil acc) eqn:N; [exfalso | apply optc_cmp; assumption]. apply is_nil_true in N. destruct (H4 N) as [X Y].
      destruct (nilat_bin s o X E) as [-> _]. apply Nat.eqb_eq in El. cbn in El. apply (Y eq_refl). symmetry. exact El. }
    eapply (sat_bind (post (Lvl (S n)) (next s))); [apply (IH (Lvl (S n))); exact I|]. intros v y [Hv Hn].
    assert (Cv : cmp v = true) by opnil.
    eapply sat_weaken; [| apply (IH (Loop n (EBin o acc v)) y)].
    + intros v0 y0 [A B]. split; [exact A | intros N; destruct (B N) as [_ X]; discriminate].
    + cbn [pre]. split; [unfold optc; cbn [is_nil cmp]; rewrite Ca, Cv; reflexivity | intros X; discriminate].
Qed.

Lemma c_step_prim n s : 17 <= n -> sat (post (Lvl n) s) (step_prim rec s).
Proof.
  intros Hn. unfold post, step_prim. cbv zeta. go2.
  all: try solve [ unfold nilat; match goal with E : cur ?s = _ |- _ => rewrite E end; split; [assumption | reflexivity]
                 | exfalso; lia ].
Qed.

Lemma c_step_unary s : sat (post (Lvl 15) s) (step_unary rec s).
Proof. unfold post, step_unary. go2. all: exfalso; lia. Qed.

Lemma c_step_pow s : sat (post (Lvl 16) s) (step_pow rec s).
Proof. unfold post, step_pow. cbv zeta. go2. all: exfalso; lia. Qed.

Lemma c_step_tern s : sat (post (Lvl 1) s) (step_tern rec s).
Proof. unfold post, step_tern. go2. all: match goal with H : _ -> cur _ <> _ |- _ => apply H; lia end. Qed.

Lemma c_step_assign s : sat (post (Lvl 0) s) (step_assign rec s).
Proof. unfold post, step_assign. go2. all: match goal with H : _ -> cur _ <> _ |- _ => apply H; lia end. Qed.

Lemma c_step_lvl n s : sat (post (Lvl n) s) (step_lvl rec n s).
Proof.
  unfold step_lvl. pose proof (kind_spec n) as P. destruct (kind n) eqn:Hk.
  - subst n. apply c_step_assign.
  - subst n. apply c_step_tern.
  - assert (N10 : n <> 10) by (intros ->; cbn in Hk; discriminate).
    unfold post. go2. all: first [ exact N10 | match goal with H : _ -> cur _ <> _ |- _ => apply H; lia end ].
  - subst n. unfold post. go2. all: match goal with H : _ -> cur _ <> _ |- _ => apply H; lia end.
  - subst n. unfold post. go2.
    all: try intros C;
      match goal with C : cur ?s = SBin OLt, X : nilat ?s, E : _ = false |- _ =>
        exfalso; destruct (nilat_bin s OLt X C) as [_ [i Pk]]; rewrite C, Pk in E; discriminate end.
  - subst n. unfold post. go2. all: exfalso; lia.
  - subst n. apply c_step_unary.
  - subst n. apply c_step_pow.
  - apply c_step_prim. exact P.
Qed.

Lemma c_step m s : pre m s -> sat (post m s) (step rec m s).
Proof.
  destruct m; intros Hpre; cbn [step];
  first [ apply c_step_program | apply c_step_stmt | apply c_step_mainstmt | apply c_step_lvl | apply c_step_loop
        | apply c_step_uloop | apply c_step_aloop | apply c_step_ploop | apply c_step_commalist
        | apply c_step_suffix | apply c_step_args | apply c_step_block | apply c_step_blockloop
        | apply c_step_arraftercomma | apply c_step_arrskip | apply c_step_kvloop | apply c_step_kvloopcomma
        | apply c_step_jsonloop | apply c_step_jsonloopb | apply c_step_echoloop | apply c_step_elseifs
        | apply c_step_ifcond | apply c_step_forinits | apply c_step_forincs | apply c_step_switchloop
        | apply c_step_casebody | apply c_step_returns | apply c_step_catches | apply c_step_catchtypes
        | apply c_step_params | apply c_step_plbrace | apply c_step_pfunc ]; try exact Hpre.
Qed.

End StepC.

Theorem parse_complete : forall f m s, pre m s -> sat (post m s) (parse f m s).
Proof.
  induction f as [|f IHf]; intros m s Hpre; [exact I|]. cbn [parse]. apply c_step; [|exact Hpre]. exact IHf.
Qed.
