(* What "complete" means for a tree of the statement-level model: no `ENil` except in the slots the language makes
   optional (return value, for condition, foreach key, catch variable, parameter default). *)
From Coq Require Import List NArith Bool Arith.
Import ListNotations.
From V.C04 Require Import Model.
From V.Stmt Require Import Model.

Fixpoint cmp (e : ast) : bool :=
  let all (l : list ast) : bool := forallb cmp l in
  let opt (x : ast) : bool := match x with ENil => true | _ => cmp x end in
  match e with
  | ENil => false
  | EAtom _ | EIdentStr _ | ENullLit | ENullVal | SBreak _ | SContinue _ => true
  | EBin _ l r => cmp l && cmp r
  | EAsg _ l r => cmp l && cmp r
  | EUn _ x | EPreInc _ x | EPostInc _ x => cmp x
  | ETern c t f => cmp c && cmp t && cmp f
  | EIndex a i => cmp a && cmp i
  | ECallFn _ args | ENew _ args => all args
  | ECallExpr f args => cmp f && all args
  | EArray els => all els
  | EKv ps => forallb (fun p => let '(k, v) := p in cmp k && cmp v) ps
  | EVarList vs => all vs
  | EList l => all l
  | SEcho es => all es
  | SIf c th elifs el => cmp c && all th && forallb (fun p => let '(c2, b) := p in cmp c2 && all b) elifs && all el
  | SWhile c b | SDoWhile c b => cmp c && all b
  | SFor i c n b => all i && opt c && all n && all b             (* the condition may be absent *)
  | SForeach a k v b => cmp a && opt k && cmp v && all b         (* the key may be absent *)
  | SSwitch c cases d => cmp c && forallb (fun p => let '(v, b) := p in cmp v && all b) cases && all d
  | SReturn v => opt v                                            (* `return;` *)
  | SReturns vs => all vs
  | SThrow v => cmp v
  | STry b cs f => all b && forallb (fun p => let '(_, v, cb) := p in opt v && all cb) cs && all f   (* catch without a variable *)
  | SFunc _ ps b => forallb (fun p => let '(_, d) := p in opt d) ps && all b                        (* parameter without a default *)
  end.

Definition optc (v : ast) : bool := is_nil v || cmp v.

