(* Statement-level model of /repo/parser (C01's parser core): parseProgram with its no-progress guard,
   parseStatement / ExpressionParser.Parse, the 18 expression levels WITH the nil results of the Go code
   (`ENil` exactly where a Go parse function can return (nil, nil)) and the missing-operand diagnostics,
   parsePrimary's router, VariableParser (suffix: call, index), LparenParser, LbracketParser, LbraceParser,
   IdentParser (call / bare identifier / `name {`), NewStructParser (`new Name(args)`), and the statement
   parsers echo, if/elseif/else (both condition forms), while, do-while, for (C style), foreach, switch,
   break, continue, return, throw, try/catch/finally, function declaration (plain parameters), parseBlock.

   State = the tokens already consumed (reversed), the remaining tokens, and how far `position` has run past
   the end (`next()` at EOF still increments it).  Reads of `tokens[position-1]` / `[position-2]` are explicit
   (`prev_tok`), guarded as in the Go code.  The no-progress guard of Parser.current (fix 7ebaadd) is modelled
   by its effect: a loop iteration that ends in the state it started in can only repeat, so the guard fires:
   `Err`.  `Unsup` = outside the modelled core (named in DESIGN.md).  No proofs in this file. *)
From Coq Require Import List NArith Bool Arith.
Import ListNotations.
From V.C04 Require Import Model.

Inductive kw :=
  | KIf | KElse | KElseIf | KWhile | KDo | KFor | KForeach | KAs | KSwitch | KCase | KDefault | KBreak | KContinue
  | KReturn | KEcho | KTry | KCatch | KFinally | KThrow | KNew | KFunction.

Inductive stok :=
  | SAtom (a : atom) | SBin (o : binop) | SAsg (a : asgop) | SNot | SBnot | SQ | SColon | SElvis | SLp | SRp | SSemi
  | SLb | SRb | SLbrace | SRbrace | SComma | SArrow | SIncr | SDecr
  | SKw (k : kw)
  | SIdent (n : nat)      (* IDENTIFIER / BOOL; 0..3 = int string bool float (casts), 4..6 = strlen count abs (known
                             functions), others unknown names *)
  | SEOF                  (* what current()/peek() answer past the end; never in a token list *)
  | SOther.

Inductive ast :=
  | ENil
  | EAtom (a : atom)
  | EIdentStr (n : nat)                   (* a bare identifier: string literal *)
  | EBin (o : binop) (l r : ast)
  | EAsg (a : asgop) (l r : ast)
  | EUn (u : unop) (e : ast)
  | EPreInc (inc : bool) (e : ast) | EPostInc (inc : bool) (e : ast)
  | ETern (c t f : ast)
  | EIndex (arr idx : ast)                (* idx = ENull literal for `$a[]` *)
  | ENullLit
  | ENullVal                              (* data.NewNullValue(): a skipped array slot *)
  | ECallFn (n : nat) (args : list ast)   (* name(args); also the cast (name) e and the form name { ... } *)
  | ECallExpr (f : ast) (args : list ast) (* expr(args) *)
  | ENew (n : nat) (args : list ast)
  | EArray (els : list ast)
  | EKv (pairs : list (ast * ast))
  | EVarList (vs : list ast)
  | EList (l : list ast)                  (* internal: a block / argument list returned by a sub-parser *)
  | SEcho (es : list ast)
  | SIf (c : ast) (th : list ast) (elifs : list (ast * list ast)) (el : list ast)
  | SWhile (c : ast) (body : list ast)
  | SDoWhile (c : ast) (body : list ast)
  | SFor (inits : list ast) (c : ast) (incs : list ast) (body : list ast)
  | SForeach (arr key val : ast) (body : list ast)
  | SSwitch (c : ast) (cases : list (ast * list ast)) (def : list ast)
  | SBreak (n : N) | SContinue (n : N)
  | SReturn (v : ast) | SReturns (vs : list ast)
  | SThrow (v : ast)
  | STry (body : list ast) (catches : list (list nat * ast * list ast)) (fin : list ast)
  | SFunc (n : nat) (params : list (nat * ast)) (body : list ast).

Record st := mkSt { past : list stok; rest : list stok; over : nat }.

Inductive res := Ok (v : ast) (s : st) | Err (pos : nat) | Unsup | Crash | Fuel.

Definition pos (s : st) : nat := List.length (past s) + over s.
Definition cur (s : st) : stok := match rest s with t :: _ => t | [] => SEOF end.
Definition peek (s : st) (k : nat) : stok := nth k (rest s) SEOF.
Definition next (s : st) : st :=
  match rest s with
  | t :: r => mkSt (t :: past s) r 0
  | [] => mkSt (past s) [] (S (over s))
  end.
Definition is_eof (s : st) : bool := match rest s with [] => true | _ => false end.
Definition err (s : st) : res := Err (pos s).
(* tokens[position-1-k], under the Go guard `position > k && position <= len(tokens)` *)
Definition prev_tok (s : st) (k : nat) : option stok :=
  if over s =? 0 then nth_error (past s) k else None.

Definition bind (r : res) (k : ast -> st -> res) : res := match r with Ok v s => k v s | x => x end.

Definition stok_eqb_kw (a b : kw) : bool :=
  match a, b with
  | KIf, KIf | KElse, KElse | KElseIf, KElseIf | KWhile, KWhile | KDo, KDo | KFor, KFor | KForeach, KForeach | KAs, KAs
  | KSwitch, KSwitch | KCase, KCase | KDefault, KDefault | KBreak, KBreak | KContinue, KContinue | KReturn, KReturn
  | KEcho, KEcho | KTry, KTry | KCatch, KCatch | KFinally, KFinally | KThrow, KThrow | KNew, KNew | KFunction, KFunction => true
  | _, _ => false
  end.
Definition is_kw (k : kw) (t : stok) : bool := match t with SKw k' => stok_eqb_kw k k' | _ => false end.
Definition is_semi (t : stok) : bool := match t with SSemi => true | _ => false end.
Definition is_comma (t : stok) : bool := match t with SComma => true | _ => false end.
Definition is_rp (t : stok) : bool := match t with SRp => true | _ => false end.
Definition is_lp (t : stok) : bool := match t with SLp => true | _ => false end.
Definition is_rb (t : stok) : bool := match t with SRb => true | _ => false end.
Definition is_lbrace (t : stok) : bool := match t with SLbrace => true | _ => false end.
Definition is_rbrace (t : stok) : bool := match t with SRbrace => true | _ => false end.
Definition is_colon (t : stok) : bool := match t with SColon => true | _ => false end.
Definition is_arrow (t : stok) : bool := match t with SArrow => true | _ => false end.
Definition is_asg (t : stok) : bool := match t with SAsg _ => true | _ => false end.
Definition is_var (t : stok) : bool := match t with SAtom (AVar _) => true | _ => false end.
Definition is_int (t : stok) : bool := match t with SAtom (ANum _ _) => true | _ => false end.

Fixpoint skip_semis (fuel : nat) (s : st) : st :=
  match fuel with 0 => s | S f => if is_semi (cur s) then skip_semis f (next s) else s end.
Definition skip_semis_all (s : st) : st := skip_semis (S (List.length (rest s))) s.

Definition is_nil (e : ast) : bool := match e with ENil => true | _ => false end.
Definition is_variable_node (e : ast) : bool := match e with EAtom (AVar _) => true | _ => false end.

(* ---------- ExpressionParser.missingOperand (fixes c587cb8, f8e6a0b, eaab7d4, 951a1ff) ---------- *)
Definition binary_tok (t : stok) : bool :=
  match t with
  | SBin OLt | SBin OGt => false          (* treated separately: "<div" is HTML *)
  | SBin _ | SAsg _ | SElvis => true
  | _ => false
  end.
Definition operand_before (s : st) : bool :=          (* is the ++/-- at position-1 a postfix one? *)
  match prev_tok s 1 with
  | Some (SAtom (AVar _) | SIdent _ | SRp | SRb | SRbrace) => true
  | _ => false
  end.
Definition missing_operand (s : st) (c : stok) : bool :=
  let prev := match prev_tok s 0 with Some t => t | None => SEOF end in
  (match c with
   | SBin OGt => true
   | SBin OLt => negb (match peek s 1 with SIdent _ => true | _ => false end)     (* "<div" is HTML *)
   | _ => false
   end) ||
  binary_tok c || binary_tok prev ||
  match prev with
  | SBin OSub | SNot | SBnot | SAsg AEq | SBin OLt | SBin OGt | SBin ODot | SBin OBand => true
  | SIncr | SDecr => negb (operand_before s)
  | _ => false
  end.

(* ---------- LparenParser look-aheads ---------- *)
Definition is_type_cast (s : st) : bool :=
  match peek s 1, peek s 2, peek s 3 with
  | SIdent _, SRp, SArrow => false
  | SIdent _, SRp, _ => true
  | _, _, _ => false
  end.
(* isLambdaExpression: scan for `=>` at bracket depth 0 after the opening parenthesis *)
Fixpoint lambda_scan (l : list stok) (paren bracket : nat) : bool :=
  match l with
  | [] => false
  | t :: r =>
    match t with
    | SLp => lambda_scan r (S paren) bracket
    | SRp => match paren with
             | 0 => match r with SArrow :: _ => true | _ => false end
             | S p => lambda_scan r p bracket
             end
    | SLb => lambda_scan r paren (S bracket)
    | SRb => lambda_scan r paren (Nat.pred bracket)
    | SArrow => if (paren =? 0) && (bracket =? 0) then true else lambda_scan r paren bracket
    | _ => lambda_scan r paren bracket
    end
  end.
Definition is_lambda (s : st) : bool :=
  match peek s 1 with
  | SKw KNew | SKw KEcho => false
  | _ => lambda_scan (tl (rest s)) 0 0
  end.

(* ExpressionParser.assignmentFollowsList (fix for the exponential look-ahead): from the `,` on, is there an assignment
   operator at the same bracket level before the statement ends? *)
Fixpoint assign_scan (l : list stok) (depth : nat) : bool :=
  match l with
  | [] => false
  | t :: r =>
    match t with
    | SLp | SLb | SLbrace => assign_scan r (S depth)
    | SRp | SRb | SRbrace => match depth with 0 => false | S d => assign_scan r d end
    | SSemi => match depth with 0 => false | _ => assign_scan r depth end
    | SAsg _ => match depth with 0 => true | _ => assign_scan r depth end
    | _ => assign_scan r depth
    end
  end.

Definition known_fn (n : nat) : bool := (4 <=? n) && (n <=? 6).
Definition known_cast (n : nat) : bool := n <? 4.

Inductive lkind := KAssign | KTern | KLoop | KAnd | KCmp | KRange | KUnary | KPow | KPrim.
Definition kind (n : nat) : lkind :=
  match n with
  | 0 => KAssign | 1 => KTern | 5 => KAnd | 10 => KCmp | 13 => KRange | 15 => KUnary | 16 => KPow
  | _ => if n <? 15 then KLoop else KPrim
  end.

Definition statement_kw (t : stok) : bool :=     (* no postfix ++/-- after these *)
  match t with SKw (KIf | KElse | KFor | KForeach | KWhile | KDo | KSwitch | KTry | KCatch | KFinally | KFunction) => true | _ => false end.

Inductive mode :=
  | Program (last : nat) (acc : list ast)       (* parseProgram's loop *)
  | Stmt                                        (* parseStatement = ExpressionParser.Parse *)
  | MainStmt                                    (* MainStatementParser.Parse *)
  | Lvl (n : nat)
  | Loop (n : nat) (acc : ast)
  | ULoop (acc : ast) | ALoop (acc : ast) | PLoop (acc : ast)
  | CommaList (acc : list ast)                  (* parseAssignment's `$a, $b, ... =` look-ahead *)
  | Suffix (e : ast)                            (* VariableParser.parseSuffix *)
  | Args (acc : list ast)                       (* parseFunctionCall after '(' *)
  | Block                                       (* parseBlock *)
  | BlockLoop (acc : list ast)
  | ArrAfterComma (acc : list ast)              (* LbracketParser: the `,` loop *)
  | ArrSkip (acc : list ast)                    (* LbracketParser: leading-comma form *)
  | KvLoop (closer : bool) (acc : list (ast * ast))   (* `key sep value` pairs until ] (false) / } (true), => form *)
  | KvLoopComma (acc : list (ast * ast))        (* [ ... => ... ] form: optional commas *)
  | JsonLoop (acc : list (ast * ast))           (* { k: v, ... } *)
  | JsonLoopB (acc : list (ast * ast))          (* [ k: v ... ] *)
  | EchoLoop (acc : list ast)
  | ElseIfs (c : ast) (th : list ast) (acc : list (ast * list ast))
  | IfCond
  | ForInits (acc : list ast) | ForIncs (inits : list ast) (c : ast) (acc : list ast)
  | SwitchLoop (c : ast) (cases : list (ast * list ast)) (def : list ast)
  | CaseBody (isdef : bool) (acc : list ast)
  | Returns (acc : list ast)
  | Catches (body : list ast) (acc : list (list nat * ast * list ast))
  | CatchTypes (acc : list nat)
  | Params (acc : list ast)
  | PLbrace                                     (* LbraceParser.Parse *)
  | PFunc.                                      (* FunctionParser.Parse *)

Definition as_list (e : ast) : list ast := match e with EList l => l | _ => [] end.

Definition foreach_target (e : ast) : option ast :=      (* identifier and list targets: Unsup *)
  match e with
  | EAtom (AVar _) => Some e
  | _ => None
  end.

(* [$a, $b, $k => $v]: the elements before the first `=>` get the keys 0, 1, ... *)
Fixpoint index_pairs (i : nat) (l : list ast) : list (ast * ast) :=
  match l with [] => [] | x :: r => (EAtom (ANum false (N.of_nat i)), x) :: index_pairs (S i) r end.

Definition is_class_name (n : nat) : bool := n =? 8.       (* Exception *)

(* Parser.kvComplete (fix b005434) *)
Definition kv_ok (ps : list (ast * ast)) : bool := forallb (fun p => negb (is_nil (fst p)) && negb (is_nil (snd p))) ps.
Definition kv_ret (ps : list (ast * ast)) (s : st) : res := if kv_ok ps then Ok (EKv ps) s else err s.

(* `if acl == nil && x == nil { acl = error }` *)
Definition nil_err (r : res) (k : ast -> st -> res) : res :=
  bind r (fun v s' => if is_nil v then err s' else k v s').

(* parsePrimary's trailing `++` / `--` after the sub-parser selected by the token `start` *)
Definition postfix (start : stok) (r : res) : res :=
  bind r (fun e s1 =>
    match cur s1 with
    | SIncr => if statement_kw start then Ok e s1 else Ok (EPostInc true e) (skip_semis_all (next s1))
    | SDecr => if statement_kw start then Ok e s1 else Ok (EPostInc false e) (skip_semis_all (next s1))
    | _ => Ok e s1
    end).

(* The parser is one function `step rec m s` (rec = the parser one unit of fuel down); it is written as one
   definition per mode / per sub-parser so that the proofs can treat them one at a time. *)
Section Step.
Variable rec : mode -> st -> res.

(* ------------------------------------------------------------------ program / statement *)
Definition step_program (last : nat) (acc : list ast) (s : st) : res :=
  if is_eof s then Ok (EList (rev acc)) s
  else bind (rec Stmt s) (fun v s' =>
    if is_nil v then (if pos s' =? last then err s' else rec (Program (pos s') acc) s')
    else if pos s' =? pos s then err s' (* no progress with a node: only the guard ends this *)
    else rec (Program last (v :: acc)) s').

Definition step_stmt (s : st) : res :=
  if is_semi (cur s) then Ok ENil (next s) else rec (Lvl 0) s.

Definition step_mainstmt (s : st) : res :=
  match cur s with
  | SKw KFunction => rec PFunc s
  | SSemi => Ok ENil (next s)
  | _ => rec Stmt s
  end.

(* ------------------------------------------------------------------ expression levels *)
Definition step_assign (s : st) : res :=
  bind (rec (Lvl 1) s) (fun e s1 =>
    if is_variable_node e && is_comma (cur s1) && assign_scan (rest s1) 0 then
      bind (rec (CommaList [e]) s1) (fun l s2 =>
        match cur s2 with
        | SAsg (AEq | AAdd | ASub | AMul | ADiv | ARem | ADot | ACoal) =>
            if forallb is_variable_node (as_list l) then rec (ALoop (EVarList (as_list l))) s2 else err s2
        | _ => rec (ALoop e) s1             (* position reset *)
        end)
    else rec (ALoop e) s1).

Definition step_tern (s : st) : res :=
  bind (rec (Lvl 2) s) (fun e s1 =>
    match cur s1 with
    | SElvis => nil_err (rec (Lvl 1) (next s1)) (fun fv s2 => Ok (ETern e e fv) s2)
    | SQ =>
        match peek s1 1, peek s1 2 with
        | SOther, _ => Unsup
        | (SIdent _ | SAtom ANull | SAtom AFalse), SAtom (AVar _) => Unsup      (* ?type $v: nullable declaration *)
        | _, _ =>
          nil_err (rec (Lvl 1) (next s1)) (fun tv s2 =>
            if is_colon (cur s2) then nil_err (rec (Lvl 1) (next s2)) (fun fv s3 => Ok (ETern e tv fv) s3)
            else err s2)
        end
    | _ => Ok e s1
    end).

Definition step_unary (s : st) : res :=
  match cur s with
  | SBin OSub => nil_err (rec (Lvl 15) (next s)) (fun e s1 => Ok (EUn UNeg e) s1)
  | SNot => nil_err (rec (Lvl 15) (next s)) (fun e s1 => Ok (EUn UNot e) s1)
  | SBnot => nil_err (rec (Lvl 15) (next s)) (fun e s1 => Ok (EUn UBnot e) s1)
  | SBin OBand => Unsup
  | SIncr => nil_err (rec (Lvl 15) (next s)) (fun e s1 => Ok (EPreInc true e) (skip_semis_all s1))
  | SDecr => nil_err (rec (Lvl 15) (next s)) (fun e s1 => Ok (EPreInc false e) (skip_semis_all s1))
  | _ => bind (rec (Lvl 16) s) (fun e s1 => rec (ULoop e) s1)
  end.

Definition step_pow (s : st) : res :=
  bind (rec (Lvl 17) s) (fun e s1 =>
    match cur s1 with
    | SBin OPow =>
        let s2 := next s1 in
        let operand := match cur s2 with SBin OSub | SNot | SBnot => 15 | _ => 16 end in
        bind (rec (Lvl operand) s2) (fun e2 s3 => Ok (EBin OPow e e2) s3)
    | _ => Ok e s1
    end).

(* --- parsePrimary's router: one definition per sub-parser --- *)
Definition prim_paren (s : st) : res :=                    (* LparenParser *)
  if is_type_cast s then
    match peek s 1 with
    | SIdent ty => nil_err (rec (Lvl 15) (next (next (next s)))) (fun e s1 =>
                      if known_cast ty then Ok (ECallFn ty [e]) s1 else err s1)
    | _ => Crash
    end
  else if is_lambda s then Unsup
  else bind (rec (Lvl 1) (next s)) (fun e s1 => if is_nil e then err s1 else rec (PLoop e) s1).

Definition prim_bracket (s : st) : res :=                  (* LbracketParser *)
  let s1 := next s in
  match cur s1 with
  | SRb => Ok (EArray []) (next s1)
  | SComma => rec (ArrSkip [ENullVal]) s1
  | SOther => Unsup
  | _ =>
    nil_err (rec Stmt s1) (fun e s2 =>
      match cur s2 with
      | SRb => Ok (EArray [e]) (next s2)
      | SComma => rec (ArrAfterComma [e]) s2
      | SArrow => bind (rec Stmt (next s2)) (fun v s3 =>
                    rec (KvLoopComma [(e, v)]) (if is_comma (cur s3) then next s3 else s3))
      | SColon => bind (rec Stmt (next s2)) (fun v s3 => rec (JsonLoopB [(e, v)]) s3)
      | _ => err s2
      end)
  end.

Definition prim_ident (n : nat) (s : st) : res :=          (* IdentParser *)
  let s1 := next s in
  match cur s1 with
  | SColon | SLb | SAsg _ | SAtom (AVar _) | SOther => Unsup
  | SLbrace =>
      if (n <? 4) || is_class_name n then Unsup
      else bind (rec PLbrace s1) (fun v s2 => Ok (ECallFn n [v]) s2)
  | SLp => bind (rec (Args []) (next s1)) (fun a s2 => rec (Suffix (ECallFn n (as_list a))) s2)
  | SBin OLt => if (match peek s1 2 with SBin OGt => true | _ => false end) && is_lp (peek s1 3)
                then Unsup else Ok (EIdentStr n) s1
  | _ => if is_asg (peek s1 1) then Unsup else Ok (EIdentStr n) s1
  end.

Definition prim_new (s : st) : res :=                      (* NewStructParser *)
  let s1 := next s in
  match cur s1 with
  | SIdent n =>
      let s2 := next s1 in
      match cur s2 with
      | SComma | SRp | SSemi => Ok (ENew n []) s2
      | SBin OLt => Unsup
      | SLp => bind (rec (Args []) (next s2)) (fun a s3 => Ok (ENew n (as_list a)) s3)
      | _ => err s2                                  (* parseFunctionCall: nextAndCheck(LPAREN) *)
      end
  | SAtom (AVar _) | SLp | SKw _ | SOther => Unsup
  | _ => err s1
  end.

Definition prim_if (s : st) : res :=
  bind (rec IfCond (next s)) (fun cnd s1 =>
  bind (rec Block s1) (fun th s2 => rec (ElseIfs cnd (as_list th) []) s2)).

Definition prim_while (s : st) : res :=
  let s1 := next s in
  let s2 := if is_lp (cur s1) then next s1 else s1 in
  nil_err (rec Stmt s2) (fun cnd s3 =>
    if is_lp (cur s1) && negb (is_rp (cur s3)) then err s3 else
    let s4 := if is_lp (cur s1) then next s3 else s3 in
    bind (rec Block s4) (fun b s5 => Ok (SWhile cnd (as_list b)) s5)).

Definition prim_do (s : st) : res :=
  bind (rec Block (next s)) (fun b s1 =>
    if is_kw KWhile (cur s1) then
      let s2 := next s1 in
      let s3 := if is_lp (cur s2) then next s2 else s2 in
      nil_err (rec Stmt s3) (fun cnd s4 =>
        if is_lp (cur s2) && negb (is_rp (cur s4)) then err s4 else
        let s5 := if is_lp (cur s2) then next s4 else s4 in
        let s6 := if is_semi (cur s5) then next s5 else s5 in
        Ok (SDoWhile cnd (as_list b)) s6)
    else err s1).

Definition for_finish (haslp : bool) (inits : list ast) (cnd : ast) (incs : list ast) (s5 : st) : res :=
  if haslp && negb (is_rp (cur s5)) then err s5 else              (* nextAndCheck(RPAREN) *)
  let s7 := if haslp then next s5 else s5 in
  bind (rec Block s7) (fun b s8 => Ok (SFor inits cnd incs (as_list b)) s8).

Definition for_after_cond (haslp : bool) (inits : list ast) (cnd : ast) (s4 : st) : res :=
  if is_semi (cur s4) then for_finish haslp inits cnd [] (next s4)
  else if is_lbrace (cur s4) || is_rp (cur s4) then for_finish haslp inits cnd [] s4
  else nil_err (rec MainStmt s4) (fun i s5 => bind (rec (ForIncs inits cnd [i]) s5) (fun l s6 =>
         for_finish haslp inits cnd (as_list l) (if is_semi (cur s6) then next s6 else s6))).

Definition for_after_inits (haslp : bool) (inits : list ast) (s3 : st) : res :=
  if is_semi (cur s3) then for_after_cond haslp inits ENil (next s3)
  else if is_lbrace (cur s3) then for_after_cond haslp inits ENil s3
  else bind (rec MainStmt s3) (fun cnd s4 => for_after_cond haslp inits cnd (if is_semi (cur s4) then next s4 else s4)).

Definition prim_for (s : st) : res :=
  let s1 := next s in
  let haslp := is_lp (cur s1) in
  let s2 := if haslp then next s1 else s1 in
  if is_semi (cur s2) then for_after_inits haslp [] (next s2)
  else if is_lbrace (cur s2) then for_after_inits haslp [] s2
  else nil_err (rec MainStmt s2) (fun i s3 => bind (rec (ForInits [i]) s3) (fun l s4 =>
         for_after_inits haslp (as_list l) (if is_semi (cur s4) then next s4 else s4))).

Definition foreach_body (arr key val : ast) (s4 : st) : res :=
  if is_rp (cur s4) then bind (rec Block (next s4)) (fun b s5 => Ok (SForeach arr key val (as_list b)) s5)
  else err s4.

Definition prim_foreach (s : st) : res :=
  let s1 := next s in
  if negb (is_lp (cur s1)) then err s1 else
  nil_err (rec Stmt (next s1)) (fun arr s2 =>
    if negb (is_kw KAs (cur s2)) then err s2 else
    bind (rec Stmt (next s2)) (fun k s3 =>
      match foreach_target k with
      | None => if is_nil k then err s3 else Unsup
      | Some kt =>
        if is_arrow (cur s3) then
          bind (rec Stmt (next s3)) (fun v s4 =>
            match foreach_target v with
            | Some vt => foreach_body arr kt vt s4
            | None => if is_nil v then err s4 else Unsup
            end)
        else foreach_body arr ENil kt s3
      end)).

Definition prim_switch (s : st) : res :=
  let s1 := next s in
  let cond :=
    if is_lp (cur s1) then
      bind (rec Stmt (next s1)) (fun cnd s2 => if is_rp (cur s2) then Ok cnd (next s2) else err s2)
    else rec Stmt s1 in
  nil_err cond (fun cnd s2 =>
    if is_lbrace (cur s2) then rec (SwitchLoop cnd [] []) (next s2) else err s2).   (* nextAndCheck(LBRACE) *)

Definition prim_break (s : st) : res :=
  let s1 := next s in
  match cur s1 with
  | SAtom (ANum neg k) => Ok (SBreak (if neg then 0%N else k)) (next s1)
  | _ => Ok (SBreak 1%N) s1
  end.

Definition prim_continue (s : st) : res :=
  let s1 := next s in
  match cur s1 with
  | SAtom (ANum neg k) => Ok (SContinue (if neg then 0%N else k)) (next s1)
  | _ => Ok (SContinue 1%N) s1
  end.

Definition prim_return (s : st) : res :=
  let s1 := next s in
  if is_semi (cur s1) then Ok (SReturn ENil) s1
  else bind (rec Stmt s1) (fun v s2 =>
         if is_comma (cur s2) then rec (Returns [v]) s2 else Ok (SReturn v) s2).

Definition prim_throw (s : st) : res :=
  let s1 := next s in
  if is_semi (cur s1) then Ok (SThrow (EIdentStr 8)) s1    (* default "Exception" literal *)
  else nil_err (rec Stmt s1) (fun v s2 => Ok (SThrow v) s2).

Definition step_prim (s : st) : res :=
  let c := cur s in
  match c with
  | SAtom (AVar v) => postfix c (rec (Suffix (EAtom (AVar v))) (next s))
  | SAtom a => Ok (EAtom a) (next s)
  | SSemi => err s                               (* ';' where an operand is needed (fix d73680a) *)
  | SLp => postfix c (prim_paren s)
  | SLb => postfix c (prim_bracket s)
  | SLbrace => postfix c (rec PLbrace s)
  | SIdent n => postfix c (prim_ident n s)
  | SKw KNew => postfix c (prim_new s)
  | SKw KEcho => postfix c (nil_err (rec Stmt (next s)) (fun e s1 => rec (EchoLoop [e]) s1))
  | SKw KIf => postfix c (prim_if s)
  | SKw KWhile => postfix c (prim_while s)
  | SKw KDo => postfix c (prim_do s)
  | SKw KFor => postfix c (prim_for s)
  | SKw KForeach => postfix c (prim_foreach s)
  | SKw KSwitch => postfix c (prim_switch s)
  | SKw KBreak => postfix c (prim_break s)
  | SKw KContinue => postfix c (prim_continue s)
  | SKw KReturn => postfix c (prim_return s)
  | SKw KThrow => postfix c (prim_throw s)
  | SKw KTry => postfix c (if is_lbrace (cur (next s))                       (* requireBlockStart("try") (fix 4afe5c3) *)
                           then bind (rec Block (next s)) (fun b s1 => rec (Catches (as_list b) []) s1)
                           else err (next s))
  | SKw KFunction => postfix c (rec PFunc s)
  | SQ | SOther => Unsup
  | _ => if missing_operand s c then err s else Ok ENil s      (* no parser for this token *)
  end.

Definition step_lvl (n : nat) (s : st) : res :=
  match kind n with
  | KAssign => step_assign s
  | KTern => step_tern s
  | KLoop => bind (rec (Lvl (S n)) s) (fun e s1 => rec (Loop n e) s1)
  | KAnd => bind (rec (Lvl 6) s) (fun e s1 => if is_nil e then Ok ENil s1 else rec (Loop 5 e) s1)
  | KCmp => bind (rec (Lvl 11) s) (fun e s1 =>
              if is_nil e && (match cur s1, peek s1 1 with SBin OLt, SIdent _ => true | _, _ => false end)
              then Unsup     (* <html *)
              else rec (Loop 10 e) s1)
  | KRange => rec (Lvl 14) s
  | KUnary => step_unary s
  | KPow => step_pow s
  | KPrim => step_prim s
  end.

(* the signed-number token split of parseTerm (splitSignedNumber): `-k` becomes `-` `k` in the token list *)
Definition split_signed (k : N) (s : st) : st :=
  match rest s with
  | _ :: r => mkSt (past s) (SBin OSub :: SAtom (ANum false k) :: r) (over s)
  | [] => s
  end.

Definition step_loop (n : nat) (acc : ast) (s : st) : res :=
  match cur s with
  | SBin o =>
      if level o =? n then bind (rec (Lvl (S n)) (next s)) (fun e s1 => rec (Loop n (EBin o acc e)) s1)
      else Ok acc s
  | SAtom (ANum true k) =>
      if n =? 12 then
        match rest s with
        | _ :: _ => rec (Loop 12 acc) (split_signed k s)
        | [] => Crash
        end
      else Ok acc s
  | _ => Ok acc s
  end.

Definition step_uloop (acc : ast) (s : st) : res :=
  match cur s with
  | SAsg a => bind (rec (Lvl 0) (next s)) (fun e s1 => rec (ULoop (EAsg a acc e)) s1)
  | _ => Ok acc s
  end.

Definition step_aloop (acc : ast) (s : st) : res :=
  match cur s with
  | SAsg a => bind (rec (Lvl 0) (next s)) (fun e s1 => rec (ALoop (EAsg a acc e)) s1)
  | _ => Ok acc s
  end.

Definition step_ploop (acc : ast) (s : st) : res :=
  match cur s with
  | SBin OAdd => bind (rec (Lvl 13) (next s)) (fun e s1 => rec (PLoop (EBin OAdd acc e)) s1)
  | SBin OSub => bind (rec (Lvl 13) (next s)) (fun e s1 => rec (PLoop (EBin OSub acc e)) s1)
  | SRp => rec (Suffix acc) (next s)
  | _ => err s          (* no ')': "缺少右括号" (the previous-token tolerance was removed by fix 36c211b) *)
  end.

Definition step_commalist (acc : list ast) (s : st) : res :=
  if is_comma (cur s) then
    let s1 := next s in
    if is_var (cur s1) && (is_comma (peek s1 1) || (match peek s1 1 with SAsg AEq => true | _ => false end))
    then bind (rec (Lvl 17) s1) (fun e s2 => rec (CommaList (e :: acc)) s2)
    else bind (rec (Lvl 1) s1) (fun e s2 => rec (CommaList (e :: acc)) s2)
  else Ok (EList (rev acc)) s.

(* ------------------------------------------------------------------ suffixes and argument lists *)
Definition step_suffix (e : ast) (s : st) : res :=
  match cur s with
  | SLp => bind (rec (Args []) (next s)) (fun a s1 => rec (Suffix (ECallExpr e (as_list a))) s1)
  | SLb =>
      let s1 := next s in
      if is_rb (cur s1) then rec (Suffix (EIndex e ENullLit)) (next s1)
      else nil_err (rec Stmt s1) (fun i s2 =>
             if is_rb (cur s2) then rec (Suffix (EIndex e i)) (next s2) else err s2)
  | SOther => Unsup
  | _ => Ok e s
  end.

Definition step_args (acc : list ast) (s : st) : res :=
  if is_rp (cur s) then Ok (EList (rev acc)) (next s)
  else if (match cur s with SOther => true | _ => false end) then Unsup
  else if is_colon (peek s 1) && negb (match cur s with SAtom _ | SRp => true | _ => false end) then Unsup   (* named argument *)
  else
    nil_err (rec (Lvl 1) s) (fun e s1 =>
    bind (rec (Suffix e) s1) (fun e' s2 =>
      if is_comma (cur s2) then rec (Args (e' :: acc)) (next s2)
      else if is_rp (cur s2) then Ok (EList (rev (e' :: acc))) (next s2)
      else err s2)).

(* ------------------------------------------------------------------ blocks *)
Definition step_block (s : st) : res :=
  if is_lbrace (cur s) then rec (BlockLoop []) (skip_semis_all (next s))
  else bind (rec Stmt s) (fun v s1 => Ok (EList (if is_nil v then [] else [v])) s1).

Definition step_blockloop (acc : list ast) (s : st) : res :=
  if is_eof s then err s                                   (* nextAndCheck(RBRACE) *)
  else if is_rbrace (cur s) then Ok (EList (rev acc)) (next s)
  else bind (rec Stmt s) (fun v s1 =>
         let s2 := skip_semis_all s1 in
         if is_nil v then err s2
         else if pos s2 =? pos s then err s2 else rec (BlockLoop (v :: acc)) s2).

(* ------------------------------------------------------------------ array / object literals *)
Definition step_arrskip (acc : list ast) (s : st) : res :=
  if is_comma (cur s) then
    let s1 := next s in
    if is_rb (cur s1) then Ok (EArray (rev (ENullVal :: acc))) (next s1)
    else if is_comma (cur s1) then rec (ArrSkip (ENullVal :: acc)) s1
    else match cur s1 with
         | SOther => Unsup
         | _ => nil_err (rec Stmt s1) (fun v s2 => rec (ArrSkip (v :: acc)) s2)
         end
  else if is_rb (cur s) then Ok (EArray (rev acc)) (next s) else err s.

Definition step_arraftercomma (acc : list ast) (s : st) : res :=
  if is_comma (cur s) then
    let s1 := next s in
    if is_rb (cur s1) then rec (ArrAfterComma acc) s1
    else match cur s1 with
         | SOther => Unsup
         | _ =>
           nil_err (rec Stmt s1) (fun v s2 =>
             if is_arrow (cur s2) then
               bind (rec Stmt (next s2)) (fun w s3 =>
                 rec (KvLoopComma ((v, w) :: rev (index_pairs 0 (rev acc)))) (if is_comma (cur s3) then next s3 else s3))
             else rec (ArrAfterComma (v :: acc)) s2)
         end
  else if is_rb (cur s) then Ok (EArray (rev acc)) (next s) else err s.

Definition step_kvloopcomma (acc : list (ast * ast)) (s : st) : res :=
  if is_rb (cur s) then kv_ret (rev acc) (next s)
  else if is_eof s then err s                           (* the loop can only be ended by the guard *)
  else bind (rec Stmt s) (fun k s1 =>
       bind (rec Stmt (next s1)) (fun v s2 =>
         let s3 := if is_comma (cur s2) then next s2 else s2 in
         if pos s3 =? pos s then err s3 else rec (KvLoopComma ((k, v) :: acc)) s3)).

Definition step_kvloop (closer : bool) (acc : list (ast * ast)) (s : st) : res :=
  if (if closer then is_rbrace (cur s) else is_rb (cur s)) then kv_ret (rev acc) (next s)
  else if is_eof s then err s
  else bind (rec Stmt s) (fun k s1 =>
       bind (rec Stmt (next s1)) (fun v s2 =>
         if pos s2 =? pos s then err s2 else rec (KvLoop closer ((k, v) :: acc)) s2)).

Definition step_jsonloopb (acc : list (ast * ast)) (s : st) : res :=
  if is_rb (cur s) then kv_ret (rev acc) (next s)
  else if is_eof s then err s
  else bind (rec Stmt s) (fun k s1 =>
       bind (rec Stmt (next s1)) (fun v s2 =>
         if pos s2 =? pos s then err s2 else rec (JsonLoopB ((k, v) :: acc)) s2)).

Definition json_key (s1 : st) : res :=
  if is_colon (peek s1 1) then
    match cur s1 with
    | SIdent n => Ok (EIdentStr n) (next s1)
    | SAtom (AStr k) => Ok (EAtom (AStr k)) (next s1)
    | _ => Unsup
    end
  else rec Stmt s1.

Definition step_jsonloop (acc : list (ast * ast)) (s : st) : res :=
  if is_rbrace (cur s) then kv_ret (rev acc) (next s)
  else if is_comma (cur s) && is_rbrace (peek s 1) then kv_ret (rev acc) (next (next s))
  else if is_eof s then err s
  else
    if negb (is_comma (cur s)) then err s else           (* nextAndCheck(COMMA) *)
    let s1 := next s in
    bind (json_key s1) (fun k s2 =>
      if negb (is_colon (cur s2)) then err s2 else         (* nextAndCheck(COLON) *)
      let s3 := next s2 in
      bind (rec Stmt s3) (fun v s4 =>
        if pos s4 =? pos s then err s4 else rec (JsonLoop ((k, v) :: acc)) s4)).

(* ------------------------------------------------------------------ statements *)
Definition step_echoloop (acc : list ast) (s : st) : res :=
  if is_comma (cur s) then nil_err (rec Stmt (next s)) (fun e s1 => rec (EchoLoop (e :: acc)) s1)
  else Ok (SEcho (rev acc)) s.

Definition step_ifcond (s : st) : res :=
  if is_lp (cur s) then
    nil_err (rec Stmt (next s)) (fun cnd s1 => if is_rp (cur s1) then Ok cnd (next s1) else err s1)
  else
    nil_err (rec Stmt s) (fun first s1 =>
      if is_semi (cur s1) then
        nil_err (rec Stmt (next s1)) (fun cnd s2 =>
          if is_semi (cur s2) then bind (rec Stmt (next s2)) (fun _ s3 => Ok cnd s3) else Ok cnd s2)
      else Ok first s1).

Definition step_elseifs (cnd : ast) (th : list ast) (acc : list (ast * list ast)) (s : st) : res :=
  let elseif1 := is_kw KElseIf (cur s) in
  let elseif2 := is_kw KElse (cur s) && is_kw KIf (peek s 1) in
  if elseif1 || elseif2 then
    let s1 := if elseif1 then next s else next (next s) in
    bind (rec IfCond s1) (fun c2 s2 =>
    bind (rec Block s2) (fun b s3 => rec (ElseIfs cnd th ((c2, as_list b) :: acc)) s3))
  else if is_kw KElse (cur s) then
    bind (rec Block (next s)) (fun b s1 => Ok (SIf cnd th (rev acc) (as_list b)) s1)
  else Ok (SIf cnd th (rev acc) []) s.

Definition step_forinits (acc : list ast) (s : st) : res :=
  if is_comma (cur s) then nil_err (rec MainStmt (next s)) (fun i s1 => rec (ForInits (i :: acc)) s1)
  else Ok (EList (rev acc)) s.

Definition step_forincs (inits : list ast) (cnd : ast) (acc : list ast) (s : st) : res :=
  if is_comma (cur s) then nil_err (rec MainStmt (next s)) (fun i s1 => rec (ForIncs inits cnd (i :: acc)) s1)
  else Ok (EList (rev acc)) s.

Definition step_switchloop (cnd : ast) (cases : list (ast * list ast)) (def : list ast) (s : st) : res :=
  if is_rbrace (cur s) then Ok (SSwitch cnd (rev cases) def) (next s)
  else if is_eof s then err s                                      (* nextAndCheck(RBRACE) *)
  else if is_kw KDefault (cur s) then
    let s1 := next s in
    if negb (is_colon (cur s1)) then err s1 else                     (* nextAndCheck(COLON) *)
    let s2 := next s1 in
    bind (rec (CaseBody true []) s2) (fun b s3 => rec (SwitchLoop cnd cases (as_list b)) s3)
  else if is_kw KCase (cur s) then
    nil_err (rec Stmt (next s)) (fun v s1 =>
      let s2 := if is_colon (cur s1) then next s1 else s1 in
      bind (rec (CaseBody false []) s2) (fun b s3 => rec (SwitchLoop cnd ((v, as_list b) :: cases) def) s3))
  else err s.

Definition step_casebody (isdef : bool) (acc : list ast) (s : st) : res :=
  if is_eof s || is_kw KCase (cur s) || is_rbrace (cur s) || (negb isdef && is_kw KDefault (cur s))
  then Ok (EList (rev acc)) s
  else if is_lbrace (cur s) then rec Block s                          (* statements = the block *)
  else if is_kw KBreak (cur s) then
    bind (rec Stmt s) (fun v s1 =>
      Ok (EList (rev (if is_nil v then acc else v :: acc))) (if is_semi (cur s1) then next s1 else s1))
  else
    bind (rec Stmt s) (fun v s1 =>
      let s2 := if is_semi (cur s1) then next s1 else s1 in
      if pos s2 =? pos s then err s2                                  (* only the guard ends this *)
      else rec (CaseBody isdef (if is_nil v then acc else v :: acc)) s2).

Definition step_returns (acc : list ast) (s : st) : res :=
  if is_comma (cur s) then bind (rec Stmt (next s)) (fun v s1 =>
    if is_nil v || existsb is_nil acc then err s1 else rec (Returns (v :: acc)) s1)
  else Ok (SReturns (rev acc)) s.

Definition catch_types (tys : ast) : list nat :=
  match tys with EList l => map (fun x => match x with EIdentStr n => n | _ => 0 end) l | _ => [] end.

Definition step_catches (body : list ast) (acc : list (list nat * ast * list ast)) (s : st) : res :=
  if is_kw KCatch (cur s) then
    let s1 := next s in
    if negb (is_lp (cur s1)) then err s1 else
    bind (rec (CatchTypes []) (next s1)) (fun tys s2 =>
      let types := catch_types tys in
      if is_var (cur s2) then
        bind (rec Stmt s2) (fun v s3 =>
          if is_variable_node v then
            if is_rp (cur s3) && is_lbrace (cur (next s3))                    (* ')' then requireBlockStart("catch") *)
            then bind (rec Block (next s3)) (fun b s4 => rec (Catches body ((types, v, as_list b) :: acc)) s4)
            else err s3
          else err s3)
      else if is_rp (cur s2) && is_lbrace (cur (next s2)) then
        bind (rec Block (next s2)) (fun b s3 => rec (Catches body ((types, ENil, as_list b) :: acc)) s3)
      else err s2)
  else if is_kw KFinally (cur s) then
    if is_lbrace (cur (next s))                                               (* requireBlockStart("finally") *)
    then bind (rec Block (next s)) (fun b s1 => Ok (STry body (rev acc) (as_list b)) s1)
    else err (next s)
  else match acc with
       | [] => err s                                                          (* try without catch or finally *)
       | _ => Ok (STry body (rev acc) []) s
       end.

Definition step_catchtypes (acc : list nat) (s : st) : res :=
  match cur s with
  | SIdent n =>
      let s1 := next s in
      match cur s1 with
      | SBin OBor => rec (CatchTypes (n :: acc)) (next s1)
      | _ => Ok (EList (map EIdentStr (rev (n :: acc)))) s1
      end
  | _ => err s                                  (* catch ($e), catch (), catch (A | $e): no type (fix 4afe5c3) *)
  end.

Definition param_fin (v : nat) (acc : list ast) (d : ast) (s2 : st) : res :=
  let acc' := EAsg AEq (EAtom (AVar v)) d :: acc in
  if is_comma (cur s2) then
    let s3 := next s2 in
    if is_rp (cur s3) then Ok (EList (rev acc')) (next s3) else rec (Params acc') s3
  else if is_rp (cur s2) then Ok (EList (rev acc')) (next s2)
  else err s2.

Definition step_params (acc : list ast) (s : st) : res :=
  match cur s with
  | SAtom (AVar v) =>
      let s1 := next s in
      match cur s1 with
      | SAsg AEq => bind (rec Stmt (next s1)) (fun d s2 => param_fin v acc d s2)
      | SColon | SIdent _ | SAtom (ANum _ _) | SAtom (AStr _) | SAtom ANull | SAtom AFalse | SOther => Unsup   (* types *)
      | _ => param_fin v acc ENil s1
      end
  | SIdent _ | SAtom _ | SQ | SBin OBand | SOther => Unsup      (* typed / reference / variadic parameters *)
  | _ => err s                                                  (* "参数缺少变量名" *)
  end.

Definition step_plbrace (s : st) : res :=                  (* LbraceParser.Parse; only entered on `{` *)
  if negb (is_lbrace (cur s)) then err s else
  let s1 := next s in
  if is_rbrace (cur s1) then Ok (EKv []) (next s1)
  else
    bind (json_key s1) (fun k s2 =>
      match cur s2 with
      | SArrow => bind (rec Stmt (next s2)) (fun v s3 => rec (KvLoop true [(k, v)]) s3)
      | SColon => bind (rec Stmt (next s2)) (fun v s3 => rec (JsonLoop [(k, v)]) s3)
      | SRbrace => Ok (EKv []) (next s2)
      | _ => err s2
      end).

Definition func_params (ps : ast) : list (nat * ast) :=
  map (fun p => match p with EAsg AEq (EAtom (AVar v)) d => (v, d) | _ => (0, ENil) end) (as_list ps).

Definition step_pfunc (s : st) : res :=                    (* FunctionParser.Parse; only entered on `function` *)
  if negb (is_kw KFunction (cur s)) then err s else
  let s1 := next s in
  match cur s1 with
  | SBin OBand | SLp => Unsup                       (* & reference return, closure *)
  | SIdent n =>
      let s2 := next s1 in
      if negb (is_lp (cur s2)) then err s2 else
      let s3 := next s2 in
      bind (if is_rp (cur s3) then Ok (EList []) (next s3) else rec (Params []) s3) (fun ps s4 =>
        if is_colon (cur s4) then Unsup              (* return type *)
        else bind (rec Block s4) (fun b s5 => Ok (SFunc n (func_params ps) (as_list b)) s5))
  | _ => err s1
  end.

Definition step (m : mode) (s : st) : res :=
  match m with
  | Program last acc => step_program last acc s
  | Stmt => step_stmt s
  | MainStmt => step_mainstmt s
  | Lvl n => step_lvl n s
  | Loop n acc => step_loop n acc s
  | ULoop acc => step_uloop acc s
  | ALoop acc => step_aloop acc s
  | PLoop acc => step_ploop acc s
  | CommaList acc => step_commalist acc s
  | Suffix e => step_suffix e s
  | Args acc => step_args acc s
  | Block => step_block s
  | BlockLoop acc => step_blockloop acc s
  | ArrAfterComma acc => step_arraftercomma acc s
  | ArrSkip acc => step_arrskip acc s
  | KvLoop closer acc => step_kvloop closer acc s
  | KvLoopComma acc => step_kvloopcomma acc s
  | JsonLoop acc => step_jsonloop acc s
  | JsonLoopB acc => step_jsonloopb acc s
  | EchoLoop acc => step_echoloop acc s
  | ElseIfs c th acc => step_elseifs c th acc s
  | IfCond => step_ifcond s
  | ForInits acc => step_forinits acc s
  | ForIncs inits c acc => step_forincs inits c acc s
  | SwitchLoop c cases def => step_switchloop c cases def s
  | CaseBody isdef acc => step_casebody isdef acc s
  | Returns acc => step_returns acc s
  | Catches body acc => step_catches body acc s
  | CatchTypes acc => step_catchtypes acc s
  | Params acc => step_params acc s
  | PLbrace => step_plbrace s
  | PFunc => step_pfunc s
  end.
End Step.

Fixpoint parse (fuel : nat) (m : mode) (s : st) : res :=
  match fuel with 0 => Fuel | S f => step (parse f) m s end.
