(* The statement-level parser model: the results stated for the top-level function the check evaluates. *)
From Coq Require Import List NArith Bool Arith Lia.
Import ListNotations.
From V.C04 Require Import Model.
From V.Stmt Require Import Model Spec Run Proofs Complete.

Lemma fuel_enough ts : M (Program 0 []) (mkSt [] ts 0) < fuel_for ts.
Proof.
  unfold M, fuel_for, W. cbn [rest]. pose proof (wl_le ts). pose proof (rank_le (Program 0 []) (mkSt [] ts 0)). lia.
Qed.

(* the fixed fuel of the model suffices for every token list: the parser terminates, and the no-progress guards are
   what makes the guarded loops (parseProgram, parseBlock, key/value loops, case bodies) terminate *)
Theorem parse_core_total : forall ts, parse_program ts <> TopFuel.
Proof.
  intros ts. unfold parse_program. destruct (has_other ts); [discriminate|].
  pose proof (parse_good (fuel_for ts) (Program 0 []) (mkSt [] ts 0) (fuel_enough ts)) as G.
  destruct (parse (fuel_for ts) (Program 0 []) (mkSt [] ts 0)) as [v s'| | | |] eqn:E; cbn [good] in G; try contradiction; try discriminate.
  destruct (parse_program_mode_list _ _ _ _ _ _ E) as [l ->]. discriminate.
Qed.

(* every token list is answered by a program, a positioned error, or "outside the modelled core": never a crash *)
Theorem parse_core_result : forall ts,
  (exists prog, parse_program ts = TopOk prog) \/ (exists p, parse_program ts = TopErr p) \/ parse_program ts = TopUnsup.
Proof.
  intros ts. unfold parse_program. destruct (has_other ts); [right; right; reflexivity|].
  pose proof (parse_good (fuel_for ts) (Program 0 []) (mkSt [] ts 0) (fuel_enough ts)) as G.
  destruct (parse (fuel_for ts) (Program 0 []) (mkSt [] ts 0)) as [v s'| p | | |] eqn:E; cbn [good] in G; try contradiction.
  - destruct (parse_program_mode_list _ _ _ _ _ _ E) as [l ->]. left. eauto.
  - right. left. eauto.
  - right. right. reflexivity.
Qed.

(* the same for every mode and every state, with the measure as fuel *)
Theorem parse_mode_total : forall m s, match parse (S (M m s)) m s with Fuel | Crash => False | _ => True end.
Proof. intros m s. pose proof (parse_good (S (M m s)) m s (Nat.lt_succ_diag_r _)) as G. destruct (parse (S (M m s)) m s); cbn [good] in G; auto. Qed.

(* an accepted program is complete: no missing operand, no missing clause *)
Theorem accepted_is_complete : forall ts prog, parse_program ts = TopOk prog -> forallb cmp prog = true.
Proof.
  intros ts prog. unfold parse_program. destruct (has_other ts); [discriminate|].
  pose proof (parse_complete (fuel_for ts) (Program 0 []) (mkSt [] ts 0) eq_refl) as C.
  destruct (parse (fuel_for ts) (Program 0 []) (mkSt [] ts 0)) as [v s'| | | |]; try discriminate.
  cbn [sat post] in C. destruct C as [l [-> Hl]]. intros H. injection H as <-. exact Hl.
Qed.

(* what "complete" excludes, on examples *)
Example incomplete_binary : cmp (EBin OAdd (EAtom (AVar 0)) ENil) = false.
Proof. reflexivity. Qed.
Example incomplete_if : cmp (SIf ENil [] [] []) = false.
Proof. reflexivity. Qed.
Example complete_return_without_value : cmp (SReturn ENil) = true.
Proof. reflexivity. Qed.
