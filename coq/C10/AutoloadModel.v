(* C10 — GetOrLoadClass AS A WHOLE under concurrency (runtime/vm.go GetOrLoadClass, LoadAndRun with the
   load lock of runtime/load_lock.go, parser/class_path_manager.go LoadClass).  No proofs here.

   The registry accesses (GetClass, AddClass, Get/SetPhpFileCache) are the atomic pieces whose atomicity is
   `registry_linearizable`; here each is ONE step and the question is the composition:

     GetOrLoadClass(n):  GetClass(n) hit -> found
                         LoadClass:   [file marked loaded AND class registered -> found]
                         LoadAndRun:  loads.enter()            (blocks while another thread is inside)
                                      marked? -> leave, skip
                                      mark; parse = AddClass(n); leave
                         GetClass(n) hit -> found | "class not found in file"

   Class n lives in its own file (file id = definition id = n).  `lk = true` is the code as written
   (fix 304abde); `lk = false` is the code before it (no load lock), kept for the refutation witness. *)
From Coq Require Export List Arith Bool.
Export ListNotations.

Inductive apc :=
| AIdle
| AGet1            (* about to GetClass(n) *)
| APre             (* LoadClass: about to read the file mark (and the class if marked) *)
| AEnter           (* LoadAndRun: about to take the load lock *)
| AMark            (* inside the lock: about to test-and-set the file mark *)
| AParse           (* inside the lock: parsing; about to AddClass(n) *)
| ALeave           (* about to release the lock *)
| AGet2.           (* about to GetClass(n) the second time *)

Inductive ares := Found (d : nat) | NotFound (n : nat).   (* the class asked for / "class n not found in file" *)
Definition asked (r : ares) : nat := match r with Found d => d | NotFound n => n end.
Record athread := { todo : list nat; apc_ : apc; rets : list ares }.
Record astate := {
  classes : list nat;        (* registered class names (definition id = name) *)
  marked : list nat;         (* files marked loaded *)
  owner : option nat;        (* holder of the load lock *)
  thr : list athread;
  parses : list nat          (* ghost: every parse performed, in order *)
}.

Definition mem (x : nat) (l : list nat) : bool := existsb (Nat.eqb x) l.
Fixpoint updt (l : list athread) (i : nat) (t : athread) : list athread :=
  match l, i with [], _ => [] | _ :: r, O => t :: r | x :: r, S j => x :: updt r j t end.
Definition goto (t : athread) (p : apc) : athread := {| todo := todo t; apc_ := p; rets := rets t |}.
Definition ret (t : athread) (r : ares) : athread := {| todo := tl (todo t); apc_ := AIdle; rets := (rets t ++ [r])%list |}.
Definition with_thr (s : astate) (i : nat) (t : athread) : astate :=
  {| classes := classes s; marked := marked s; owner := owner s; thr := updt (thr s) i t; parses := parses s |}.

Definition astep (lk : bool) (s : astate) (i : nat) : option astate :=
  match nth_error (thr s) i with
  | None => None
  | Some t =>
    match todo t with
    | [] => None
    | n :: _ =>
      match apc_ t with
      | AIdle => Some (with_thr s i (goto t AGet1))
      | AGet1 => Some (with_thr s i (if mem n (classes s) then ret t (Found n) else goto t APre))
      | APre => Some (with_thr s i (if mem n (marked s) && mem n (classes s) then ret t (Found n) else goto t AEnter))
      | AEnter =>
          if lk then
            match owner s with
            | Some _ => None
            | None => Some {| classes := classes s; marked := marked s; owner := Some i;
                              thr := updt (thr s) i (goto t AMark); parses := parses s |}
            end
          else Some (with_thr s i (goto t AMark))
      | AMark =>
          if mem n (marked s) then Some (with_thr s i (goto t ALeave))
          else Some {| classes := classes s; marked := n :: marked s; owner := owner s;
                       thr := updt (thr s) i (goto t AParse); parses := parses s |}
      | AParse => Some {| classes := n :: classes s; marked := marked s; owner := owner s;
                          thr := updt (thr s) i (goto t ALeave); parses := (parses s ++ [n])%list |}
      | ALeave => Some {| classes := classes s; marked := marked s; owner := (if lk then None else owner s);
                          thr := updt (thr s) i (goto t AGet2); parses := parses s |}
      | AGet2 => Some (with_thr s i (ret t (if mem n (classes s) then Found n else NotFound n)))
      end
    end
  end.

Fixpoint arun (lk : bool) (s : astate) (sched : list nat) : astate :=
  match sched with [] => s | i :: r => match astep lk s i with Some s' => arun lk s' r | None => arun lk s r end end.
Definition ainit (progs : list (list nat)) : astate :=
  {| classes := []; marked := []; owner := None; parses := [];
     thr := map (fun p => {| todo := p; apc_ := AIdle; rets := [] |}) progs |}.
