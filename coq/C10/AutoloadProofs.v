(* C10 — GetOrLoadClass as a whole: with the load lock no call ever fails, every file is parsed at most
   once, and every call returns what the atomic specification returns. *)
From Coq Require Import Lia.
From V.C10 Require Import AutoloadModel.

Lemma nth_updt_same l i t x : nth_error l i = Some x -> nth_error (updt l i t) i = Some t.
Proof. revert i; induction l as [|y l IH]; intros [|i] H; simpl in *; try discriminate; auto. Qed.
Lemma nth_updt_other l i j t : i <> j -> nth_error (updt l i t) j = nth_error l j.
Proof. revert i j; induction l as [|y l IH]; intros [|i] [|j] H; simpl; auto; try lia. Qed.
Lemma nth_updt_inv l i t x j tj : nth_error l i = Some x -> nth_error (updt l i t) j = Some tj ->
  (j = i /\ tj = t) \/ (j <> i /\ nth_error l j = Some tj).
Proof.
  intros Hi Hj. destruct (Nat.eq_dec j i) as [->|N].
  - rewrite (nth_updt_same _ _ _ _ Hi) in Hj. left; split; congruence.
  - rewrite nth_updt_other in Hj by auto. right; auto.
Qed.
Lemma mem_true x l : mem x l = true <-> In x l.
Proof.
  unfold mem. rewrite existsb_exists. split.
  - intros (y & I & E). apply Nat.eqb_eq in E. subst; auto.
  - intros I. exists x. split; auto. apply Nat.eqb_refl.
Qed.

Definition in_lock (p : apc) : bool := match p with AMark | AParse | ALeave => true | _ => false end.
Definition cur (t : athread) : option nat := hd_error (todo t).

Record AInv (s : astate) : Prop := {
  (* the lock is held exactly by the thread that is inside *)
  L_owner : forall i t, nth_error (thr s) i = Some t -> in_lock (apc_ t) = true -> owner s = Some i;
  (* a marked file has its class registered, unless its loader is still parsing it *)
  L_marked : forall n, In n (marked s) -> In n (classes s) \/
               exists i t, nth_error (thr s) i = Some t /\ apc_ t = AParse /\ cur t = Some n;
  (* a thread past the lock (about to leave, or at its second lookup) has its class registered *)
  L_after : forall i t n, nth_error (thr s) i = Some t -> (apc_ t = ALeave \/ apc_ t = AGet2) -> cur t = Some n -> In n (classes s);
  (* a parser's file is marked and not yet registered; nothing is parsed twice *)
  L_parse : forall i t n, nth_error (thr s) i = Some t -> apc_ t = AParse -> cur t = Some n -> In n (marked s) /\ ~ In n (parses s);
  L_parses : NoDup (parses s) /\ (forall n, In n (parses s) -> In n (marked s));
  (* no call has failed, and every answer is the requested class *)
  L_rets : forall i t, nth_error (thr s) i = Some t -> Forall (fun r => exists d, r = Found d) (rets t)
}.

Lemma ainv_init progs : AInv (ainit progs).
Proof.
  assert (N : forall i t, nth_error (thr (ainit progs)) i = Some t -> apc_ t = AIdle /\ rets t = []).
  { intros i t H. simpl in H. rewrite nth_error_map in H. destruct (nth_error progs i); inversion H; auto. }
  constructor; simpl.
  - intros i t H E. destruct (N _ _ H) as [P _]. rewrite P in E. discriminate.
  - contradiction.
  - intros i t n H [E|E]; destruct (N _ _ H) as [P _]; congruence.
  - intros i t n H E. destruct (N _ _ H) as [P _]. congruence.
  - split; [constructor|contradiction].
  - intros i t H. destruct (N _ _ H) as [_ R]. rewrite R. constructor.
Qed.

(* moving thread i to t' while classes/marked/parses keep growing monotonically *)
Lemma ainv_step s i s' : AInv s -> astep true s i = Some s' -> AInv s'.
Proof.
  intros IV. unfold astep. destruct (nth_error (thr s) i) as [t|] eqn:Ti; [|discriminate].
  destruct (todo t) as [|n rest] eqn:Td; [discriminate|].
  assert (Cu : cur t = Some n) by (unfold cur; rewrite Td; reflexivity).
  (* the only other thread facts we need: nobody else is inside the lock when i is *)
  assert (ALONE : in_lock (apc_ t) = true -> forall j tj, j <> i -> nth_error (thr s) j = Some tj -> in_lock (apc_ tj) = false).
  { intros E j tj N Hj. destruct (in_lock (apc_ tj)) eqn:F; auto.
    pose proof (L_owner _ IV _ _ Ti E). pose proof (L_owner _ IV _ _ Hj F). congruence. }
  (* generic: a step that changes only thread i (to t') and possibly grows classes/marked/parses/owner *)
  assert (GEN : forall t' cl mk ow ps,
     (forall x, In x (classes s) -> In x cl) -> (forall x, In x (marked s) -> In x mk) ->
     (* owner bookkeeping *)
     (forall j tj, nth_error (updt (thr s) i t') j = Some tj -> in_lock (apc_ tj) = true -> ow = Some j) ->
     (* marked files *)
     (forall x, In x mk -> In x cl \/ exists j tj, nth_error (updt (thr s) i t') j = Some tj /\ apc_ tj = AParse /\ cur tj = Some x) ->
     (* thread i's own obligations *)
     ((apc_ t' = ALeave \/ apc_ t' = AGet2) -> forall x, cur t' = Some x -> In x cl) ->
     (apc_ t' = AParse -> forall x, cur t' = Some x -> In x mk /\ ~ In x ps) ->
     (forall j tj x, j <> i -> nth_error (thr s) j = Some tj -> apc_ tj = AParse -> cur tj = Some x -> ~ In x ps) ->
     NoDup ps /\ (forall x, In x ps -> In x mk) ->
     Forall (fun r => exists d, r = Found d) (rets t') ->
     AInv {| classes := cl; marked := mk; owner := ow; thr := updt (thr s) i t'; parses := ps |}).
  { intros t' cl mk ow ps Mc Mm OW MK AF PA PO PS RT. constructor; simpl; auto.
    - intros j tj x Hj E C. destruct (nth_updt_inv _ _ _ _ _ _ Ti Hj) as [[-> ->]|[Nj Hj']]; [eapply AF; eauto|].
      apply Mc. eapply (L_after _ IV); eauto.
    - intros j tj x Hj E C. destruct (nth_updt_inv _ _ _ _ _ _ Ti Hj) as [[-> ->]|[Nj Hj']]; [eapply PA; eauto|].
      destruct (L_parse _ IV _ _ _ Hj' E C) as [A _]. split; [apply Mm; auto|eapply PO; eauto].
    - intros j tj Hj. destruct (nth_updt_inv _ _ _ _ _ _ Ti Hj) as [[-> ->]|[Nj Hj']]; auto. eapply (L_rets _ IV); eauto. }
  (* marked-files obligation when nothing about marked/parse changes except thread i's pc *)
  assert (MKSAME : forall t', (apc_ t = AParse -> apc_ t' = AParse /\ cur t' = cur t) ->
     forall x, In x (marked s) -> In x (classes s) \/ exists j tj, nth_error (updt (thr s) i t') j = Some tj /\ apc_ tj = AParse /\ cur tj = Some x).
  { intros t' KP x Hx. destruct (L_marked _ IV x Hx) as [A|(j & tj & Hj & Pj & Cj)]; auto. right.
    destruct (Nat.eq_dec j i) as [->|N].
    - rewrite Ti in Hj. inversion Hj; subst tj. destruct (KP Pj) as [P' C']. exists i, t'.
      split; [apply (nth_updt_same _ _ _ _ Ti)|]. split; auto. congruence.
    - exists j, tj. rewrite nth_updt_other by auto. auto. }
  assert (OWSAME : forall t', (in_lock (apc_ t') = true -> in_lock (apc_ t) = true) ->
     forall j tj, nth_error (updt (thr s) i t') j = Some tj -> in_lock (apc_ tj) = true -> owner s = Some j).
  { intros t' K j tj Hj E. destruct (nth_updt_inv _ _ _ _ _ _ Ti Hj) as [[-> ->]|[Nj Hj']].
    - apply (L_owner _ IV _ _ Ti). auto.
    - apply (L_owner _ IV _ _ Hj'). auto. }
  assert (POSAME : forall j tj x, j <> i -> nth_error (thr s) j = Some tj -> apc_ tj = AParse -> cur tj = Some x -> ~ In x (parses s)).
  { intros j tj x N Hj P C. apply (L_parse _ IV _ _ _ Hj P C). }
  pose proof (L_rets _ IV _ _ Ti) as RT.
  assert (RTF : forall d, Forall (fun r => exists d0, r = Found d0) (rets (ret t (Found d)))).
  { intros d. simpl. apply Forall_app. split; auto. constructor; eauto. }
  destruct (apc_ t) eqn:Pc.
  - (* AIdle *) intros E; inversion E; subst s'. unfold with_thr. apply GEN; auto; try (simpl; intros; discriminate).
    + apply OWSAME. simpl. discriminate.
    + apply MKSAME. discriminate.
    + simpl. intros [X|X]; discriminate.
    + apply (L_parses _ IV).
  - (* AGet1 *) intros E; inversion E; subst s'. unfold with_thr. destruct (mem n (classes s)) eqn:M.
    + apply GEN; auto; try (simpl; intros; discriminate).
      * apply OWSAME. simpl. discriminate.
      * apply MKSAME. discriminate.
      * simpl. intros [X|X]; discriminate.
      * apply (L_parses _ IV).
    + apply GEN; auto; try (simpl; intros; discriminate).
      * apply OWSAME. simpl. discriminate.
      * apply MKSAME. discriminate.
      * simpl. intros [X|X]; discriminate.
      * apply (L_parses _ IV).
  - (* APre *) intros E; inversion E; subst s'. unfold with_thr. destruct (mem n (marked s) && mem n (classes s))%bool.
    + apply GEN; auto; try (simpl; intros; discriminate).
      * apply OWSAME. simpl. discriminate.
      * apply MKSAME. discriminate.
      * simpl. intros [X|X]; discriminate.
      * apply (L_parses _ IV).
    + apply GEN; auto; try (simpl; intros; discriminate).
      * apply OWSAME. simpl. discriminate.
      * apply MKSAME. discriminate.
      * simpl. intros [X|X]; discriminate.
      * apply (L_parses _ IV).
  - (* AEnter *) destruct (owner s) eqn:Ow; [discriminate|]. intros E; inversion E; subst s'.
    apply GEN; auto; try (simpl; intros; discriminate).
    + intros j tj Hj F. destruct (nth_updt_inv _ _ _ _ _ _ Ti Hj) as [[-> ->]|[Nj Hj']]; auto.
      pose proof (L_owner _ IV _ _ Hj' F). congruence.
    + apply MKSAME. discriminate.
    + simpl. intros [X|X]; discriminate.
    + apply (L_parses _ IV).
  - (* AMark *) assert (IL : in_lock AMark = true) by reflexivity.
    destruct (mem n (marked s)) eqn:M; intros E; inversion E; subst s'.
    + (* already marked: nobody is parsing (we hold the lock), so the class is registered *)
      unfold with_thr. apply GEN; auto; try (simpl; intros; discriminate).
      * apply OWSAME. auto.
      * apply MKSAME. discriminate.
      * simpl. intros _ x C. unfold cur in C; simpl in C; rewrite Td in C; simpl in C; inversion C; subst x.
        apply mem_true in M. destruct (L_marked _ IV n M) as [A|(j & tj & Hj & Pj & Cj)]; auto.
        exfalso. destruct (Nat.eq_dec j i) as [->|N]; [rewrite Ti in Hj; inversion Hj; subst; congruence|].
        pose proof (ALONE IL j tj N Hj) as F. rewrite Pj in F. discriminate.
      * apply (L_parses _ IV).
    + apply GEN; auto; try (simpl; intros; discriminate).
      * simpl. auto.
      * apply OWSAME. auto.
      * intros x [<-|Hx].
        -- right. exists i, (goto t AParse). split; [apply (nth_updt_same _ _ _ _ Ti)|]. simpl. split; auto.
        -- apply MKSAME; [discriminate|auto].
      * simpl. intros [X|X]; discriminate.
      * simpl. intros _ x C. unfold cur in C; simpl in C; rewrite Td in C; simpl in C; inversion C; subst x. split; [left; reflexivity|].
        intro P. destruct (L_parses _ IV) as [_ Q]. apply Q in P. apply mem_true in P. congruence.
      * destruct (L_parses _ IV) as [A B]. split; auto. simpl. intros; right; auto.
  - (* AParse *) assert (IL : in_lock AParse = true) by reflexivity.
    destruct (L_parse _ IV _ _ _ Ti Pc Cu) as [Mk NP].
    intros E; inversion E; subst s'. apply GEN; auto; try (simpl; intros; discriminate).
    + simpl. auto.
    + apply OWSAME. auto.
    + intros x Hx. destruct (Nat.eq_dec x n) as [->|Nx]; [left; left; reflexivity|].
      destruct (L_marked _ IV x Hx) as [A|(j & tj & Hj & Pj & Cj)]; [left; right; auto|].
      exfalso. destruct (Nat.eq_dec j i) as [->|N].
      * rewrite Ti in Hj. inversion Hj; subst tj. congruence.
      * pose proof (ALONE IL j tj N Hj) as F. rewrite Pj in F. discriminate.
    + simpl. intros _ x C. unfold cur in C; simpl in C; rewrite Td in C; simpl in C; inversion C; subst x. left; reflexivity.
    + intros j tj x N Hj P C. exfalso. pose proof (ALONE IL j tj N Hj) as F. rewrite P in F. discriminate.
    + destruct (L_parses _ IV) as [A B]. split.
      * clear - A NP. induction (parses s) as [|y l IHl]; simpl; [constructor; auto; constructor|].
        inversion A; subst. constructor.
        -- intro X. apply in_app_or in X as [X|[X|[]]]; auto. subst. apply NP. left; reflexivity.
        -- apply IHl; auto. intro X. apply NP. right; auto.
      * intros x X. apply in_app_or in X as [X|[<-|[]]]; auto.
  - (* ALeave *) assert (IL : in_lock ALeave = true) by reflexivity.
    intros E; inversion E; subst s'. apply GEN; auto; try (simpl; intros; discriminate).
    + intros j tj Hj F. destruct (nth_updt_inv _ _ _ _ _ _ Ti Hj) as [[-> ->]|[Nj Hj']]; [discriminate|].
      pose proof (ALONE IL j tj Nj Hj'). congruence.
    + apply MKSAME. discriminate.
    + simpl. intros _ x C. apply (L_after _ IV _ _ _ Ti); auto.
    + apply (L_parses _ IV).
  - (* AGet2 *) intros E; inversion E; subst s'. unfold with_thr.
    assert (In n (classes s)) by (apply (L_after _ IV _ _ _ Ti); auto).
    apply mem_true in H. rewrite H.
    apply GEN; auto; try (simpl; intros; discriminate).
    + apply OWSAME. simpl. discriminate.
    + apply MKSAME. discriminate.
    + simpl. intros [X|X]; discriminate.
    + apply (L_parses _ IV).
Qed.

Lemma ainv_run sched : forall s, AInv s -> AInv (arun true s sched).
Proof.
  induction sched as [|i r IH]; intros s IV; simpl; auto.
  destruct (astep true s i) eqn:E; auto. apply IH. eapply ainv_step; eauto.
Qed.

(* every GetOrLoadClass call of every thread, under every schedule, returns the class *)
Lemma never_fails_l progs sched i t :
  nth_error (thr (arun true (ainit progs) sched)) i = Some t -> Forall (fun r => exists d, r = Found d) (rets t).
Proof. intros H. apply (L_rets _ (ainv_run sched _ (ainv_init progs)) _ _ H). Qed.
Lemma parsed_once_l progs sched : NoDup (parses (arun true (ainit progs) sched)).
Proof. apply (L_parses _ (ainv_run sched _ (ainv_init progs))). Qed.

(* every answer belongs to the call that was made: the answers so far, read as names, followed by the calls
   still to make, are the thread's program (with or without the lock) *)
Definition hist_ok (progs : list (list nat)) (s : astate) : Prop :=
  forall i t, nth_error (thr s) i = Some t -> nth_error progs i = Some (map asked (rets t) ++ todo t)%list.
Lemma hist_step lk progs s i s' : hist_ok progs s -> astep lk s i = Some s' -> hist_ok progs s'.
Proof.
  intros H. unfold astep. destruct (nth_error (thr s) i) as [t|] eqn:Ti; [|discriminate].
  destruct (todo t) as [|n rest] eqn:Td; [discriminate|].
  assert (G : forall t' cl mk ow ps, (map asked (rets t') ++ todo t' = map asked (rets t) ++ todo t)%list ->
            hist_ok progs {| classes := cl; marked := mk; owner := ow; thr := updt (thr s) i t'; parses := ps |}).
  { intros t' cl mk ow ps E j tj Hj. simpl in Hj. destruct (nth_updt_inv _ _ _ _ _ _ Ti Hj) as [[-> ->]|[N Hj']].
    - rewrite E. apply (H _ _ Ti).
    - apply (H _ _ Hj'). }
  assert (R : forall r, asked r = n -> (map asked (rets (ret t r)) ++ todo (ret t r) = map asked (rets t) ++ todo t)%list).
  { intros r A. simpl. rewrite map_app, Td. simpl. rewrite A, <- app_assoc. reflexivity. }
  destruct (apc_ t); try (destruct lk); try (destruct (owner s)); try discriminate;
    repeat match goal with |- context [if ?c then _ else _] => destruct c end;
    intros E; inversion E; subst s'; unfold with_thr; apply G; auto.
Qed.
Lemma hist_run lk progs sched : forall s, hist_ok progs s -> hist_ok progs (arun lk s sched).
Proof.
  induction sched as [|i r IH]; intros s H; simpl; auto.
  destruct (astep lk s i) eqn:E; auto. apply IH. eapply hist_step; eauto.
Qed.
Lemma hist_init progs : hist_ok progs (ainit progs).
Proof.
  intros i t H. simpl in H. rewrite nth_error_map in H. destruct (nth_error progs i); inversion H; subst; reflexivity.
Qed.

(* the answers are exactly `Found n` for the names the thread asked for, in order: what the atomic
   GetOrLoadClass of the sequential specification returns for an autoloadable class *)
Lemma answers_atomic_l progs sched i t p :
  nth_error progs i = Some p -> nth_error (thr (arun true (ainit progs) sched)) i = Some t ->
  rets t = map Found (firstn (List.length (rets t)) p) /\ (todo t = [] -> rets t = map Found p).
Proof.
  intros Hp Ht.
  pose proof (never_fails_l progs sched i t Ht) as F.
  pose proof (hist_run true progs sched _ (hist_init progs) i t Ht) as Hh. rewrite Hp in Hh. inversion Hh as [E].
  assert (M : rets t = map Found (map asked (rets t))).
  { clear - F. induction F as [|r l (d & ->) F IH]; simpl; auto. f_equal; auto. }
  split.
  - assert (L : List.length (rets t) = List.length (map asked (rets t))) by (rewrite map_length; reflexivity).
    rewrite L, firstn_app, firstn_all, Nat.sub_diag. simpl. rewrite app_nil_r. exact M.
  - intros T. rewrite T, app_nil_r. exact M.
Qed.
