(* C10 — the generic lock-discipline development lives in coq/Common/LockDiscipline.v (it is also
   instantiated by C09 for std/channel/channel.go); this file re-exports it under its historical name. *)
From V.Common Require Export LockDiscipline.
