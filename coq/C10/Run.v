(* C10 — correspondence and property oracles evaluated on what the implementation returned. *)
From V.C10 Require Import Spec Model Lock.
Open Scope Z_scope.

Record obs := { o_r : Z; o_d : Z }.
Definition zin (x : Z) (l : list Z) : bool := existsb (Z.eqb x) l.
Definition res_ok (r : result) (o : obs) : bool :=
  match r with
  | ROk | RNone => (o_r o =? 0) && (o_d o =? -1)
  | RErr => o_r o =? 1
  | RSkip => false
  | RFound [] => (o_r o =? 0) && (o_d o =? -1)
  | RFound l => (o_r o =? 0) && zin (o_d o) l
  end.
Fixpoint all2 {A B} (f : A -> B -> bool) (a : list A) (b : list B) : bool :=
  match a, b with [], [] => true | x :: a', y :: b' => f x y && all2 f a' b' | _, _ => false end.

(* ---------------------------------------------------------------- regenerated table vs. the model's methods *)
Definition gen_id (fields : list (nat * string * string)) (nm : string) : nat :=
  match find (fun f => String.eqb (snd (fst f)) nm) fields with Some f => fst (fst f) | None => 999%nat end.
Definition tr_act (fields : list (nat * string * string)) (a : act) : act :=
  match a with
  | ARead m => ARead (gen_id fields (field_name m))
  | AWrite m => AWrite (gen_id fields (field_name m))
  | x => x
  end.
(* methods of the model whose lock mode or access skeleton is not a path of the regenerated entry *)
Definition skeleton_check (fields : list (nat * string * string)) (tbl : table) : list string :=
  flat_map (fun c =>
    match find (fun e => String.eqb (fst e) (go_name c)) tbl with
    | None => [go_name c]
    | Some e => if forallb (fun p => subb (map (tr_act fields) p) (snd e)) (locked_paths (mode_of c) (body_of c))
                then [] else [go_name c]
    end) method_calls.

(* ---------------------------------------------------------------- sequential histories *)
Definition kind_eqb (a b : kind) : bool := match a, b with KC, KC | KI, KI | KF, KF => true | _, _ => false end.
Definition is_ok (o : obs) : bool := (o_r o =? 0).
(* "a duplicate name is rejected for all but one registrant", on observed results *)
Fixpoint winners_ok (l : list (call * obs)) : bool :=
  match l with
  | [] => true
  | (CAdd k n d, o) :: r =>
      (negb (is_ok o) ||
       forallb (fun p => match p with
                         | (CAdd k' n' d', o') =>
                             negb (kind_eqb k k' && String.eqb n n' && is_ok o') || ((d =? d') && negb (kind_eqb k KF))
                         | _ => true end) r) && winners_ok r
  | _ :: r => winners_ok r
  end.
(* "every registration that reported success is visible to all later lookups" (sequential order) *)
Fixpoint visible_ok (l : list (call * obs)) : bool :=
  match l with
  | [] => true
  | (CAdd k n d, o) :: r =>
      (negb (is_ok o) ||
       forallb (fun p => match p with
                         | (CGet k' n', o') => negb (kind_eqb k k' && String.eqb n n') || (is_ok o' && negb (o_d o' =? -1))
                         | _ => true end) r) && visible_ok r
  | _ :: r => visible_ok r
  end.

Definition seq_case := (list call * list obs)%type.
(* failing clauses: 1 = sequential spec (= model bodies, exec_seq_spec) vs implementation,
   2 = one winner per name violated, 3 = success not visible later, 6 = panic *)
Definition check_seq (c : seq_case) : list nat :=
  let (cs, os) := c in
  ((if all2 res_ok (snd (seq_run store0 cs)) os then [] else [1%nat]) ++
   (if winners_ok (combine cs os) then [] else [2%nat]) ++
   (if visible_ok (combine cs os) then [] else [3%nat]) ++
   (if existsb (fun o => o_r o =? 2) os then [6%nat] else []))%list.

(* ---------------------------------------------------------------- concurrent histories *)
Record ev := { e_c : call; e_o : obs; e_t0 : Z; e_t1 : Z }.
Definition conc_case := list (list ev).       (* per thread, in program order *)

Definition flat (c : conc_case) : list ev := List.concat c.
Definition winners_conc (l : list ev) : bool := winners_ok (map (fun e => (e_c e, e_o e)) l).
(* real-time visibility: an Add that returned success before a Get of the same name was invoked is seen *)
Definition visible_conc (l : list ev) : bool :=
  forallb (fun a => match e_c a with
    | CAdd k n d => negb (is_ok (e_o a)) ||
        forallb (fun b => match e_c b with
           | CGet k' n' => negb (kind_eqb k k' && String.eqb n n' && (e_t1 a <? e_t0 b)) || negb (o_d (e_o b) =? -1)
           | _ => true end) l
    | _ => true end) l.
(* nothing invented: a definition a lookup returned was registered by an Add invoked before the lookup returned *)
Definition justified_conc (l : list ev) : bool :=
  forallb (fun b => match e_c b with
    | CGet k n => (o_d (e_o b) =? -1) ||
        existsb (fun a => match e_c a with
           | CAdd k' _ d => kind_eqb k k' && (d =? o_d (e_o b)) && (e_t0 a <? e_t1 b)
           | _ => false end) l
    | _ => true end) l.
(* all EnsureGlobalZVal calls of one name return the same cell *)
Definition globals_conc (l : list ev) : bool :=
  forallb (fun a => match e_c a with
    | CEnsureGlobal n _ => forallb (fun b => match e_c b with
           | CEnsureGlobal n' _ => negb (String.eqb n n') || (o_d (e_o a) =? o_d (e_o b))
           | _ => true end) l
    | _ => true end) l.

(* full linearizability by search (small histories): pick as next any thread head that no other
   pending call precedes in real time and whose observed result the sequential spec produces *)
Definition res_ok_conc (c : call) (r : result) (o : obs) : bool :=
  match c with CEnsureGlobal _ _ => o_r o =? 0 | _ => res_ok r o end.
Fixpoint remove_head (ths : list (list ev)) (i : nat) : list (list ev) :=
  match ths, i with
  | [], _ => []
  | t :: r, O => tl t :: r
  | t :: r, S j => t :: remove_head r j
  end.
Fixpoint lin_search (fuel : nat) (s : store) (ths : list (list ev)) : bool :=
  match fuel with
  | O => false
  | S f =>
      if forallb (fun t => match t with [] => true | _ => false end) ths then true else
      existsb (fun i =>
        match nth i ths [] with
        | [] => false
        | x :: _ =>
            forallb (fun t => match t with [] => true | y :: _ => negb (e_t1 y <? e_t0 x) end) ths &&
            (let (s', r) := reg_step (e_c x) s in
             res_ok_conc (e_c x) r (e_o x) && lin_search f s' (remove_head ths i))
        end) (seq 0 (List.length ths))
  end.

(* failing clauses: 4 one winner, 5 real-time visibility, 7 lookup returned something never registered,
   8 globals disagree, 9 no linearization exists (searched only when `small`), 6 panic *)
Definition check_conc (small : bool) (c : conc_case) : list nat :=
  let l := flat c in
  ((if winners_conc l then [] else [4%nat]) ++
   (if visible_conc l then [] else [5%nat]) ++
   (if justified_conc l then [] else [7%nat]) ++
   (if globals_conc l then [] else [8%nat]) ++
   (if small then (if lin_search (S (List.length l)) store0 c then [] else [9%nat]) else []) ++
   (if existsb (fun e => o_r (e_o e) =? 2) l then [6%nat] else []))%list.
Definition check_conc_small := check_conc true.
Definition check_conc_big := check_conc false.

(* ---------------------------------------------------------------- request-level VMs under concurrency
   each goroutine that runs on its own TempVM of the shared base must get exactly what the sequential TempVM
   model of C12 gives for that request run ALONE (the other goroutines use disjoint names on the base) *)
Fixpoint cp_of12 (l : list (name * cpent)) (n : name) : option cpent :=
  match l with [] => None | (k, e) :: r => if String.eqb k n then Some e else cp_of12 r n end.
Definition solo_case := (list (name * cpent) * list op * list obs)%type.
Definition check_solo (c : solo_case) : list nat :=
  let '(cp, ops, os) := c in
  if all2 res_ok (tl (results (cp_of12 cp) world0 (ONewTemp :: ops))) os then [] else [10%nat].
