(* C10 — the property, clause by clause.  Only statements here; every proof is `exact lemma`.
   The instantiation of the generic theorems to the table regenerated from runtime/vm.go
   (`well_locked vm_table = true`, `vm_race_free`, `vm_skeleton_ok`) is re-stated and re-checked
   against the freshly generated table on every run (.build/C10/LockObligations.v). *)
From V.C10 Require Import Spec Lock Model Proofs AutoloadModel AutoloadProofs.

(* "... and the process neither crashes nor reports a data race": for ANY table of methods that passes the
   decidable discipline check, any number of threads each running any sequence of execution paths of
   those methods, and any schedule, no two threads are ever about to access the same field with one of
   them writing (two concurrent map writes / a map read concurrent with a write are exactly such states) *)
Theorem well_locked_race_free : forall tbl, well_locked tbl = true ->
  forall progs sched, Forall (from_table tbl) progs -> ~ race (LockDiscipline.run (init_state progs) sched).
Proof. exact well_locked_race_free_l. Qed.
Print Assumptions well_locked_race_free.

Theorem well_locked_mutual_exclusion : forall tbl, well_locked tbl = true ->
  forall progs sched, Forall (from_table tbl) progs -> excl_alone (LockDiscipline.run (init_state progs) sched).
Proof. exact well_locked_mutex_l. Qed.
Print Assumptions well_locked_mutual_exclusion.

(* no call into code that may re-enter the VM (autoload, user callbacks) is made while the
   non-re-entrant lock is held *)
Theorem well_locked_no_callout_under_lock : forall tbl, well_locked tbl = true ->
  forall progs sched, Forall (from_table tbl) progs ->
  forall i h r, nth_error (LockDiscipline.run (init_state progs) sched) i = Some (h, AExt :: r) -> h = Free.
Proof. exact well_locked_ext_free_l. Qed.
Print Assumptions well_locked_no_callout_under_lock.

(* "The outcome is the one some sequential order of the same calls would give": for every initial
   tables, every number of threads, every per-thread program of registry calls and every schedule of
   the machine that interleaves SINGLE MAP ACCESSES, the execution is linearizable w.r.t. the
   sequential registry specification *)
Theorem registry_linearizable : forall s0 progs sched,
  let s := crun (cinit s0 progs) sched in
  linearizable s0 (List.length progs) (started_of s) (returned_of s) (sigma s) (quiescent s).
Proof. exact linearizable_l. Qed.
Print Assumptions registry_linearizable.

(* the calls a thread has started are a prefix of its program, in program order *)
Theorem started_in_program_order : forall s0 progs sched i p,
  nth_error progs i = Some p ->
  exists rest, p = (started_of (crun (cinit s0 progs) sched) i ++ rest)%list.
Proof. exact started_prefix_l. Qed.
Print Assumptions started_in_program_order.

(* "a duplicate name is rejected for all but one registrant" — of every sequential history, hence
   (through registry_linearizable: H is a sequential history with exactly the returned results) of
   every concurrent execution *)
Theorem one_winner_per_name : forall s cs, one_winner cs (snd (seq_run s cs)).
Proof. exact one_winner_l. Qed.
Print Assumptions one_winner_per_name.

(* "every registration that reported success is visible to all later lookups" *)
Theorem success_visible_later : forall s cs, success_visible cs (snd (seq_run s cs)).
Proof. exact success_visible_l. Qed.
Print Assumptions success_visible_later.

(* the same two statements directly about the linearization of a concurrent run *)
Theorem concurrent_consequences : forall s0 progs sched,
  let s := crun (cinit s0 progs) sched in
  map e_res (hist s) = snd (seq_run s0 (map e_call (hist s))) /\
  one_winner (map e_call (hist s)) (map e_res (hist s)) /\
  success_visible (map e_call (hist s)) (map e_res (hist s)).
Proof.
  intros s0 progs sched s.
  pose proof (inv_run s0 progs sched _ (inv_init s0 progs)) as IV. fold s in IV.
  assert (E : map e_res (hist s) = snd (seq_run s0 (map e_call (hist s)))) by (rewrite (I_hist _ _ _ IV); reflexivity).
  split; [exact E|]. rewrite E. split; [apply one_winner_l|apply success_visible_l].
Qed.
Print Assumptions concurrent_consequences.

(* GetOrLoadClass AS A WHOLE (GetClass; LoadClass pre-check; LoadAndRun under the re-entrant load lock of
   runtime/load_lock.go: mark, parse = register; GetClass): for every number of threads, every per-thread list of
   autoloadable class names and every schedule, no call ever fails ("class not found in file" is unreachable) ... *)
Theorem getorload_never_fails : forall progs sched i t,
  nth_error (AutoloadModel.thr (arun true (ainit progs) sched)) i = Some t ->
  Forall (fun r => exists d, r = Found d) (rets t).
Proof. exact never_fails_l. Qed.
Print Assumptions getorload_never_fails.
(* ... every file is parsed at most once ... *)
Theorem autoload_file_parsed_once : forall progs sched, NoDup (parses (arun true (ainit progs) sched)).
Proof. exact parsed_once_l. Qed.
Print Assumptions autoload_file_parsed_once.
(* ... and every call returns exactly what the ATOMIC GetOrLoadClass of the sequential specification returns
   (the class asked for), in program order: the composite call is linearizable as a whole *)
Theorem getorload_answers_atomic : forall progs sched i t p,
  nth_error progs i = Some p -> nth_error (AutoloadModel.thr (arun true (ainit progs) sched)) i = Some t ->
  rets t = map Found (firstn (List.length (rets t)) p) /\ (AutoloadModel.todo t = [] -> rets t = map Found p).
Proof. exact answers_atomic_l. Qed.
Print Assumptions getorload_answers_atomic.

(* "every registration that reported success is visible to all LATER lookups", across threads: the
   linearization respects real time.  Cut any execution at any point (state s1 after sched1): the linearization
   recorded by then already contains every call that has RETURNED by then, contains only calls STARTED by then,
   and everything that happens afterwards is appended.  So a call that returned before another one was invoked
   precedes it in H; with success_visible_later this gives visibility to all later lookups of any thread. *)
Theorem real_time_order : forall s0 progs sched1 sched2,
  let s1 := crun (cinit s0 progs) sched1 in
  let s2 := crun (cinit s0 progs) (sched1 ++ sched2) in
  (exists tail, hist s2 = (hist s1 ++ tail)%list) /\
  (forall i, (i < List.length progs)%nat ->
     map e_call (of_thread i (hist s1)) = started_of s1 i /\
     (List.length (returned_of s1 i) <= List.length (of_thread i (hist s1)))%nat).
Proof. exact real_time_order_l. Qed.
Print Assumptions real_time_order.
