(* C10 — non-vacuity and the pre-fix witnesses (KNOWN_FINDINGS: fixed dbf4bcf, 5c4db1b, 0d5ed75). *)
From V.C10 Require Import Spec Lock Model Proofs AutoloadModel AutoloadProofs.
Open Scope string_scope.

(* ---- the lock table of runtime/vm.go BEFORE the fixes (as the walker printed it for 6d28fe1) *)
Definition old_table : table :=
  [ ("AddClass", [ARLock; ARead 3; ARead 4; AWrite 3; ARUnlock]);
    ("AddFunc", [ARLock; ARead 5; AWrite 5; ARUnlock]);
    ("AddInterface", [ARLock; ARead 3; ARead 4; AWrite 4; ARUnlock]);
    ("EnterCall", [ARead 14; AWrite 14; ARead 14]);
    ("GetClass", [ARead 3; ARead 3]);
    ("GetFunc", [ARead 5; ARead 5]);
    ("GetInterface", [ARead 4]);
    ("SetConstant", [ALock; ARead 6; AWrite 6; AUnlock]) ].
Example old_table_not_well_locked :
  well_locked old_table = false /\
  ill_locked old_table = ["AddClass"; "AddFunc"; "AddInterface"; "EnterCall"; "GetClass"; "GetFunc"; "GetInterface"].
Proof. split; reflexivity. Qed.

(* two threads in AddClass (write under the READ lock): a schedule reaching two concurrent writes of classMap *)
Example old_vm_race_refuted :
  exists sched, race (LockDiscipline.run (init_state [[ARLock; ARead 3; ARead 4; AWrite 3; ARUnlock];
                                       [ARLock; ARead 3; ARead 4; AWrite 3; ARUnlock]]) sched).
Proof.
  exists [0; 1; 0; 0; 1; 1]%nat. unfold race. vm_compute.
  exists 0%nat, 1%nat, (Shared, [AWrite 3; ARUnlock]), (Shared, [AWrite 3; ARUnlock]), true, true, 3%nat.
  repeat split; auto. discriminate.
Qed.
(* a lock-free GetClass racing with AddClass's write *)
Example old_vm_read_write_race_refuted :
  exists sched, race (LockDiscipline.run (init_state [[ARLock; ARead 3; ARead 4; AWrite 3; ARUnlock]; [ARead 3; ARead 3]]) sched).
Proof.
  exists [0; 0; 0]%nat. unfold race. vm_compute.
  exists 0%nat, 1%nat, (Shared, [AWrite 3; ARUnlock]), (Free, [ARead 3; ARead 3]), true, false, 3%nat.
  repeat split; auto. discriminate.
Qed.

(* with the pre-fix lock modes (Add* under the shared lock) the fine-grained machine is NOT linearizable:
   two AddFunc of one name both succeed — no sequential order gives [ROk] and [ROk] *)
Definition old_modes (c : call) : mode := match c with CAdd _ _ _ => MShared | c => mode_of c end.
Example old_two_winners_refuted :
  let s := crun_gen old_modes (cinit store0 [[CAdd KF "f" 1]; [CAdd KF "f" 2]]) [0; 1; 0; 1; 0; 1; 0; 1]%nat in
  returned_of s 0 = [ROk] /\ returned_of s 1 = [ROk].
Proof. vm_compute. split; reflexivity. Qed.
(* the same programs and schedule with the code's modes: the second registrant is rejected *)
Example two_adds_one_winner :
  let s := crun (cinit store0 [[CAdd KF "f" 1]; [CAdd KF "f" 2]]) [0; 1; 0; 1; 0; 1; 0; 1; 1; 1; 1]%nat in
  returned_of s 0 = [ROk] /\ returned_of s 1 = [RErr] /\ quiescent s.
Proof.
  vm_compute. repeat split. intros t [<-|[<-|[]]]; reflexivity.
Qed.

(* a contended run with readers and writers: results, and the linearization the machine records *)
Example contended_run :
  let s := crun (cinit store0 [[CAdd KC "A" 1; CGet KC "a"]; [CGet KC "A"; CAdd KC "A" 2]; [CGet KC "A"]])
                [1; 2; 0; 1; 2; 1; 2; 1; 2; 0; 0; 0; 0; 0; 1; 1; 1; 0; 0; 0; 0; 0]%nat in
  returned_of s 0 = [ROk; RFound [1]] /\ returned_of s 1 = [RFound []; RErr] /\ returned_of s 2 = [RFound []] /\
  map e_tid (hist s) = [1; 2; 0; 1; 0]%nat.
Proof. vm_compute. repeat split. Qed.

(* hypotheses of the generic theorem are satisfiable: a well-locked table and programs built from it,
   including a path that skips an access and a path that repeats one *)
Definition small_table : table :=
  [ ("AddFunc", [ALock; ARead 5; AWrite 5; AUnlock]); ("GetFunc", [ARLock; ARead 5; ARead 5; ARUnlock]) ].
Example small_table_ok : well_locked small_table = true. Proof. reflexivity. Qed.
Example small_prog_from_table :
  from_table small_table ([ALock; ARead 5; AUnlock] ++ [ARLock; ARead 5; ARead 5; ARead 5; ARUnlock]).
Proof.
  exists [[ALock; ARead 5; AUnlock]; [ARLock; ARead 5; ARead 5; ARead 5; ARUnlock]]. split; [reflexivity|].
  repeat constructor.
  - exists ("AddFunc", [ALock; ARead 5; AWrite 5; AUnlock]). split; [left; reflexivity|].
    simpl. apply sub_keep, sub_keep, sub_skip; [reflexivity|]. apply sub_keep. constructor.
  - exists ("GetFunc", [ARLock; ARead 5; ARead 5; ARUnlock]). split; [right; left; reflexivity|].
    simpl. apply sub_keep, sub_keep, sub_rep; [reflexivity|]. apply sub_keep, sub_keep. constructor.
Qed.

(* one_winner / success_visible hypotheses are met by real histories *)
Example seq_history :
  snd (seq_run store0 [CAdd KC "A" 1; CAdd KC "A" 2; CAdd KC "A" 1; CAdd KI "A" 1; CGet KC "a"; CAdd KF "f" 1; CAdd KF "f" 1; CGet KF "\f"])
  = [ROk; RErr; ROk; RErr; RFound [1]; ROk; RErr; RFound [1]].
Proof. reflexivity. Qed.

(* BEFORE fix 304abde GetOrLoadClass was GetClass; [unlocked: GetPhpFileCache, SetPhpFileCache, parse, AddClass];
   GetClass with nothing serialising the middle part.  Every piece is linearizable (registry_linearizable), yet
   the whole was not: a second thread could observe "file already marked loaded" while the class was not
   registered yet — the state in which LoadClass gave up with "class not found in file".  This schedule of the
   piecewise machine shows that window; with the load lock of 304abde (AutoloadModel.v, lk = true) thread 1
   cannot read the file mark between thread 0's SetPhpFileCache and AddClass. *)
Example autoload_window_refuted :
  let s := crun (cinit store0 [[CGet KC "P"; CGetFile "P.php"; CSetFile "P.php"; CAdd KC "P" 1; CGet KC "P"];
                               [CGet KC "P"; CGetFile "P.php"; CGet KC "P"]])
                [0;0;0;0; 0;0;0; 0;0;0;  1;1;1;1; 1;1;1; 1;1;1;1;  0;0;0;0;0;0; 0;0;0;0;0]%nat in
  returned_of s 1 = [RFound []; RFound [1]; RFound []] /\
  returned_of s 0 = [RFound []; RFound []; ROk; ROk; RFound [1]].
Proof. vm_compute. split; reflexivity. Qed.

(* the composite GetOrLoadClass machine BEFORE fix 304abde (no load lock): thread 1 finds the file marked while
   thread 0 is still parsing it and reports "class 7 not found in file" *)
Example getorload_refuted_without_load_lock :
  let s := arun false (ainit [[7]; [7]]%nat) [0;0;0;0;0; 1;1;1;1;1;1;1; 0;0;0]%nat in
  map rets (AutoloadModel.thr s) = [[Found 7%nat]; [NotFound 7%nat]].
Proof. vm_compute. reflexivity. Qed.
(* the same schedule with the lock: thread 1 waits at the lock, then finds the class *)
Example getorload_with_load_lock :
  let s := arun true (ainit [[7]; [7]]%nat) [0;0;0;0;0; 1;1;1;1;1;1;1; 0;0;0; 1;1;1;1;1]%nat in
  map rets (AutoloadModel.thr s) = [[Found 7%nat]; [Found 7%nat]] /\ parses s = [7]%nat.
Proof. vm_compute. split; reflexivity. Qed.
