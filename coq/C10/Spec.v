(* C10 — VM registries stay consistent under concurrent definition and lookup.
   This file: the calls, the SEQUENTIAL registry specification (what one call does to the tables when
   nothing else runs) and the property: every concurrent execution is explained by one sequential
   order of the same calls (linearizability), plus the two consequences the property text names.
   The sequential rules for classes/interfaces/functions are those of the base VM as specified (and
   tied to the code, sequentially) in C12: duplicate rejection, same-file re-add, case-insensitive
   class fallback, backslash stripping. *)
From V.C12 Require Export Spec Model.

Inductive call :=
| CAdd (k : kind) (n : name) (d : def)        (* AddClass / AddInterface / AddFunc *)
| CGet (k : kind) (n : name)                  (* GetClass / GetInterface / GetFunc *)
| CSetConst (n : name) (x : Z) | CGetConst (n : name)
| CEnsureGlobal (n : name) (fresh : Z)        (* EnsureGlobalZVal; `fresh` = identity of the cell it would create *)
| CSetFile (f : name) | CGetFile (f : name).  (* Set/GetPhpFileCache (normalised, non-empty path) *)

Record store := { s_reg : reg; s_const : amap; s_glob : amap; s_file : amap }.
Definition store0 : store := {| s_reg := empty_reg; s_const := []; s_glob := []; s_file := [] |}.

Definition reg_step (c : call) (s : store) : store * result :=
  match c with
  | CAdd k n d => let (r', ok) := b_add (s_reg s) k n d in
                  ({| s_reg := r'; s_const := s_const s; s_glob := s_glob s; s_file := s_file s |},
                   if ok then ROk else RErr)
  | CGet KC n => (s, RFound (b_get_class (s_reg s) n))
  | CGet KI n => (s, RFound (b_get_iface (s_reg s) n))
  | CGet KF n => (s, RFound (b_get_func (s_reg s) n))
  | CSetConst n x => match aget (s_const s) n with
                     | Some _ => (s, RErr)
                     | None => ({| s_reg := s_reg s; s_const := aset (s_const s) n x; s_glob := s_glob s; s_file := s_file s |}, ROk)
                     end
  | CGetConst n => (s, RFound (olist (aget (s_const s) (strip n))))
  | CEnsureGlobal n z => match aget (s_glob s) n with
                         | Some y => (s, RFound [y])
                         | None => ({| s_reg := s_reg s; s_const := s_const s; s_glob := aset (s_glob s) n z; s_file := s_file s |}, RFound [z])
                         end
  | CSetFile f => ({| s_reg := s_reg s; s_const := s_const s; s_glob := s_glob s; s_file := aset (s_file s) f 1 |}, ROk)
  | CGetFile f => (s, RFound (olist (aget (s_file s) f)))
  end.

Fixpoint seq_run (s : store) (cs : list call) : store * list result :=
  match cs with
  | [] => (s, [])
  | c :: r => let (s1, x) := reg_step c s in let (s2, xs) := seq_run s1 r in (s2, x :: xs)
  end.

(* one entry of a linearization: which thread, which call, what it returned *)
Definition lentry := (nat * call * result)%type.
Definition e_tid (e : lentry) : nat := fst (fst e).
Definition e_call (e : lentry) : call := snd (fst e).
Definition e_res (e : lentry) : result := snd e.
Definition of_thread (i : nat) (H : list lentry) : list lentry := filter (fun e => Nat.eqb (e_tid e) i) H.

(* LINEARIZABLE: there is ONE sequential order H of the calls that were started such that
   (a) H is a legal sequential execution from the initial tables: every entry carries exactly the result
       the sequential specification gives at that point;
   (b) thread i started exactly its entries of H, in its program order;
   (c) every result thread i has got back is the result H assigns to that call (a call still in
       flight has its entry but no returned result yet);
   (d) when nothing is in flight the tables are exactly those the sequential execution of H produces.
   started i / returned i / tables / quiet describe the concurrent execution observed from outside. *)
Definition linearizable (s0 : store) (nthreads : nat)
           (started : nat -> list call) (returned : nat -> list result)
           (tables : store) (quiet : Prop) : Prop :=
  exists H : list lentry,
    snd (seq_run s0 (map e_call H)) = map e_res H /\
    (forall i, (i < nthreads)%nat -> map e_call (of_thread i H) = started i) /\
    (forall i, (i < nthreads)%nat -> exists pending, map e_res (of_thread i H) = (returned i ++ pending)%list /\ (List.length pending <= 1)%nat) /\
    (quiet -> tables = fst (seq_run s0 (map e_call H))).

(* consequences named in the property text, stated on sequential histories (they transfer to every
   concurrent execution through linearizability) *)
(* "a duplicate name is rejected for all but one registrant": two successful registrations of the same
   class/interface name carry the same definition (a same-file re-declaration is skipped and reports
   success); a function or constant name has at most one successful registrant *)
Definition one_winner (cs : list call) (rs : list result) : Prop :=
  forall i j k n d1 d2, i <> j ->
    nth_error cs i = Some (CAdd k n d1) -> nth_error cs j = Some (CAdd k n d2) ->
    nth_error rs i = Some ROk -> nth_error rs j = Some ROk ->
    d1 = d2 /\ k <> KF.
(* "every registration that reported success is visible to all later lookups" *)
Definition success_visible (cs : list call) (rs : list result) : Prop :=
  forall i j k n d, (i < j)%nat ->
    nth_error cs i = Some (CAdd k n d) -> nth_error rs i = Some ROk ->
    nth_error cs j = Some (CGet k n) ->
    exists l, nth_error rs j = Some (RFound l) /\ l <> [].
