(* C10 — executable model of the VM registry methods of runtime/vm.go AT THE GRANULARITY OF SINGLE MAP
   ACCESSES, under the VM's RWMutex, run by any number of threads under any schedule.  No proofs here.

   A method = the lock it takes (mode) + a body: a resumption program whose only shared-state actions
   are one read of one key of one map, one range over one map, one write of one key of one map.
   Bodies are transcribed from the Go methods (after fix commits, see DESIGN.md §9 C10); the lock modes
   and the access skeleton of every body are re-checked against the lock table regenerated from the
   source on every run (obligation `skeleton_ok`, generated file).
   GetOrLoadClass / GetOrLoadInterface / LoadPkg are NOT single methods here: in the code they are
   sequences of these atomic pieces with an unlocked autoload in between, and a thread program (an
   arbitrary list of calls) expresses exactly that. *)
From V.C10 Require Export Spec.

Inductive body :=
| Ret (r : result)
| Rd (m : nat) (k : name) (c : option def -> body)      (* v, ok := vm.<m>[k] *)
| RdAll (m : nat) (c : amap -> body)                    (* for k, v := range vm.<m> *)
| Wr (m : nat) (k : name) (v : def) (c : body).         (* vm.<m>[k] = v *)

(* map ids *)
Definition M_cls := 0%nat. Definition M_ifc := 1%nat. Definition M_fn := 2%nat.
Definition M_const := 3%nat. Definition M_glob := 4%nat. Definition M_file := 5%nat.
Definition field_name (m : nat) : string :=
  match m with 0 => "classMap" | 1 => "interfaceMap" | 2 => "funcMap" | 3 => "constantMap"
             | 4 => "globalVars" | _ => "phpFileCache" end%nat.

Definition sget (s : store) (m : nat) : amap :=
  match m with 0 => cls (s_reg s) | 1 => ifc (s_reg s) | 2 => fn (s_reg s) | 3 => s_const s | 4 => s_glob s | _ => s_file s end%nat.
Definition sset (s : store) (m : nat) (v : amap) : store :=
  match m with
  | 0 => {| s_reg := {| cls := v; ifc := ifc (s_reg s); fn := fn (s_reg s) |}; s_const := s_const s; s_glob := s_glob s; s_file := s_file s |}
  | 1 => {| s_reg := {| cls := cls (s_reg s); ifc := v; fn := fn (s_reg s) |}; s_const := s_const s; s_glob := s_glob s; s_file := s_file s |}
  | 2 => {| s_reg := {| cls := cls (s_reg s); ifc := ifc (s_reg s); fn := v |}; s_const := s_const s; s_glob := s_glob s; s_file := s_file s |}
  | 3 => {| s_reg := s_reg s; s_const := v; s_glob := s_glob s; s_file := s_file s |}
  | 4 => {| s_reg := s_reg s; s_const := s_const s; s_glob := v; s_file := s_file s |}
  | _ => {| s_reg := s_reg s; s_const := s_const s; s_glob := s_glob s; s_file := v |}
  end%nat.

(* running a body alone, to completion *)
Fixpoint exec_seq (b : body) (s : store) : store * result :=
  match b with
  | Ret r => (s, r)
  | Rd m k c => exec_seq (c (aget (sget s m) k)) s
  | RdAll m c => exec_seq (c (sget s m)) s
  | Wr m k v c => exec_seq c (sset s m (aset (sget s m) k v))
  end.

Inductive mode := MShared | MExcl.

(* ---- the methods, as written in runtime/vm.go *)
Definition same_file (d h : def) : result := if Z.eqb d h then ROk else RErr.
Definition body_add_class (n : name) (d : def) : body :=
  Rd M_cls n (fun a => match a with
    | Some h => Ret (same_file d h)
    | None => Rd M_ifc n (fun b => match b with
        | Some _ => Ret RErr
        | None => Wr M_cls n d (Ret ROk) end) end).
Definition body_add_iface (n : name) (d : def) : body :=
  Rd M_cls n (fun a => match a with
    | Some _ => Ret RErr
    | None => Rd M_ifc n (fun b => match b with
        | Some h => Ret (same_file d h)
        | None => Wr M_ifc n d (Ret ROk) end) end).
Definition body_add_func (n : name) (d : def) : body :=
  Rd M_fn n (fun a => match a with Some _ => Ret RErr | None => Wr M_fn n d (Ret ROk) end).
(* findClassCaseInsensitive: exact key, else range over the map and keep the smallest matching key *)
Definition body_get_class (n : name) : body :=
  Rd M_cls n (fun a => match a with
    | Some d => Ret (RFound [d])
    | None => RdAll M_cls (fun m => Ret (RFound (olist (option_map snd (min_key (filter (fun p => fold_eqb (fst p) n) m)))))) end).
Definition body_get_iface (n : name) : body := Rd M_ifc n (fun a => Ret (RFound (olist a))).
Definition body_get_func (n : name) : body :=
  Rd M_fn n (fun a => match a with
    | Some d => Ret (RFound [d])
    | None => if has_bslash n then Rd M_fn (strip n) (fun b => Ret (RFound (olist b))) else Ret (RFound []) end).
Definition body_set_const (n : name) (x : Z) : body :=
  Rd M_const n (fun a => match a with Some _ => Ret RErr | None => Wr M_const n x (Ret ROk) end).
Definition body_get_const (n : name) : body := Rd M_const (strip n) (fun a => Ret (RFound (olist a))).
Definition body_ensure_global (n : name) (z : Z) : body :=
  Rd M_glob n (fun a => match a with Some y => Ret (RFound [y]) | None => Wr M_glob n z (Ret (RFound [z])) end).
Definition body_set_file (f : name) : body := Wr M_file f 1 (Ret ROk).
Definition body_get_file (f : name) : body := Rd M_file f (fun a => Ret (RFound (olist a))).

Definition body_of (c : call) : body :=
  match c with
  | CAdd KC n d => body_add_class n d | CAdd KI n d => body_add_iface n d | CAdd KF n d => body_add_func n d
  | CGet KC n => body_get_class n | CGet KI n => body_get_iface n | CGet KF n => body_get_func n
  | CSetConst n x => body_set_const n x | CGetConst n => body_get_const n
  | CEnsureGlobal n z => body_ensure_global n z
  | CSetFile f => body_set_file f | CGetFile f => body_get_file f
  end.
(* the lock each method takes *)
Definition mode_of (c : call) : mode :=
  match c with
  | CAdd _ _ _ | CSetConst _ _ | CEnsureGlobal _ _ | CSetFile _ => MExcl
  | CGet _ _ | CGetConst _ | CGetFile _ => MShared
  end.
Definition go_name (c : call) : string :=
  match c with
  | CAdd KC _ _ => "AddClass" | CAdd KI _ _ => "AddInterface" | CAdd KF _ _ => "AddFunc"
  | CGet KC _ => "GetClass" | CGet KI _ => "GetInterface" | CGet KF _ => "GetFunc"
  | CSetConst _ _ => "SetConstant" | CGetConst _ => "GetConstant" | CEnsureGlobal _ _ => "EnsureGlobalZVal"
  | CSetFile _ => "SetPhpFileCache" | CGetFile _ => "GetPhpFileCache"
  end.

(* ---- the concurrent machine.  Ghost fields (never read by the machine itself): sigmaA, hist, lin,
   started, pred. *)
Inductive tst := Idle | InCS (md : mode) (b : body) (pred : result).
Record thread := { todo : list call; st : tst; done : list result; lin : list result; started : list call }.
Record cstate := { sigma : store; thr : list thread; sigmaA : store; hist : list lentry }.

Definition in_cs (t : thread) : bool := match st t with Idle => false | _ => true end.
Definition in_excl (t : thread) : bool := match st t with InCS MExcl _ _ => true | _ => false end.

Fixpoint updt (l : list thread) (i : nat) (t : thread) : list thread :=
  match l, i with [], _ => [] | _ :: r, O => t :: r | x :: r, S j => x :: updt r j t end.

(* one step of thread i; None = blocked (lock not available) or finished.  `mo` = the lock each method
   takes (mode_of for the code as it is; Examples.v instantiates it with the pre-fix modes) *)
Definition cstep_gen (mo : call -> mode) (s : cstate) (i : nat) : option cstate :=
  match nth_error (thr s) i with
  | None => None
  | Some t =>
    match st t with
    | Idle =>
      match todo t with
      | [] => None
      | c :: rest =>
        match mo c with
        | MExcl =>
          (* vm.mu.Lock(): nobody holds the lock in any mode *)
          if existsb in_cs (thr s) then None else
          let (s1, r) := exec_seq (body_of c) (sigma s) in
          Some {| sigma := sigma s;
                  thr := updt (thr s) i {| todo := rest; st := InCS MExcl (body_of c) r; done := done t;
                                           lin := (lin t ++ [r])%list; started := (started t ++ [c])%list |};
                  sigmaA := s1; hist := (hist s ++ [(i, c, r)])%list |}
        | MShared =>
          (* vm.mu.RLock(): nobody holds it exclusively *)
          if existsb in_excl (thr s) then None else
          let r := snd (exec_seq (body_of c) (sigma s)) in
          Some {| sigma := sigma s;
                  thr := updt (thr s) i {| todo := rest; st := InCS MShared (body_of c) r; done := done t;
                                           lin := (lin t ++ [r])%list; started := (started t ++ [c])%list |};
                  sigmaA := sigmaA s; hist := (hist s ++ [(i, c, r)])%list |}
        end
      end
    | InCS md b p =>
      let keep b' := {| todo := todo t; st := InCS md b' p; done := done t; lin := lin t; started := started t |} in
      match b with
      | Rd m k c => Some {| sigma := sigma s; thr := updt (thr s) i (keep (c (aget (sget (sigma s) m) k)));
                            sigmaA := sigmaA s; hist := hist s |}
      | RdAll m c => Some {| sigma := sigma s; thr := updt (thr s) i (keep (c (sget (sigma s) m)));
                             sigmaA := sigmaA s; hist := hist s |}
      | Wr m k v c => Some {| sigma := sset (sigma s) m (aset (sget (sigma s) m) k v); thr := updt (thr s) i (keep c);
                              sigmaA := sigmaA s; hist := hist s |}
      | Ret r => (* unlock and return r *)
                 Some {| sigma := sigma s;
                         thr := updt (thr s) i {| todo := todo t; st := Idle; done := (done t ++ [r])%list;
                                                  lin := lin t; started := started t |};
                         sigmaA := sigmaA s; hist := hist s |}
      end
    end
  end.

Definition cstep := cstep_gen mode_of.

Fixpoint crun_gen (mo : call -> mode) (s : cstate) (sched : list nat) : cstate :=
  match sched with [] => s | i :: r => match cstep_gen mo s i with Some s' => crun_gen mo s' r | None => crun_gen mo s r end end.

Fixpoint crun (s : cstate) (sched : list nat) : cstate :=
  match sched with [] => s | i :: r => match cstep s i with Some s' => crun s' r | None => crun s r end end.

Definition cinit (s0 : store) (progs : list (list call)) : cstate :=
  {| sigma := s0; sigmaA := s0; hist := [];
     thr := map (fun p => {| todo := p; st := Idle; done := []; lin := []; started := [] |}) progs |}.

Definition quiescent (s : cstate) : Prop := forall t, In t (thr s) -> st t = Idle.
Definition started_of (s : cstate) (i : nat) : list call := match nth_error (thr s) i with Some t => started t | None => [] end.
Definition returned_of (s : cstate) (i : nat) : list result := match nth_error (thr s) i with Some t => done t | None => [] end.

(* ---- access skeleton of a body, for the tie with the regenerated lock table: all paths obtained by
   answering every read with "absent" and with "present" *)
From V.C10 Require Import Lock.
Fixpoint paths (b : body) : list (list act) :=
  match b with
  | Ret _ => [[]]
  | Rd m _ c => map (cons (ARead m)) (paths (c None) ++ paths (c (Some 0)))
  | RdAll m c => map (cons (ARead m)) (paths (c []) ++ paths (c [(""%string, 0)]))
  | Wr m _ _ c => map (cons (AWrite m)) (paths c)
  end.
Definition locked_paths (md : mode) (b : body) : list (list act) :=
  map (fun p => match md with MExcl => ALock :: p ++ [AUnlock] | MShared => ARLock :: p ++ [ARUnlock] end)%list (paths b).
(* one representative call per method *)
Definition method_calls : list call :=
  [CAdd KC "n" 1; CAdd KI "n" 1; CAdd KF "n" 1; CGet KC "n"; CGet KI "n"; CGet KF "\n";
   CSetConst "n" 1; CGetConst "n"; CEnsureGlobal "n" 1; CSetFile "n"; CGetFile "n"].
