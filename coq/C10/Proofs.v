(* C10 — proofs: every schedule of the fine-grained machine is linearizable w.r.t. the sequential
   registry specification (linearization point: lock acquisition), and the sequential consequences. *)
From Coq Require Import Lia.
From V.C12 Require Import Proofs.
From V.C10 Require Import Spec Model.

(* ---------------------------------------------------------------- bodies vs. sequential specification *)
Lemma store_eta s : {| s_reg := s_reg s; s_const := s_const s; s_glob := s_glob s; s_file := s_file s |} = s.
Proof. destruct s; reflexivity. Qed.
Lemma reg_eta r : {| cls := cls r; ifc := ifc r; fn := fn r |} = r.
Proof. destruct r; reflexivity. Qed.

Lemma exec_seq_spec c s : exec_seq (body_of c) s = reg_step c s.
Proof.
  destruct s as [r cs gs fs]. destruct r as [c0 i0 f0].
  destruct c as [k n d|k n|n x|n|n z|f|f]; try destruct k; simpl;
    unfold same_file, b_get_class, ci_get, b_get_iface, b_get_func; simpl;
    repeat match goal with
           | |- context [match aget ?m ?n with _ => _ end] => destruct (aget m n) eqn:?; simpl
           | |- context [if ?b then _ else _] => destruct b eqn:?; simpl
           end; try reflexivity; try congruence.
Qed.

Inductive nowrite : body -> Prop :=
| nw_ret r : nowrite (Ret r)
| nw_rd m k c : (forall a, nowrite (c a)) -> nowrite (Rd m k c)
| nw_rdall m c : (forall a, nowrite (c a)) -> nowrite (RdAll m c).

Lemma nowrite_exec b : nowrite b -> forall s, fst (exec_seq b s) = s.
Proof. induction 1; intros s; simpl; auto. Qed.

Lemma shared_nowrite c : mode_of c = MShared -> nowrite (body_of c).
Proof.
  destruct c as [k n d|k n|n x|n|n z|f|f]; simpl; try discriminate; intros _.
  - destruct k; simpl.
    + constructor. intros [d|]; repeat constructor.
    + constructor. intros; constructor.
    + constructor. intros [d|]; [constructor|]. destruct (has_bslash n); repeat constructor.
  - constructor; intros; constructor.
  - constructor; intros; constructor.
Qed.

(* ---------------------------------------------------------------- thread list lemmas *)
Lemma nth_updt_same l i t x : nth_error l i = Some x -> nth_error (updt l i t) i = Some t.
Proof. revert i; induction l as [|y l IH]; intros [|i] H; simpl in *; try discriminate; auto. Qed.
Lemma nth_updt_other l i j t : i <> j -> nth_error (updt l i t) j = nth_error l j.
Proof. revert i j; induction l as [|y l IH]; intros [|i] [|j] H; simpl; auto; try lia. Qed.
Lemma updt_length l i t : List.length (updt l i t) = List.length l.
Proof. revert i; induction l; intros [|i]; simpl; auto. Qed.
Lemma nth_updt_inv l i t x j tj : nth_error l i = Some x -> nth_error (updt l i t) j = Some tj ->
  (j = i /\ tj = t) \/ (j <> i /\ nth_error l j = Some tj).
Proof.
  intros Hi Hj. destruct (Nat.eq_dec j i) as [->|N].
  - rewrite (nth_updt_same _ _ _ _ Hi) in Hj. left; split; congruence.
  - rewrite nth_updt_other in Hj by auto. right; auto.
Qed.

Lemma existsb_false_nth (f : thread -> bool) l i t : existsb f l = false -> nth_error l i = Some t -> f t = false.
Proof.
  intros E H. destruct (f t) eqn:F; auto.
  assert (existsb f l = true) by (apply existsb_exists; exists t; split; auto; eapply nth_error_In; eauto). congruence.
Qed.
Lemma existsb_true_nth (f : thread -> bool) l i t : nth_error l i = Some t -> f t = true -> existsb f l = true.
Proof. intros H F. apply existsb_exists. exists t; split; auto. eapply nth_error_In; eauto. Qed.
Lemma existsb_updt_same (f : thread -> bool) l i t t' :
  nth_error l i = Some t -> f t' = f t -> existsb f (updt l i t') = existsb f l.
Proof.
  revert i. induction l as [|y l IH]; intros [|i] H E; simpl in *; try discriminate; auto.
  - inversion H; subst. rewrite E. reflexivity.
  - rewrite (IH i); auto.
Qed.
Lemma in_excl_in_cs t : in_excl t = true -> in_cs t = true.
Proof. unfold in_excl, in_cs. destruct (st t) as [|[] ? ?]; auto; discriminate. Qed.

Lemma seq_run_app s0 cs c :
  seq_run s0 (cs ++ [c]) =
  (fst (reg_step c (fst (seq_run s0 cs))), snd (seq_run s0 cs) ++ [snd (reg_step c (fst (seq_run s0 cs)))])%list.
Proof.
  revert s0. induction cs as [|x cs IH]; intros s0; simpl.
  - destruct (reg_step c s0); reflexivity.
  - destruct (reg_step x s0) as [s1 r1]. rewrite IH. destruct (seq_run s1 cs); reflexivity.
Qed.

Lemma of_thread_app i H e : of_thread i (H ++ [e]) = (of_thread i H ++ if Nat.eqb (e_tid e) i then [e] else [])%list.
Proof. unfold of_thread. rewrite filter_app. simpl. destruct (Nat.eqb (e_tid e) i); reflexivity. Qed.

(* ---------------------------------------------------------------- the invariant *)
Definition pending (t : thread) : list result := match st t with Idle => [] | InCS _ _ p => [p] end.

Record Inv (s0 : store) (progs : list (list call)) (s : cstate) : Prop := {
  I_mutex : forall i j ti tj, i <> j -> nth_error (thr s) i = Some ti -> nth_error (thr s) j = Some tj ->
              in_excl ti = true -> in_cs tj = false;
  I_nowrite : forall i t b p, nth_error (thr s) i = Some t -> st t = InCS MShared b p -> nowrite b;
  I_noexcl : existsb in_excl (thr s) = false -> sigma s = sigmaA s;
  I_shared : forall i t b p, nth_error (thr s) i = Some t -> st t = InCS MShared b p -> exec_seq b (sigma s) = (sigma s, p);
  I_excl : forall i t b p, nth_error (thr s) i = Some t -> st t = InCS MExcl b p -> exec_seq b (sigma s) = (sigmaA s, p);
  I_hist : seq_run s0 (map e_call (hist s)) = (sigmaA s, map e_res (hist s));
  I_lin : forall i t, nth_error (thr s) i = Some t -> lin t = (done t ++ pending t)%list;
  I_prog : forall i t, nth_error (thr s) i = Some t -> nth_error progs i = Some (started t ++ todo t)%list;
  I_ht : forall i t, nth_error (thr s) i = Some t ->
           map e_call (of_thread i (hist s)) = started t /\ map e_res (of_thread i (hist s)) = lin t;
  I_len : List.length (thr s) = List.length progs
}.

Lemma inv_init s0 progs : Inv s0 progs (cinit s0 progs).
Proof.
  assert (N : forall i t, nth_error (thr (cinit s0 progs)) i = Some t ->
              exists p, nth_error progs i = Some p /\ t = {| todo := p; st := Idle; done := []; lin := []; started := [] |}).
  { intros i t H. simpl in H. rewrite nth_error_map in H. destruct (nth_error progs i); inversion H. eauto. }
  constructor; simpl; auto.
  - intros i j ti tj _ Hi _ E. destruct (N _ _ Hi) as (p & _ & ->). discriminate.
  - intros i t b p H E. destruct (N _ _ H) as (q & _ & ->). discriminate.
  - intros i t b p H E. destruct (N _ _ H) as (q & _ & ->). discriminate.
  - intros i t b p H E. destruct (N _ _ H) as (q & _ & ->). discriminate.
  - intros i t H. destruct (N _ _ H) as (q & _ & ->). reflexivity.
  - intros i t H. destruct (N _ _ H) as (q & Hq & ->). simpl. auto.
  - intros i t H. destruct (N _ _ H) as (q & _ & ->). simpl. auto.
  - apply map_length.
Qed.

Lemma inv_step s0 progs s i s' : Inv s0 progs s -> cstep s i = Some s' -> Inv s0 progs s'.
Proof.
  intros IV. unfold cstep, cstep_gen. destruct (nth_error (thr s) i) as [t|] eqn:Ti; [|discriminate].
  destruct (st t) as [|md b p] eqn:St.
  - (* ---- acquisition *)
    destruct (todo t) as [|c rest] eqn:Td; [discriminate|].
    destruct (mode_of c) eqn:Mo.
    + (* shared *)
      destruct (existsb in_excl (thr s)) eqn:NX; [discriminate|].
      intros E; inversion E; subst s'; clear E.
      pose proof (I_noexcl _ _ _ IV NX) as SA.
      pose proof (shared_nowrite c Mo) as NW.
      assert (EX : exec_seq (body_of c) (sigma s) = (sigma s, snd (exec_seq (body_of c) (sigma s)))).
      { rewrite <- (nowrite_exec _ NW (sigma s)) at 2. destruct (exec_seq (body_of c) (sigma s)); reflexivity. }
      set (r := snd (exec_seq (body_of c) (sigma s))) in *.
      set (t' := {| todo := rest; st := InCS MShared (body_of c) r; done := done t; lin := (lin t ++ [r])%list; started := (started t ++ [c])%list |}).
      constructor; simpl.
      * intros a b' ta tb N Ha Hb Ea.
        destruct (nth_updt_inv _ _ _ _ _ _ Ti Ha) as [[-> ->]|[Na Ha']]; [discriminate|].
        exfalso. pose proof (existsb_false_nth _ _ _ _ NX Ha'). congruence.
      * intros a ta b' p' Ha Sa. destruct (nth_updt_inv _ _ _ _ _ _ Ti Ha) as [[-> ->]|[Na Ha']].
        -- simpl in Sa. inversion Sa; subst. exact NW.
        -- eapply (I_nowrite _ _ _ IV); eauto.
      * intros _. exact SA.
      * intros a ta b' p' Ha Sa. destruct (nth_updt_inv _ _ _ _ _ _ Ti Ha) as [[-> ->]|[Na Ha']].
        -- simpl in Sa. inversion Sa; subst. exact EX.
        -- eapply (I_shared _ _ _ IV); eauto.
      * intros a ta b' p' Ha Sa. destruct (nth_updt_inv _ _ _ _ _ _ Ti Ha) as [[-> ->]|[Na Ha']].
        -- simpl in Sa. discriminate.
        -- eapply (I_excl _ _ _ IV); eauto.
      * rewrite !map_app. cbn [map e_call e_res fst snd]. rewrite seq_run_app, (I_hist _ _ _ IV). cbn [fst snd].
        rewrite <- exec_seq_spec, <- SA, EX. reflexivity.
      * intros a ta Ha. destruct (nth_updt_inv _ _ _ _ _ _ Ti Ha) as [[-> ->]|[Na Ha']].
        -- simpl. rewrite (I_lin _ _ _ IV _ _ Ti). unfold pending. rewrite St. simpl. rewrite app_nil_r. reflexivity.
        -- eapply (I_lin _ _ _ IV); eauto.
      * intros a ta Ha. destruct (nth_updt_inv _ _ _ _ _ _ Ti Ha) as [[-> ->]|[Na Ha']].
        -- simpl. rewrite (I_prog _ _ _ IV _ _ Ti), Td, <- app_assoc. reflexivity.
        -- eapply (I_prog _ _ _ IV); eauto.
      * intros a ta Ha. rewrite !of_thread_app. cbn [e_tid fst snd].
        destruct (nth_updt_inv _ _ _ _ _ _ Ti Ha) as [[-> ->]|[Na Ha']].
        -- rewrite Nat.eqb_refl, !map_app. destruct (I_ht _ _ _ IV _ _ Ti) as [A B]. simpl. rewrite A, B. auto.
        -- assert (Nat.eqb i a = false) by (apply Nat.eqb_neq; auto). rewrite H, app_nil_r.
           eapply (I_ht _ _ _ IV); eauto.
      * rewrite updt_length. apply (I_len _ _ _ IV).
    + (* exclusive *)
      destruct (existsb in_cs (thr s)) eqn:NC; [discriminate|].
      destruct (exec_seq (body_of c) (sigma s)) as [s1 r] eqn:EX.
      intros E; inversion E; subst s'; clear E.
      assert (NX : existsb in_excl (thr s) = false).
      { destruct (existsb in_excl (thr s)) eqn:X; auto. apply existsb_exists in X as (x & Ix & Ex).
        apply in_excl_in_cs in Ex. assert (existsb in_cs (thr s) = true) by (apply existsb_exists; eauto). congruence. }
      pose proof (I_noexcl _ _ _ IV NX) as SA.
      set (t' := {| todo := rest; st := InCS MExcl (body_of c) r; done := done t; lin := (lin t ++ [r])%list; started := (started t ++ [c])%list |}).
      constructor; simpl.
      * intros a b' ta tb N Ha Hb Ea.
        destruct (nth_updt_inv _ _ _ _ _ _ Ti Hb) as [[-> ->]|[Nb Hb']].
        -- destruct (nth_updt_inv _ _ _ _ _ _ Ti Ha) as [[-> ->]|[Na Ha']]; [congruence|].
           exfalso. apply in_excl_in_cs in Ea. pose proof (existsb_false_nth _ _ _ _ NC Ha'). congruence.
        -- eapply existsb_false_nth; eauto.
      * intros a ta b' p' Ha Sa. destruct (nth_updt_inv _ _ _ _ _ _ Ti Ha) as [[-> ->]|[Na Ha']].
        -- simpl in Sa. discriminate.
        -- eapply (I_nowrite _ _ _ IV); eauto.
      * intros X. exfalso.
        assert (existsb in_excl (updt (thr s) i t') = true).
        { eapply existsb_true_nth; [apply (nth_updt_same _ _ _ _ Ti)|reflexivity]. }
        congruence.
      * intros a ta b' p' Ha Sa. destruct (nth_updt_inv _ _ _ _ _ _ Ti Ha) as [[-> ->]|[Na Ha']].
        -- simpl in Sa. discriminate.
        -- exfalso. pose proof (existsb_false_nth _ _ _ _ NC Ha') as F. unfold in_cs in F. rewrite Sa in F. discriminate.
      * intros a ta b' p' Ha Sa. destruct (nth_updt_inv _ _ _ _ _ _ Ti Ha) as [[-> ->]|[Na Ha']].
        -- simpl in Sa. inversion Sa; subst. exact EX.
        -- exfalso. pose proof (existsb_false_nth _ _ _ _ NC Ha') as F. unfold in_cs in F. rewrite Sa in F. discriminate.
      * rewrite !map_app. cbn [map e_call e_res fst snd]. rewrite seq_run_app, (I_hist _ _ _ IV). cbn [fst snd].
        rewrite <- exec_seq_spec, <- SA, EX. reflexivity.
      * intros a ta Ha. destruct (nth_updt_inv _ _ _ _ _ _ Ti Ha) as [[-> ->]|[Na Ha']].
        -- simpl. rewrite (I_lin _ _ _ IV _ _ Ti). unfold pending. rewrite St. simpl. rewrite app_nil_r. reflexivity.
        -- eapply (I_lin _ _ _ IV); eauto.
      * intros a ta Ha. destruct (nth_updt_inv _ _ _ _ _ _ Ti Ha) as [[-> ->]|[Na Ha']].
        -- simpl. rewrite (I_prog _ _ _ IV _ _ Ti), Td, <- app_assoc. reflexivity.
        -- eapply (I_prog _ _ _ IV); eauto.
      * intros a ta Ha. rewrite !of_thread_app. cbn [e_tid fst snd].
        destruct (nth_updt_inv _ _ _ _ _ _ Ti Ha) as [[-> ->]|[Na Ha']].
        -- rewrite Nat.eqb_refl, !map_app. destruct (I_ht _ _ _ IV _ _ Ti) as [A B]. simpl. rewrite A, B. auto.
        -- assert (Nat.eqb i a = false) by (apply Nat.eqb_neq; auto). rewrite H, app_nil_r.
           eapply (I_ht _ _ _ IV); eauto.
      * rewrite updt_length. apply (I_len _ _ _ IV).
  - (* ---- inside the critical section *)
    assert (CS : in_cs t = true) by (unfold in_cs; rewrite St; reflexivity).
    (* other threads, when i is exclusive, are idle *)
    assert (OTH : md = MExcl -> forall a ta, a <> i -> nth_error (thr s) a = Some ta -> in_cs ta = false).
    { intros -> a ta Na Ha. eapply (I_mutex _ _ _ IV i a); eauto. unfold in_excl. rewrite St. reflexivity. }
    (* generic part for a step that keeps the thread in its section with a new body b' and store sg' *)
    assert (KEEP : forall b' sg',
       (exec_seq b' sg' = exec_seq b (sigma s)) ->
       (md = MShared -> sg' = sigma s /\ nowrite b') ->
       (sg' <> sigma s -> md = MExcl) ->
       Inv s0 progs {| sigma := sg';
                       thr := updt (thr s) i {| todo := todo t; st := InCS md b' p; done := done t; lin := lin t; started := started t |};
                       sigmaA := sigmaA s; hist := hist s |}).
    { intros b' sg' EQ SH CH.
      set (t' := {| todo := todo t; st := InCS md b' p; done := done t; lin := lin t; started := started t |}).
      assert (XE : in_excl t' = in_excl t) by (unfold in_excl; simpl; rewrite St; reflexivity).
      assert (CE : in_cs t' = true) by reflexivity.
      constructor; simpl.
      - intros a c ta tb N Ha Hb Ea.
        destruct (nth_updt_inv _ _ _ _ _ _ Ti Ha) as [[-> ->]|[Na Ha']];
        destruct (nth_updt_inv _ _ _ _ _ _ Ti Hb) as [[-> ->]|[Nb Hb']]; try congruence.
        + rewrite XE in Ea. eapply (I_mutex _ _ _ IV i c); eauto.
        + exfalso. pose proof (I_mutex _ _ _ IV a i ta t Na Ha' Ti Ea). congruence.
        + eapply (I_mutex _ _ _ IV a c); eauto.
      - intros a ta b1 p1 Ha Sa. destruct (nth_updt_inv _ _ _ _ _ _ Ti Ha) as [[-> ->]|[Na Ha']].
        + simpl in Sa. inversion Sa; subst. apply SH; auto.
        + eapply (I_nowrite _ _ _ IV); eauto.
      - intros X. rewrite (existsb_updt_same _ _ _ _ _ Ti XE) in X.
        destruct md.
        + destruct (SH eq_refl) as [-> _]. apply (I_noexcl _ _ _ IV X).
        + exfalso. assert (existsb in_excl (thr s) = true).
          { apply (existsb_true_nth in_excl (thr s) i t Ti). unfold in_excl. rewrite St. reflexivity. }
          congruence.
      - intros a ta b1 p1 Ha Sa. destruct (nth_updt_inv _ _ _ _ _ _ Ti Ha) as [[-> ->]|[Na Ha']].
        + simpl in Sa. inversion Sa; subst. destruct (SH eq_refl) as [-> _].
          rewrite EQ. eapply (I_shared _ _ _ IV); eauto.
        + destruct md.
          * destruct (SH eq_refl) as [-> _]. eapply (I_shared _ _ _ IV); eauto.
          * exfalso. pose proof (OTH eq_refl a ta Na Ha') as F. unfold in_cs in F. rewrite Sa in F. discriminate.
      - intros a ta b1 p1 Ha Sa. destruct (nth_updt_inv _ _ _ _ _ _ Ti Ha) as [[-> ->]|[Na Ha']].
        + simpl in Sa. inversion Sa; subst. rewrite EQ. eapply (I_excl _ _ _ IV); eauto.
        + destruct md.
          * destruct (SH eq_refl) as [-> _]. eapply (I_excl _ _ _ IV); eauto.
          * exfalso. pose proof (OTH eq_refl a ta Na Ha') as F. unfold in_cs in F. rewrite Sa in F. discriminate.
      - apply (I_hist _ _ _ IV).
      - intros a ta Ha. destruct (nth_updt_inv _ _ _ _ _ _ Ti Ha) as [[-> ->]|[Na Ha']].
        + unfold t', pending; simpl. rewrite (I_lin _ _ _ IV _ _ Ti). unfold pending. rewrite St. reflexivity.
        + eapply (I_lin _ _ _ IV); eauto.
      - intros a ta Ha. destruct (nth_updt_inv _ _ _ _ _ _ Ti Ha) as [[-> ->]|[Na Ha']].
        + apply (I_prog _ _ _ IV _ _ Ti).
        + eapply (I_prog _ _ _ IV); eauto.
      - intros a ta Ha. destruct (nth_updt_inv _ _ _ _ _ _ Ti Ha) as [[-> ->]|[Na Ha']].
        + apply (I_ht _ _ _ IV _ _ Ti).
        + eapply (I_ht _ _ _ IV); eauto.
      - rewrite updt_length. apply (I_len _ _ _ IV). }
    destruct b as [r|m k c|m c|m k v c].
    + (* Ret: unlock *)
      intros E; inversion E; subst s'; clear E.
      assert (RP : r = p /\ (md = MExcl -> sigma s = sigmaA s)).
      { destruct md.
        - pose proof (I_shared _ _ _ IV _ _ _ _ Ti St) as X. simpl in X. inversion X. split; auto. discriminate.
        - pose proof (I_excl _ _ _ IV _ _ _ _ Ti St) as X. simpl in X. inversion X. split; auto. }
      destruct RP as [-> SX].
      set (t' := {| todo := todo t; st := Idle; done := (done t ++ [p])%list; lin := lin t; started := started t |}).
      constructor; simpl.
      * intros a c ta tb N Ha Hb Ea.
        destruct (nth_updt_inv _ _ _ _ _ _ Ti Ha) as [[-> ->]|[Na Ha']]; [discriminate|].
        destruct (nth_updt_inv _ _ _ _ _ _ Ti Hb) as [[-> ->]|[Nb Hb']]; [reflexivity|].
        eapply (I_mutex _ _ _ IV a c); eauto.
      * intros a ta b1 p1 Ha Sa. destruct (nth_updt_inv _ _ _ _ _ _ Ti Ha) as [[-> ->]|[Na Ha']]; [discriminate|].
        eapply (I_nowrite _ _ _ IV); eauto.
      * intros X. destruct md.
        -- apply (I_noexcl _ _ _ IV). rewrite <- X. symmetry. apply (existsb_updt_same _ _ _ _ _ Ti).
           unfold in_excl; simpl; rewrite St; reflexivity.
        -- apply SX; reflexivity.
      * intros a ta b1 p1 Ha Sa. destruct (nth_updt_inv _ _ _ _ _ _ Ti Ha) as [[-> ->]|[Na Ha']]; [discriminate|].
        eapply (I_shared _ _ _ IV); eauto.
      * intros a ta b1 p1 Ha Sa. destruct (nth_updt_inv _ _ _ _ _ _ Ti Ha) as [[-> ->]|[Na Ha']]; [discriminate|].
        eapply (I_excl _ _ _ IV); eauto.
      * apply (I_hist _ _ _ IV).
      * intros a ta Ha. destruct (nth_updt_inv _ _ _ _ _ _ Ti Ha) as [[-> ->]|[Na Ha']].
        -- unfold t', pending; simpl. rewrite (I_lin _ _ _ IV _ _ Ti). unfold pending. rewrite St, app_nil_r. reflexivity.
        -- eapply (I_lin _ _ _ IV); eauto.
      * intros a ta Ha. destruct (nth_updt_inv _ _ _ _ _ _ Ti Ha) as [[-> ->]|[Na Ha']].
        -- apply (I_prog _ _ _ IV _ _ Ti).
        -- eapply (I_prog _ _ _ IV); eauto.
      * intros a ta Ha. destruct (nth_updt_inv _ _ _ _ _ _ Ti Ha) as [[-> ->]|[Na Ha']].
        -- apply (I_ht _ _ _ IV _ _ Ti).
        -- eapply (I_ht _ _ _ IV); eauto.
      * rewrite updt_length. apply (I_len _ _ _ IV).
    + (* Rd *)
      intros E; inversion E; subst s'; clear E. apply KEEP; auto.
      * intros ->. split; auto. pose proof (I_nowrite _ _ _ IV _ _ _ _ Ti St) as NW. inversion NW; auto.
      * congruence.
    + (* RdAll *)
      intros E; inversion E; subst s'; clear E. apply KEEP; auto.
      * intros ->. split; auto. pose proof (I_nowrite _ _ _ IV _ _ _ _ Ti St) as NW. inversion NW; auto.
      * congruence.
    + (* Wr *)
      intros E; inversion E; subst s'; clear E. apply KEEP; auto.
      * intros ->. exfalso. pose proof (I_nowrite _ _ _ IV _ _ _ _ Ti St) as NW. inversion NW.
      * intros _. destruct md; auto. exfalso. pose proof (I_nowrite _ _ _ IV _ _ _ _ Ti St) as NW. inversion NW.
Qed.

Lemma inv_run s0 progs sched : forall s, Inv s0 progs s -> Inv s0 progs (crun s sched).
Proof.
  induction sched as [|i r IH]; intros s IV; simpl; auto.
  destruct (cstep s i) eqn:E; auto. apply IH. eapply inv_step; eauto.
Qed.

(* ---------------------------------------------------------------- the theorem *)
Lemma quiescent_noexcl s : quiescent s -> existsb in_excl (thr s) = false.
Proof.
  intros Q. destruct (existsb in_excl (thr s)) eqn:X; auto.
  apply existsb_exists in X as (t & It & Et). unfold in_excl in Et. rewrite (Q t It) in Et. discriminate.
Qed.

Lemma linearizable_l s0 progs sched :
  let s := crun (cinit s0 progs) sched in
  linearizable s0 (List.length progs) (started_of s) (returned_of s) (sigma s) (quiescent s).
Proof.
  intros s. pose proof (inv_run s0 progs sched _ (inv_init s0 progs)) as IV. fold s in IV.
  exists (hist s). repeat split.
  - rewrite (I_hist _ _ _ IV). reflexivity.
  - intros i Li. rewrite <- (I_len _ _ _ IV) in Li. apply nth_error_Some in Li.
    unfold started_of. destruct (nth_error (thr s) i) as [t|] eqn:T; [|congruence].
    apply (I_ht _ _ _ IV _ _ T).
  - intros i Li. rewrite <- (I_len _ _ _ IV) in Li. apply nth_error_Some in Li.
    unfold returned_of. destruct (nth_error (thr s) i) as [t|] eqn:T; [|congruence].
    exists (pending t). destruct (I_ht _ _ _ IV _ _ T) as [_ B]. rewrite B, (I_lin _ _ _ IV _ _ T). split; auto.
    unfold pending. destruct (st t); simpl; lia.
  - intros Q. rewrite (I_hist _ _ _ IV). simpl. apply (I_noexcl _ _ _ IV). apply quiescent_noexcl; auto.
Qed.

(* what a thread has started is a prefix of its program, in program order *)
Lemma started_prefix_l s0 progs sched i p :
  nth_error progs i = Some p ->
  exists rest, p = (started_of (crun (cinit s0 progs) sched) i ++ rest)%list.
Proof.
  intros Hp. pose proof (inv_run s0 progs sched _ (inv_init s0 progs)) as IV.
  set (s := crun (cinit s0 progs) sched) in *.
  assert (Li : (i < List.length (thr s))%nat).
  { rewrite (I_len _ _ _ IV). apply nth_error_Some. congruence. }
  apply nth_error_Some in Li. unfold started_of. destruct (nth_error (thr s) i) as [t|] eqn:T; [|congruence].
  pose proof (I_prog _ _ _ IV _ _ T) as P. rewrite Hp in P. inversion P. eauto.
Qed.

(* mutual exclusion of the fine-grained machine itself *)
Lemma mutex_l s0 progs sched i j ti tj :
  let s := crun (cinit s0 progs) sched in
  i <> j -> nth_error (thr s) i = Some ti -> nth_error (thr s) j = Some tj -> in_excl ti = true -> in_cs tj = false.
Proof.
  intros s. pose proof (inv_run s0 progs sched _ (inv_init s0 progs)) as IV. apply (I_mutex _ _ _ IV).
Qed.

(* ---------------------------------------------------------------- sequential consequences *)
(* a key present in a registry map keeps its value forever (the base never overwrites or deletes) *)
Definition keeps (s1 s2 : store) : Prop :=
  forall m n v, (m < 3)%nat -> aget (sget s1 m) n = Some v -> aget (sget s2 m) n = Some v.
Lemma keeps_refl s : keeps s s. Proof. intros m n v _ H; exact H. Qed.
Lemma keeps_trans a b c : keeps a b -> keeps b c -> keeps a c.
Proof. intros A B m n v L H. apply B; auto. Qed.

Lemma aset_keeps m n d n' v : aget m n = None -> aget m n' = Some v -> aget (aset m n d) n' = Some v.
Proof.
  intros N H. destruct (string_dec n n') as [->|D]; [congruence|]. rewrite aget_aset_other; auto.
Qed.

Lemma reg_step_keeps c s : keeps s (fst (reg_step c s)).
Proof.
  destruct s as [[c0 i0 f0] cs gs fs].
  destruct c as [k n d|k n|n x|n|n z|f|f]; try destruct k; simpl; try apply keeps_refl;
    repeat match goal with
           | |- context [match aget ?m ?n with _ => _ end] => destruct (aget m n) eqn:?; simpl
           end; try apply keeps_refl;
    intros m n' v L H; destruct m as [|[|[|m]]]; simpl in *; try lia; auto; apply aset_keeps; auto.
Qed.
Lemma seq_run_keeps cs : forall s, keeps s (fst (seq_run s cs)).
Proof.
  induction cs as [|c cs IH]; intros s; simpl; [apply keeps_refl|].
  pose proof (reg_step_keeps c s) as K. destruct (reg_step c s) as [s1 r]. simpl in K.
  pose proof (IH s1) as K2. destruct (seq_run s1 cs). simpl in *. eapply keeps_trans; eauto.
Qed.

(* decomposition of a sequential run at position i *)
Lemma seq_run_cons_fst s x cs : fst (seq_run s (x :: cs)) = fst (seq_run (fst (reg_step x s)) cs).
Proof. simpl. destruct (reg_step x s) as [s1 r]. simpl. destruct (seq_run s1 cs). reflexivity. Qed.
Lemma seq_run_cons_snd s x cs : snd (seq_run s (x :: cs)) = snd (reg_step x s) :: snd (seq_run (fst (reg_step x s)) cs).
Proof. simpl. destruct (reg_step x s) as [s1 r]. simpl. destruct (seq_run s1 cs). reflexivity. Qed.

Lemma seq_run_nth cs : forall s i c,
  nth_error cs i = Some c ->
  nth_error (snd (seq_run s cs)) i = Some (snd (reg_step c (fst (seq_run s (firstn i cs))))) /\
  fst (seq_run s (firstn (S i) cs)) = fst (reg_step c (fst (seq_run s (firstn i cs)))).
Proof.
  induction cs as [|x cs IH]; intros s [|i] c H; try discriminate.
  - simpl in H. inversion H; subst. rewrite seq_run_cons_snd. cbn [firstn nth_error].
    rewrite seq_run_cons_fst. cbn [seq_run fst]. auto.
  - simpl in H. destruct (IH (fst (reg_step x s)) i c H) as [A B].
    rewrite seq_run_cons_snd. cbn [nth_error].
    change (firstn (S (S i)) (x :: cs)) with (x :: firstn (S i) cs).
    change (firstn (S i) (x :: cs)) with (x :: firstn i cs).
    rewrite !seq_run_cons_fst. auto.
Qed.

Lemma firstn_le_keeps cs s i j : (i <= j)%nat -> keeps (fst (seq_run s (firstn i cs))) (fst (seq_run s (firstn j cs))).
Proof.
  intros L. replace j with (i + (j - i))%nat by lia. generalize (j - i)%nat as d. clear L j. intros d.
  revert s i. induction cs as [|x cs IH]; intros s i.
  - rewrite !firstn_nil. apply keeps_refl.
  - destruct i as [|i].
    + cbn [firstn seq_run fst]. apply seq_run_keeps.
    + change (firstn (S i + d) (x :: cs)) with (x :: firstn (i + d) cs).
      change (firstn (S i) (x :: cs)) with (x :: firstn i cs).
      rewrite !seq_run_cons_fst. apply IH.
Qed.

(* what a successful registration leaves in the tables *)
Lemma add_ok_present k n d s :
  snd (reg_step (CAdd k n d) s) = ROk ->
  aget (sget (fst (reg_step (CAdd k n d) s)) (match k with KC => 0 | KI => 1 | KF => 2 end)%nat) n = Some d.
Proof.
  destruct s as [[c0 i0 f0] cs gs fs]. destruct k; simpl;
    repeat match goal with
           | |- context [match aget ?m ?n with _ => _ end] => destruct (aget m n) eqn:?; simpl
           | |- context [if ?b then _ else _] => destruct b eqn:?; simpl
           end; try discriminate; intros _; try apply aget_aset_same.
  all: match goal with H : Z.eqb _ _ = true |- _ => apply Z.eqb_eq in H; subst; auto end.
Qed.
Lemma add_present_result k n d d' s :
  aget (sget s (match k with KC => 0 | KI => 1 | KF => 2 end)%nat) n = Some d' ->
  snd (reg_step (CAdd k n d) s) = ROk -> d = d' /\ k <> KF.
Proof.
  destruct s as [[c0 i0 f0] cs gs fs]. destruct k; simpl; intros H; rewrite H; simpl.
  - destruct (Z.eqb d d') eqn:E; [|discriminate]. apply Z.eqb_eq in E. split; auto; discriminate.
  - destruct (aget c0 n); [discriminate|]. destruct (Z.eqb d d') eqn:E; [|discriminate].
    apply Z.eqb_eq in E. split; auto; discriminate.
  - discriminate.
Qed.

Lemma one_winner_l s cs : one_winner cs (snd (seq_run s cs)).
Proof.
  assert (W : forall i j k n d1 d2, (i < j)%nat ->
            nth_error cs i = Some (CAdd k n d1) -> nth_error cs j = Some (CAdd k n d2) ->
            nth_error (snd (seq_run s cs)) i = Some ROk -> nth_error (snd (seq_run s cs)) j = Some ROk ->
            d2 = d1 /\ k <> KF).
  { intros i j k n d1 d2 L Ci Cj Ri Rj.
    destruct (seq_run_nth cs s i _ Ci) as [A1 B1]. destruct (seq_run_nth cs s j _ Cj) as [A2 _].
    rewrite A1 in Ri. rewrite A2 in Rj. inversion Ri as [Ri']. inversion Rj as [Rj'].
    pose proof (add_ok_present _ _ _ _ Ri') as P. rewrite <- B1 in P.
    assert (KM : (match k with KC => 0 | KI => 1 | KF => 2 end < 3)%nat) by (destruct k; lia).
    pose proof (firstn_le_keeps cs s (S i) j L _ _ _ KM P) as P2.
    eapply add_present_result; eauto. }
  intros i j k n d1 d2 N Ci Cj Ri Rj.
  destruct (Nat.lt_ge_cases i j) as [L|L].
  - destruct (W i j k n d1 d2 L Ci Cj Ri Rj) as [-> K]. auto.
  - assert (L' : (j < i)%nat) by lia. destruct (W j i k n d2 d1 L' Cj Ci Rj Ri) as [-> K]. auto.
Qed.

Lemma get_present k n d s :
  aget (sget s (match k with KC => 0 | KI => 1 | KF => 2 end)%nat) n = Some d ->
  snd (reg_step (CGet k n) s) = RFound [d].
Proof.
  destruct s as [[c0 i0 f0] cs gs fs]. destruct k; simpl; unfold b_get_class, ci_get, b_get_iface, b_get_func; simpl;
    intros H; rewrite H; reflexivity.
Qed.

Lemma success_visible_l s cs : success_visible cs (snd (seq_run s cs)).
Proof.
  intros i j k n d L Ci Ri Cj.
  destruct (seq_run_nth cs s i _ Ci) as [A1 B1]. destruct (seq_run_nth cs s j _ Cj) as [A2 _].
  rewrite A1 in Ri. inversion Ri as [Ri'].
  pose proof (add_ok_present _ _ _ _ Ri') as P. rewrite <- B1 in P.
  assert (KM : (match k with KC => 0 | KI => 1 | KF => 2 end < 3)%nat) by (destruct k; lia).
  pose proof (firstn_le_keeps cs s (S i) j L _ _ _ KM P) as P2.
  exists [d]. rewrite A2, (get_present _ _ _ _ P2). split; auto. discriminate.
Qed.

(* ---------------------------------------------------------------- real-time order *)
Lemma cstep_hist_mono s i s' : cstep s i = Some s' -> exists tail, hist s' = (hist s ++ tail)%list.
Proof.
  unfold cstep, cstep_gen. destruct (nth_error (thr s) i) as [t|]; [|discriminate].
  destruct (st t) as [|md b p].
  - destruct (todo t) as [|c rest]; [discriminate|]. destruct (mode_of c).
    + destruct (existsb in_excl (thr s)); [discriminate|]. intros E; inversion E; subst; simpl. eauto.
    + destruct (existsb in_cs (thr s)); [discriminate|]. destruct (exec_seq (body_of c) (sigma s)).
      intros E; inversion E; subst; simpl. eauto.
  - destruct b; intros E; inversion E; subst; simpl; exists []; rewrite app_nil_r; reflexivity.
Qed.
Lemma crun_hist_mono sched : forall s, exists tail, hist (crun s sched) = (hist s ++ tail)%list.
Proof.
  induction sched as [|i r IH]; intros s; simpl.
  - exists []. rewrite app_nil_r. reflexivity.
  - destruct (cstep s i) as [s'|] eqn:E; auto.
    destruct (cstep_hist_mono _ _ _ E) as (t1 & H1). destruct (IH s') as (t2 & H2).
    exists (t1 ++ t2)%list. rewrite H2, H1, app_assoc. reflexivity.
Qed.
Lemma crun_app a : forall s b, crun s (a ++ b) = crun (crun s a) b.
Proof. induction a as [|i a IH]; intros s b; simpl; auto. destruct (cstep s i); auto. Qed.

(* The linearization respects real time.  Cut any execution in two: at the cut (state s1) the linearization
   recorded so far (a) already contains the entry of every call that has RETURNED by then and (b) contains only
   calls that have been started by then; whatever happens afterwards only APPENDS to it.  Hence a call that
   returned before another one was invoked precedes it in the final linearization. *)
Lemma real_time_order_l s0 progs sched1 sched2 :
  let s1 := crun (cinit s0 progs) sched1 in
  let s2 := crun (cinit s0 progs) (sched1 ++ sched2) in
  (exists tail, hist s2 = (hist s1 ++ tail)%list) /\
  (forall i, (i < List.length progs)%nat ->
     map e_call (of_thread i (hist s1)) = started_of s1 i /\
     (List.length (returned_of s1 i) <= List.length (of_thread i (hist s1)))%nat).
Proof.
  intros s1 s2. split.
  - unfold s2. rewrite crun_app. apply crun_hist_mono.
  - intros i Li. pose proof (inv_run s0 progs sched1 _ (inv_init s0 progs)) as IV. fold s1 in IV.
    rewrite <- (I_len _ _ _ IV) in Li. apply nth_error_Some in Li.
    unfold started_of, returned_of. destruct (nth_error (thr s1) i) as [t|] eqn:T; [|congruence].
    destruct (I_ht _ _ _ IV _ _ T) as [A B]. split; auto.
    rewrite <- (map_length e_res), B, (I_lin _ _ _ IV _ _ T), app_length. lia.
Qed.
