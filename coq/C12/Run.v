(* C12 — correspondence: evaluate the model on the op sequences the implementation ran, and the
   property (frame, base-visible, non-interference by purging) on the implementation's outputs. *)
From V.C12 Require Import Spec Model ShortNames.
Open Scope Z_scope.

Record ostep := { o_r : Z; o_d : Z; o_look : list (list Z) }.   (* o_look: one segment per VM slot *)

(* compact input form of an observation: per slot None = discarded VM (all -2), or the entries that
   differ from the default segment (-1 for the na name/constant positions, 0 for the nf file positions) *)
Fixpoint dens_from (i : Z) (dflt : list Z) (sp : list (Z * Z)) : list Z :=
  match dflt with
  | [] => []
  | d :: r => (match find (fun p => fst p =? i) sp with Some p => snd p | None => d end) :: dens_from (i + 1) r sp
  end.
Definition dens (na nf : nat) (s : option (list (Z * Z))) : list Z :=
  match s with
  | None => repeat (-2) (na + nf)
  | Some sp => dens_from 0 (repeat (-1) na ++ repeat 0 nf)%list sp
  end.
(* delta form along a history: a slot is unchanged since the previous observation, discarded, or given *)
Inductive sl := SSame | SDead | SSet (sp : list (Z * Z)).
Fixpoint undelta (na nf : nat) (prev : list (list Z)) (cur : list sl) : list (list Z) :=
  match cur with
  | [] => []
  | s :: r =>
      (match s with
       | SSame => match prev with p :: _ => p | [] => [] end
       | SDead => dens na nf None
       | SSet sp => dens na nf (Some sp)
       end) :: undelta na nf (match prev with _ :: q => q | [] => [] end) r
  end.
Fixpoint mk_obs (na nf : nat) (prev : list (list Z)) (raw : list (Z * Z * list sl)) : list ostep :=
  match raw with
  | [] => []
  | (r, d, s) :: rest => let look := undelta na nf prev s in
                         {| o_r := r; o_d := d; o_look := look |} :: mk_obs na nf look rest
  end.
(* an operation of a history as the implementation ran it: a plain operation, or `namespace ns; new n()` run on VM v --
   the operation it stands for (GetOrLoadClass of the full name) depends on the world it is executed in *)
Inductive xop := XO (o : op) | XNewShort (v : vmid) (ns n : name)
  | XCallFn (v : vmid) (n : name)    (* code run on VM v calls the function named n: a pure lookup of (KF, n) on v *)
  | XObjCall (v : vmid) (n : name).  (* code run on VM v enters an object CREATED ON THE BASE (method, __invoke, __get, __call)
                                        whose body does `new n`: the name is resolved by the object's own VM, the base *)
Definition concrete (cp : cpath) (w : world) (x : xop) : op :=
  match x with XO o => o | XNewShort v ns n => new_short cp w v ns n | XCallFn v _ => OReTemp 0
          | XObjCall _ n => OGetOrLoadClass Base n end.
Definition xstep (cp : cpath) (w : world) (x : xop) : world * result :=
  match x with
  | XCallFn v n => (w, if vm_alive w v then match lookup w v KF n with [] => RNone | l => RFound l end else RSkip)
  | XObjCall v n => if vm_alive w v then step cp w (OGetOrLoadClass Base n) else (w, RSkip)
  | _ => step cp w (concrete cp w x)
  end.
Definition xscope (x : xop) : option nat :=
  match x with XO o => op_scope o | XNewShort (Temp t) _ _ => Some t | XNewShort Base _ _ => None
          | XCallFn (Temp t) _ => Some t | XCallFn Base _ => None
          | XObjCall (Temp t) _ => Some t | XObjCall Base _ => None end.
Definition xscoped_to (t : nat) (x : xop) : bool := match xscope x with Some u => Nat.eqb u t | None => false end.

Record case := {
  c_cp : list (name * cpent);          (* FindClassFile as reported by the implementation *)
  c_names : list name; c_consts : list name; c_files : list Z;
  c_ops : list xop;
  c_obs : list ostep;                  (* initial world, then one per op *)
  c_purge : option (nat * list ostep)  (* the same history with TempVM t's operations removed, run on the implementation *)
}.

Fixpoint cp_of (l : list (name * cpent)) (n : name) : option cpent :=
  match l with [] => None | (k, e) :: r => if String.eqb k n then Some e else cp_of r n end.

Definition allowed (l : list def) : list Z := match l with [] => [-1] | _ => l end.
Definition zin (x : Z) (l : list Z) : bool := existsb (Z.eqb x) l.

Definition exp_slot (c : case) (w : world) (v : vmid) : list (list Z) :=
  if vm_alive w v then
    (map (fun n => allowed (lookup w v KC n)) (c_names c) ++
     map (fun n => allowed (lookup w v KI n)) (c_names c) ++
     map (fun n => allowed (lookup w v KF n)) (c_names c) ++
     map (fun n => [match get_const w n with Some x => x | None => -1 end]) (c_consts c) ++
     map (fun f => [if file_cached w v f then 1 else 0]) (c_files c))%list
  else repeat [-2] (3 * List.length (c_names c) + List.length (c_consts c) + List.length (c_files c)).
Definition slots (w : world) : list vmid := Base :: map Temp (seq 0 (List.length (temps w))).

Fixpoint all2 {A B} (f : A -> B -> bool) (a : list A) (b : list B) : bool :=
  match a, b with
  | [], [] => true
  | x :: a', y :: b' => f x y && all2 f a' b'
  | _, _ => false
  end.
Definition look_ok (c : case) (w : world) (o : ostep) : bool :=
  all2 (fun v seg => all2 (fun al x => zin x al) (exp_slot c w v) seg) (slots w) (o_look o).
Definition res_ok (r : result) (o : ostep) : bool :=
  if o_r o =? 5 then
    (* script-level `new Short()` inside a namespace: the definition of the class of the object created, -1 = failed *)
    match r with RFound ((_ :: _) as l) => zin (o_d o) l | _ => o_d o =? -1 end
  else
  if o_r o =? 4 then
    (* script-level observation (class_exists / interface_exists / new): only found-or-not is visible *)
    match r with RFound (_ :: _) => o_d o =? 1 | _ => o_d o =? 0 end
  else
  match r with
  | ROk | RNone => (o_r o =? 0) && (o_d o =? -1)
  | RErr => o_r o =? 1
  | RSkip => o_r o =? 3
  | RFound l => (o_r o =? 0) && zin (o_d o) l
  end.

(* tie: walk the model along the ops; clause 1 = result differs, 2 = lookup vector differs *)
Fixpoint tie (c : case) (w : world) (ops : list xop) (obs : list ostep) : bool * bool :=
  match ops, obs with
  | [], [] => (true, true)
  | x :: ops', ob :: obs' =>
      let (w', r) := xstep (cp_of (c_cp c)) w x in
      let (a, b) := tie c w' ops' obs' in
      (res_ok r ob && a, look_ok c w' ob && b)
  | _, _ => (false, false)
  end.

(* ---- the property evaluated on the implementation's own outputs *)
Definition zlist_eqb (a b : list Z) : bool := all2 Z.eqb a b.
Definition nseg (c : case) : nat := (3 * List.length (c_names c))%nat.
(* resolution part (class, interface, function) of a slot segment *)
Definition res_part (c : case) (seg : list Z) : list Z := firstn (nseg c) seg.

(* frame: a step scoped to TempVM t leaves the resolution part of every other slot unchanged;
   slot index = t+1 (slot 0 is the base); a slot that did not exist before is not compared *)
Fixpoint same_except (c : case) (skip : option nat) (i : nat) (a b : list (list Z)) : bool :=
  match a, b with
  | x :: a', y :: b' =>
      (match skip with Some s => if Nat.eqb s i then true else zlist_eqb (res_part c x) (res_part c y)
                  | None => zlist_eqb (res_part c x) (res_part c y) end)
      && same_except c skip (S i) a' b'
  | _, _ => true
  end.
Fixpoint frame_ok (c : case) (ops : list xop) (obs : list ostep) : bool :=
  match ops, obs with
  | o :: ops', prev :: ((cur :: _) as obs') =>
      (match o with
       | XO (ODiscard t) => same_except c (Some (S t)) 0 (o_look prev) (o_look cur)
       | _ => match xscope o with
              | Some t => same_except c (Some (S t)) 0 (o_look prev) (o_look cur)
              | None => true
              end
       end) && frame_ok c ops' obs'
  | _, _ => true
  end.

(* base visible: in every observed world, whatever the base resolves every live TempVM resolves *)
Definition visible_ok (c : case) (o : ostep) : bool :=
  match o_look o with
  | [] => true
  | b :: ts => forallb (fun seg =>
                 all2 (fun x y => (x =? -1) || negb (y =? -1) || (y =? -2)) (res_part c b) (res_part c seg)) ts
  end.
(* base stays: what the base resolved in one world it resolves in the next *)
Fixpoint stays_ok (c : case) (obs : list ostep) : bool :=
  match obs with
  | a :: ((b :: _) as r) =>
      (match o_look a, o_look b with
       | x :: _, y :: _ => all2 (fun p q => (p =? -1) || negb (q =? -1)) (res_part c x) (res_part c y)
       | _, _ => true end) && stays_ok c r
  | _ => true
  end.

(* non-interference on the implementation: the steps of ops not scoped to t, restricted to the slots
   other than t, are identical in the run of h and in the run of (purge t h) *)
Definition ostep_eq_except (c : case) (t : nat) (a b : ostep) : bool :=
  (o_r a =? o_r b) && (o_d a =? o_d b) && same_except c (Some (S t)) 0 (o_look a) (o_look b)
  && Nat.eqb (List.length (o_look a)) (List.length (o_look b)).
Definition purge_ok (c : case) : bool :=
  match c_purge c, c_obs c with
  | Some (t, pobs), o0 :: obs =>
      let kept := map snd (filter (fun p => negb (xscoped_to t (fst p))) (combine (c_ops c) obs)) in
      all2 (ostep_eq_except c t) (o0 :: kept) pobs
  | _, _ => true
  end.

(* failing clause numbers: 1 model/impl op result, 2 model/impl lookups, 3 frame violated on the impl,
   4 base-visible / base-stays violated on the impl, 5 non-interference (purge) violated on the impl,
   6 the implementation panicked *)
Definition check_case (c : case) : list nat :=
  match c_obs c with
  | [] => [1%nat; 2%nat]
  | o0 :: obs =>
      let (a, b) := tie c world0 (c_ops c) obs in
      ((if a then [] else [1%nat]) ++
       (if b && look_ok c world0 o0 then [] else [2%nat]) ++
       (if frame_ok c (c_ops c) (c_obs c) then [] else [3%nat]) ++
       (if forallb (visible_ok c) (c_obs c) && stays_ok c (c_obs c) then [] else [4%nat]) ++
       (if purge_ok c then [] else [5%nat]) ++
       (if existsb (fun o => o_r o =? 2) (c_obs c) then [6%nat] else []))%list
  end.
