(* C12 — proofs: non-interference of TempVM operations by unwinding, frame corollaries,
   base visibility and monotonicity, constants write-through. *)
From Coq Require Import Lia.
From V.C12 Require Import Spec Model.

(* ---------------------------------------------------------------- list update *)
Lemma upd_length {A} (l : list A) i x : List.length (upd l i x) = List.length l.
Proof. revert i; induction l; intros [|i]; simpl; auto. Qed.
Lemma nth_error_upd_eq {A} (l : list A) i x : (i < List.length l)%nat -> nth_error (upd l i x) i = Some x.
Proof. revert i; induction l; intros [|i] H; simpl in *; try lia; auto. apply IHl; lia. Qed.
Lemma nth_error_upd_neq {A} (l : list A) i j x : i <> j -> nth_error (upd l i x) j = nth_error l j.
Proof. revert i j; induction l; intros [|i] [|j] H; simpl; auto; try congruence. Qed.
Lemma nth_error_upd_oob {A} (l : list A) i x : (List.length l <= i)%nat -> upd l i x = l.
Proof. revert i; induction l; intros [|i] H; simpl in *; auto; try lia. f_equal; apply IHl; lia. Qed.

Lemma get_temp_lt w t tv : get_temp w t = Some tv -> (t < List.length (temps w))%nat.
Proof.
  unfold get_temp. destruct (nth_error (temps w) t) eqn:E; try discriminate.
  intros _. apply nth_error_Some. congruence.
Qed.

(* ---------------------------------------------------------------- the unwinding relation *)
(* slot status: absent / discarded / live *)
Definition status (w : world) (t : nat) : nat :=
  match nth_error (temps w) t with None => 0 | Some None => 1 | Some (Some _) => 2 end%nat.

Definition sim (t : nat) (w1 w2 : world) : Prop :=
  base w1 = base w2 /\ consts w1 = consts w2 /\ List.length (temps w1) = List.length (temps w2) /\
  status w1 t = status w2 t /\
  forall u, u <> t -> nth_error (temps w1) u = nth_error (temps w2) u.

Lemma sim_refl t w : sim t w w.
Proof. repeat split; auto. Qed.
Lemma sim_trans t a b c : sim t a b -> sim t b c -> sim t a c.
Proof.
  intros (A1 & A2 & A3 & A4 & A5) (B1 & B2 & B3 & B4 & B5).
  repeat split; try congruence. intros u Hu. rewrite A5, B5; auto.
Qed.
Lemma sim_sym t a b : sim t a b -> sim t b a.
Proof. intros (A1 & A2 & A3 & A4 & A5). repeat split; auto. intros; symmetry; auto. Qed.

Lemma sim_alive t w1 w2 u : sim t w1 w2 -> alive w1 u = alive w2 u.
Proof.
  intros (_ & _ & _ & S & E). unfold alive, get_temp.
  destruct (Nat.eq_dec u t) as [->|N].
  - unfold status in S.
    destruct (nth_error (temps w1) t) as [[?|]|], (nth_error (temps w2) t) as [[?|]|]; auto; discriminate.
  - rewrite (E u N). reflexivity.
Qed.
Lemma sim_get_temp t w1 w2 u : sim t w1 w2 -> u <> t -> get_temp w1 u = get_temp w2 u.
Proof. intros (_ & _ & _ & _ & E) N. unfold get_temp. rewrite (E u N). reflexivity. Qed.

Lemma status_upd_same w t x b c :
  status {| base := b; consts := c; temps := upd (temps w) t (Some x) |} t =
  match status w t with 0%nat => 0%nat | _ => 2%nat end.
Proof.
  unfold status; simpl.
  destruct (nth_error (temps w) t) eqn:E.
  - assert (t < List.length (temps w))%nat by (apply nth_error_Some; congruence).
    rewrite nth_error_upd_eq by auto. destruct o; reflexivity.
  - apply nth_error_None in E. rewrite nth_error_upd_oob by auto.
    apply nth_error_None in E. rewrite E. reflexivity.
Qed.

(* L1: an operation scoped to TempVM t touches slot t only *)
Lemma step_local cp w o t : op_scope o = Some t -> sim t (fst (step cp w o)) w.
Proof.
  intros Hs.
  assert (Hvm : op_vm o = Temp t /\
                match o with ONewTemp | ODiscard _ | OConst _ _ _ => False | _ => True end).
  { destruct o as [| | | |[|u]|[|u]|[|u]|[|u]|]; simpl in Hs; inversion Hs; subst; auto. }
  destruct Hvm as [Hvm Hk].
  assert (E : step cp w o =
              match get_temp w t with
              | Some tv => let (tv', r) := t_step cp (base w) tv o in
                           ({| base := base w; consts := consts w; temps := upd (temps w) t (Some tv') |}, r)
              | None => (w, RSkip)
              end).
  { destruct o; simpl in Hk; try contradiction; unfold step; rewrite Hvm; reflexivity. }
  rewrite E. destruct (get_temp w t) as [tv|] eqn:G; [|apply sim_refl].
  destruct (t_step cp (base w) tv o) as [tv' r]. simpl.
  repeat split; simpl; auto.
  - apply upd_length.
  - rewrite status_upd_same. unfold status. unfold get_temp in G.
    destruct (nth_error (temps w) t) as [[?|]|]; try discriminate; reflexivity.
  - intros u Hu. apply nth_error_upd_neq; auto.
Qed.

Lemma sim_upd t w1 w2 u x b c :
  sim t w1 w2 -> u <> t ->
  sim t {| base := b; consts := c; temps := upd (temps w1) u x |}
        {| base := b; consts := c; temps := upd (temps w2) u x |}.
Proof.
  intros (A1 & A2 & A3 & A4 & A5) N. repeat split; simpl; auto.
  - rewrite !upd_length; auto.
  - unfold status in *; simpl. rewrite !nth_error_upd_neq by auto. exact A4.
  - intros v Hv. destruct (Nat.eq_dec u v) as [->|Nv].
    + destruct (Nat.lt_ge_cases v (List.length (temps w1))) as [L|L].
      * rewrite !nth_error_upd_eq; auto; lia.
      * rewrite !nth_error_upd_oob by lia. auto.
    + rewrite !nth_error_upd_neq; auto.
Qed.

(* L2: an operation not scoped to t behaves identically on t-similar worlds *)
Lemma step_consistent cp w1 w2 o t :
  sim t w1 w2 -> op_scope o <> Some t ->
  sim t (fst (step cp w1 o)) (fst (step cp w2 o)) /\ snd (step cp w1 o) = snd (step cp w2 o).
Proof.
  intros S Hs. pose proof S as (A1 & A2 & A3 & A4 & A5).
  (* generic dispatcher for ops that run on a VM *)
  assert (VMOP : forall o', (match o' with ONewTemp | ODiscard _ | OConst _ _ _ => False | _ => True end) ->
      op_scope o' <> Some t ->
      sim t (fst (step cp w1 o')) (fst (step cp w2 o')) /\ snd (step cp w1 o') = snd (step cp w2 o')).
  { intros o' K Hs'.
    assert (E : forall w, step cp w o' =
              match op_vm o' with
              | Base => let (b', r) := b_step cp (base w) o' in
                        ({| base := b'; consts := consts w; temps := temps w |}, r)
              | Temp u =>
                  match get_temp w u with
                  | Some tv => let (tv', r) := t_step cp (base w) tv o' in
                               ({| base := base w; consts := consts w; temps := upd (temps w) u (Some tv') |}, r)
                  | None => (w, RSkip)
                  end
              end).
    { intros w. destruct o'; simpl in K; try contradiction; reflexivity. }
    rewrite !E. destruct (op_vm o') as [|u] eqn:V.
    - rewrite A1. destruct (b_step cp (base w2) o') as [b' r]. simpl. split; auto.
      repeat split; simpl; auto.
    - assert (u <> t).
      { intro; subst u. apply Hs'. destruct o' as [| | | |[|x]|[|x]|[|x]|[|x]|]; simpl in *; try contradiction; try discriminate; congruence. }
      rewrite (sim_get_temp _ _ _ _ S H). destruct (get_temp w2 u) as [tv|]; [|split; auto].
      rewrite A1. destruct (t_step cp (base w2) tv o') as [tv' r]. simpl. split; auto.
      rewrite A2. apply sim_upd; auto. }
  destruct o; try (apply VMOP; simpl; auto; fail).
  - (* ONewTemp *) simpl. split; auto. repeat split; simpl; auto.
    + rewrite !List.app_length; simpl; lia.
    + unfold status in *; simpl.
      destruct (Nat.lt_ge_cases t (List.length (temps w1))) as [L|L].
      * rewrite !nth_error_app1 by lia. exact A4.
      * rewrite !nth_error_app2 by lia. rewrite A3. reflexivity.
    + intros u Hu. destruct (Nat.lt_ge_cases u (List.length (temps w1))) as [L|L].
      * rewrite !nth_error_app1 by lia. auto.
      * rewrite !nth_error_app2 by lia. rewrite A3. reflexivity.
  - (* ODiscard *) unfold step. rewrite (sim_alive _ _ _ t0 S).
    destruct (alive w2 t0) eqn:AL; simpl; split; auto.
    destruct (Nat.eq_dec t0 t) as [->|N].
    + repeat split; simpl; auto.
      * rewrite !upd_length; auto.
      * unfold status; simpl.
        assert (alive w1 t = true) by (rewrite (sim_alive _ _ _ t S); auto).
        apply (f_equal (fun b => b)) in AL.
        unfold alive in *. destruct (get_temp w1 t) eqn:G1; try discriminate.
        destruct (get_temp w2 t) eqn:G2; try discriminate.
        apply get_temp_lt in G1. apply get_temp_lt in G2.
        rewrite !nth_error_upd_eq by auto. reflexivity.
      * intros u Hu. rewrite !nth_error_upd_neq by auto. auto.
    + rewrite A1, A2. apply sim_upd; auto.
  - (* OConst *) unfold step.
    assert (VA : vm_alive w1 v = vm_alive w2 v).
    { destruct v; simpl; auto. apply (sim_alive _ _ _ _ S). }
    rewrite VA. destruct (vm_alive w2 v); simpl; [|split; auto].
    rewrite A2. destruct (aget (consts w2) n); simpl; split; auto.
    repeat split; simpl; auto.
Qed.

(* ---------------------------------------------------------------- non-interference *)
Lemma scoped_to_spec t o : scoped_to t o = true <-> op_scope o = Some t.
Proof.
  unfold scoped_to. destruct (op_scope o) as [u|]; split; intros H; try discriminate.
  - apply Nat.eqb_eq in H. congruence.
  - inversion H. apply Nat.eqb_refl.
Qed.

Lemma run_purge_sim cp t h : forall w1 w2, sim t w1 w2 -> sim t (run cp w1 h) (run cp w2 (purge t h)).
Proof.
  induction h as [|o h IH]; intros w1 w2 S; simpl; auto.
  destruct (scoped_to t o) eqn:Sc; simpl.
  - apply IH. eapply sim_trans; [|exact S]. apply step_local. apply scoped_to_spec; auto.
  - apply IH. apply step_consistent; auto. intro E. apply scoped_to_spec in E. congruence.
Qed.

Lemma lookup_sim t w1 w2 v k n : sim t w1 w2 -> v <> Temp t -> lookup w1 v k n = lookup w2 v k n.
Proof.
  intros S N. pose proof S as (A1 & _). destruct v as [|u]; simpl.
  - rewrite A1; reflexivity.
  - assert (u <> t) by congruence. rewrite (sim_get_temp _ _ _ _ S H), A1. reflexivity.
Qed.

Lemma isolated_lookups_l cp : isolated_lookups world (run cp) lookup.
Proof.
  intros w h t v k n N. apply (lookup_sim t); auto. apply run_purge_sim. apply sim_refl.
Qed.

Lemma results_purge cp t h : forall w1 w2, sim t w1 w2 ->
  unscoped_results t h (results cp w1 h) = results cp w2 (purge t h).
Proof.
  unfold unscoped_results.
  induction h as [|o h IH]; intros w1 w2 S; simpl; auto.
  destruct (scoped_to t o) eqn:Sc; simpl.
  - apply IH. eapply sim_trans; [|exact S]. apply step_local. apply scoped_to_spec; auto.
  - assert (N : op_scope o <> Some t) by (intro E; apply scoped_to_spec in E; congruence).
    destruct (step_consistent cp w1 w2 o t S N) as [S' R]. rewrite R. f_equal. apply IH; auto.
Qed.

Lemma isolated_results_l cp : isolated_results world (results cp).
Proof. intros w h t. apply results_purge. apply sim_refl. Qed.

Lemma run_app cp h1 : forall w h2, run cp w (h1 ++ h2) = run cp (run cp w h1) h2.
Proof. induction h1; intros; simpl; auto. Qed.

Lemma frame_l cp : frame world (run cp) lookup.
Proof.
  intros w h o t v k n Hs N. rewrite run_app. simpl.
  apply (lookup_sim t); auto. apply step_local; auto.
Qed.

Lemma discard_frame_l cp : discard_frame world (run cp) lookup.
Proof.
  intros w h t v k n N. rewrite run_app. simpl. set (w1 := run cp w h).
  destruct (alive w1 t) eqn:AL; simpl; auto.
  destruct v as [|u]; simpl; auto.
  assert (u <> t) by congruence.
  unfold get_temp; simpl. rewrite nth_error_upd_neq by auto. reflexivity.
Qed.

(* ---------------------------------------------------------------- base visible in every TempVM *)
Lemma base_visible_now w t k n :
  alive w t = true -> lookup w Base k n <> [] -> lookup w (Temp t) k n <> [].
Proof.
  unfold alive. simpl. destruct (get_temp w t) as [tv|]; try discriminate. intros _.
  destruct k; simpl.
  - unfold t_get_class. destruct (b_get_class (breg (base w)) n); auto.
  - unfold t_get_iface. destruct (b_get_iface (breg (base w)) n); auto.
  - unfold t_get_func. destruct (aget (fn (treg tv)) n); auto. discriminate.
Qed.
Lemma base_visible_l cp : base_visible world (run cp) lookup alive.
Proof. intros w h t k n. apply base_visible_now. Qed.

(* classes and interfaces: the TempVM resolves a base-defined name to exactly what the base resolves it to;
   functions: the TempVM's own definition takes precedence (as the code has it) *)
Lemma base_precedence_l w t tv n :
  get_temp w t = Some tv ->
  (lookup w Base KC n <> [] -> lookup w (Temp t) KC n = lookup w Base KC n) /\
  (lookup w Base KI n <> [] -> lookup w (Temp t) KI n = lookup w Base KI n) /\
  (aget (fn (treg tv)) n = None -> lookup w (Temp t) KF n = lookup w Base KF n).
Proof.
  intros G. simpl. rewrite G. repeat split.
  - unfold t_get_class. destruct (b_get_class (breg (base w)) n); auto. congruence.
  - unfold t_get_iface. destruct (b_get_iface (breg (base w)) n); auto. congruence.
  - intros E. unfold t_get_func. rewrite E. reflexivity.
Qed.

(* ---------------------------------------------------------------- the base never loses a name *)
Lemma aget_aset_same m n d : aget (aset m n d) n = Some d.
Proof.
  induction m as [|[k x] m IH]; simpl.
  - rewrite String.eqb_refl. reflexivity.
  - destruct (String.eqb k n) eqn:E; simpl; rewrite E; auto.
Qed.
Lemma aget_aset_other m n n' d : n <> n' -> aget (aset m n d) n' = aget m n'.
Proof.
  intros N. induction m as [|[k x] m IH]; simpl.
  - destruct (String.eqb n n') eqn:E; auto. apply String.eqb_eq in E. congruence.
  - destruct (String.eqb k n) eqn:E; simpl.
    + apply String.eqb_eq in E. subst k. destruct (String.eqb n n') eqn:E'; auto.
      apply String.eqb_eq in E'. congruence.
    + destruct (String.eqb k n'); auto.
Qed.
Lemma aget_aset_mono m n d n' : aget m n' <> None -> aget (aset m n d) n' <> None.
Proof.
  intros H. destruct (string_dec n n') as [->|N].
  - rewrite aget_aset_same. discriminate.
  - rewrite aget_aset_other; auto.
Qed.
(* keys folded-equal to n' that were in m are still in (aset m n d) *)
Lemma filter_aset_mono (f : name * def -> bool) m n d :
  (forall x y, f (n, x) = f (n, y)) ->
  filter f m <> [] -> filter f (aset m n d) <> [].
Proof.
  intros Hf. induction m as [|[k x] m IH]; simpl; auto.
  destruct (String.eqb k n) eqn:E; simpl.
  - apply String.eqb_eq in E. subst k. rewrite (Hf d x). destruct (f (n, x)); auto. discriminate.
  - destruct (f (k, x)); auto. discriminate.
Qed.
Lemma min_key_nil l : min_key l = None <-> l = [].
Proof.
  destruct l as [|p r]; simpl; [split; auto|]. split; [|discriminate].
  destruct (min_key r) as [q|]; [destruct (String.ltb (fst q) (fst p))|]; discriminate.
Qed.
Lemma olist_min_nil l : olist (option_map snd (min_key l)) = [] <-> l = [].
Proof.
  rewrite <- min_key_nil. destruct (min_key l); simpl; split; intros H; try discriminate; auto.
Qed.
Lemma ci_get_aset_mono m n d n' : ci_get m n' <> [] -> ci_get (aset m n d) n' <> [].
Proof.
  unfold ci_get. intros H.
  destruct (aget (aset m n d) n') eqn:E; [discriminate|].
  destruct (aget m n') eqn:E0.
  - exfalso. apply (aget_aset_mono m n d n'); congruence.
  - intro F. apply olist_min_nil in F. revert F. apply filter_aset_mono.
    + intros; reflexivity.
    + intro F. apply H. apply olist_min_nil. exact F.
Qed.

Definition reg_le (r1 r2 : reg) : Prop :=
  (forall n, b_get_class r1 n <> [] -> b_get_class r2 n <> []) /\
  (forall n, aget (ifc r1) n <> None -> aget (ifc r2) n <> None) /\
  (forall n, aget (fn r1) n <> None -> aget (fn r2) n <> None).
Lemma reg_le_refl r : reg_le r r.
Proof. repeat split; auto. Qed.
Lemma reg_le_trans a b c : reg_le a b -> reg_le b c -> reg_le a c.
Proof. intros (A1 & A2 & A3) (B1 & B2 & B3). repeat split; auto. Qed.

Lemma b_add_le r k n d : reg_le r (fst (b_add r k n d)).
Proof.
  destruct k; simpl.
  - destruct (aget (cls r) n); [apply reg_le_refl|]. destruct (aget (ifc r) n); [apply reg_le_refl|].
    repeat split; simpl; auto. intros n'. apply ci_get_aset_mono.
  - destruct (aget (cls r) n); [apply reg_le_refl|]. destruct (aget (ifc r) n); [apply reg_le_refl|].
    repeat split; simpl; auto. intros n'. apply aget_aset_mono.
  - destruct (aget (fn r) n); [apply reg_le_refl|].
    repeat split; simpl; auto. intros n'. apply aget_aset_mono.
Qed.
Lemma b_add_all_le ds : forall r d, reg_le r (fst (b_add_all r ds d)).
Proof.
  induction ds as [|[k n] ds IH]; intros r d; simpl; [apply reg_le_refl|].
  pose proof (b_add_le r (dkind k) n d) as L. destruct (b_add r (dkind k) n d) as [r' ok]. simpl in L.
  destruct ok; simpl; auto. eapply reg_le_trans; [exact L|apply IH].
Qed.
Lemma b_load_and_run_le b e : reg_le (breg b) (breg (fst (b_load_and_run b e))).
Proof.
  unfold b_load_and_run. destruct (zmem (cfile e) (bfiles b)); [apply reg_le_refl|].
  pose proof (b_add_all_le (cdefs e) (breg b) (cfile e)) as L.
  destruct (b_add_all (breg b) (cdefs e) (cfile e)); simpl in *. exact L.
Qed.
Lemma b_load_class_le cp b n : reg_le (breg b) (breg (fst (b_load_class cp b n))).
Proof.
  unfold b_load_class. destruct (cp n) as [e|]; [|apply reg_le_refl].
  destruct (_ && _)%bool; [apply reg_le_refl|].
  pose proof (b_load_and_run_le b e) as L. destruct (b_load_and_run b e) as [b1 ok]. simpl in L.
  destruct ok; exact L.
Qed.
Lemma b_step_le cp b o : reg_le (breg b) (breg (fst (b_step cp b o))).
Proof.
  destruct o; simpl; try apply reg_le_refl.
  - pose proof (b_add_le (breg b) k n d) as L. destruct (b_add (breg b) k n d); exact L.
  - unfold b_get_or_load_class. destruct (is_empty n); [apply reg_le_refl|].
    destruct (b_get_class (breg b) (strip n)); [|apply reg_le_refl].
    pose proof (b_load_class_le cp b (strip n)) as L. destruct (b_load_class cp b (strip n)) as [b1 ok].
    simpl in L. destruct ok; [destruct (b_get_class (breg b1) (strip n))|]; exact L.
  - unfold b_get_or_load_iface. destruct (is_empty n); [apply reg_le_refl|].
    destruct (aget (ifc (breg b)) (strip n)); [apply reg_le_refl|].
    pose proof (b_load_class_le cp b (strip n)) as L. destruct (b_load_class cp b (strip n)) as [b1 ok].
    simpl in L. destruct ok; [destruct (aget (ifc (breg b1)) (strip n))|]; exact L.
  - unfold b_load_pkg. destruct (is_empty n); [apply reg_le_refl|].
    destruct (b_lookup_pkg (breg b) n); [apply reg_le_refl|].
    pose proof (b_load_class_le cp b n) as L. destruct (b_load_class cp b n) as [b1 ok].
    simpl in L. destruct ok; [destruct (first_some _ _)|]; exact L.
Qed.

Lemma step_base_le cp w o : reg_le (breg (base w)) (breg (base (fst (step cp w o)))).
Proof.
  assert (T : forall u o', reg_le (breg (base w)) (breg (base (fst
              match get_temp w u with
              | Some tv => let (tv', r) := t_step cp (base w) tv o' in
                           ({| base := base w; consts := consts w; temps := upd (temps w) u (Some tv') |}, r)
              | None => (w, RSkip)
              end)))).
  { intros u o'. destruct (get_temp w u) as [tv|]; [|apply reg_le_refl].
    destruct (t_step cp (base w) tv o'); apply reg_le_refl. }
  assert (B : forall o', reg_le (breg (base w)) (breg (base (fst
              (let (b', r) := b_step cp (base w) o' in
               ({| base := b'; consts := consts w; temps := temps w |}, r)))))).
  { intros o'. pose proof (b_step_le cp (base w) o') as L. destruct (b_step cp (base w) o'); exact L. }
  destruct o; try apply reg_le_refl.
  - unfold step. destruct (alive w t); apply reg_le_refl.
  - apply (T t (OReTemp t)).
  - apply (T t (OPrepare t)).
  - destruct v as [|u]; [apply (B (OAdd Base k n d))|apply (T u (OAdd (Temp u) k n d))].
  - destruct v as [|u]; [apply (B (OGetOrLoadClass Base n))|apply (T u (OGetOrLoadClass (Temp u) n))].
  - destruct v as [|u]; [apply (B (OGetOrLoadIface Base n))|apply (T u (OGetOrLoadIface (Temp u) n))].
  - destruct v as [|u]; [apply (B (OLoadPkg Base n))|apply (T u (OLoadPkg (Temp u) n))].
  - unfold step. destruct (vm_alive w v); [|apply reg_le_refl].
    destruct (aget (consts w) n); apply reg_le_refl.
Qed.

Lemma run_base_le cp h : forall w, reg_le (breg (base w)) (breg (base (run cp w h))).
Proof.
  induction h as [|o h IH]; intros w; simpl; [apply reg_le_refl|].
  eapply reg_le_trans; [apply step_base_le|apply IH].
Qed.

Lemma olist_nonnil {A} (o : option A) : olist o <> [] <-> o <> None.
Proof. destruct o; simpl; split; intros H; try discriminate; auto. Qed.

Lemma reg_le_lookup r1 r2 k n :
  reg_le r1 r2 ->
  match k with KC => b_get_class r1 n | KI => b_get_iface r1 n | KF => b_get_func r1 n end <> [] ->
  match k with KC => b_get_class r2 n | KI => b_get_iface r2 n | KF => b_get_func r2 n end <> [].
Proof.
  intros (L1 & L2 & L3). destruct k.
  - apply L1.
  - unfold b_get_iface. rewrite !olist_nonnil. apply L2.
  - unfold b_get_func. intros H.
    destruct (aget (fn r2) n) eqn:E2; [discriminate|].
    destruct (aget (fn r1) n) eqn:E1.
    + exfalso. apply (L3 n); congruence.
    + destruct (has_bslash n); [|contradiction]. rewrite olist_nonnil in *. apply L3; auto.
Qed.

Lemma base_stays_l cp : base_stays world (run cp) lookup.
Proof.
  intros w h h' k n. rewrite run_app. simpl.
  apply reg_le_lookup. apply run_base_le.
Qed.

(* ---------------------------------------------------------------- constants: write-through by design *)
Lemma const_write_through cp w v n x :
  snd (step cp w (OConst v n x)) = ROk -> aget (consts (fst (step cp w (OConst v n x)))) n = Some x.
Proof.
  simpl. destruct (vm_alive w v); simpl; try discriminate.
  destruct (aget (consts w) n); simpl; try discriminate. intros _. apply aget_aset_same.
Qed.

Lemma step_const_mono cp w o n : aget (consts w) n <> None -> aget (consts (fst (step cp w o))) n <> None.
Proof.
  intros H. destruct o; simpl; auto.
  - destruct (alive w t); auto.
  - destruct (get_temp w t); simpl; auto.
  - destruct (get_temp w t); simpl; auto.
  - destruct v as [|u]; simpl.
    + destruct (b_add (breg (base w)) k n0 d); simpl; auto.
    + destruct (get_temp w u); simpl; auto.
  - destruct v as [|u]; simpl.
    + destruct (b_get_or_load_class cp (base w) n0); simpl; auto.
    + destruct (get_temp w u); simpl; auto. destruct (t_get_or_load_class cp (base w) t n0); auto.
  - destruct v as [|u]; simpl.
    + destruct (b_get_or_load_iface cp (base w) n0); simpl; auto.
    + destruct (get_temp w u); simpl; auto. destruct (t_get_or_load_iface cp (base w) t n0); auto.
  - destruct v as [|u]; simpl.
    + destruct (b_load_pkg cp (base w) n0); simpl; auto.
    + destruct (get_temp w u); simpl; auto. destruct (t_load_pkg cp (base w) t n0); auto.
  - destruct (vm_alive w v); auto. destruct (aget (consts w) n0) eqn:E; simpl; auto.
    apply aget_aset_mono; auto.
Qed.
