(* C12 — executable model of the registries of runtime.VM (runtime/vm.go) and runtime.TempVM
   (runtime/vm_temp.go), as the code is written (after fix commits ff69fd0 and 682f3ae).
   No proofs here.

   Modelled: VM.AddClass/AddInterface/AddFunc, findClassCaseInsensitive/GetClass, GetInterface,
   GetFunc, GetOrLoadClass, GetOrLoadInterface, lookupPkg/LoadPkg, LoadAndRun (registration effect),
   Set/GetPhpFileCache, SetConstant/GetConstant; TempVM.AddClass/AddInterface/AddFunc, GetClass,
   GetInterface, GetFunc, GetOrLoadClass, GetOrLoadInterface, LoadPkg, LoadAndRun, Set/GetPhpFileCache,
   PrepareParse/loader (no registry effect), NewTempVM; parser.DefaultClassPathManager.LoadClass.
   Environment (a parameter, read back from the code on every run): FindClassFile as a function
   name -> file, and what each autoload file declares.
   Not modelled: spl autoload callbacks (package-level list, assumed empty), data.CompileMode (false),
   `implements`/`extends` pre-loading in LoadClass (autoload files declare plain classes/interfaces),
   functions declared inside autoloaded files, the Go map iteration order (a case-insensitive class
   lookup yields the SET of candidates). Names are ASCII (strings.EqualFold = ASCII case folding). *)
From Coq Require Export Ascii.
From V.C12 Require Export Spec.

Definition amap := list (name * def).
Fixpoint aget (m : amap) (n : name) : option def :=
  match m with [] => None | (k, d) :: r => if String.eqb k n then Some d else aget r n end.
Fixpoint aset (m : amap) (n : name) (d : def) : amap :=
  match m with
  | [] => [(n, d)]
  | (k, d') :: r => if String.eqb k n then (k, d) :: r else (k, d') :: aset r n d
  end.

Definition lower (c : ascii) : ascii :=
  let n := nat_of_ascii c in
  if (Nat.leb 65 n && Nat.leb n 90)%bool then ascii_of_nat (n + 32) else c.
Fixpoint lower_s (s : string) : string :=
  match s with EmptyString => EmptyString | String c r => String (lower c) (lower_s r) end.
Definition fold_eqb (a b : string) : bool := String.eqb (lower_s a) (lower_s b).

Definition bslash : ascii := ascii_of_nat 92.
Definition has_bslash (n : name) : bool :=
  match n with String c _ => Ascii.eqb c bslash | EmptyString => false end.
Definition strip (n : name) : name :=
  match n with String c r => if Ascii.eqb c bslash then r else n | EmptyString => n end.
Definition is_empty (n : name) : bool := match n with EmptyString => true | _ => false end.

Definition olist {A} (o : option A) : list A := match o with Some x => [x] | None => [] end.
Definition nonempty {A} (l : list A) : bool := match l with [] => false | _ => true end.
Definition zmem (x : Z) (l : list Z) : bool := existsb (Z.eqb x) l.

Record reg := { cls : amap; ifc : amap; fn : amap }.
Definition empty_reg : reg := {| cls := []; ifc := []; fn := [] |}.

(* ---------------------------------------------------------------- base VM (runtime/vm.go) *)
(* findClassCaseInsensitive: exact key; else, among the keys equal under case folding, the SMALLEST key
   (byte order; fix 59869f4 — before it the first match in Go map order) *)
Fixpoint min_key (l : list (name * def)) : option (name * def) :=
  match l with
  | [] => None
  | p :: r => match min_key r with
              | Some q => if String.ltb (fst q) (fst p) then Some q else Some p
              | None => Some p
              end
  end.
Definition ci_get (m : amap) (n : name) : list def :=
  match aget m n with
  | Some d => [d]
  | None => olist (option_map snd (min_key (filter (fun p => fold_eqb (fst p) n) m)))
  end.
Definition b_get_class (r : reg) (n : name) : list def := ci_get (cls r) n.
Definition b_get_iface (r : reg) (n : name) : list def := olist (aget (ifc r) n).
Definition b_get_func (r : reg) (n : name) : list def :=
  match aget (fn r) n with
  | Some d => [d]
  | None => if has_bslash n then olist (aget (fn r) (strip n)) else []
  end.

(* AddClass / AddInterface: a name already registered under the SAME kind is rejected unless it comes
   from the same file (then: silently skipped); a name taken by the other kind is always rejected
   (fix 0d5ed75); AddFunc: any duplicate rejected *)
Definition b_add (r : reg) (k : kind) (n : name) (d : def) : reg * bool :=
  match k with
  | KC => match aget (cls r) n with
          | Some h => (r, Z.eqb d h)
          | None => match aget (ifc r) n with
                    | Some _ => (r, false)
                    | None => ({| cls := aset (cls r) n d; ifc := ifc r; fn := fn r |}, true)
                    end
          end
  | KI => match aget (cls r) n with
          | Some _ => (r, false)
          | None => match aget (ifc r) n with
                    | Some h => (r, Z.eqb d h)
                    | None => ({| cls := cls r; ifc := aset (ifc r) n d; fn := fn r |}, true)
                    end
          end
  | KF => match aget (fn r) n with
          | Some _ => (r, false)
          | None => ({| cls := cls r; ifc := ifc r; fn := aset (fn r) n d |}, true)
          end
  end.

(* the class path: FindClassFile(name) and what the file found declares, in source order
   (true = class, false = interface); every declaration of file f has definition id f *)
Record cpent := { cfile : Z; cdefs : list (bool * name) }.
Definition cpath := name -> option cpent.
Definition dkind (b : bool) : kind := if b then KC else KI.

Record bvm := { breg : reg; bfiles : list Z }.

(* parse-time registration of a file on the base: stops at the first rejected declaration *)
Fixpoint b_add_all (r : reg) (ds : list (bool * name)) (d : def) : reg * bool :=
  match ds with
  | [] => (r, true)
  | (k, n) :: rest => let (r', ok) := b_add r (dkind k) n d in
                      if ok then b_add_all r' rest d else (r', false)
  end.
(* VM.LoadAndRun *)
Definition b_load_and_run (b : bvm) (e : cpent) : bvm * bool :=
  if zmem (cfile e) (bfiles b) then (b, true)
  else let (r', ok) := b_add_all (breg b) (cdefs e) (cfile e) in
       ({| breg := r'; bfiles := cfile e :: bfiles b |}, ok).
(* DefaultClassPathManager.LoadClass(name, parser) with parser.vm = the base VM *)
Definition b_load_class (cp : cpath) (b : bvm) (n : name) : bvm * bool :=
  match cp n with
  | None => (b, false)
  | Some e =>
    if (zmem (cfile e) (bfiles b) &&
        (nonempty (b_get_class (breg b) n) || nonempty (b_get_iface (breg b) n)))%bool then (b, true)
    else let (b1, ok) := b_load_and_run b e in
         if ok then (b1, (nonempty (b_get_class (breg b1) n) || nonempty (b_get_iface (breg b1) n))%bool)
         else (b1, false)
  end.

Definition b_get_or_load_class (cp : cpath) (b : bvm) (n : name) : bvm * result :=
  if is_empty n then (b, RNone) else
  let n := strip n in
  match b_get_class (breg b) n with
  | (_ :: _) as l => (b, RFound l)
  | [] => let (b1, ok) := b_load_class cp b n in
          if ok then match b_get_class (breg b1) n with
                     | (_ :: _) as l => (b1, RFound l)
                     | [] => (b1, RErr)
                     end
          else (b1, RErr)
  end.

Definition b_get_or_load_iface (cp : cpath) (b : bvm) (n : name) : bvm * result :=
  if is_empty n then (b, RNone) else
  let n := strip n in
  match aget (ifc (breg b)) n with
  | Some d => (b, RFound [d])
  | None => let (b1, ok) := b_load_class cp b n in
            if ok then match aget (ifc (breg b1)) n with
                       | Some d => (b1, RFound [d])
                       | None => (b1, RErr)
                       end
            else (b1, RErr)
  end.

(* VM.lookupPkg: tables only *)
Definition first_some {A} (a b : option A) : option A := match a with Some _ => a | None => b end.
Definition b_lookup_pkg (r : reg) (n : name) : option def :=
  first_some (if has_bslash n then first_some (aget (cls r) (strip n)) (aget (ifc r) (strip n)) else None)
             (first_some (aget (cls r) n) (aget (ifc r) n)).
Definition b_load_pkg (cp : cpath) (b : bvm) (n : name) : bvm * result :=
  if is_empty n then (b, RNone) else
  match b_lookup_pkg (breg b) n with
  | Some d => (b, RFound [d])
  | None => let (b1, ok) := b_load_class cp b n in
            if ok then match first_some (aget (cls (breg b1)) n) (aget (ifc (breg b1)) n) with
                       | Some d => (b1, RFound [d])
                       | None => (b1, RNone)
                       end
            else (b1, RErr)
  end.

Definition b_step (cp : cpath) (b : bvm) (o : op) : bvm * result :=
  match o with
  | OAdd _ k n d => let (r', ok) := b_add (breg b) k n d in
                    ({| breg := r'; bfiles := bfiles b |}, if ok then ROk else RErr)
  | OGetOrLoadClass _ n => b_get_or_load_class cp b n
  | OGetOrLoadIface _ n => b_get_or_load_iface cp b n
  | OLoadPkg _ n => b_load_pkg cp b n
  | _ => (b, RSkip)
  end.

(* ---------------------------------------------------------------- TempVM (runtime/vm_temp.go) *)
Record tvm := { treg : reg; tfiles : list Z }.
Definition empty_tvm : tvm := {| treg := empty_reg; tfiles := [] |}.

(* GetClass / GetInterface: base first, then the request-local table; GetFunc: local first *)
Definition t_get_class (b t : reg) (n : name) : list def :=
  match b_get_class b n with [] => olist (aget (cls t) n) | l => l end.
Definition t_get_iface (b t : reg) (n : name) : list def :=
  match b_get_iface b n with [] => olist (aget (ifc t) n) | l => l end.
Definition t_get_func (b t : reg) (n : name) : list def :=
  match aget (fn t) n with Some d => [d] | None => b_get_func b n end.

(* Add*: stored locally, silently overwriting *)
Definition t_add (t : reg) (k : kind) (n : name) (d : def) : reg :=
  match k with
  | KC => {| cls := aset (cls t) n d; ifc := ifc t; fn := fn t |}
  | KI => {| cls := cls t; ifc := aset (ifc t) n d; fn := fn t |}
  | KF => {| cls := cls t; ifc := ifc t; fn := aset (fn t) n d |}
  end.
Definition t_cached (b : bvm) (t : tvm) (f : Z) : bool := (zmem f (tfiles t) || zmem f (bfiles b))%bool.
(* TempVM.LoadAndRun: own loaded-file record; registration lands in the TempVM and never fails *)
Definition t_load_and_run (b : bvm) (t : tvm) (e : cpent) : tvm :=
  if t_cached b t (cfile e) then t
  else {| treg := fold_left (fun r kn => t_add r (dkind (fst kn)) (snd kn) (cfile e)) (cdefs e) (treg t);
          tfiles := cfile e :: tfiles t |}.
Definition t_has (b : bvm) (t : tvm) (n : name) : bool :=
  (nonempty (t_get_class (breg b) (treg t) n) || nonempty (t_get_iface (breg b) (treg t) n))%bool.
(* LoadClass(name, parser) with parser.vm = the TempVM *)
Definition t_load_class (cp : cpath) (b : bvm) (t : tvm) (n : name) : tvm * bool :=
  match cp n with
  | None => (t, false)
  | Some e =>
    if (t_cached b t (cfile e) && t_has b t n)%bool then (t, true)
    else let t1 := t_load_and_run b t e in (t1, t_has b t1 n)
  end.

Definition t_get_or_load_class (cp : cpath) (b : bvm) (t : tvm) (n : name) : tvm * result :=
  match b_get_class (breg b) n with
  | (_ :: _) as l => (t, RFound l)
  | [] => match aget (cls (treg t)) n with
          | Some d => (t, RFound [d])
          | None => let (t1, ok) := t_load_class cp b t n in
                    if ok then match aget (cls (treg t1)) n with
                               | Some d => (t1, RFound [d])
                               | None => (t1, RErr)
                               end
                    else (t1, RErr)
          end
  end.

Definition t_get_or_load_iface (cp : cpath) (b : bvm) (t : tvm) (n : name) : tvm * result :=
  match aget (ifc (treg t)) n with
  | Some d => (t, RFound [d])
  | None =>
    if is_empty n then (t, RNone) else
    let n := strip n in
    match aget (ifc (breg b)) n with
    | Some d => (t, RFound [d])
    | None => let (t1, ok) := t_load_class cp b t n in
              if ok then match aget (ifc (treg t1)) n with
                         | Some d => (t1, RFound [d])
                         | None => (t1, RErr)
                         end
              else (t1, RErr)
    end
  end.

Definition t_load_pkg (cp : cpath) (b : bvm) (t : tvm) (n : name) : tvm * result :=
  match first_some (aget (cls (treg t)) n) (aget (ifc (treg t)) n) with
  | Some d => (t, RFound [d])
  | None =>
    match b_lookup_pkg (breg b) n with
    | Some d => (t, RFound [d])
    | None =>
      match cp n with
      | None => (t, RNone)
      | Some _ => let (t1, ok) := t_load_class cp b t n in
                  if ok then match first_some (aget (cls (treg t1)) n) (aget (ifc (treg t1)) n) with
                             | Some d => (t1, RFound [d])
                             | None => (t1, RNone)
                             end
                  else (t1, RErr)
      end
    end
  end.

Definition t_step (cp : cpath) (b : bvm) (t : tvm) (o : op) : tvm * result :=
  match o with
  | OAdd _ k n d => ({| treg := t_add (treg t) k n d; tfiles := tfiles t |}, ROk)
  | OGetOrLoadClass _ n => t_get_or_load_class cp b t n
  | OGetOrLoadIface _ n => t_get_or_load_iface cp b t n
  | OLoadPkg _ n => t_load_pkg cp b t n
  | OReTemp _ | OPrepare _ => (t, ROk)      (* NewTempVM(temp) = temp; PrepareParse rebinds a parser *)
  | _ => (t, RSkip)
  end.

(* ---------------------------------------------------------------- the world *)
Record world := { base : bvm; consts : amap; temps : list (option tvm) }.
Definition world0 : world := {| base := {| breg := empty_reg; bfiles := [] |}; consts := []; temps := [] |}.

Fixpoint upd {A} (l : list A) (i : nat) (x : A) : list A :=
  match l, i with
  | [], _ => []
  | _ :: r, O => x :: r
  | y :: r, S j => y :: upd r j x
  end.

Definition get_temp (w : world) (t : nat) : option tvm :=
  match nth_error (temps w) t with Some (Some tv) => Some tv | _ => None end.
Definition alive (w : world) (t : nat) : bool := match get_temp w t with Some _ => true | None => false end.
Definition vm_alive (w : world) (v : vmid) : bool := match v with Base => true | Temp t => alive w t end.

Definition op_vm (o : op) : vmid :=
  match o with
  | OAdd v _ _ _ | OGetOrLoadClass v _ | OGetOrLoadIface v _ | OLoadPkg v _ | OConst v _ _ => v
  | OReTemp t | OPrepare t | ODiscard t => Temp t
  | ONewTemp => Base
  end.

Definition step (cp : cpath) (w : world) (o : op) : world * result :=
  match o with
  | ONewTemp => ({| base := base w; consts := consts w; temps := (temps w ++ [Some empty_tvm])%list |}, ROk)
  | ODiscard t =>
      if alive w t then ({| base := base w; consts := consts w; temps := upd (temps w) t None |}, ROk)
      else (w, RSkip)
  | OConst v n x =>
      (* SetConstant on any VM writes the base VM's constant table (delegation); duplicates rejected *)
      if vm_alive w v then
        match aget (consts w) n with
        | Some _ => (w, RErr)
        | None => ({| base := base w; consts := aset (consts w) n x; temps := temps w |}, ROk)
        end
      else (w, RSkip)
  | _ =>
      match op_vm o with
      | Base => let (b', r) := b_step cp (base w) o in
                ({| base := b'; consts := consts w; temps := temps w |}, r)
      | Temp t =>
          match get_temp w t with
          | Some tv => let (tv', r) := t_step cp (base w) tv o in
                       ({| base := base w; consts := consts w; temps := upd (temps w) t (Some tv') |}, r)
          | None => (w, RSkip)
          end
      end
  end.

Fixpoint run (cp : cpath) (w : world) (h : list op) : world :=
  match h with [] => w | o :: r => run cp (fst (step cp w o)) r end.
Fixpoint results (cp : cpath) (w : world) (h : list op) : list result :=
  match h with [] => [] | o :: r => snd (step cp w o) :: results cp (fst (step cp w o)) r end.

(* what VM v resolves for (kind, name) *)
Definition lookup (w : world) (v : vmid) (k : kind) (n : name) : list def :=
  match v with
  | Base => match k with
            | KC => b_get_class (breg (base w)) n
            | KI => b_get_iface (breg (base w)) n
            | KF => b_get_func (breg (base w)) n
            end
  | Temp t => match get_temp w t with
              | None => []
              | Some tv => match k with
                           | KC => t_get_class (breg (base w)) (treg tv) n
                           | KI => t_get_iface (breg (base w)) (treg tv) n
                           | KF => t_get_func (breg (base w)) (treg tv) n
                           end
              end
  end.
(* GetConstant (any VM): leading backslash stripped *)
Definition get_const (w : world) (n : name) : option Z := aget (consts w) (strip n).
(* GetPhpFileCache as VM v sees it *)
Definition file_cached (w : world) (v : vmid) (f : Z) : bool :=
  match v with
  | Base => zmem f (bfiles (base w))
  | Temp t => match get_temp w t with Some tv => t_cached (base w) tv f | None => false end
  end.
