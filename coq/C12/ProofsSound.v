(* C12 — soundness of lookups: whatever a VM resolves was introduced by an operation executed on the base
   VM or on that very VM — never by an operation of another TempVM. *)
From Coq Require Import Lia.
From V.C12 Require Import Spec Model Proofs.

(* operation o, executed on VM `target`, may register a definition d of kind k there *)
Definition may_introduce (cp : cpath) (o : op) (target : vmid) (k : kind) (d : def) : Prop :=
  match o with
  | OAdd v k' _ d' => v = target /\ k' = k /\ d' = d
  | OGetOrLoadClass v _ | OGetOrLoadIface v _ | OLoadPkg v _ =>
      v = target /\ k <> KF /\ exists n' e, cp n' = Some e /\ cfile e = d
  | _ => False
  end.

Definition vals (m : amap) : list def := map snd m.
Lemma aget_vals m n d : aget m n = Some d -> In d (vals m).
Proof.
  induction m as [|[k x] m IH]; simpl; [discriminate|]. destruct (String.eqb k n).
  - intros E; inversion E; auto.
  - intros E; right; auto.
Qed.
Lemma ci_get_vals m n d : In d (ci_get m n) -> In d (vals m).
Proof.
  unfold ci_get. destruct (aget m n) eqn:E.
  - intros [<-|[]]. eapply aget_vals; eauto.
  - intros H.
    assert (MK : forall l q, min_key l = Some q -> In q l).
    { induction l as [|p r IH]; simpl; [discriminate|]. intros q. destruct (min_key r) as [q0|].
      - destruct (String.ltb (fst q0) (fst p)); intros E1; inversion E1; subst; auto.
      - intros E1; inversion E1; auto. }
    destruct (min_key (filter (fun p => fold_eqb (fst p) n) m)) as [q|] eqn:Q; simpl in H; [|contradiction].
    destruct H as [<-|[]]. apply MK in Q. apply filter_In in Q as [Q _]. apply in_map; auto.
Qed.
Lemma vals_aset m n d x : In x (vals (aset m n d)) -> x = d \/ In x (vals m).
Proof.
  induction m as [|[k y] m IH]; simpl.
  - intros [<-|[]]; auto.
  - destruct (String.eqb k n); simpl.
    + intros [<-|H]; auto.
    + intros [<-|H]; auto. destruct (IH H); auto.
Qed.

Section Sound.
  Variable cp : cpath.
  Definition src_ok (pre : list op) (target : vmid) (k : kind) (m : amap) : Prop :=
    forall d, In d (vals m) -> exists o, In o pre /\ may_introduce cp o target k d.
  Definition reg_ok (pre : list op) (target : vmid) (r : reg) : Prop :=
    src_ok pre target KC (cls r) /\ src_ok pre target KI (ifc r) /\ src_ok pre target KF (fn r).
  Definition world_ok (pre : list op) (w : world) : Prop :=
    reg_ok pre Base (breg (base w)) /\
    forall t tv, nth_error (temps w) t = Some (Some tv) -> reg_ok pre (Temp t) (treg tv).

  Lemma src_ok_mono pre o target k m : src_ok pre target k m -> src_ok (pre ++ [o]) target k m.
  Proof. intros H d Hd. destruct (H d Hd) as (o' & I & M). exists o'. split; auto. apply in_or_app; auto. Qed.
  Lemma reg_ok_mono pre o target r : reg_ok pre target r -> reg_ok (pre ++ [o]) target r.
  Proof. intros (A & B & C). repeat split; apply src_ok_mono; auto. Qed.
  Lemma src_ok_aset pre target k m n d o :
    src_ok pre target k m -> In o pre -> may_introduce cp o target k d -> src_ok pre target k (aset m n d).
  Proof.
    intros H I M x Hx. destruct (vals_aset _ _ _ _ Hx) as [->|Hx']; eauto.
  Qed.

  (* registering one declaration d (introduced by o) of kind k into a registry *)
  Lemma t_add_ok pre target r k n d o :
    reg_ok pre target r -> In o pre -> may_introduce cp o target k d -> reg_ok pre target (t_add r k n d).
  Proof.
    intros (A & B & C) I M. destruct k; simpl; repeat split; simpl; auto; eapply src_ok_aset; eauto.
  Qed.
  Lemma b_add_ok pre r k n d o :
    reg_ok pre Base r -> In o pre -> may_introduce cp o Base k d -> reg_ok pre Base (fst (b_add r k n d)).
  Proof.
    intros (A & B & C) I M. destruct k; simpl.
    - destruct (aget (cls r) n); [repeat split; auto|]. destruct (aget (ifc r) n); [repeat split; auto|].
      repeat split; simpl; auto. eapply src_ok_aset; eauto.
    - destruct (aget (cls r) n); [repeat split; auto|]. destruct (aget (ifc r) n); [repeat split; auto|].
      repeat split; simpl; auto. eapply src_ok_aset; eauto.
    - destruct (aget (fn r) n); [repeat split; auto|].
      repeat split; simpl; auto. eapply src_ok_aset; eauto.
  Qed.

  (* an autoloading operation o on `target` whose class path knows the file e *)
  Definition loader (o : op) (target : vmid) : Prop :=
    match o with OGetOrLoadClass v _ | OGetOrLoadIface v _ | OLoadPkg v _ => v = target | _ => False end.
  Lemma loader_introduces o target n' e b :
    loader o target -> cp n' = Some e -> may_introduce cp o target (dkind b) (cfile e).
  Proof.
    intros L E. destruct o; simpl in *; try contradiction; subst; (split; [reflexivity|]); (split; [destruct b; discriminate|]); eauto.
  Qed.

  Lemma b_add_all_ok pre o n' e ds : forall r,
    reg_ok pre Base r -> In o pre -> loader o Base -> cp n' = Some e ->
    reg_ok pre Base (fst (b_add_all r ds (cfile e))).
  Proof.
    induction ds as [|[b n] ds IH]; intros r R I L E; simpl; auto.
    pose proof (b_add_ok pre r (dkind b) n (cfile e) o R I (loader_introduces o Base n' e b L E)) as R1.
    destruct (b_add r (dkind b) n (cfile e)) as [r1 ok]. simpl in R1. destruct ok; simpl; auto.
  Qed.
  Lemma b_load_class_ok pre o b n :
    reg_ok pre Base (breg b) -> In o pre -> loader o Base -> reg_ok pre Base (breg (fst (b_load_class cp b n))).
  Proof.
    intros R I L. unfold b_load_class. destruct (cp n) as [e|] eqn:E; auto.
    destruct (_ && _)%bool; auto. unfold b_load_and_run. destruct (zmem (cfile e) (bfiles b)); simpl; auto.
    pose proof (b_add_all_ok pre o n e (cdefs e) (breg b) R I L E) as R1.
    destruct (b_add_all (breg b) (cdefs e) (cfile e)) as [r1 ok]. simpl in *. destruct ok; simpl; auto.
  Qed.
  Lemma t_load_class_ok pre o t b tv n :
    reg_ok pre (Temp t) (treg tv) -> In o pre -> loader o (Temp t) ->
    reg_ok pre (Temp t) (treg (fst (t_load_class cp b tv n))).
  Proof.
    intros R I L. unfold t_load_class. destruct (cp n) as [e|] eqn:E; auto.
    destruct (_ && _)%bool; auto. simpl. unfold t_load_and_run. destruct (t_cached b tv (cfile e)); auto. simpl.
    generalize (treg tv) R. induction (cdefs e) as [|[bb nn] ds IH]; intros r0 R0; simpl; auto.
    apply IH. eapply t_add_ok; eauto. eapply loader_introduces; eauto.
  Qed.

  Lemma b_step_ok pre b o :
    reg_ok pre Base (breg b) -> In o pre -> op_vm o = Base -> reg_ok pre Base (breg (fst (b_step cp b o))).
  Proof.
    intros R I V. destruct o; simpl in *; auto; subst.
    - pose proof (b_add_ok pre (breg b) k n d (OAdd Base k n d) R I) as X.
      destruct (b_add (breg b) k n d); simpl in *. apply X. simpl; auto.
    - unfold b_get_or_load_class. destruct (is_empty n); auto. destruct (b_get_class (breg b) (strip n)); auto.
      pose proof (b_load_class_ok pre (OGetOrLoadClass Base n) b (strip n) R I eq_refl) as X.
      destruct (b_load_class cp b (strip n)) as [b1 ok]. simpl in X. destruct ok; [destruct (b_get_class (breg b1) (strip n))|]; auto.
    - unfold b_get_or_load_iface. destruct (is_empty n); auto. destruct (aget (ifc (breg b)) (strip n)); auto.
      pose proof (b_load_class_ok pre (OGetOrLoadIface Base n) b (strip n) R I eq_refl) as X.
      destruct (b_load_class cp b (strip n)) as [b1 ok]. simpl in X. destruct ok; [destruct (aget (ifc (breg b1)) (strip n))|]; auto.
    - unfold b_load_pkg. destruct (is_empty n); auto. destruct (b_lookup_pkg (breg b) n); auto.
      pose proof (b_load_class_ok pre (OLoadPkg Base n) b n R I eq_refl) as X.
      destruct (b_load_class cp b n) as [b1 ok]. simpl in X. destruct ok; [destruct (first_some _ _)|]; auto.
  Qed.
  Lemma t_step_ok pre t b tv o :
    reg_ok pre (Temp t) (treg tv) -> In o pre -> op_vm o = Temp t -> reg_ok pre (Temp t) (treg (fst (t_step cp b tv o))).
  Proof.
    intros R I V. destruct o; simpl in *; auto; try (inversion V; subst).
    - eapply t_add_ok; eauto. simpl; auto.
    - unfold t_get_or_load_class. destruct (b_get_class (breg b) n); auto. destruct (aget (cls (treg tv)) n); auto.
      pose proof (t_load_class_ok pre (OGetOrLoadClass (Temp t) n) t b tv n R I eq_refl) as X.
      destruct (t_load_class cp b tv n) as [t1 ok]. simpl in X. destruct ok; [destruct (aget (cls (treg t1)) n)|]; auto.
    - unfold t_get_or_load_iface. destruct (aget (ifc (treg tv)) n); auto. destruct (is_empty n); auto.
      destruct (aget (ifc (breg b)) (strip n)); auto.
      pose proof (t_load_class_ok pre (OGetOrLoadIface (Temp t) n) t b tv (strip n) R I eq_refl) as X.
      destruct (t_load_class cp b tv (strip n)) as [t1 ok]. simpl in X. destruct ok; [destruct (aget (ifc (treg t1)) (strip n))|]; auto.
    - unfold t_load_pkg. destruct (first_some _ _); auto. destruct (b_lookup_pkg (breg b) n); auto. destruct (cp n); auto.
      pose proof (t_load_class_ok pre (OLoadPkg (Temp t) n) t b tv n R I eq_refl) as X.
      destruct (t_load_class cp b tv n) as [t1 ok]. simpl in X. destruct ok; [destruct (first_some _ _)|]; auto.
  Qed.

  Lemma step_world_ok pre w o : world_ok pre w -> world_ok (pre ++ [o]) (fst (step cp w o)).
  Proof.
    intros [B T].
    assert (I : In o (pre ++ [o])) by (apply in_or_app; right; left; reflexivity).
    assert (B' : reg_ok (pre ++ [o]) Base (breg (base w))) by (apply reg_ok_mono; auto).
    assert (T' : forall t tv, nth_error (temps w) t = Some (Some tv) -> reg_ok (pre ++ [o]) (Temp t) (treg tv))
      by (intros; apply reg_ok_mono; eauto).
    assert (SAME : world_ok (pre ++ [o]) w) by (split; auto).
    (* an operation executed on a VM *)
    assert (VMOP : forall o', o' = o -> (match o' with ONewTemp | ODiscard _ | OConst _ _ _ => False | _ => True end) ->
               world_ok (pre ++ [o]) (fst (
                 match op_vm o' with
                 | Base => let (b', r) := b_step cp (base w) o' in ({| base := b'; consts := consts w; temps := temps w |}, r)
                 | Temp t => match get_temp w t with
                             | Some tv => let (tv', r) := t_step cp (base w) tv o' in
                                          ({| base := base w; consts := consts w; temps := upd (temps w) t (Some tv') |}, r)
                             | None => (w, RSkip)
                             end
                 end))).
    { intros o' -> K. destruct (op_vm o) as [|t] eqn:V.
      - pose proof (b_step_ok (pre ++ [o]) (base w) o B' I V) as X. destruct (b_step cp (base w) o) as [b' r]. simpl in *. split; auto.
      - destruct (get_temp w t) as [tv|] eqn:G; auto.
        assert (G' : nth_error (temps w) t = Some (Some tv)).
        { unfold get_temp in G. destruct (nth_error (temps w) t) as [[x|]|]; inversion G; reflexivity. }
        pose proof (t_step_ok (pre ++ [o]) t (base w) tv o (T' _ _ G') I V) as X.
        destruct (t_step cp (base w) tv o) as [tv' r]. simpl in *. split; auto.
        intros u tu Hu. simpl in Hu. destruct (Nat.eq_dec t u) as [<-|N].
        + rewrite nth_error_upd_eq in Hu by (apply nth_error_Some; congruence). inversion Hu; subst. exact X.
        + rewrite nth_error_upd_neq in Hu by auto. eauto. }
    destruct o; try (apply (VMOP _ eq_refl); simpl; exact Logic.I).
    - (* ONewTemp *) simpl. split; auto. intros t tv Ht. simpl in Ht.
      destruct (Nat.lt_ge_cases t (List.length (temps w))) as [L|L].
      + rewrite nth_error_app1 in Ht by auto. eauto.
      + rewrite nth_error_app2 in Ht by auto. destruct (t - List.length (temps w))%nat as [|[|k]]; simpl in Ht; try discriminate.
        inversion Ht; subst. repeat split; intros d Hd; destruct Hd.
    - (* ODiscard *) simpl. destruct (alive w t); auto. simpl. split; auto. intros u tu Hu. simpl in Hu.
      destruct (Nat.eq_dec t u) as [<-|N].
      + destruct (Nat.lt_ge_cases t (List.length (temps w))) as [L|L].
        * rewrite nth_error_upd_eq in Hu by auto. discriminate.
        * rewrite nth_error_upd_oob in Hu by auto. eauto.
      + rewrite nth_error_upd_neq in Hu by auto. eauto.
    - (* OConst *) simpl. destruct (vm_alive w v); auto. destruct (aget (consts w) n); auto.
  Qed.

  Lemma run_world_ok h : forall pre w, world_ok pre w -> world_ok (pre ++ h) (run cp w h).
  Proof.
    induction h as [|o h IH]; intros pre w H; simpl.
    - rewrite app_nil_r. exact H.
    - replace (pre ++ o :: h)%list with ((pre ++ [o]) ++ h)%list by (rewrite <- app_assoc; reflexivity).
      apply IH. apply step_world_ok; auto.
  Qed.

  Lemma world0_ok : world_ok [] world0.
  Proof.
    split.
    - repeat split; intros d Hd; destruct Hd.
    - intros t tv H. destruct t; discriminate.
  Qed.

  Lemma lookup_sound_l h v k n d :
    In d (lookup (run cp world0 h) v k n) ->
    exists o, In o h /\ (may_introduce cp o Base k d \/ may_introduce cp o v k d).
  Proof.
    pose proof (run_world_ok h [] world0 world0_ok) as [B T]. simpl in B, T.
    set (w := run cp world0 h) in *. destruct B as (BC & BI & BF).
    intros H. destruct v as [|t]; simpl in H.
    - destruct k.
      + apply ci_get_vals in H. destruct (BC d H) as (o & I & M). eauto.
      + unfold b_get_iface in H. destruct (aget (ifc (breg (base w))) n) eqn:E; [|contradiction].
        destruct H as [<-|[]]. apply aget_vals in E. destruct (BI _ E) as (o & I & M). eauto.
      + unfold b_get_func in H. destruct (aget (fn (breg (base w))) n) eqn:E.
        * destruct H as [<-|[]]. apply aget_vals in E. destruct (BF _ E) as (o & I & M). eauto.
        * destruct (has_bslash n); [|contradiction]. destruct (aget (fn (breg (base w))) (strip n)) eqn:E2; [|contradiction].
          destruct H as [<-|[]]. apply aget_vals in E2. destruct (BF _ E2) as (o & I & M). eauto.
    - destruct (get_temp w t) as [tv|] eqn:G; [|contradiction].
      assert (G' : nth_error (temps w) t = Some (Some tv)).
      { unfold get_temp in G. destruct (nth_error (temps w) t) as [[x|]|]; inversion G; reflexivity. }
      destruct (T _ _ G') as (TC & TI & TF).
      destruct k.
      + unfold t_get_class in H. destruct (b_get_class (breg (base w)) n) eqn:E.
        * destruct (aget (cls (treg tv)) n) eqn:E2; [|contradiction]. destruct H as [<-|[]].
          apply aget_vals in E2. destruct (TC _ E2) as (o & I & M). eauto.
        * rewrite <- E in H. apply ci_get_vals in H. destruct (BC d H) as (o & I & M). eauto.
      + unfold t_get_iface, b_get_iface in H. destruct (aget (ifc (breg (base w))) n) eqn:E; simpl in H.
        * destruct H as [<-|[]]. apply aget_vals in E. destruct (BI _ E) as (o & I & M). eauto.
        * destruct (aget (ifc (treg tv)) n) eqn:E2; [|contradiction]. destruct H as [<-|[]].
          apply aget_vals in E2. destruct (TI _ E2) as (o & I & M). eauto.
      + unfold t_get_func in H. destruct (aget (fn (treg tv)) n) eqn:E.
        * destruct H as [<-|[]]. apply aget_vals in E. destruct (TF _ E) as (o & I & M). eauto.
        * unfold b_get_func in H. destruct (aget (fn (breg (base w))) n) eqn:E1.
          -- destruct H as [<-|[]]. apply aget_vals in E1. destruct (BF _ E1) as (o & I & M). eauto.
          -- destruct (has_bslash n); [|contradiction]. destruct (aget (fn (breg (base w))) (strip n)) eqn:E2; [|contradiction].
             destruct H as [<-|[]]. apply aget_vals in E2. destruct (BF _ E2) as (o & I & M). eauto.
  Qed.
End Sound.
