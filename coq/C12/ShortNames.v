(* C12 — short class names inside a namespace.
   `namespace NS; ... new Short() ...`: the parser turns Short into a full class name while it parses, by asking
   the VM its clone is bound to (parser/parser.go findFullClassNameByNamespace, the branch without `use` alias and
   without a backslash in the name):
     NS\Short if that VM resolves NS\Short as a class or an interface, or a class file for NS\Short exists;
     else Short if that VM resolves the global Short as a class or interface, or a class file for Short exists;
     else NS\Short (left to run-time autoloading).
   The full name is then looked up at run time by GetOrLoadClass on the VM the code runs on.
   Modelled as a function of what VM v resolves (Model.lookup) and of the class path — nothing else: in
   particular NOT of what was resolved earlier, on this or any other VM (no memo). *)
From V.C12 Require Import Spec Model Proofs.

Definition qualify (ns n : name) : name := (ns ++ "\" ++ n)%string.
Definition known (cp : cpath) (w : world) (v : vmid) (n : name) : bool :=
  (nonempty (lookup w v KC n) || nonempty (lookup w v KI n) || match cp n with Some _ => true | None => false end)%bool.
Definition resolve_short (cp : cpath) (w : world) (v : vmid) (ns n : name) : name :=
  if known cp w v (qualify ns n) then qualify ns n
  else if known cp w v n then n
  else qualify ns n.

(* `new Short()` in namespace ns, run on VM v, as one operation of the history *)
Definition new_short (cp : cpath) (w : world) (v : vmid) (ns n : name) : op :=
  OGetOrLoadClass v (resolve_short cp w v ns n).

(* what a short name means on VM v does not depend on anything TempVM t (t <> v) ever did *)
Lemma resolve_short_isolated_l : forall cp w h t v ns n, v <> Temp t ->
  resolve_short cp (run cp w h) v ns n = resolve_short cp (run cp w (purge t h)) v ns n.
Proof.
  intros cp w h t v ns n N. unfold resolve_short, known.
  rewrite !(isolated_lookups_l cp w h t v _ _ N). reflexivity.
Qed.

(* a declaration of NS\Short on TempVM t does not capture the short name on any other VM *)
Lemma resolve_short_frame_l : forall cp w h o t v ns n, op_scope o = Some t -> v <> Temp t ->
  resolve_short cp (run cp w (h ++ [o])) v ns n = resolve_short cp (run cp w h) v ns n.
Proof.
  intros cp w h o t v ns n S N. unfold resolve_short, known.
  rewrite !(frame_l cp w h o t v _ _ S N). reflexivity.
Qed.
