(* C12 — the property, clause by clause.  Only statements here; every proof is `exact lemma`.
   All theorems hold for EVERY class path cp (which files exist and what they declare), every
   starting world w and every history h: quantification is unbounded. *)
From V.C12 Require Import Spec Model Proofs ProofsSound ShortNames.

(* "Classes, interfaces and functions defined through a temporary VM are visible to code running
   on that VM only: after any sequence of definitions and lookups across a base VM and several
   temporary VMs, the base VM and every other temporary VM resolve exactly the names they resolved
   before."  Non-interference: for every history, every VM other than TempVM t resolves every
   (kind, name) exactly as in the history with all of t's operations removed ... *)
Theorem temp_isolation_lookups : forall cp, isolated_lookups world (run cp) lookup.
Proof. exact isolated_lookups_l. Qed.
Print Assumptions temp_isolation_lookups.

(* ... and every operation executed on another VM — including `new`/class_exists-style resolution
   with autoload (GetOrLoadClass/GetOrLoadInterface/LoadPkg) — returns what it returns without t. *)
Theorem temp_isolation_results : forall cp, isolated_results world (results cp).
Proof. exact isolated_results_l. Qed.
Print Assumptions temp_isolation_results.

(* frame form: one more operation of TempVM t (any kind) changes what no other VM resolves *)
Theorem temp_op_frame : forall cp, frame world (run cp) lookup.
Proof. exact frame_l. Qed.
Print Assumptions temp_op_frame.

(* the instance named in DESIGN.md: an Add on TempVM t *)
Theorem temp_add_frame : forall cp w h t k n d v k' n', v <> Temp t ->
  lookup (run cp w (h ++ [OAdd (Temp t) k n d])) v k' n' = lookup (run cp w h) v k' n'.
Proof. intros cp w h t k n d v k' n' N. apply (frame_l cp w h (OAdd (Temp t) k n d) t); auto. Qed.
Print Assumptions temp_add_frame.

(* short class names inside a namespace (`namespace NS; new Short()`): which full name a short name stands for on
   VM v is the same as in the history with everything TempVM t did removed -- a declaration of NS\Short on one
   request's VM never captures (or un-captures) the short name on another VM ... *)
Theorem short_names_resolve_in_isolation : forall cp w h t v ns n, v <> Temp t ->
  resolve_short cp (run cp w h) v ns n = resolve_short cp (run cp w (purge t h)) v ns n.
Proof. exact resolve_short_isolated_l. Qed.
Print Assumptions short_names_resolve_in_isolation.
(* ... and one more operation of TempVM t changes the meaning of a short name on no other VM *)
Theorem short_names_frame : forall cp w h o t v ns n, op_scope o = Some t -> v <> Temp t ->
  resolve_short cp (run cp w (h ++ [o])) v ns n = resolve_short cp (run cp w h) v ns n.
Proof. exact resolve_short_frame_l. Qed.
Print Assumptions short_names_frame.

(* discarding a TempVM changes what no other VM resolves *)
Theorem temp_discard_frame : forall cp, discard_frame world (run cp) lookup.
Proof. exact discard_frame_l. Qed.
Print Assumptions temp_discard_frame.

(* "Everything defined on the base VM stays resolvable through every temporary VM." *)
Theorem base_visible_in_temps : forall cp, base_visible world (run cp) lookup alive.
Proof. exact base_visible_l. Qed.
Print Assumptions base_visible_in_temps.

(* which definition: classes and interfaces resolve to the base's definition whenever the base has
   one; functions resolve to the TempVM's own definition first (pinned as the code has it) *)
Theorem base_precedence : forall w t tv n, get_temp w t = Some tv ->
  (lookup w Base KC n <> [] -> lookup w (Temp t) KC n = lookup w Base KC n) /\
  (lookup w Base KI n <> [] -> lookup w (Temp t) KI n = lookup w Base KI n) /\
  (aget (fn (treg tv)) n = None -> lookup w (Temp t) KF n = lookup w Base KF n).
Proof. exact base_precedence_l. Qed.
Print Assumptions base_precedence.

(* the base never loses a name, whatever any VM does afterwards *)
Theorem base_stays_resolvable : forall cp, base_stays world (run cp) lookup.
Proof. exact base_stays_l. Qed.
Print Assumptions base_stays_resolvable.

(* intended sharing, excluded from the isolation statement BY NAME: a constant set through any live
   VM is stored in the one shared table (visible from every VM) and is never lost *)
Theorem constants_write_through : forall cp w v n x,
  snd (step cp w (OConst v n x)) = ROk -> aget (consts (fst (step cp w (OConst v n x)))) n = Some x.
Proof. exact const_write_through. Qed.
Theorem constants_persist : forall cp w o n,
  aget (consts w) n <> None -> aget (consts (fst (step cp w o))) n <> None.
Proof. exact step_const_mono. Qed.
Print Assumptions constants_write_through.
Print Assumptions constants_persist.

(* "visible to code running on that VM only", from the positive side: every definition any VM resolves —
   for every name, kind, history and class path — was introduced by an operation executed on the base VM or
   on that very VM (an Add*, or an autoloading GetOrLoad*/LoadPkg); an operation of another TempVM is never
   the source of what a VM sees *)
Theorem lookup_sound : forall cp h v k n d,
  In d (lookup (run cp world0 h) v k n) ->
  exists o, In o h /\ (may_introduce cp o Base k d \/ may_introduce cp o v k d).
Proof. exact lookup_sound_l. Qed.
Print Assumptions lookup_sound.
