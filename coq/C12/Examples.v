(* C12 — non-vacuity: the operations really define and resolve things (so isolation is not the
   isolation of a machine that does nothing), hypotheses are satisfiable, and the histories that
   broke isolation before the fixes (KNOWN_FINDINGS: fixed ff69fd0, 682f3ae) now behave. *)
From V.C12 Require Import Spec Model Proofs.

Definition cp1 : cpath := fun n =>
  if String.eqb n "App\P" then Some {| cfile := 1000; cdefs := [(true, "App\P")] |}
  else if String.eqb n "App\Q" then Some {| cfile := 1001; cdefs := [(false, "App\Q")] |}
  else None.

(* a definition on TempVM 0 is resolved by TempVM 0, not by TempVM 1, not by the base *)
Definition h1 := [ONewTemp; ONewTemp; OAdd (Temp 0) KC "A" 1; OAdd (Temp 0) KF "f" 2; OAdd Base KI "I" 3].
Example temp_defines_and_resolves :
  lookup (run cp1 world0 h1) (Temp 0) KC "A" = [1] /\ lookup (run cp1 world0 h1) (Temp 0) KF "f" = [2] /\
  lookup (run cp1 world0 h1) (Temp 1) KC "A" = [] /\ lookup (run cp1 world0 h1) Base KC "A" = [] /\
  lookup (run cp1 world0 h1) (Temp 1) KI "I" = [3] /\ lookup (run cp1 world0 h1) (Temp 0) KI "I" = [3].
Proof. vm_compute. repeat split. Qed.

(* purge really removes something, and the isolation theorems' hypothesis v <> Temp t is satisfiable *)
Example purge_nontrivial : purge 0 h1 = [ONewTemp; ONewTemp; OAdd Base KI "I" 3] /\ Temp 1 <> Temp 0 /\ Base <> Temp 0.
Proof. repeat split; discriminate. Qed.

(* base_visible's hypotheses: a live TempVM and a name the base resolves *)
Example base_visible_hyps :
  alive (run cp1 world0 h1) 1 = true /\ lookup (run cp1 world0 h1) Base KI "I" <> [].
Proof. vm_compute. split; [reflexivity|discriminate]. Qed.

(* the base rejects a duplicate from another file, accepts the same file again; a TempVM overwrites *)
Example base_duplicate_rules :
  results cp1 world0 [OAdd Base KC "A" 1; OAdd Base KC "A" 2; OAdd Base KC "A" 1; OAdd Base KI "A" 3;
                      ONewTemp; OAdd (Temp 0) KF "g" 4; OAdd (Temp 0) KF "g" 5]
  = [ROk; RErr; ROk; RErr; ROk; ROk; ROk].
Proof. reflexivity. Qed.

(* case-insensitive class lookup through the base shadows a TempVM's own spelling *)
Example ci_shadow :
  lookup (run cp1 world0 [ONewTemp; OAdd (Temp 0) KC "A" 1; OAdd Base KC "a" 3]) (Temp 0) KC "A" = [3].
Proof. reflexivity. Qed.

(* former witness 1 (shared file cache): two TempVMs instantiate the same autoloadable class; each
   loads it into itself; the base afterwards loads its own copy too *)
Example autoload_per_temp :
  results cp1 world0 [ONewTemp; ONewTemp; OGetOrLoadClass (Temp 0) "App\P"; OGetOrLoadClass (Temp 1) "App\P";
                      OGetOrLoadClass Base "App\P"]
  = [ROk; ROk; RFound [1000]; RFound [1000]; RFound [1000]].
Proof. reflexivity. Qed.

(* former witness 2 (autoload into the base through LoadPkg / GetOrLoadInterface on a TempVM) *)
Example autoload_stays_in_temp :
  let w := run cp1 world0 [ONewTemp; ONewTemp; OLoadPkg (Temp 0) "App\P"; OGetOrLoadIface (Temp 0) "App\Q"] in
  lookup w (Temp 0) KC "App\P" = [1000] /\ lookup w (Temp 0) KI "App\Q" = [1001] /\
  lookup w Base KC "App\P" = [] /\ lookup w Base KI "App\Q" = [] /\
  lookup w (Temp 1) KC "App\P" = [] /\ lookup w (Temp 1) KI "App\Q" = [].
Proof. vm_compute. repeat split. Qed.

(* constants are shared by design *)
Example const_shared :
  let w := run cp1 world0 [ONewTemp; OConst (Temp 0) "K" 5] in get_const w "K" = Some 5 /\ get_const w "\K" = Some 5.
Proof. vm_compute. split; reflexivity. Qed.

(* lookup_sound's hypothesis is met by real lookups, and its conclusion names the right operation *)
Example lookup_sound_instance :
  In 1 (lookup (run cp1 world0 h1) (Temp 0) KC "A") /\ In (OAdd (Temp 0) KC "A" 1) h1.
Proof. split; [vm_compute; left; reflexivity|unfold h1; simpl; auto]. Qed.
