(* C12 — request-scoped (temporary) VMs are isolated.
   This file: the vocabulary of operations and the property itself, stated against an abstract
   machine (run / observe / results).  It does not mention any state variable of the model.

   The property (properties.jsonl C12): classes, interfaces and functions defined through a
   temporary VM are visible to code running on that VM only: after any sequence of definitions and
   lookups across a base VM and several temporary VMs, the base VM and every other temporary VM
   resolve exactly the names they resolved before.  Everything defined on the base VM stays
   resolvable through every temporary VM. *)
From Coq Require Export List ZArith Bool String.
Export ListNotations.
Open Scope Z_scope.
Open Scope string_scope.

Definition name := string.
(* a definition is identified by the source file it came from *)
Definition def := Z.

Inductive kind := KC | KI | KF.             (* class / interface / function *)
Inductive vmid := Base | Temp (t : nat).    (* the t-th TempVM created *)

Inductive op :=
| ONewTemp                                   (* runtime.NewTempVM(base) *)
| ODiscard (t : nat)                         (* the request ends: TempVM t is dropped *)
| OReTemp (t : nat)                          (* NewTempVM(temp t): must return temp t itself *)
| OPrepare (t : nat)                         (* TempVM.PrepareParse *)
| OAdd (v : vmid) (k : kind) (n : name) (d : def)   (* AddClass/AddInterface/AddFunc (directly or by parsing a declaration) *)
| OGetOrLoadClass (v : vmid) (n : name)      (* what `new N` / class_exists resolve through *)
| OGetOrLoadIface (v : vmid) (n : name)
| OLoadPkg (v : vmid) (n : name)
| OConst (v : vmid) (n : name) (x : Z).      (* SetConstant: write-through to the base BY DESIGN *)

(* result of one operation; RFound carries the set of definitions the call may return (more than
   one only for the case-insensitive class fallback, which ranges over a Go map) *)
Inductive result := RNone | ROk | RErr | RSkip | RFound (c : list def).

(* the temporary VM an operation is executed on.  Creation and discarding of a VM are lifetime
   events, not operations *of* that VM; OConst is shared state by design and excluded by name. *)
Definition op_scope (o : op) : option nat :=
  match o with
  | OReTemp t | OPrepare t => Some t
  | OAdd (Temp t) _ _ _ | OGetOrLoadClass (Temp t) _ | OGetOrLoadIface (Temp t) _ | OLoadPkg (Temp t) _ => Some t
  | _ => None
  end.
Definition scoped_to (t : nat) (o : op) : bool :=
  match op_scope o with Some u => Nat.eqb u t | None => false end.

(* the history with everything TempVM t did removed *)
Definition purge (t : nat) (h : list op) : list op := filter (fun o => negb (scoped_to t o)) h.

Section Isolation.
  Variable W : Type.
  Variable run : W -> list op -> W.
  Variable results : W -> list op -> list result.
  (* what VM v resolves for (kind, name): the set of definitions a lookup may return ([] = unresolved) *)
  Variable lookup : W -> vmid -> kind -> name -> list def.

  (* ISOLATION (non-interference): whatever TempVM t did — definitions, lookups, instantiations with
     autoload — every other VM (the base and every other TempVM) resolves every name of every kind
     exactly as if t had never done anything ... *)
  Definition isolated_lookups : Prop :=
    forall w h t v k n, v <> Temp t -> lookup (run w h) v k n = lookup (run w (purge t h)) v k n.

  (* ... and every operation executed on another VM (including resolution with autoload) returns
     exactly what it would have returned without t's operations *)
  Definition unscoped_results (t : nat) (h : list op) (rs : list result) : list result :=
    map snd (filter (fun p => negb (scoped_to t (fst p))) (combine h rs)).
  Definition isolated_results : Prop :=
    forall w h t, unscoped_results t h (results w h) = results w (purge t h).

  (* FRAME form used in the property text: one more operation on TempVM t changes what no other VM resolves *)
  Definition frame : Prop :=
    forall w h o t v k n, op_scope o = Some t -> v <> Temp t ->
      lookup (run w (h ++ [o])) v k n = lookup (run w h) v k n.

  (* discarding a TempVM changes what no other VM resolves *)
  Definition discard_frame : Prop :=
    forall w h t v k n, v <> Temp t ->
      lookup (run w (h ++ [ODiscard t])) v k n = lookup (run w h) v k n.

  (* BASE VISIBLE: what the base resolves, every live TempVM resolves too *)
  Variable alive : W -> nat -> bool.
  Definition base_visible : Prop :=
    forall w h t k n, alive (run w h) t = true ->
      lookup (run w h) Base k n <> [] -> lookup (run w h) (Temp t) k n <> [].
  (* ... and stays resolvable, whatever happens later *)
  Definition base_stays : Prop :=
    forall w h h' k n, lookup (run w h) Base k n <> [] -> lookup (run w (h ++ h')) Base k n <> [].
End Isolation.
