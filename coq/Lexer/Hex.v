(* byte strings are passed to Coq as hexadecimal text *)
From Coq Require Import List Arith Bool String Ascii.
Import ListNotations.

Definition hexval (c : ascii) : nat :=
  let n := nat_of_ascii c in
  if (48 <=? n) && (n <=? 57) then n - 48
  else if (97 <=? n) && (n <=? 102) then n - 87
  else if (65 <=? n) && (n <=? 70) then n - 55 else 0.

Fixpoint unhex (s : string) : list nat :=
  match s with
  | String a (String b r) => (16 * hexval a + hexval b) :: unhex r
  | _ => []
  end.
