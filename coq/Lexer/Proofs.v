(* Lemmas about the lexer model: every main-loop iteration consumes between 1 and |rest| bytes, its line
   delta is the number of newlines it consumed, its token text is the bytes it consumed; hence the loop
   invariants behind C18 (spans, order, lines, text) and C01 (termination within |s|+1 iterations). *)
From Coq Require Import List Arith NArith Bool Lia.
Import ListNotations.
From V.gen Require Import TokenTable.
From V.Lexer Require Import Model.

(* ---------- obligations on the regenerated table (re-checked by computation on every run) ---------- *)
Lemma delim_nl : is_delim 10 = true.
Proof. vm_compute. reflexivity. Qed.

Definition def_no_inner_nl (d : N * list nat) : bool :=
  match snd d with 10 :: _ => true | l => count_nl l =? 0 end.
Lemma defs_no_inner_nl : forallb def_no_inner_nl token_defs = true.
Proof. vm_compute. reflexivity. Qed.

Definition def_fixed (t : N) (l : list nat) (d : N * list nat) : bool :=
  if fst d =T t then
    (fix eq (a b : list nat) := match a, b with [] , [] => true | x :: a', y :: b' => (x =? y) && eq a' b' | _, _ => false end)
      (snd d) l
  else true.
Lemma defs_dollar : forallb (def_fixed T_DOLLAR [36]) token_defs = true.
Proof. vm_compute. reflexivity. Qed.
Lemma defs_nssep : forallb (def_fixed T_NAMESPACE_SEPARATOR [92]) token_defs = true.
Proof. vm_compute. reflexivity. Qed.

(* equal literals: the DAG keeps only the LAST definition of a literal, while best_match with a type filter would
   fall back to an earlier definition of the same literal when the last one is filtered out.  The two agree when all
   definitions of one literal agree on is_kw_type; checked on the regenerated table. *)
Fixpoint list_eqb (a b : list nat) : bool :=
  match a, b with [], [] => true | x :: a', y :: b' => (x =? y) && list_eqb a' b' | _, _ => false end.
Definition dup_agree (d : N * list nat) : bool :=
  forallb (fun e => if list_eqb (snd d) (snd e) then Bool.eqb (is_kw_type (fst d)) (is_kw_type (fst e)) else true) token_defs.
Lemma defs_dup_literals_agree : forallb dup_agree token_defs = true.
Proof. vm_compute. reflexivity. Qed.

(* ---------- lists ---------- *)
Lemma count_nl_app a b : count_nl (a ++ b) = count_nl a + count_nl b.
Proof. induction a as [|x a IH]; cbn [count_nl app]; [reflexivity|]. rewrite IH. lia. Qed.

Lemma firstn_add {A} (n m : nat) (l : list A) : firstn (n + m) l = firstn n l ++ firstn m (skipn n l).
Proof.
  revert l. induction n as [|n IH]; intros l; [reflexivity|].
  destruct l as [|x l]; cbn [firstn skipn Nat.add app].
  - rewrite firstn_nil. reflexivity.
  - rewrite IH. reflexivity.
Qed.

Lemma skipn_add {A} (n m : nat) (l : list A) : skipn (n + m) l = skipn m (skipn n l).
Proof.
  revert l. induction n as [|n IH]; intros l; [reflexivity|].
  destruct l as [|x l]; cbn [skipn Nat.add]; [rewrite skipn_nil; reflexivity|apply IH].
Qed.

Lemma prefix_firstn p l : prefix p l = true -> firstn (List.length p) l = p /\ List.length p <= List.length l.
Proof.
  revert l. induction p as [|a p IH]; intros l H; [cbn; split; [reflexivity|lia]|].
  destruct l as [|b l]; [discriminate|]. cbn [prefix] in H. apply andb_true_iff in H. destruct H as [E H].
  apply Nat.eqb_eq in E. subst b. destruct (IH l H) as [F L]. cbn [length firstn]. rewrite F. split; [reflexivity|lia].
Qed.

(* ---------- scanners: how many bytes they consume ---------- *)
Lemma scan_squote_bound : forall n l k m, List.length l <= n -> scan_squote l k = Some m -> k < m <= k + List.length l.
Proof.
  induction n as [|n IH]; intros l k m L H.
  - destruct l; [discriminate|cbn in L; lia].
  - destruct l as [|b t]; [discriminate|]. cbn [scan_squote] in H. cbn [length] in *.
    destruct (b =? 92).
    + destruct t as [|c l'].
      * cbn in H. discriminate.
      * cbn [length] in *. destruct ((c =? 92) || (c =? 39)).
        -- apply IH in H; [lia|lia].
        -- apply IH in H; [cbn [length] in H; lia|cbn [length]; lia].
    + destruct (b =? 39).
      * inversion H. lia.
      * apply IH in H; [lia|lia].
Qed.

Lemma scan_dquote_bound : forall l e k m, scan_dquote l e k = Some m -> k < m <= k + List.length l.
Proof.
  induction l as [|b t IH]; intros e k m H; [discriminate|]. cbn [scan_dquote length] in *.
  destruct (negb e && (b =? 34)); [inversion H; lia|]. apply IH in H. lia.
Qed.

Lemma scan_btick_bound : forall l k m, scan_btick l k = Some m -> k < m <= k + List.length l.
Proof.
  induction l as [|b t IH]; intros k m H; [discriminate|]. cbn [scan_btick length] in *.
  destruct (b =? 96); [inversion H; lia|]. apply IH in H. lia.
Qed.

Lemma scan_bytelit_bound : forall n l k m, List.length l <= n -> scan_bytelit l k = Some m -> k < m <= k + List.length l.
Proof.
  induction n as [|n IH]; intros l k m L H.
  - destruct l; [discriminate|cbn in L; lia].
  - destruct l as [|b t]; [discriminate|]. cbn [scan_bytelit length] in *.
    destruct (b =? 39); [inversion H; lia|]. destruct (b =? 92).
    + destruct t as [|c t']; [discriminate|]. cbn [length] in *. apply IH in H; lia.
    + apply IH in H; lia.
Qed.

Lemma scan_line_comment_spec : forall l k m dl, scan_line_comment l k = (m, dl) ->
  k <= m <= k + List.length l /\ dl = count_nl (firstn (m - k) l).
Proof.
  induction l as [|b t IH]; intros k m dl H; cbn [scan_line_comment length] in *.
  - inversion H. subst. split; [lia|]. rewrite firstn_nil. reflexivity.
  - destruct (b =? 10) eqn:E10.
    + inversion H. subst. split; [lia|]. replace (k + 1 - k) with 1 by lia. cbn. rewrite E10. reflexivity.
    + destruct (b =? 13) eqn:E13.
      * inversion H. subst. split; [lia|]. replace (k + 1 - k) with 1 by lia. cbn. rewrite E10. reflexivity.
      * apply IH in H. destruct H as [B D]. split; [lia|]. subst dl.
        replace (m - k) with (S (m - (k + 1))) by lia. cbn [firstn count_nl]. rewrite E10. reflexivity.
Qed.

Lemma scan_block_comment_bound : forall l k, k <= scan_block_comment l k <= k + List.length l.
Proof.
  induction l as [|b t IH]; intros k; cbn [scan_block_comment length]; [lia|].
  destruct t as [|c t']; [lia|]. destruct ((b =? 42) && (c =? 47)).
  - cbn [length]. lia.
  - specialize (IH (k + 1)). lia.
Qed.

Lemma not_delim_not_nl b : is_delim b = false -> (b =? 10) = false.
Proof. intros H. destruct (b =? 10) eqn:E; [|reflexivity]. apply Nat.eqb_eq in E. subst. rewrite delim_nl in H. discriminate. Qed.

(* the number scanner consumes no newline *)
Lemma scan_number_spec : forall f l prev k m, scan_number f l prev k = Some m ->
  k <= m <= k + List.length l /\ count_nl (firstn (m - k) l) = 0.
Proof.
  induction f as [|f IH]; intros l prev k m H; cbn [scan_number] in H.
  - inversion H. subst. split; [lia|]. rewrite Nat.sub_diag. reflexivity.
  - destruct l as [|r t].
    + inversion H. subst. split; [cbn; lia|]. rewrite firstn_nil. reflexivity.
    + cbn [length]. destruct (hi r); [discriminate|].
      assert (Z: forall x, x = k -> k <= x <= k + S (List.length t) /\ count_nl (firstn (x - k) (r :: t)) = 0).
      { intros x ->. split; [lia|]. rewrite Nat.sub_diag. reflexivity. }
      destruct (is_delim r && negb (r =? 46) && negb ((r =? 43) || (r =? 45))) eqn:D1; [inversion H; subst; apply Z; reflexivity|].
      destruct (((r =? 43) || (r =? 45)) && match prev with Some p => negb ((p =? 101) || (p =? 69)) | None => false end);
        [inversion H; subst; apply Z; reflexivity|].
      assert (R10: (r =? 10) = false).
      { destruct (r =? 10) eqn:E; [|reflexivity]. apply Nat.eqb_eq in E. subst r. vm_compute in D1. exact D1. }
      assert (ONE: k <= k + 1 <= k + S (List.length t) /\ count_nl (firstn (k + 1 - k) (r :: t)) = 0).
      { split; [lia|]. replace (k + 1 - k) with 1 by lia. cbn. rewrite R10. reflexivity. }
      destruct (match t with d1 :: d2 :: _ => (d1 =? 46) && (d2 =? 46) | _ => false end); [inversion H; subst; exact ONE|].
      assert (STEP: forall t0 p0, scan_number f t0 p0 (k + 1) = Some m -> t0 = t ->
                k <= m <= k + S (List.length t) /\ count_nl (firstn (m - k) (r :: t)) = 0).
      { intros t0 p0 H0 ->. apply IH in H0. destruct H0 as [B C]. split; [lia|].
        replace (m - k) with (S (m - (k + 1))) by lia. cbn [firstn count_nl]. rewrite R10, C. reflexivity. }
      destruct ((r =? 101) || (r =? 69)).
      * destruct t as [|s t']; [inversion H; subst; exact ONE|].
        destruct ((s =? 43) || (s =? 45)) eqn:ES.
        -- apply IH in H. destruct H as [B C]. cbn [length] in *. split; [lia|].
           replace (m - k) with (S (S (m - (k + 2)))) by lia. cbn [firstn count_nl]. rewrite R10, C.
           assert ((s =? 10) = false) as ->; [|reflexivity].
           destruct (s =? 10) eqn:E; [|reflexivity]. apply Nat.eqb_eq in E. subst s. discriminate.
        -- eapply STEP; eauto.
      * eapply STEP; eauto.
Qed.

Lemma scan_ident_spec : forall l k m, scan_ident l k = Some m ->
  k <= m <= k + List.length l /\ count_nl (firstn (m - k) l) = 0.
Proof.
  induction l as [|r t IH]; intros k m H; cbn [scan_ident length] in *.
  - inversion H. subst. split; [lia|]. rewrite firstn_nil. reflexivity.
  - destruct (hi r); [discriminate|].
    assert (Z: k <= k <= k + S (List.length t) /\ count_nl (firstn (k - k) (r :: t)) = 0).
    { split; [lia|]. rewrite Nat.sub_diag. reflexivity. }
    destruct (is_delim r) eqn:D; [inversion H; subst; exact Z|].
    destruct (negb (is_word r) && negb (r =? 92)); [inversion H; subst; exact Z|].
    apply IH in H. destruct H as [B C]. split; [lia|].
    replace (m - k) with (S (m - (k + 1))) by lia. cbn [firstn count_nl]. rewrite (not_delim_not_nl r D), C. reflexivity.
Qed.

(* the table *)
Lemma best_match_spec ok l t p : best_match ok l = Some (t, p) ->
  p <> [] /\ prefix p l = true /\ In (t, p) token_defs.
Proof.
  unfold best_match.
  assert (G: forall defs acc, (forall t p, acc = Some (t, p) -> p <> [] /\ prefix p l = true /\ In (t, p) (token_defs)) ->
             (forall d, In d defs -> In d token_defs) ->
             forall t p, fold_left (fun best d => let '(t, p) := d in
                  if ok t && negb (match p with [] => true | _ => false end) && prefix p l then
                    match best with Some (_, q) => if List.length q <=? List.length p then Some (t, p) else best | None => Some (t, p) end
                  else best) defs acc = Some (t, p) -> p <> [] /\ prefix p l = true /\ In (t, p) token_defs).
  { induction defs as [|[t0 p0] defs IH]; intros acc HA HD t1 p1 H; cbn [fold_left] in H; [apply HA; exact H|].
    eapply IH; [| |exact H].
    - intros t2 p2 E. destruct (ok t0 && negb (match p0 with [] => true | _ => false end) && prefix p0 l) eqn:C.
      + apply andb_true_iff in C. destruct C as [C C3]. apply andb_true_iff in C. destruct C as [_ C2].
        assert (N0: p0 <> []) by (destruct p0; [discriminate|congruence]).
        assert (I0: In (t0, p0) token_defs) by (apply HD; left; reflexivity).
        destruct acc as [[ta qa]|].
        * destruct (List.length qa <=? List.length p0); [inversion E; subst; auto|apply HA; exact E].
        * inversion E; subst; auto.
      + apply HA; exact E.
    - intros d I. apply HD. right. exact I. }
  intros H. eapply (G token_defs None); [intros ? ? E; discriminate|auto|exact H].
Qed.

(* ---------- one iteration ---------- *)
(* what merging relies on: a DOLLAR token is the text "$", a NAMESPACE_SEPARATOR token the text "\" *)
Definition ty_ok (t : N) (l : list nat) : Prop :=
  (t = T_DOLLAR -> l = [36]) /\ (t = T_NAMESPACE_SEPARATOR -> l = [92]).

Definition act_ok (rest : list nat) (a : act) : Prop :=
  1 <= a_n a <= List.length rest /\
  a_dl a = count_nl (firstn (a_n a) rest) /\
  (forall t l, a_tok a = Some (t, l) -> l = firstn (a_n a) rest /\ ty_ok t l).

Lemma some_inj {A} (x y : A) : Some x = Some y -> x = y.
Proof. intros H. inversion H. reflexivity. Qed.

Ltac ty_const := split; (let E := fresh "E" in intros E; vm_compute in E; discriminate E).

Lemma number_type_cases l : number_type l = T_NUMBER \/ number_type l = T_FLOAT \/ number_type l = T_INT.
Proof.
  unfold number_type.
  destruct (negb _); auto. destruct (match l with z :: x :: _ :: _ => _ | _ => false end); auto.
  destruct (classify_dec l false false) as [[[] []]|]; auto.
  destruct (match l with z :: _ :: _ => _ | _ => false end); auto.
Qed.
Lemma number_type_ok l x : ty_ok (number_type l) x.
Proof. destruct (number_type_cases l) as [E|[E|E]]; rewrite E; ty_const. Qed.

Lemma emit_ok t rest n dl php a : emit t rest n dl php = Ok a -> 1 <= n <= List.length rest ->
  dl = count_nl (firstn n rest) -> (forall l, ty_ok t l) -> act_ok rest a.
Proof.
  unfold emit. intros H B D T. inversion H. subst a. unfold act_ok. cbn [a_n a_dl a_tok].
  split; [exact B|]. split; [exact D|]. intros t0 l E. inversion E. subst. auto.
Qed.

Lemma sp_string_ok rest php a : sp_string rest php = Some (Ok a) -> act_ok rest a.
Proof.
  unfold sp_string. destruct rest as [|b t]; [discriminate|].
  assert (S: forall r, (forall m, r = Some m -> 0 < m <= List.length t) ->
     match r with
     | Some k => Some (emit (if plain_string (firstn (k - 1) t) then T_STRING else T_FUZZY) (b :: t) (S k)
                            (count_nl (firstn (S k) (b :: t))) php)
     | None => None end = Some (Ok a) -> act_ok (b :: t) a).
  { intros r B H. destruct r as [k|]; [|discriminate]. pose proof (some_inj _ _ H) as H1. specialize (B k eq_refl).
    eapply emit_ok; [exact H1|cbn [length]; lia|reflexivity|].
    intros l. destruct (plain_string _); ty_const. }
  destruct (b =? 39); [apply S; intros m E; apply (scan_squote_bound (List.length t)) in E; lia|].
  destruct (b =? 34); [apply S; intros m E; apply scan_dquote_bound in E; lia|].
  destruct (b =? 96); [apply S; intros m E; apply scan_btick_bound in E; lia|].
  discriminate.
Qed.

Lemma sp_byte_ok rest php a : sp_byte rest php = Some (Ok a) -> act_ok rest a.
Proof.
  unfold sp_byte. destruct rest as [|b [|q [|c t3]]]; try discriminate.
  destruct ((b =? 98) && (q =? 39)); [|discriminate].
  destruct (scan_bytelit (c :: t3) 0) as [k|] eqn:E; [|discriminate].
  intros H. pose proof (some_inj _ _ H) as H1. apply (scan_bytelit_bound (List.length (c :: t3))) in E; [|lia].
  eapply emit_ok; [exact H1|cbn [length] in *; lia|reflexivity|intros l; ty_const].
Qed.

Lemma sp_comment_number_ok rest php a : sp_comment_number rest php = Some (Ok a) -> act_ok rest a.
Proof.
  unfold sp_comment_number. destruct rest as [|b t]; [discriminate|].
  destruct (hi b); [discriminate|].
  set (cstart := match t with c :: _ => _ | [] => 0 end).
  assert (CS: cstart <> 0 -> exists c t2, t = c :: t2 /\ (b =? 10) = false /\ (c =? 10) = false).
  { subst cstart. destruct t as [|c t2]; [intros X; congruence|]. intros X. exists c, t2. split; [reflexivity|].
    destruct (b =? 47) eqn:B; [|congruence]. apply Nat.eqb_eq in B. subst b. split; [reflexivity|].
    destruct (c =? 47) eqn:C1; [apply Nat.eqb_eq in C1; subst; reflexivity|].
    destruct (c =? 42) eqn:C2; [apply Nat.eqb_eq in C2; subst; reflexivity|congruence]. }
  destruct (cstart =? 1) eqn:C1.
  - apply Nat.eqb_eq in C1. destruct (CS ltac:(lia)) as (c & t2 & -> & B10 & C10). cbn [tl].
    destruct (scan_line_comment t2 0) as [k dl] eqn:E. intros H. pose proof (some_inj _ _ H) as H1.
    apply scan_line_comment_spec in E. destruct E as [Bk D]. rewrite Nat.sub_0_r in D.
    eapply emit_ok; [exact H1|cbn [length]; lia| |intros l; ty_const].
    cbn [Nat.add firstn count_nl]. rewrite B10, C10, D. reflexivity.
  - destruct (cstart =? 2) eqn:C2.
    + apply Nat.eqb_eq in C2. destruct (CS ltac:(lia)) as (c & t2 & -> & B10 & C10). cbn [tl].
      intros H. pose proof (some_inj _ _ H) as H1. pose proof (scan_block_comment_bound t2 0) as Bk.
      eapply emit_ok; [exact H1|cbn [length]; lia|reflexivity|intros l; ty_const].
    + clear C1 C2 CS cstart.
      destruct (is_digit b || ((b =? 45) && match t with d :: _ => is_digit d | [] => false end)); [|discriminate].
      destruct (b =? 45) eqn:B45.
      * destruct (scan_number (List.length t) t None 1) as [[|n]|] eqn:E; try discriminate.
        intros H. pose proof (some_inj _ _ H) as H1. apply scan_number_spec in E. destruct E as [Bk C].
        eapply emit_ok; [exact H1|cbn [length]; lia| |intros l; apply number_type_ok].
        replace (S n - 1) with n in C by lia. cbn [firstn count_nl]. rewrite C.
        apply Nat.eqb_eq in B45. subst b. reflexivity.
      * destruct (scan_number (List.length (b :: t)) (b :: t) None 0) as [[|n]|] eqn:E; try discriminate.
        intros H. pose proof (some_inj _ _ H) as H1. apply scan_number_spec in E. destruct E as [Bk C].
        eapply emit_ok; [exact H1|lia| |intros l; apply number_type_ok].
        rewrite Nat.sub_0_r in C. symmetry. exact C.
Qed.

Lemma special_ok rest php a : special rest php = Some (Ok a) -> act_ok rest a.
Proof.
  unfold special. destruct (prefix [60; 60; 60] rest); [discriminate|]. unfold orelse.
  destruct (sp_string rest php) eqn:E1; [intros H; inversion H; subst; apply (sp_string_ok _ _ _ E1)|].
  destruct (sp_byte rest php) eqn:E2; [intros H; inversion H; subst; apply (sp_byte_ok _ _ _ E2)|].
  apply sp_comment_number_ok.
Qed.

Lemma list_eq_fix a b :
  (fix eq (a b : list nat) := match a, b with [], [] => true | x :: a', y :: b' => (x =? y) && eq a' b' | _, _ => false end) a b = true -> a = b.
Proof.
  revert b. induction a as [|x a IH]; intros [|y b] H; try discriminate; [reflexivity|].
  apply andb_true_iff in H. destruct H as [E H]. apply Nat.eqb_eq in E. subst. f_equal. apply IH. exact H.
Qed.

Lemma table_ty_ok t p : In (t, p) token_defs -> ty_ok t p.
Proof.
  intros I. split; intros ->.
  - pose proof (proj1 (forallb_forall _ _) defs_dollar _ I) as H. unfold def_fixed in H. cbn [fst snd] in H.
    rewrite N.eqb_refl in H. apply list_eq_fix in H. exact H.
  - pose proof (proj1 (forallb_forall _ _) defs_nssep _ I) as H. unfold def_fixed in H. cbn [fst snd] in H.
    rewrite N.eqb_refl in H. apply list_eq_fix in H. exact H.
Qed.

Lemma match_longest_ok rest b t ty p : rest = b :: t -> (b =? 10) = false ->
  match_longest rest = Some (Some (ty, p)) ->
  1 <= List.length p <= List.length rest /\ p = firstn (List.length p) rest /\ count_nl p = 0 /\ ty_ok ty p.
Proof.
  intros -> B10 H. unfold match_longest in H.
  assert (G: forall ok, best_match ok (b :: t) = Some (ty, p) ->
     1 <= List.length p <= List.length (b :: t) /\ p = firstn (List.length p) (b :: t) /\ count_nl p = 0 /\ ty_ok ty p).
  { intros ok E. apply best_match_spec in E. destruct E as (NE & PF & I).
    destruct (prefix_firstn _ _ PF) as [F L]. split; [destruct p; [congruence|cbn [length] in *; lia]|].
    split; [symmetry; exact F|]. split; [|apply table_ty_ok; exact I].
    pose proof (proj1 (forallb_forall _ _) defs_no_inner_nl _ I) as D. unfold def_no_inner_nl in D. cbn [snd] in D.
    destruct p as [|x p']; [reflexivity|]. cbn [prefix] in PF. apply andb_true_iff in PF. destruct PF as [X _].
    apply Nat.eqb_eq in X. subst x.
    destruct b as [|[|[|[|[|[|[|[|[|[|[|b']]]]]]]]]]]; try (apply Nat.eqb_eq in D; exact D). discriminate B10. }
  destruct ((negb (is_letter b) && negb (b =? 95)) || is_delim b).
  - pose proof (some_inj _ _ H) as H1. apply (G _ H1).
  - destruct (best_match is_kw_type (b :: t)) as [[t0 p0]|] eqn:E; [|discriminate].
    destruct (skipn (List.length p0) (b :: t)) as [|nx r].
    + inversion H. subst. apply (G _ E).
    + destruct (hi nx); [discriminate|]. destruct (is_word nx); [discriminate|]. inversion H. subst. apply (G _ E).
Qed.

Lemma script_step_ok rest php a : rest <> [] -> script_step rest php = Ok a -> act_ok rest a.
Proof.
  intros NE H. unfold script_step in H. destruct rest as [|b t]; [congruence|].
  assert (SK: forall n lnl p, 1 <= n <= List.length (b :: t) -> count_nl (firstn n (b :: t)) = 0 ->
              act_ok (b :: t) (mkAct n 0 None lnl p)).
  { intros n lnl p B C. unfold act_ok. cbn [a_n a_dl a_tok]. split; [exact B|]. split; [symmetry; exact C|]. intros ? ? E. discriminate. }
  destruct (php && prefix [63; 62] (b :: t)) eqn:PQ.
  { inversion H. subst a. apply andb_true_iff in PQ. destruct PQ as [_ PQ].
    destruct (prefix_firstn _ _ PQ) as [F L]. cbn [length] in *. apply SK; [lia|]. rewrite F. reflexivity. }
  destruct (is_ws b) eqn:WS.
  { inversion H. subst a. apply SK; [cbn [length]; lia|]. cbn [firstn count_nl].
    unfold is_ws in WS. destruct (b =? 10) eqn:E; [|reflexivity]. apply Nat.eqb_eq in E. subst b. discriminate. }
  destruct ((b =? 227) && prefix [227; 128; 128] (b :: t)) eqn:FW.
  { inversion H. subst a. apply andb_true_iff in FW. destruct FW as [_ FW].
    destruct (prefix_firstn _ _ FW) as [F L]. cbn [length] in *. apply SK; [lia|]. rewrite F. reflexivity. }
  destruct (b =? 10) eqn:B10.
  { inversion H. subst a. apply Nat.eqb_eq in B10. subst b. unfold act_ok. cbn [a_n a_dl a_tok length firstn count_nl].
    split; [lia|]. split; [reflexivity|]. intros t0 l E. inversion E. subst. split; [reflexivity|ty_const]. }
  destruct (special (b :: t) php) as [r|] eqn:SP.
  { subst r. apply (special_ok _ _ _ SP). }
  destruct (hi b); [discriminate|].
  destruct (match_longest (b :: t)) as [[[ty p]|]|] eqn:ML; [| |discriminate].
  - inversion H. subst a. destruct (match_longest_ok _ _ _ _ _ eq_refl B10 ML) as (B & F & C & T).
    unfold act_ok. cbn [a_n a_dl a_tok]. split; [exact B|]. split; [rewrite <- F; symmetry; exact C|].
    intros t0 l E. inversion E. subst. auto.
  - destruct (is_letter b || (b =? 95)).
    + destruct (scan_ident t 1) as [n|] eqn:SI; [|discriminate]. apply scan_ident_spec in SI. destruct SI as [Bn C].
      eapply emit_ok; [exact H|cbn [length]; lia| |intros l; ty_const].
      replace n with (S (n - 1)) by lia. cbn [firstn count_nl]. rewrite B10, C. reflexivity.
    + eapply emit_ok; [exact H|cbn [length]; lia| |intros l; ty_const].
      cbn [firstn count_nl]. rewrite B10. reflexivity.
Qed.

Lemma find_open_spec : forall l k idx, find_open l k = Some idx ->
  k <= idx /\ idx - k + 5 <= List.length l /\ prefix [60; 63; 112; 104; 112] (skipn (idx - k) l) = true.
Proof.
  induction l as [|b t IH]; intros k idx H; [discriminate|]. cbn [find_open] in H.
  destruct (prefix [60; 63; 112; 104; 112] (b :: t)) eqn:P.
  - inversion H. subst. rewrite Nat.sub_diag. split; [lia|]. destruct (prefix_firstn _ _ P) as [_ L]. cbn [length] in *.
    split; [lia|exact P].
  - apply IH in H. destruct H as (A & B & C). split; [lia|]. cbn [length]. split; [lia|].
    replace (idx - k) with (S (idx - (k + 1))) by lia. exact C.
Qed.

Lemma html_step_ok rest a : rest <> [] -> html_step rest = Ok a -> act_ok rest a.
Proof.
  intros NE H. unfold html_step in H. destruct (find_open rest 0) as [idx|] eqn:F.
  - apply find_open_spec in F. destruct F as (_ & L & P). rewrite Nat.sub_0_r in *.
    destruct idx as [|i].
    + inversion H. subst a. unfold act_ok. cbn [a_n a_dl a_tok]. split; [lia|]. split; [|intros ? ? E; discriminate].
      cbn [skipn] in P. destruct (prefix_firstn _ _ P) as [FF _]. cbn [length] in FF. rewrite FF. reflexivity.
    + inversion H. subst a. unfold act_ok. cbn [a_n a_dl a_tok]. split; [lia|]. split; [reflexivity|].
      intros t l E. inversion E. subst. split; [reflexivity|ty_const].
  - inversion H. subst a. unfold act_ok. cbn [a_n a_dl a_tok]. rewrite firstn_all.
    split; [destruct rest; [congruence|cbn [length]; lia]|]. split; [reflexivity|].
    intros t l E. inversion E. subst. split; [reflexivity|ty_const].
Qed.

Lemma step_ok template php rest a : rest <> [] -> step template php rest = Ok a -> act_ok rest a.
Proof.
  intros NE H. unfold step in H. destruct (template && negb php); [apply html_step_ok|eapply script_step_ok]; eauto.
Qed.

(* ---------- the main loop ---------- *)
Definition good (s : list nat) (t : tok) : Prop :=
  st t < en t /\ en t <= List.length s /\ lit t = slice s (st t) (en t) /\
  ln t = count_nl (firstn (st t) s) /\ ty_ok (ty t) (lit t).

(* tokens in source order, each starting at or after the end of the previous one (lo = lower bound) *)
Fixpoint fwd (s : list nat) (lo : nat) (ts : list tok) : Prop :=
  match ts with
  | [] => True
  | t :: r => lo <= st t /\ good s t /\ fwd s (en t) r
  end.

Lemma fwd_weaken s lo lo' ts : lo' <= lo -> fwd s lo ts -> fwd s lo' ts.
Proof. destruct ts as [|t r]; cbn [fwd]; auto. intros L (A & B & C). split; [lia|auto]. Qed.

Lemma fwd_tail s lo t r : fwd s lo (t :: r) -> fwd s lo r.
Proof. cbn [fwd]. intros (A & G & C). eapply fwd_weaken; [|exact C]. destruct G as (G1 & _). lia. Qed.

Lemma lex_loop_ok s : forall f tpl php rest pos line lnl acc out,
  rest = skipn pos s -> pos <= List.length s -> line = count_nl (firstn pos s) ->
  lex_loop f tpl php rest pos line lnl acc = Ok out ->
  exists tl, out = rev acc ++ tl /\ fwd s pos tl.
Proof.
  induction f as [|f IH]; intros tpl php rest pos line lnl acc out HR HP HL H; [discriminate|].
  cbn [lex_loop] in H. destruct rest as [|b t] eqn:ER.
  - inversion H. exists []. rewrite app_nil_r. split; [reflexivity|exact I].
  - rewrite <- ER in *. assert (NE: rest <> []) by (rewrite ER; discriminate).
    destruct (step tpl php rest) as [a| | |] eqn:ST; try discriminate.
    destruct (step_ok _ _ _ _ NE ST) as ((N1 & N2) & DL & TK).
    assert (LEN: List.length rest = List.length s - pos) by (rewrite HR; apply skipn_length).
    assert (R': skipn (a_n a) rest = skipn (pos + a_n a) s) by (rewrite HR, skipn_add; reflexivity).
    assert (L': line + a_dl a = count_nl (firstn (pos + a_n a) s)).
    { rewrite firstn_add, count_nl_app, <- HR, HL, DL. reflexivity. }
    apply IH with (1 := R') (3 := L') in H; [|lia].
    destruct H as (tl & E & F).
    destruct (a_tok a) as [[ty0 l]|] eqn:AT.
    + destruct ((ty0 =T T_NEWLINE) && lnl).
      * exists tl. split; [exact E|]. eapply fwd_weaken; [|exact F]. lia.
      * exists (mkTok ty0 l pos (pos + a_n a) line :: tl). cbn [rev] in E. rewrite <- app_assoc in E. split; [exact E|].
        cbn [fwd st en]. split; [lia|]. split; [|exact F].
        destruct (TK _ _ eq_refl) as [LT TO]. unfold good. cbn [st en lit ln ty].
        split; [lia|]. split; [lia|]. split; [|split; [exact HL|exact TO]].
        unfold slice. replace (pos + a_n a - pos) with (a_n a) by lia. rewrite <- HR. exact LT.
    + exists tl. split; [exact E|]. eapply fwd_weaken; [|exact F]. lia.
Qed.

(* no iteration of the model reaches a `Crash`: every read is dominated by a bounds test (after the two
   [BOUNDS] fixes); the failing reads of the pinned code are exhibited in C01/Examples.v *)
Lemma emit_not_crash t rest n dl php : emit t rest n dl php <> Crash.
Proof. discriminate. Qed.

Lemma sp_string_no_crash rest php : sp_string rest php <> Some Crash.
Proof.
  unfold sp_string. destruct rest as [|b t]; [discriminate|].
  destruct (b =? 39); [destruct (scan_squote t 0); discriminate|].
  destruct (b =? 34); [destruct (scan_dquote t false 0); discriminate|].
  destruct (b =? 96); [destruct (scan_btick t 0); discriminate|]. discriminate.
Qed.
Lemma sp_byte_no_crash rest php : sp_byte rest php <> Some Crash.
Proof.
  unfold sp_byte. destruct rest as [|b [|q [|c t3]]]; try discriminate.
  destruct ((b =? 98) && (q =? 39)); [|discriminate]. destruct (scan_bytelit (c :: t3) 0); discriminate.
Qed.
Lemma sp_comment_number_no_crash rest php : sp_comment_number rest php <> Some Crash.
Proof.
  unfold sp_comment_number. destruct rest as [|b t]; [discriminate|]. destruct (hi b); [discriminate|].
  destruct (_ =? 1); [destruct (scan_line_comment (tl t) 0); discriminate|].
  destruct (_ =? 2); [discriminate|].
  destruct (is_digit b || _); [|discriminate].
  destruct (if b =? 45 then _ else _) as [[|]|]; discriminate.
Qed.
Lemma special_no_crash rest php : special rest php <> Some Crash.
Proof.
  unfold special. destruct (prefix [60; 60; 60] rest); [discriminate|]. unfold orelse.
  destruct (sp_string rest php) as [o|] eqn:E1; [intros H; inversion H; subst; exact (sp_string_no_crash _ _ E1)|].
  destruct (sp_byte rest php) as [o|] eqn:E2; [intros H; inversion H; subst; exact (sp_byte_no_crash _ _ E2)|].
  apply sp_comment_number_no_crash.
Qed.
Lemma step_no_crash tpl php rest : step tpl php rest <> Crash.
Proof.
  unfold step. destruct (tpl && negb php).
  - unfold html_step. destruct (find_open rest 0) as [[|]|]; discriminate.
  - unfold script_step. destruct rest as [|b t]; [discriminate|].
    destruct (php && _); [discriminate|]. destruct (is_ws b); [discriminate|]. destruct ((b =? 227) && _); [discriminate|].
    destruct (b =? 10); [discriminate|].
    destruct (special (b :: t) php) as [r|] eqn:SP; [intros ->; exact (special_no_crash _ _ SP)|].
    destruct (hi b); [discriminate|]. destruct (match_longest (b :: t)) as [[[]|]|]; try discriminate.
    destruct (is_letter b || (b =? 95)); [destruct (scan_ident t 1); discriminate|discriminate].
Qed.
Lemma step_no_fuel tpl php rest : step tpl php rest <> OutOfFuel.
Proof.
  unfold step. destruct (tpl && negb php).
  - unfold html_step. destruct (find_open rest 0) as [[|]|]; discriminate.
  - unfold script_step. destruct rest as [|b t]; [discriminate|].
    destruct (php && _); [discriminate|]. destruct (is_ws b); [discriminate|]. destruct ((b =? 227) && _); [discriminate|].
    destruct (b =? 10); [discriminate|].
    destruct (special (b :: t) php) as [r|] eqn:SP.
    + intros ->. unfold special in SP. destruct (prefix [60; 60; 60] (b :: t)); [discriminate|]. unfold orelse in SP.
      destruct (sp_string (b :: t) php) as [o|] eqn:E1.
      { inversion SP; subst. unfold sp_string in E1. destruct (b =? 39); [destruct (scan_squote t 0); discriminate|].
        destruct (b =? 34); [destruct (scan_dquote t false 0); discriminate|].
        destruct (b =? 96); [destruct (scan_btick t 0); discriminate|]. discriminate. }
      destruct (sp_byte (b :: t) php) as [o|] eqn:E2.
      { inversion SP; subst. unfold sp_byte in E2. destruct t as [|q [|c t3]]; try discriminate.
        destruct ((b =? 98) && (q =? 39)); [|discriminate]. destruct (scan_bytelit (c :: t3) 0); discriminate. }
      unfold sp_comment_number in SP. destruct (hi b); [discriminate|].
      destruct (_ =? 1); [destruct (scan_line_comment (tl t) 0); discriminate|].
      destruct (_ =? 2); [discriminate|].
      destruct (is_digit b || _); [|discriminate].
      destruct (if b =? 45 then _ else _) as [[|]|]; discriminate.
    + destruct (hi b); [discriminate|]. destruct (match_longest (b :: t)) as [[[]|]|]; try discriminate.
      destruct (is_letter b || (b =? 95)); [destruct (scan_ident t 1); discriminate|discriminate].
Qed.

Lemma lex_loop_total : forall f tpl php rest pos line lnl acc, List.length rest < f ->
  lex_loop f tpl php rest pos line lnl acc <> OutOfFuel.
Proof.
  induction f as [|f IH]; intros tpl php rest pos line lnl acc L; [lia|].
  cbn [lex_loop]. destruct rest as [|b t] eqn:ER; [discriminate|]. rewrite <- ER in *.
  assert (NE: rest <> []) by (rewrite ER; discriminate).
  destruct (step tpl php rest) as [a| | |] eqn:ST; try discriminate.
  - destruct (step_ok _ _ _ _ NE ST) as ((N1 & N2) & _). apply IH. rewrite skipn_length. lia.
  - exfalso. exact (step_no_fuel _ _ _ ST).
Qed.

Lemma lex_loop_no_crash : forall f tpl php rest pos line lnl acc, lex_loop f tpl php rest pos line lnl acc <> Crash.
Proof.
  induction f as [|f IH]; intros tpl php rest pos line lnl acc; [discriminate|].
  cbn [lex_loop]. destruct rest as [|b t] eqn:ER; [discriminate|]. rewrite <- ER.
  destruct (step tpl php rest) as [a| | |] eqn:ST; try discriminate; [apply IH|].
  exfalso. exact (step_no_crash _ _ _ ST).
Qed.

(* ---------- Preprocessor.Process ---------- *)
Lemma slice_app s a b c : a <= b -> b <= c -> slice s a b ++ slice s b c = slice s a c.
Proof.
  intros L1 L2. unfold slice. replace (c - a) with ((b - a) + (c - b)) by lia.
  rewrite firstn_add. f_equal. f_equal. rewrite <- skipn_add. f_equal. lia.
Qed.

Lemma count_firstn_split s a b : a <= b -> count_nl (firstn b s) = count_nl (firstn a s) + count_nl (slice s a b).
Proof.
  intros L. replace b with (a + (b - a)) at 1 by lia. rewrite firstn_add, count_nl_app. reflexivity.
Qed.

Lemma word_no_nl l : forallb is_word l = true -> count_nl l = 0.
Proof.
  induction l as [|b l IH]; [reflexivity|]. cbn [forallb count_nl]. intros H. apply andb_true_iff in H. destruct H as [W H].
  rewrite (IH H). destruct (b =? 10) eqn:E; [|reflexivity]. apply Nat.eqb_eq in E. subst b. discriminate W.
Qed.
Lemma ident_lit_no_nl l : is_ident_token_lit l = true -> count_nl l = 0.
Proof. unfold is_ident_token_lit. destruct l; [discriminate|]. intros H. apply andb_true_iff in H. apply word_no_nl. tauto. Qed.

(* two adjacent good tokens merged into one (start of the first, end / line of the second) *)
Lemma good_merge s t n ty' : good s t -> good s n -> st n = en t -> count_nl (lit t) = 0 ->
  (forall l, ty_ok ty' l) -> good s (mkTok ty' (lit t ++ lit n) (st t) (en n) (ln n)).
Proof.
  intros (A1 & A2 & A3 & A4 & A5) (B1 & B2 & B3 & B4 & B5) ADJ NL TY. unfold good. cbn [st en lit ln ty].
  split; [lia|]. split; [exact B2|]. split; [|split; [|apply TY]].
  - rewrite A3, B3, ADJ. apply slice_app; lia.
  - rewrite B4, ADJ. rewrite (count_firstn_split s (st t) (en t)) by lia. rewrite <- A3, NL. lia.
Qed.

Definition cons_ok (x : tok) (o : outcome (list tok)) : outcome (list tok) := match o with Ok l => Ok (x :: l) | e => e end.

Lemma ns_more_ok s st0 : forall f ts litacc last l last' rest',
  ns_more f ts litacc last = (l, last', rest') ->
  st0 < en last -> en last <= List.length s -> litacc = slice s st0 (en last) -> count_nl litacc = 0 ->
  ln last = count_nl (firstn st0 s) -> fwd s (en last) ts ->
  st0 < en last' /\ en last' <= List.length s /\ l = slice s st0 (en last') /\ ln last' = count_nl (firstn st0 s) /\
  fwd s (en last') rest' /\ List.length rest' <= List.length ts.
Proof.
  induction f as [|f IH]; intros ts litacc last l last' rest' H I1 I2 I3 I4 I5 F; cbn [ns_more] in H.
  - inversion H; subst. auto 10.
  - destruct ts as [|sp [|n r]]; try (inversion H; subst; auto 10; fail).
    destruct ((ty sp =T T_NAMESPACE_SEPARATOR) && (st sp =? en last) && (st n =? en sp) && is_ident_token_lit (lit n)) eqn:C;
      [|inversion H; subst; auto 10].
    apply andb_true_iff in C. destruct C as [C C4]. apply andb_true_iff in C. destruct C as [C C3].
    apply andb_true_iff in C. destruct C as [C1 C2].
    apply N.eqb_eq in C1. apply Nat.eqb_eq in C2. apply Nat.eqb_eq in C3.
    cbn [fwd] in F. destruct F as (_ & Gs & _ & Gn & Fr).
    destruct Gs as (S1 & S2 & S3 & S4 & S5). destruct Gn as (N1 & N2 & N3 & N4 & N5).
    assert (LS: lit sp = [92]) by (apply S5; exact C1).
    apply IH in H; try assumption; try lia.
    + destruct H as (R1 & R2 & R3 & R4 & R5 & R6). cbn [length]. repeat split; auto; lia.
    + rewrite I3, S3, N3, C2, C3. rewrite slice_app by lia. rewrite slice_app by lia. reflexivity.
    + rewrite !count_nl_app, I4, LS, (ident_lit_no_nl _ C4). reflexivity.
    + rewrite N4, C3. rewrite (count_firstn_split s st0 (en sp)) by lia.
      rewrite <- (slice_app s st0 (en last) (en sp)) by lia. rewrite count_nl_app, <- I3, I4, <- C2, <- S3, LS. cbn. lia.
Qed.

Lemma pass1_ok s : forall f ts lo out, fwd s lo ts -> pass1 f ts = Ok out -> fwd s lo out.
Proof.
  induction f as [|f IH]; intros ts lo out F H; [discriminate|]. cbn [pass1] in H.
  destruct ts as [|t r]; [inversion H; exact I|].
  assert (KEEP: forall o, cons_ok t o = Ok out -> (forall out', o = Ok out' -> fwd s (en t) out') -> fwd s lo out).
  { intros o E K. destruct o as [l| | |]; try discriminate. inversion E. subst out. cbn [fwd] in *.
    destruct F as (A & G & _). split; [exact A|]. split; [exact G|]. apply K. reflexivity. }
  pose proof F as F0. cbn [fwd] in F. destruct F as (LO & Gt & Fr).
  destruct ((ty t =T T_WHITESPACE) || (ty t =T T_COMMENT) || (ty t =T T_MULTILINE_COMMENT)).
  { eapply IH; [|exact H]. eapply fwd_tail; exact F0. }
  destruct (ty t =T T_DOLLAR) eqn:TD.
  { apply N.eqb_eq in TD. destruct r as [|n r'].
    - inversion H. subst out. cbn [fwd]. auto.
    - destruct (ty n =T T_FUZZY); [discriminate|].
      destruct ((st n =? en t) && dollar_mergeable (ty n)) eqn:C.
      + apply andb_true_iff in C. destruct C as [ADJ _]. apply Nat.eqb_eq in ADJ.
        cbn [fwd] in Fr. destruct Fr as (_ & Gn & Fr').
        destruct (pass1 f r') as [l| | |] eqn:E; try discriminate. inversion H. subst out.
        assert (LT: lit t = [36]) by (destruct Gt as (_ & _ & _ & _ & T); apply T; exact TD).
        pose proof (good_merge s t n T_VARIABLE Gt Gn ADJ ltac:(rewrite LT; reflexivity) ltac:(intros; ty_const)) as GM.
        rewrite LT in GM. cbn [fwd st en]. split; [exact LO|]. split; [exact GM|]. eapply IH; eauto.
      + apply (KEEP _ H). intros out' E. eapply IH; eauto. }
  destruct (ty t =T T_NAMESPACE_SEPARATOR) eqn:TN.
  { apply N.eqb_eq in TN. destruct r as [|n r']; [inversion H; subst out; cbn [fwd]; auto|].
    assert (LT: lit t = [92]) by (destruct Gt as (_ & _ & _ & _ & T); apply T; exact TN).
    destruct (negb (st n =? en t)) eqn:ADJ.
    { apply (KEEP _ H). intros out' E. eapply IH; eauto. }
    apply negb_false_iff in ADJ. apply Nat.eqb_eq in ADJ.
    pose proof Fr as Fr0. cbn [fwd] in Fr. destruct Fr as (_ & Gn & Fr').
    destruct (ty n =T T_IDENTIFIER).
    - destruct (pass1 f r') as [l| | |] eqn:E; try discriminate. inversion H. subst out.
      pose proof (good_merge s t n T_IDENTIFIER Gt Gn ADJ ltac:(rewrite LT; reflexivity) ltac:(intros; ty_const)) as GM.
      cbn [fwd st en]. split; [exact LO|]. split; [exact GM|]. eapply IH; eauto.
    - destruct (is_ident_token_lit (lit n)) eqn:ID.
      + destruct (ns_more (List.length r') r' (lit t ++ lit n) n) as [[l last] rest] eqn:NM.
        destruct Gt as (T1 & T2 & T3 & T4 & T5). destruct Gn as (N1 & N2 & N3 & N4 & N5).
        apply (ns_more_ok s (st t)) in NM; try assumption; try lia.
        * destruct NM as (R1 & R2 & R3 & R4 & R5 & R6).
          destruct (pass1 f rest) as [l0| | |] eqn:E; try discriminate. inversion H. subst out.
          cbn [fwd st en]. split; [exact LO|]. split; [|eapply IH; eauto].
          unfold good. cbn [st en lit ln ty]. repeat split; try assumption; try lia; intros X; vm_compute in X; discriminate X.
        * rewrite T3, N3, ADJ. apply slice_app; lia.
        * rewrite count_nl_app, LT, (ident_lit_no_nl _ ID). reflexivity.
        * rewrite N4, ADJ. rewrite (count_firstn_split s (st t) (en t)) by lia. rewrite <- T3, LT. cbn. lia.
      + apply (KEEP _ H). intros out' E. eapply IH; eauto. }
  apply (KEEP _ H). intros out' E. eapply IH; eauto.
Qed.

Lemma good_retype s t ty' : good s t -> (forall l, ty_ok ty' l) -> good s (mkTok ty' (lit t) (st t) (en t) (ln t)).
Proof. intros (A & B & C & D & E) T. unfold good. cbn [st en lit ln ty]. auto. Qed.

Lemma pass3_ok s : forall ts prev lo, fwd s lo ts -> fwd s lo (pass3 prev ts).
Proof.
  induction ts as [|t r IH]; intros prev lo F; [exact I|]. cbn [pass3].
  pose proof F as F0. cbn [fwd] in F. destruct F as (LO & G & Fr).
  destruct (ty t =T T_NEWLINE).
  - destruct (match prev, r with Some p, n :: _ => _ | _, _ => false end); cbn [app].
    + cbn [fwd st en]. split; [exact LO|]. split; [apply good_retype; [exact G|intros; ty_const]|]. apply IH. exact Fr.
    + apply IH. eapply fwd_tail. exact F0.
  - cbn [fwd]. split; [exact LO|]. split; [exact G|]. apply IH. exact Fr.
Qed.

Lemma pass4_ok s : forall ts i prev lo, fwd s lo ts -> fwd s lo (pass4 i prev ts).
Proof.
  induction ts as [|t r IH]; intros i prev lo F; [exact I|]. cbn [pass4].
  cbn [fwd] in F. destruct F as (LO & G & Fr).
  destruct ((ty t =T T_IDENTIFIER) && _ && _ && _).
  - cbn [fwd st en]. split; [exact LO|]. split; [apply good_retype; [exact G|intros; ty_const]|]. apply IH. exact Fr.
  - cbn [fwd]. split; [exact LO|]. split; [exact G|]. apply IH. exact Fr.
Qed.

Lemma ns_more_len : forall f ts litacc last l last' rest', ns_more f ts litacc last = (l, last', rest') ->
  List.length rest' <= List.length ts.
Proof.
  induction f as [|f IH]; intros ts litacc last l last' rest' H; cbn [ns_more] in H; [inversion H; subst; lia|].
  destruct ts as [|sp [|n r]]; try (inversion H; subst; cbn [length]; lia).
  destruct (_ && _ && _ && _); [|inversion H; subst; lia].
  apply IH in H. cbn [length]. lia.
Qed.

Lemma pass1_total : forall f ts, List.length ts < f -> pass1 f ts <> OutOfFuel.
Proof.
  induction f as [|f IH]; intros ts L; [lia|]. cbn [pass1]. destruct ts as [|t r]; [discriminate|]. cbn [length] in L.
  assert (K: forall x o, o <> OutOfFuel -> cons_ok x o <> OutOfFuel) by (intros x [ | | | ] H; cbn; congruence).
  destruct (_ || _ || _); [apply IH; lia|].
  destruct (ty t =T T_DOLLAR).
  { destruct r as [|n r']; [discriminate|]. destruct (ty n =T T_FUZZY); [discriminate|]. cbn [length] in L.
    destruct (_ && _); apply K; apply IH; cbn [length]; lia. }
  destruct (ty t =T T_NAMESPACE_SEPARATOR).
  { destruct r as [|n r']; [discriminate|]. cbn [length] in L.
    destruct (negb _); [apply K; apply IH; cbn [length]; lia|].
    destruct (ty n =T T_IDENTIFIER); [apply K; apply IH; lia|].
    destruct (is_ident_token_lit (lit n)); [|apply K; apply IH; cbn [length]; lia].
    destruct (ns_more (List.length r') r' (lit t ++ lit n) n) as [[l last] rest] eqn:NM.
    apply ns_more_len in NM. apply K. apply IH. lia. }
  apply K. apply IH. lia.
Qed.

Lemma pass1_no_crash : forall f ts, pass1 f ts <> Crash.
Proof.
  induction f as [|f IH]; intros ts; [discriminate|]. cbn [pass1]. destruct ts as [|t r]; [discriminate|].
  assert (K: forall x o, o <> Crash -> cons_ok x o <> Crash) by (intros x [ | | | ] H; cbn; congruence).
  destruct (_ || _ || _); [apply IH|].
  destruct (ty t =T T_DOLLAR).
  { destruct r as [|n r']; [discriminate|]. destruct (ty n =T T_FUZZY); [discriminate|]. destruct (_ && _); apply K; apply IH. }
  destruct (ty t =T T_NAMESPACE_SEPARATOR).
  { destruct r as [|n r']; [discriminate|]. destruct (negb _); [apply K; apply IH|].
    destruct (ty n =T T_IDENTIFIER); [apply K; apply IH|].
    destruct (is_ident_token_lit (lit n)); [|apply K; apply IH].
    destruct (ns_more (List.length r') r' (lit t ++ lit n) n) as [[l last] rest]. apply K. apply IH. }
  apply K. apply IH.
Qed.

(* ---------- the statements ---------- *)
Lemma find_nl_spec : forall l k m, find_nl l k = Some m ->
  k <= m /\ m - k < List.length l /\ count_nl (firstn (S (m - k)) l) = 1.
Proof.
  induction l as [|b t IH]; intros k m H; [discriminate|]. cbn [find_nl] in H. destruct (b =? 10) eqn:E.
  - inversion H. subst. rewrite Nat.sub_diag. cbn [length firstn count_nl]. rewrite E. split; [lia|]. split; [lia|reflexivity].
  - apply IH in H. destruct H as (A & B & C). split; [lia|]. cbn [length]. split; [lia|].
    replace (m - k) with (S (m - (k + 1))) by lia. cbn [firstn count_nl]. rewrite E. cbn [firstn] in C. exact C.
Qed.

Lemma preprocess_fwd s raw ts : fwd s 0 raw -> preprocess raw = Ok ts -> fwd s 0 ts.
Proof.
  intros F H. unfold preprocess in H. destruct (pass1 (S (List.length raw)) raw) as [f1| | |] eqn:P1; try discriminate.
  inversion H. subst ts. apply pass4_ok, pass3_ok. eapply pass1_ok; eauto.
Qed.

Theorem tokenize_fwd : forall template s ts, tokenize template s = Ok ts -> fwd s 0 ts.
Proof.
  intros template s ts H. unfold tokenize in H.
  destruct (tokenize_raw template s) as [raw| | |] eqn:R; try discriminate.
  apply (preprocess_fwd s raw ts); [|exact H]. clear H.
  unfold tokenize_raw in R. destruct (negb template && prefix [35; 33] s).
  - destruct (find_nl s 0) as [nl|] eqn:FN; [|inversion R; exact I].
    apply find_nl_spec in FN. rewrite Nat.sub_0_r in FN. destruct FN as (_ & L & C).
    apply (lex_loop_ok s) in R; [|reflexivity|lia|symmetry; exact C]. destruct R as (tl & -> & F). cbn [rev app].
    eapply fwd_weaken; [|exact F]. lia.
  - destruct (negb template && prefix _ s); [discriminate|].
    apply (lex_loop_ok s) in R; [|reflexivity|lia|reflexivity]. destruct R as (tl & -> & F). exact F.
Qed.

Theorem tokenize_total : forall template s, tokenize template s <> OutOfFuel.
Proof.
  intros template s. unfold tokenize. destruct (tokenize_raw template s) as [raw| | |] eqn:R; try discriminate.
  - unfold preprocess. destruct (pass1 (S (List.length raw)) raw) as [f1| | |] eqn:P1; try discriminate.
    exfalso. exact (pass1_total _ _ (Nat.lt_succ_diag_r _) P1).
  - exfalso. unfold tokenize_raw in R. destruct (negb template && prefix [35; 33] s).
    + destruct (find_nl s 0) as [nl|]; [|discriminate].
      refine (lex_loop_total _ _ _ _ _ _ _ _ _ R). rewrite skipn_length. lia.
    + destruct (negb template && prefix _ s); [discriminate|].
      exact (lex_loop_total _ _ _ _ _ _ _ _ (Nat.lt_succ_diag_r _) R).
Qed.

Theorem tokenize_no_crash : forall template s, tokenize template s <> Crash.
Proof.
  intros template s. unfold tokenize. destruct (tokenize_raw template s) as [raw| | |] eqn:R; try discriminate.
  - unfold preprocess. destruct (pass1 (S (List.length raw)) raw) as [f1| | |] eqn:P1; try discriminate.
    exfalso. exact (pass1_no_crash _ _ P1).
  - exfalso. unfold tokenize_raw in R. destruct (negb template && prefix [35; 33] s).
    + destruct (find_nl s 0) as [nl|]; [|discriminate]. exact (lex_loop_no_crash _ _ _ _ _ _ _ _ R).
    + destruct (negb template && prefix _ s); [discriminate|]. exact (lex_loop_no_crash _ _ _ _ _ _ _ _ R).
Qed.
