(* Byte-level model of /repo/lexer: Lexer.Tokenize and Lexer.TokenizeTemplate (lexer.go, php_lexer.go),
   HandleSpecialToken and the scanners behind it (special.go, string.go, string_quoted.go),
   matchLongestToken (both DAG walks, as "longest table literal that is a prefix"), identifier scanning,
   and Preprocessor.Process (preprocessor.go: filtering, $+name and \+name merging, automatic semicolons,
   identifier-is-variable).  Shared by C01 and C18.  No proofs in this file.

   The source is a list of bytes (nat < 256).  A Go read that is not dominated by a bounds test is an
   explicit `Crash`; the two such reads of the pinned tree (full-width-space test in Tokenize, `tokens[i+1]`
   in Process) are marked [BOUNDS] and are modelled as the code is after fixes (see KNOWN_FINDINGS).
   `Unsup` is answered for what is not modelled:
     - heredoc / nowdoc (any "<<<"), a leading "<!DOCTYPE" (HTML lexer);
     - a byte >= 0x80 outside strings and comments (unicode.IsLetter/IsSpace tables, utf8 decoding);
     - `$` directly before a quoted string that contains '$' or '@'.
   A quoted string whose content contains '$' or '@' (processStringInterpolation may rewrite it or turn it into
   an interpolation token) is kept as one token with its span and line, type `T_FUZZY`, text left open.
   Columns (Token.Pos) are not modelled; the property speaks of spans, lines and text. *)
From Coq Require Import List Arith NArith Bool.
Import ListNotations.
From V.gen Require Import TokenTable.

Notation "a =T b" := (N.eqb a b) (at level 70).
Notation "a <=T b" := (N.leb a b) (at level 70).

Inductive outcome (A : Type) := Ok (a : A) | Crash | Unsup | OutOfFuel.
Arguments Ok {A} a. Arguments Crash {A}. Arguments Unsup {A}. Arguments OutOfFuel {A}.

Record tok := mkTok { ty : N; lit : list nat; st : nat; en : nat; ln : nat }.

(* ---------- character classes (unicode.* restricted to ASCII) ---------- *)
Definition is_digit (b : nat) : bool := (48 <=? b) && (b <=? 57).
Definition is_letter (b : nat) : bool := ((65 <=? b) && (b <=? 90)) || ((97 <=? b) && (b <=? 122)).
Definition is_delim (b : nat) : bool := existsb (Nat.eqb b) delim_bytes.
Definition hi (b : nat) : bool := 128 <=? b.
Definition is_ws (b : nat) : bool := (b =? 32) || (b =? 9) || (b =? 13).      (* isWhitespace: ' ' \t \r *)
Definition is_word (b : nat) : bool := is_letter b || is_digit b || (b =? 95).

Fixpoint count_nl (l : list nat) : nat :=
  match l with [] => 0 | b :: r => (if b =? 10 then 1 else 0) + count_nl r end.

(* input[a:b] *)
Definition slice (s : list nat) (a b : nat) : list nat := firstn (b - a) (skipn a s).

Fixpoint prefix (p l : list nat) : bool :=
  match p, l with
  | [], _ => true
  | a :: p', b :: l' => (a =? b) && prefix p' l'
  | _ :: _, [] => false
  end.

(* ---------- string scanners (string_quoted.go); argument = bytes after the opening quote;
   result = number of bytes after the opening quote up to and including the closing quote ---------- *)
Fixpoint scan_squote (l : list nat) (k : nat) : option nat :=
  match l with
  | [] => None
  | b :: t =>
      if b =? 92 then                                 (* backslash *)
        match t with
        | n :: l' => if (n =? 92) || (n =? 39) then scan_squote l' (k + 2) else scan_squote t (k + 1)
        | [] => scan_squote t (k + 1)
        end
      else if b =? 39 then Some (k + 1)
      else scan_squote t (k + 1)
  end.

Fixpoint scan_dquote (l : list nat) (escaped : bool) (k : nat) : option nat :=
  match l with
  | [] => None
  | b :: t =>
      if negb escaped && (b =? 34) then Some (k + 1)
      else scan_dquote t (if b =? 92 then negb escaped else false) (k + 1)
  end.

Fixpoint scan_btick (l : list nat) (k : nat) : option nat :=
  match l with
  | [] => None
  | b :: t => if b =? 96 then Some (k + 1) else scan_btick t (k + 1)
  end.

(* handleByte: b'...' ; argument = bytes after  b'  *)
Fixpoint scan_bytelit (l : list nat) (k : nat) : option nat :=
  match l with
  | [] => None
  | b :: t =>
      if b =? 39 then Some (k + 1)
      else if b =? 92 then match t with [] => None | _ :: t' => scan_bytelit t' (k + 2) end
      else scan_bytelit t (k + 1)
  end.

(* would processStringInterpolation return the string token unchanged? *)
Definition plain_string (content : list nat) : bool :=
  negb (existsb (fun b => (b =? 36) || (b =? 64)) content).

(* a string that may be rewritten (\$) or become an interpolation token: the model keeps its span and line
   and leaves type and text open (type T_FUZZY: not a TokenType of the code; Run.v accepts STRING or
   INTERPOLATION_TOKEN there) *)
Definition T_FUZZY : N := 0%N.

(* ---------- comments (handleCommentWithLineInfo) ---------- *)
(* "//": bytes after the two slashes; result (consumed after "//", line delta).  The terminator \n or \r is
   consumed; only \n counts as a line break (after fix; the pinned code also counted \r). *)
Fixpoint scan_line_comment (l : list nat) (k : nat) : nat * nat :=
  match l with
  | [] => (k, 0)
  | b :: t => if b =? 10 then (k + 1, 1) else if b =? 13 then (k + 1, 0) else scan_line_comment t (k + 1)
  end.

(* "/*": the loop `for pos < len(input)-1` ; argument = bytes from pos on, k = bytes consumed after "/*".
   When no "*/" is found the loop stops one byte before the end of input (as written). *)
Fixpoint scan_block_comment (l : list nat) (k : nat) : nat :=
  match l with
  | [] => k                       (* pos = len: only when the input ends right after the opener *)
  | b :: t =>
      match t with
      | [] => k                   (* pos = len-1: loop condition false *)
      | c :: _ => if (b =? 42) && (c =? 47) then k + 2 else scan_block_comment t (k + 1)
      end
  end.

(* ---------- numbers (handleNumber) ---------- *)
(* the scanning loop; l = bytes from pos on, prev = input[pos-1] (None at pos = start), k = pos - start.
   result: Some length | None (a byte >= 0x80 is reached: not modelled) *)
Fixpoint scan_number (fuel : nat) (l : list nat) (prev : option nat) (k : nat) : option nat :=
  match fuel with 0 => Some k | S f =>
  match l with
  | [] => Some k
  | r :: t =>
    if hi r then None
    else if is_delim r && negb (r =? 46) && negb ((r =? 43) || (r =? 45)) then Some k
    else if ((r =? 43) || (r =? 45)) &&
            match prev with Some p => negb ((p =? 101) || (p =? 69)) | None => false end then Some k
    else if match t with d1 :: d2 :: _ => (d1 =? 46) && (d2 =? 46) | _ => false end then Some (k + 1)
    else if (r =? 101) || (r =? 69) then
      match t with
      | s :: t' => if (s =? 43) || (s =? 45) then scan_number f t' (Some s) (k + 2) else scan_number f t (Some r) (k + 1)
      | [] => Some (k + 1)
      end
    else scan_number f t (Some r) (k + 1)
  end end.

Definition is_hexd (b : nat) : bool := is_digit b || ((97 <=? b) && (b <=? 102)) || ((65 <=? b) && (b <=? 70)).

(* the float / int classification loop (step 3 of handleNumber); returns None = "NUMBER", else (hasDot, hasExp) *)
Fixpoint classify_dec (l : list nat) (hasDot hasExp : bool) : option (bool * bool) :=
  match l with
  | [] => Some (hasDot, hasExp)
  | r :: t =>
    if r =? 46 then (if hasDot || hasExp then None else classify_dec t true hasExp)
    else if (r =? 101) || (r =? 69) then
      if hasExp then None
      else match t with
           | s :: t' => if (s =? 43) || (s =? 45) then classify_dec t' hasDot true else classify_dec t hasDot true
           | [] => Some (hasDot, true)
           end
    else if negb (is_digit r) && negb (r =? 45) && negb (r =? 43) then None
    else classify_dec t hasDot hasExp
  end.

Definition number_type (literal : list nat) : N :=
  let okc r := is_digit r || (r =? 46) || (r =? 101) || (r =? 69) || (r =? 43) || (r =? 45) ||
               (r =? 120) || (r =? 88) || (r =? 98) || (r =? 66) in
  let lead0 := match literal with z :: _ :: _ => z =? 48 | _ => false end in       (* len > 1 && lit[0] == '0' *)
  let hexbin := match literal with z :: x :: _ :: _ =>
                  (z =? 48) && ((x =? 120) || (x =? 88) || (x =? 98) || (x =? 66)) | _ => false end in
  if negb (forallb okc literal) then T_NUMBER
  else if hexbin then T_NUMBER                      (* 0x.. / 0b..: NUMBER whether well formed or not *)
  else match classify_dec literal false false with
       | None => T_NUMBER
       | Some (_, true) => T_NUMBER                 (* scientific notation *)
       | Some (true, false) => T_FLOAT
       | Some (false, false) => if lead0 then T_NUMBER (* octal or not *) else T_INT
       end.

(* ---------- the token table (matchTokenWithDAG / matchKeywordWithDAG) ---------- *)
(* longest literal that is a prefix of l; among equal literals the LAST definition wins (the trie node's
   token is overwritten) *)
Definition best_match (ok : N -> bool) (l : list nat) : option (N * list nat) :=
  fold_left (fun best d =>
      let '(t, p) := d in
      if ok t && negb (match p with [] => true | _ => false end) && prefix p l then
        match best with
        | Some (_, q) => if List.length q <=? List.length p then Some (t, p) else best
        | None => Some (t, p)
        end
      else best) token_defs None.

Definition is_kw_type (t : N) : bool :=
  ((T_KEYWORD_START <=T t) && (t <=T T_KEYWORD_END)) || ((T_VALUE_START <=T t) && (t <=T T_VALUE_END)).

(* matchLongestToken on a non-empty l whose first byte is ASCII: Some (Some (type, literal)) | Some None (no
   match) | None (a byte >= 0x80 decides the answer: not modelled) *)
Definition match_longest (l : list nat) : option (option (N * list nat)) :=
  match l with
  | [] => Some None
  | b :: _ =>
    if (negb (is_letter b) && negb (b =? 95)) || is_delim b then Some (best_match (fun _ => true) l)
    else
      match best_match is_kw_type l with
      | None => Some None
      | Some (t, p) =>
          match skipn (List.length p) l with
          | [] => Some (Some (t, p))
          | nx :: _ => if hi nx then None else if is_word nx then Some None else Some (Some (t, p))
          end
      end
  end.

(* identifier scanning after the first byte; None when a byte >= 0x80 is reached *)
Fixpoint scan_ident (l : list nat) (k : nat) : option nat :=
  match l with
  | [] => Some k
  | r :: t =>
    if hi r then None
    else if is_delim r then Some k
    else if negb (is_word r) && negb (r =? 92) then Some k
    else scan_ident t (k + 1)
  end.

(* ---------- one iteration of the main loop ---------- *)
(* what the iteration does at `rest` (non-empty): bytes consumed, line delta, token (type, literal) if one is
   appended, and what happens to lastWasNewline (None = untouched) *)
Record act := mkAct { a_n : nat; a_dl : nat; a_tok : option (N * list nat); a_lnl : option bool; a_php : bool }.

Definition emit (t : N) (rest : list nat) (n dl : nat) (php : bool) : outcome act :=
  Ok (mkAct n dl (Some (t, firstn n rest)) (Some false) php).

(* HandleSpecialToken.  Some (outcome) = it produced a token (or the model gives up), None = `ok == false` *)
Definition orelse {A} (x y : option A) : option A := match x with Some r => Some r | None => y end.

(* HandleString for the three quote characters *)
Definition sp_string (rest : list nat) (php : bool) : option (outcome act) :=
  match rest with
  | [] => None
  | b :: t =>
    let str (r : option nat) :=
      match r with
      | Some k => let n := S k in
                  Some (emit (if plain_string (firstn (k - 1) t) then T_STRING else T_FUZZY) rest n
                             (count_nl (firstn n rest)) php)
      | None => None
      end in
    if b =? 39 then str (scan_squote t 0)
    else if b =? 34 then str (scan_dquote t false 0)
    else if b =? 96 then str (scan_btick t 0)
    else None
  end.

(* handleByte: b'..' needs at least three bytes *)
Definition sp_byte (rest : list nat) (php : bool) : option (outcome act) :=
  match rest with
  | b :: q :: ((_ :: _) as t2) =>
      if (b =? 98) && (q =? 39) then
        match scan_bytelit t2 0 with
        | Some k => Some (emit T_BYTE rest (2 + k) (count_nl (firstn (2 + k) rest)) php)
        | None => None
        end
      else None
  | _ => None
  end.

(* isCommentStart / isNumberStart *)
Definition sp_comment_number (rest : list nat) (php : bool) : option (outcome act) :=
  match rest with
  | [] => None
  | b :: t =>
    if hi b then None       (* neither comment nor number start; falls through to the main loop *)
    else
      let cstart := match t with c :: _ => if b =? 47 then (if c =? 47 then 1 else if c =? 42 then 2 else 0) else 0 | [] => 0 end in
      if cstart =? 1 then
        let '(k, dl) := scan_line_comment (tl t) 0 in Some (emit T_COMMENT rest (2 + k) dl php)
      else if cstart =? 2 then
        let n := 2 + scan_block_comment (tl t) 0 in
        Some (emit T_MULTILINE_COMMENT rest n (count_nl (firstn n rest)) php)
      else
        if is_digit b || ((b =? 45) && match t with d :: _ => is_digit d | [] => false end) then
          match (if b =? 45 then scan_number (List.length t) t None 1 else scan_number (List.length rest) rest None 0) with
          | Some 0 => None                                   (* `if pos <= start { return false }` *)
          | Some n => Some (emit (number_type (firstn n rest)) rest n 0 php)
          | None => Some Unsup
          end
        else None
  end.

Definition special (rest : list nat) (php : bool) : option (outcome act) :=
  if prefix [60; 60; 60] rest then Some Unsup                      (* heredoc / nowdoc *)
  else orelse (sp_string rest php) (orelse (sp_byte rest php) (sp_comment_number rest php)).

(* script-mode iteration, shared by Tokenize and TokenizeTemplate (php = true: inside <?php ... ?>) *)
Definition script_step (rest : list nat) (php : bool) : outcome act :=
  match rest with
  | [] => Unsup
  | b :: t =>
    if php && prefix [63; 62] rest then Ok (mkAct 2 0 None None false)            (* ?> *)
    else if is_ws b then Ok (mkAct 1 0 None None php)
    else if (b =? 227) && prefix [227; 128; 128] rest then Ok (mkAct 3 0 None None php)   (* full-width space; [BOUNDS] fixed *)
    else if b =? 10 then Ok (mkAct 1 1 (Some (T_NEWLINE, [10])) (Some true) php)
    else
      match special rest php with
      | Some r => r
      | None =>
        if hi b then Unsup
        else match match_longest rest with
        | None => Unsup
        | Some (Some (ty, p)) => Ok (mkAct (List.length p) 0 (Some (ty, p)) (Some false) php)
        | Some None =>
            if is_letter b || (b =? 95) then
              match scan_ident t 1 with
              | Some n => emit T_IDENTIFIER rest n 0 php
              | None => Unsup
              end
            else emit T_UNKNOWN rest 1 0 php
        end
      end
  end.

(* index of the first occurrence of "<?php" (strings.Index) *)
Fixpoint find_open (l : list nat) (k : nat) : option nat :=
  match l with
  | [] => None
  | _ :: t => if prefix [60; 63; 112; 104; 112] l then Some k else find_open t (k + 1)
  end.

Definition html_step (rest : list nat) : outcome act :=
  match find_open rest 0 with
  | None => let n := List.length rest in Ok (mkAct n (count_nl rest) (Some (T_HTML_TAG, rest)) None false)
  | Some 0 => Ok (mkAct 5 0 None None true)
  | Some idx => Ok (mkAct idx (count_nl (firstn idx rest)) (Some (T_HTML_TAG, firstn idx rest)) None false)
  end.

Definition step (template : bool) (php : bool) (rest : list nat) : outcome act :=
  if template && negb php then html_step rest else script_step rest php.

Fixpoint lex_loop (fuel : nat) (template php : bool) (rest : list nat) (pos line : nat) (lastnl : bool)
         (acc : list tok) : outcome (list tok) :=
  match fuel with
  | 0 => OutOfFuel
  | S f =>
    match rest with
    | [] => Ok (rev acc)
    | _ =>
      match step template php rest with
      | Ok a =>
          let acc' :=
            match a_tok a with
            | Some (t, l) =>
                if (t =T T_NEWLINE) && lastnl then acc else mkTok t l pos (pos + a_n a) line :: acc
            | None => acc
            end in
          lex_loop f template (a_php a) (skipn (a_n a) rest) (pos + a_n a) (line + a_dl a)
                   (match a_lnl a with Some b => b | None => lastnl end) acc'
      | Crash => Crash
      | Unsup => Unsup
      | OutOfFuel => OutOfFuel
      end
    end
  end.

(* ---------- Preprocessor.Process ---------- *)
Definition is_ident_token_lit (l : list nat) : bool :=   (* isValidIdentifierToken on an ASCII literal *)
  match l with
  | [] => false
  | b :: _ => (is_letter b || (b =? 95)) && forallb is_word l
  end.

Definition dollar_mergeable (t : N) : bool :=
  (t =T T_IDENTIFIER) || ((T_KEYWORD_START <=T t) && (t <=T T_KEYWORD_END)) || (t =T T_NULL) || (t =T T_TRUE) ||
  (t =T T_FALSE) || (t =T T_BOOL) || (t =T T_INT) || (t =T T_FLOAT) || (t =T T_STRING) || (t =T T_ARRAY).

(* the `\`name`\`name... merge loop: returns (literal so far, last token, remaining tokens) *)
Fixpoint ns_more (fuel : nat) (ts : list tok) (litacc : list nat) (last : tok) : list nat * tok * list tok :=
  match fuel with 0 => (litacc, last, ts) | S f =>
  match ts with
  | s :: n :: r =>
      if (ty s =T T_NAMESPACE_SEPARATOR) && (st s =? en last) && (st n =? en s) && is_ident_token_lit (lit n)
      then ns_more f r (litacc ++ lit s ++ lit n) n
      else (litacc, last, ts)
  | _ => (litacc, last, ts)
  end end.

(* pass 1 *)
Fixpoint pass1 (fuel : nat) (ts : list tok) : outcome (list tok) :=
  match fuel with 0 => OutOfFuel | S f =>
  match ts with
  | [] => Ok []
  | t :: r =>
    let cons_ (x : tok) (o : outcome (list tok)) := match o with Ok l => Ok (x :: l) | e => e end in
    if (ty t =T T_WHITESPACE) || (ty t =T T_COMMENT) || (ty t =T T_MULTILINE_COMMENT) then pass1 f r
    else if ty t =T T_DOLLAR then
      match r with
      | [] => Ok [t]                         (* [BOUNDS] `$` is the last token: fixed, kept as DOLLAR *)
      | n :: r' =>
          if ty n =T T_FUZZY then Unsup
          else if (st n =? en t) && dollar_mergeable (ty n)        (* adjacent only (fix adf7e43) *)
          then cons_ (mkTok T_VARIABLE (36 :: lit n) (st t) (en n) (ln n)) (pass1 f r')
          else cons_ t (pass1 f r)
      end
    else if ty t =T T_NAMESPACE_SEPARATOR then
      match r with
      | n :: r' =>
          if negb (st n =? en t) then cons_ t (pass1 f r)             (* adjacent only (fix adf7e43) *)
          else if ty n =T T_IDENTIFIER then cons_ (mkTok T_IDENTIFIER (lit t ++ lit n) (st t) (en n) (ln n)) (pass1 f r')
          else if is_ident_token_lit (lit n) then
            let '(l, last, rest) := ns_more (List.length r') r' (lit t ++ lit n) n in
            cons_ (mkTok T_IDENTIFIER l (st t) (en last) (ln last)) (pass1 f rest)
          else cons_ t (pass1 f r)
      | [] => Ok [t]
      end
    else cons_ t (pass1 f r)
  end end.

Definition no_semi_after_prev (t : N) : bool :=      (* cannotAddSemicolon *)
  existsb (N.eqb t)
    [T_SEMICOLON; T_COMMA; T_NEWLINE; T_DOT; T_RBRACE; T_RBRACKET; T_RPAREN; T_OBJECT_OPERATOR; T_ARRAY_KEY_VALUE;
     T_COLON; T_ADD; T_SUB; T_MUL; T_QUO; T_REM; T_BIT_AND; T_BIT_OR; T_BIT_XOR; T_LAND; T_LOR; T_EQ; T_NE;
     T_EQ_STRICT; T_NE_STRICT; T_LT; T_GT; T_LE; T_GE; T_ASSIGN; T_ADD_EQ; T_SUB_EQ; T_MUL_EQ; T_QUO_EQ; T_REM_EQ;
     T_CONCAT_EQ; T_BIT_AND_EQ; T_BIT_OR_EQ; T_BIT_XOR_EQ; T_SHL_EQ; T_SHR_EQ; T_POWER_EQ; T_TERNARY;
     T_SCOPE_RESOLUTION; T_AT; T_NULLSAFE_CALL; T_NULL_COALESCE; T_INCR; T_DECR; T_SHL; T_SHR; T_POWER; T_NOT;
     T_BIT_NOT; T_SPACESHIP; T_NAMESPACE_SEPARATOR; T_DOLLAR; T_LBRACKET; T_LBRACE; T_LPAREN].
Definition no_semi_before_next (t : N) : bool :=     (* cannotAddSemicolonAfter *)
  existsb (N.eqb t)
    [T_LBRACKET; T_RBRACKET; T_LBRACE; T_RBRACE; T_LPAREN; T_RPAREN; T_ARRAY_KEY_VALUE; T_OBJECT_OPERATOR;
     T_NULLSAFE_CALL; T_NULL_COALESCE; T_COLON; T_COMMA; T_DOT; T_ADD; T_SUB; T_MUL; T_QUO; T_REM; T_BIT_AND;
     T_BIT_OR; T_BIT_XOR; T_LAND; T_LOR; T_EQ; T_NE; T_EQ_STRICT; T_NE_STRICT; T_LT; T_GT; T_LE; T_GE; T_ASSIGN;
     T_ADD_EQ; T_SUB_EQ; T_MUL_EQ; T_QUO_EQ; T_REM_EQ; T_CONCAT_EQ; T_BIT_AND_EQ; T_BIT_OR_EQ; T_BIT_XOR_EQ;
     T_SHL_EQ; T_SHR_EQ; T_POWER_EQ; T_TERNARY; T_SCOPE_RESOLUTION; T_AT; T_INCR; T_DECR; T_SHL; T_SHR; T_POWER;
     T_NOT; T_BIT_NOT; T_SPACESHIP; T_NAMESPACE_SEPARATOR].

(* pass 3: automatic semicolons; prev = filtered[i-1] *)
Fixpoint pass3 (prev : option tok) (ts : list tok) : list tok :=
  match ts with
  | [] => []
  | t :: r =>
    if ty t =T T_NEWLINE then
      let semi :=
        match prev, r with
        | Some p, n :: _ => negb (no_semi_after_prev (ty p)) && negb (no_semi_before_next (ty n))
        | _, _ => false
        end in
      (if semi then [mkTok T_SEMICOLON (lit t) (st t) (en t) (ln t)] else []) ++ pass3 (Some t) r
    else t :: pass3 (Some t) r
  end.

(* pass 4: IDENTIFIER followed by '=' and preceded by [ { ( ; ,  at index > 2 becomes VARIABLE *)
Fixpoint pass4 (i : nat) (prev : option tok) (ts : list tok) : list tok :=
  match ts with
  | [] => []
  | t :: r =>
    let t' :=
      if (ty t =T T_IDENTIFIER) && match r with n :: _ => ty n =T T_ASSIGN | [] => false end && (2 <? i) &&
         match prev with
         | Some p => existsb (N.eqb (ty p)) [T_LBRACKET; T_LBRACE; T_LPAREN; T_SEMICOLON; T_COMMA]
         | None => false end
      then mkTok T_VARIABLE (lit t) (st t) (en t) (ln t) else t in
    t' :: pass4 (S i) (Some t) r
  end.

Definition preprocess (raw : list tok) : outcome (list tok) :=
  match pass1 (S (List.length raw)) raw with
  | Ok f => Ok (pass4 0 None (pass3 None f))
  | e => e
  end.

(* ---------- entry points ---------- *)
(* strings.Index(input, "\n") *)
Fixpoint find_nl (l : list nat) (k : nat) : option nat :=
  match l with
  | [] => None
  | b :: t => if b =? 10 then Some k else find_nl t (k + 1)
  end.

Definition tokenize_raw (template : bool) (s : list nat) : outcome (list tok) :=
  if negb template && prefix [35; 33] s then
    (* a #! line: the rest is lexed in template mode from its real offset, on line 1 (fix in lexer.go) *)
    match find_nl s 0 with
    | None => Ok []
    | Some nl => lex_loop (S (List.length s)) true false (skipn (S nl) s) (S nl) 1 false []
    end
  else if negb template && prefix [60; 33; 68; 79; 67; 84; 89; 80; 69] s then Unsup  (* <!DOCTYPE *)
  else lex_loop (S (List.length s)) template false s 0 0 false [].

Definition tokenize (template : bool) (s : list nat) : outcome (list tok) :=
  match tokenize_raw template s with
  | Ok raw => preprocess raw
  | e => e
  end.
