(* Byte-level model of /repo/lexer: Lexer.Tokenize and Lexer.TokenizeTemplate (lexer.go, php_lexer.go),
   HandleSpecialToken and the scanners behind it (special.go, string.go, string_quoted.go),
   matchLongestToken (both DAG walks, as "longest table literal that is a prefix"), identifier scanning,
   and Preprocessor.Process (preprocessor.go: filtering, $+name and \+name merging, automatic semicolons,
   identifier-is-variable).  Shared by C01 and C18.  No proofs in this file.

   The source is a list of bytes (nat < 256).  A Go read that is not dominated by a bounds test is an
   explicit `Crash`; the two such reads of the pinned tree (full-width-space test in Tokenize, `tokens[i+1]`
   in Process) are marked [BOUNDS] and are modelled as the code is after fixes (see KNOWN_FINDINGS).
   `Unsup` is answered for what is not modelled:
     - heredoc / nowdoc (any "<<<"), a leading "#!" line, a leading "<!DOCTYPE" (HTML lexer);
     - a byte >= 0x80 outside strings and comments (unicode.IsLetter/IsSpace tables, utf8 decoding);
     - a quoted string that processStringInterpolation would rewrite or split: content containing '$'
       or '@', or not valid UTF-8.
   Columns (Token.Pos) are not modelled; the property speaks of spans, lines and text. *)
From Coq Require Import List Arith Bool.
Import ListNotations.
From V.gen Require Import TokenTable.

Inductive outcome (A : Type) := Ok (a : A) | Crash | Unsup | OutOfFuel.
Arguments Ok {A} a. Arguments Crash {A}. Arguments Unsup {A}. Arguments OutOfFuel {A}.

Record tok := mkTok { ty : nat; lit : list nat; st : nat; en : nat; ln : nat }.

(* ---------- character classes (unicode.* restricted to ASCII) ---------- *)
Definition is_digit (b : nat) : bool := (48 <=? b) && (b <=? 57).
Definition is_letter (b : nat) : bool := ((65 <=? b) && (b <=? 90)) || ((97 <=? b) && (b <=? 122)).
Definition is_delim (b : nat) : bool := existsb (Nat.eqb b) delim_bytes.
Definition hi (b : nat) : bool := 128 <=? b.
Definition is_ws (b : nat) : bool := (b =? 32) || (b =? 9) || (b =? 13).      (* isWhitespace: ' ' \t \r *)
Definition is_word (b : nat) : bool := is_letter b || is_digit b || (b =? 95).

Fixpoint count_nl (l : list nat) : nat :=
  match l with [] => 0 | b :: r => (if b =? 10 then 1 else 0) + count_nl r end.

Fixpoint prefix (p l : list nat) : bool :=
  match p, l with
  | [], _ => true
  | a :: p', b :: l' => (a =? b) && prefix p' l'
  | _ :: _, [] => false
  end.

(* ---------- string scanners (string_quoted.go); argument = bytes after the opening quote;
   result = number of bytes after the opening quote up to and including the closing quote ---------- *)
Fixpoint scan_squote (l : list nat) (k : nat) : option nat :=
  match l with
  | [] => None
  | 92 :: ((n :: l') as t) =>                       (* backslash with a next byte *)
      if (n =? 92) || (n =? 39) then scan_squote l' (k + 2) else scan_squote t (k + 1)
  | 39 :: _ => Some (k + 1)
  | _ :: t => scan_squote t (k + 1)
  end.

Fixpoint scan_dquote (l : list nat) (escaped : bool) (k : nat) : option nat :=
  match l with
  | [] => None
  | b :: t =>
      if negb escaped && (b =? 34) then Some (k + 1)
      else scan_dquote t (if b =? 92 then negb escaped else false) (k + 1)
  end.

Fixpoint scan_btick (l : list nat) (k : nat) : option nat :=
  match l with
  | [] => None
  | b :: t => if b =? 96 then Some (k + 1) else scan_btick t (k + 1)
  end.

(* handleByte: b'...' ; argument = bytes after  b'  *)
Fixpoint scan_bytelit (l : list nat) (k : nat) : option nat :=
  match l with
  | [] => None
  | 39 :: _ => Some (k + 1)
  | 92 :: t => match t with [] => None | _ :: t' => scan_bytelit t' (k + 2) end
  | _ :: t => scan_bytelit t (k + 1)
  end.

(* UTF-8 validity as []rune(content) -> string(...) preserves it (Go's decoder: shortest form, no
   surrogates, <= U+10FFFF) *)
Definition cont (b : nat) : bool := (128 <=? b) && (b <=? 191).
Fixpoint utf8_valid (fuel : nat) (l : list nat) : bool :=
  match fuel with 0 => match l with [] => true | _ => false end | S f =>
  match l with
  | [] => true
  | b :: t =>
    if b <? 128 then utf8_valid f t
    else if (194 <=? b) && (b <=? 223) then
      match t with c1 :: t' => cont c1 && utf8_valid f t' | _ => false end
    else if (224 <=? b) && (b <=? 239) then
      match t with
      | c1 :: c2 :: t' =>
          (if b =? 224 then (160 <=? c1) && (c1 <=? 191)
           else if b =? 237 then (128 <=? c1) && (c1 <=? 159) else cont c1) && cont c2 && utf8_valid f t'
      | _ => false end
    else if (240 <=? b) && (b <=? 244) then
      match t with
      | c1 :: c2 :: c3 :: t' =>
          (if b =? 240 then (144 <=? c1) && (c1 <=? 191)
           else if b =? 244 then (128 <=? c1) && (c1 <=? 143) else cont c1) && cont c2 && cont c3 && utf8_valid f t'
      | _ => false end
    else false
  end end.

(* would processStringInterpolation return the string token unchanged? *)
Definition plain_string (content : list nat) : bool :=
  negb (existsb (fun b => (b =? 36) || (b =? 64)) content) && utf8_valid (S (List.length content)) content.

(* ---------- comments (handleCommentWithLineInfo) ---------- *)
(* "//": bytes after the two slashes; result (consumed after "//", line delta).  The terminator \n or \r is
   consumed; only \n counts as a line break (after fix; the pinned code also counted \r). *)
Fixpoint scan_line_comment (l : list nat) (k : nat) : nat * nat :=
  match l with
  | [] => (k, 0)
  | b :: t => if b =? 10 then (k + 1, 1) else if b =? 13 then (k + 1, 0) else scan_line_comment t (k + 1)
  end.

(* "/*": the loop `for pos < len(input)-1` ; argument = bytes from pos on, k = bytes consumed after "/*".
   When no "*/" is found the loop stops one byte before the end of input (as written). *)
Fixpoint scan_block_comment (l : list nat) (k : nat) : nat :=
  match l with
  | [] => k                       (* pos = len: only when the input ends right after the opener *)
  | [_] => k                      (* pos = len-1: loop condition false *)
  | 42 :: ((47 :: _)) => k + 2
  | _ :: t => scan_block_comment t (k + 1)
  end.

(* ---------- numbers (handleNumber) ---------- *)
(* the scanning loop; l = bytes from pos on, prev = input[pos-1] (None at pos = start), k = pos - start.
   result: Some length | None (a byte >= 0x80 is reached: not modelled) *)
Fixpoint scan_number (fuel : nat) (l : list nat) (prev : option nat) (k : nat) : option nat :=
  match fuel with 0 => Some k | S f =>
  match l with
  | [] => Some k
  | r :: t =>
    if hi r then None
    else if is_delim r && negb (r =? 46) && negb ((r =? 43) || (r =? 45)) then Some k
    else if ((r =? 43) || (r =? 45)) &&
            match prev with Some p => negb ((p =? 101) || (p =? 69)) | None => false end then Some k
    else if match t with 46 :: 46 :: _ => true | _ => false end then Some (k + 1)
    else if (r =? 101) || (r =? 69) then
      match t with
      | s :: t' => if (s =? 43) || (s =? 45) then scan_number f t' (Some s) (k + 2) else scan_number f t (Some r) (k + 1)
      | [] => Some (k + 1)
      end
    else scan_number f t (Some r) (k + 1)
  end end.

Definition is_hexd (b : nat) : bool := is_digit b || ((97 <=? b) && (b <=? 102)) || ((65 <=? b) && (b <=? 70)).

(* the float / int classification loop (step 3 of handleNumber); returns None = "NUMBER", else (hasDot, hasExp) *)
Fixpoint classify_dec (l : list nat) (hasDot hasExp : bool) : option (bool * bool) :=
  match l with
  | [] => Some (hasDot, hasExp)
  | r :: t =>
    if r =? 46 then (if hasDot || hasExp then None else classify_dec t true hasExp)
    else if (r =? 101) || (r =? 69) then
      if hasExp then None
      else match t with
           | s :: t' => if (s =? 43) || (s =? 45) then classify_dec t' hasDot true else classify_dec t hasDot true
           | [] => Some (hasDot, true)
           end
    else if negb (is_digit r) && negb (r =? 45) && negb (r =? 43) then None
    else classify_dec t hasDot hasExp
  end.

Definition number_type (literal : list nat) : nat :=
  let okc r := is_digit r || (r =? 46) || (r =? 101) || (r =? 69) || (r =? 43) || (r =? 45) ||
               (r =? 120) || (r =? 88) || (r =? 98) || (r =? 66) in
  if negb (forallb okc literal) then T_NUMBER
  else match literal with
  | 48 :: x :: _ :: _ =>
      if (x =? 120) || (x =? 88) || (x =? 98) || (x =? 66) then T_NUMBER   (* 0x.. / 0b..: NUMBER whatever follows *)
      else match classify_dec literal false false with
           | None => T_NUMBER
           | Some (_, true) => T_NUMBER
           | Some (true, false) => T_FLOAT
           | Some (false, false) => T_NUMBER                                 (* leading 0, length > 1: octal or not, NUMBER *)
           end
  | _ =>
      match classify_dec literal false false with
      | None => T_NUMBER
      | Some (_, true) => T_NUMBER
      | Some (true, false) => T_FLOAT
      | Some (false, false) =>
          match literal with 48 :: _ :: _ => T_NUMBER | _ => T_INT end
      end
  end.

(* ---------- the token table (matchTokenWithDAG / matchKeywordWithDAG) ---------- *)
(* longest literal that is a prefix of l; among equal literals the LAST definition wins (the trie node's
   token is overwritten) *)
Definition best_match (ok : nat -> bool) (l : list nat) : option (nat * list nat) :=
  fold_left (fun best d =>
      let '(t, p) := d in
      if ok t && negb (match p with [] => true | _ => false end) && prefix p l then
        match best with
        | Some (_, q) => if List.length q <=? List.length p then Some (t, p) else best
        | None => Some (t, p)
        end
      else best) token_defs None.

Definition is_kw_type (t : nat) : bool :=
  ((T_KEYWORD_START <=? t) && (t <=? T_KEYWORD_END)) || ((T_VALUE_START <=? t) && (t <=? T_VALUE_END)).

(* matchLongestToken on a non-empty l whose first byte is ASCII: Some (Some (type, literal)) | Some None (no
   match) | None (a byte >= 0x80 decides the answer: not modelled) *)
Definition match_longest (l : list nat) : option (option (nat * list nat)) :=
  match l with
  | [] => Some None
  | b :: _ =>
    if (negb (is_letter b) && negb (b =? 95)) || is_delim b then Some (best_match (fun _ => true) l)
    else
      match best_match is_kw_type l with
      | None => Some None
      | Some (t, p) =>
          match skipn (List.length p) l with
          | [] => Some (Some (t, p))
          | nx :: _ => if hi nx then None else if is_word nx then Some None else Some (Some (t, p))
          end
      end
  end.

(* identifier scanning after the first byte; None when a byte >= 0x80 is reached *)
Fixpoint scan_ident (l : list nat) (k : nat) : option nat :=
  match l with
  | [] => Some k
  | r :: t =>
    if hi r then None
    else if is_delim r then Some k
    else if negb (is_word r) && negb (r =? 92) then Some k
    else scan_ident t (k + 1)
  end.

(* ---------- one iteration of the main loop ---------- *)
(* what the iteration does at `rest` (non-empty): bytes consumed, line delta, token (type, literal) if one is
   appended, and what happens to lastWasNewline (None = untouched) *)
Record act := mkAct { a_n : nat; a_dl : nat; a_tok : option (nat * list nat); a_lnl : option bool; a_php : bool }.

Definition emit (t : nat) (rest : list nat) (n dl : nat) (php : bool) : outcome act :=
  Ok (mkAct n dl (Some (t, firstn n rest)) (Some false) php).

(* HandleSpecialToken.  Some (outcome) = it produced a token (or the model gives up), None = `ok == false` *)
Definition special (rest : list nat) (php : bool) : option (outcome act) :=
  match rest with
  | [] => None
  | b :: t =>
    let str (r : option nat) :=
      match r with
      | Some k => let n := S k in
                  if plain_string (firstn (k - 1) t) then Some (emit T_STRING rest n (count_nl (firstn n rest)) php)
                  else Some Unsup
      | None => None
      end in
    let after_string :=
      (* handleByte *)
      match rest with
      | 98 :: 39 :: ((_ :: _) as t2) =>
          match scan_bytelit t2 0 with
          | Some k => Some (emit T_BYTE rest (2 + k) (count_nl (firstn (2 + k) rest)) php)
          | None => None
          end
      | _ => None
      end in
    let after_byte :=
      if hi b then None       (* neither comment nor number start; falls through to the main loop *)
      else match rest with
      | 47 :: 47 :: t2 => let '(k, dl) := scan_line_comment t2 0 in Some (emit T_COMMENT rest (2 + k) dl php)
      | 47 :: 42 :: t2 => let n := 2 + scan_block_comment t2 0 in
                          Some (emit T_MULTILINE_COMMENT rest n (count_nl (firstn n rest)) php)
      | _ =>
        if is_digit b || ((b =? 45) && match t with d :: _ => is_digit d | [] => false end) then
          match (if b =? 45 then scan_number (List.length t) t None 1 else scan_number (List.length rest) rest None 0) with
          | Some n => Some (emit (number_type (firstn n rest)) rest n 0 php)
          | None => Some Unsup
          end
        else None
      end in
    let continue_ (x : option (outcome act)) (k : option (outcome act)) := match x with Some r => Some r | None => k end in
    if prefix [60; 60; 60] rest then Some Unsup                      (* heredoc / nowdoc *)
    else
      continue_
        (if b =? 39 then str (scan_squote t 0)
         else if b =? 34 then str (scan_dquote t false 0)
         else if b =? 96 then str (scan_btick t 0)
         else None)
        (continue_ after_string after_byte)
  end.

(* script-mode iteration, shared by Tokenize and TokenizeTemplate (php = true: inside <?php ... ?>) *)
Definition script_step (rest : list nat) (php : bool) : outcome act :=
  match rest with
  | [] => Unsup
  | b :: t =>
    if php && prefix [63; 62] rest then Ok (mkAct 2 0 None None false)            (* ?> *)
    else if is_ws b then Ok (mkAct 1 0 None None php)
    else if (b =? 227) && prefix [227; 128; 128] rest then Ok (mkAct 3 0 None None php)   (* full-width space; [BOUNDS] fixed *)
    else if b =? 10 then Ok (mkAct 1 1 (Some (T_NEWLINE, [10])) (Some true) php)
    else
      match special rest php with
      | Some r => r
      | None =>
        if hi b then Unsup
        else match match_longest rest with
        | None => Unsup
        | Some (Some (ty, p)) => Ok (mkAct (List.length p) 0 (Some (ty, p)) (Some false) php)
        | Some None =>
            if is_letter b || (b =? 95) then
              match scan_ident t 1 with
              | Some n => emit T_IDENTIFIER rest n 0 php
              | None => Unsup
              end
            else emit T_UNKNOWN rest 1 0 php
        end
      end
  end.

(* index of the first occurrence of "<?php" (strings.Index) *)
Fixpoint find_open (l : list nat) (k : nat) : option nat :=
  match l with
  | [] => None
  | _ :: t => if prefix [60; 63; 112; 104; 112] l then Some k else find_open t (k + 1)
  end.

Definition html_step (rest : list nat) : outcome act :=
  match find_open rest 0 with
  | None => let n := List.length rest in Ok (mkAct n (count_nl rest) (Some (T_HTML_TAG, rest)) None false)
  | Some 0 => Ok (mkAct 5 0 None None true)
  | Some idx => Ok (mkAct idx (count_nl (firstn idx rest)) (Some (T_HTML_TAG, firstn idx rest)) None false)
  end.

Definition step (template : bool) (php : bool) (rest : list nat) : outcome act :=
  if template && negb php then html_step rest else script_step rest php.

Fixpoint lex_loop (fuel : nat) (template php : bool) (rest : list nat) (pos line : nat) (lastnl : bool)
         (acc : list tok) : outcome (list tok) :=
  match fuel with
  | 0 => OutOfFuel
  | S f =>
    match rest with
    | [] => Ok (rev acc)
    | _ =>
      match step template php rest with
      | Ok a =>
          let acc' :=
            match a_tok a with
            | Some (t, l) =>
                if (t =? T_NEWLINE) && lastnl then acc else mkTok t l pos (pos + a_n a) line :: acc
            | None => acc
            end in
          lex_loop f template (a_php a) (skipn (a_n a) rest) (pos + a_n a) (line + a_dl a)
                   (match a_lnl a with Some b => b | None => lastnl end) acc'
      | Crash => Crash
      | Unsup => Unsup
      | OutOfFuel => OutOfFuel
      end
    end
  end.

(* ---------- Preprocessor.Process ---------- *)
Definition is_ident_token_lit (l : list nat) : bool :=   (* isValidIdentifierToken on an ASCII literal *)
  match l with
  | [] => false
  | b :: _ => (is_letter b || (b =? 95)) && forallb is_word l
  end.

Definition dollar_mergeable (t : nat) : bool :=
  (t =? T_IDENTIFIER) || ((T_KEYWORD_START <=? t) && (t <=? T_KEYWORD_END)) || (t =? T_NULL) || (t =? T_TRUE) ||
  (t =? T_FALSE) || (t =? T_BOOL) || (t =? T_INT) || (t =? T_FLOAT) || (t =? T_STRING) || (t =? T_ARRAY).

(* the `\`name`\`name... merge loop: returns (literal so far, last token, remaining tokens) *)
Fixpoint ns_more (fuel : nat) (ts : list tok) (litacc : list nat) (last : tok) : list nat * tok * list tok :=
  match fuel with 0 => (litacc, last, ts) | S f =>
  match ts with
  | s :: n :: r =>
      if (ty s =? T_NAMESPACE_SEPARATOR) && is_ident_token_lit (lit n)
      then ns_more f r (litacc ++ lit s ++ lit n) n
      else (litacc, last, ts)
  | _ => (litacc, last, ts)
  end end.

(* pass 1 *)
Fixpoint pass1 (fuel : nat) (ts : list tok) : outcome (list tok) :=
  match fuel with 0 => OutOfFuel | S f =>
  match ts with
  | [] => Ok []
  | t :: r =>
    let cons_ (x : tok) (o : outcome (list tok)) := match o with Ok l => Ok (x :: l) | e => e end in
    if (ty t =? T_WHITESPACE) || (ty t =? T_COMMENT) || (ty t =? T_MULTILINE_COMMENT) then pass1 f r
    else if ty t =? T_DOLLAR then
      match r with
      | [] => Ok [t]                         (* [BOUNDS] `$` is the last token: fixed, kept as DOLLAR *)
      | n :: r' =>
          if dollar_mergeable (ty n)
          then cons_ (mkTok T_VARIABLE (36 :: lit n) (st t) (en n) (ln n)) (pass1 f r')
          else cons_ t (pass1 f r)
      end
    else if ty t =? T_NAMESPACE_SEPARATOR then
      match r with
      | n :: r' =>
          if ty n =? T_IDENTIFIER then cons_ (mkTok T_IDENTIFIER (lit t ++ lit n) (st t) (en n) (ln n)) (pass1 f r')
          else if is_ident_token_lit (lit n) then
            let '(l, last, rest) := ns_more (List.length r') r' (lit t ++ lit n) n in
            cons_ (mkTok T_IDENTIFIER l (st t) (en last) (ln last)) (pass1 f rest)
          else cons_ t (pass1 f r)
      | [] => Ok [t]
      end
    else cons_ t (pass1 f r)
  end end.

Definition no_semi_after_prev (t : nat) : bool :=      (* cannotAddSemicolon *)
  existsb (Nat.eqb t)
    [T_SEMICOLON; T_COMMA; T_NEWLINE; T_DOT; T_RBRACE; T_RBRACKET; T_RPAREN; T_OBJECT_OPERATOR; T_ARRAY_KEY_VALUE;
     T_COLON; T_ADD; T_SUB; T_MUL; T_QUO; T_REM; T_BIT_AND; T_BIT_OR; T_BIT_XOR; T_LAND; T_LOR; T_EQ; T_NE;
     T_EQ_STRICT; T_NE_STRICT; T_LT; T_GT; T_LE; T_GE; T_ASSIGN; T_ADD_EQ; T_SUB_EQ; T_MUL_EQ; T_QUO_EQ; T_REM_EQ;
     T_CONCAT_EQ; T_BIT_AND_EQ; T_BIT_OR_EQ; T_BIT_XOR_EQ; T_SHL_EQ; T_SHR_EQ; T_POWER_EQ; T_TERNARY;
     T_SCOPE_RESOLUTION; T_AT; T_NULLSAFE_CALL; T_NULL_COALESCE; T_INCR; T_DECR; T_SHL; T_SHR; T_POWER; T_NOT;
     T_BIT_NOT; T_SPACESHIP; T_NAMESPACE_SEPARATOR; T_DOLLAR; T_LBRACKET; T_LBRACE; T_LPAREN].
Definition no_semi_before_next (t : nat) : bool :=     (* cannotAddSemicolonAfter *)
  existsb (Nat.eqb t)
    [T_LBRACKET; T_RBRACKET; T_LBRACE; T_RBRACE; T_LPAREN; T_RPAREN; T_ARRAY_KEY_VALUE; T_OBJECT_OPERATOR;
     T_NULLSAFE_CALL; T_NULL_COALESCE; T_COLON; T_COMMA; T_DOT; T_ADD; T_SUB; T_MUL; T_QUO; T_REM; T_BIT_AND;
     T_BIT_OR; T_BIT_XOR; T_LAND; T_LOR; T_EQ; T_NE; T_EQ_STRICT; T_NE_STRICT; T_LT; T_GT; T_LE; T_GE; T_ASSIGN;
     T_ADD_EQ; T_SUB_EQ; T_MUL_EQ; T_QUO_EQ; T_REM_EQ; T_CONCAT_EQ; T_BIT_AND_EQ; T_BIT_OR_EQ; T_BIT_XOR_EQ;
     T_SHL_EQ; T_SHR_EQ; T_POWER_EQ; T_TERNARY; T_SCOPE_RESOLUTION; T_AT; T_INCR; T_DECR; T_SHL; T_SHR; T_POWER;
     T_NOT; T_BIT_NOT; T_SPACESHIP; T_NAMESPACE_SEPARATOR].

(* pass 3: automatic semicolons; prev = filtered[i-1] *)
Fixpoint pass3 (prev : option tok) (ts : list tok) : list tok :=
  match ts with
  | [] => []
  | t :: r =>
    if ty t =? T_NEWLINE then
      let semi :=
        match prev, r with
        | Some p, n :: _ => negb (no_semi_after_prev (ty p)) && negb (no_semi_before_next (ty n))
        | _, _ => false
        end in
      (if semi then [mkTok T_SEMICOLON (lit t) (st t) (en t) (ln t)] else []) ++ pass3 (Some t) r
    else t :: pass3 (Some t) r
  end.

(* pass 4: IDENTIFIER followed by '=' and preceded by [ { ( ; ,  at index > 2 becomes VARIABLE *)
Fixpoint pass4 (i : nat) (prev : option tok) (ts : list tok) : list tok :=
  match ts with
  | [] => []
  | t :: r =>
    let t' :=
      if (ty t =? T_IDENTIFIER) && match r with n :: _ => ty n =? T_ASSIGN | [] => false end && (2 <? i) &&
         match prev with
         | Some p => existsb (Nat.eqb (ty p)) [T_LBRACKET; T_LBRACE; T_LPAREN; T_SEMICOLON; T_COMMA]
         | None => false end
      then mkTok T_VARIABLE (lit t) (st t) (en t) (ln t) else t in
    t' :: pass4 (S i) (Some t) r
  end.

Definition preprocess (raw : list tok) : outcome (list tok) :=
  match pass1 (S (List.length raw)) raw with
  | Ok f => Ok (pass4 0 None (pass3 None f))
  | e => e
  end.

(* ---------- entry points ---------- *)
Definition tokenize_raw (template : bool) (s : list nat) : outcome (list tok) :=
  if negb template && prefix [35; 33] s then Unsup                                  (* #! *)
  else if negb template && prefix [60; 33; 68; 79; 67; 84; 89; 80; 69] s then Unsup  (* <!DOCTYPE *)
  else lex_loop (S (List.length s)) template false s 0 0 false [].

Definition tokenize (template : bool) (s : list nat) : outcome (list tok) :=
  match tokenize_raw template s with
  | Ok raw => preprocess raw
  | e => e
  end.
