(* C08 — executable model of the subtype walks, method lookup and the structural test, as the
   code is written:

     data/type_class.go   Class.Is cases *ClassValue / *ThrowValue (isClassValueInstanceOf) and
                          *ThisValue; extendISClass; interfaceExtends (BFS with a visited set)
     node/class.go        checkClassIs, checkInterfaceIs           (used by `instanceof`)
     node/try.go          catchTypeMatches
     data/value_class.go  ClassValue.GetMethod                      ($o->m())
     node/call_parent_method.go   CallParentMethod.GetValue         (parent::m())
     node/call_static_method.go   CallStaticMethod.GetValue, staticMethodFunc.Call
                                  (C::m(); self::m() is parsed to CallStaticMethodLater(lexical class))
     node/call_static_keyword_method.go  CallStaticKeywordMethod.GetValue   (static::m())
     node/like.go         checkClassStructure / checkInterfaceStructure

   A class / interface is referred to by its name; vm.GetClass / vm.GetInterface are lookups in
   the two tables (the case-insensitive fallback of GetClass is not modelled: generated names
   differ in more than case).  Loops are structural or on explicit fuel with OutOfFuel; a failed
   GetOrLoadClass is Throw.  No proofs here. *)
From Coq Require Export List ZArith Bool String.
Export ListNotations.
Open Scope string_scope.

Inductive outcome (A : Type) := Ok (a : A) | Throw | OutOfFuel.
Arguments Ok {A} a. Arguments Throw {A}. Arguments OutOfFuel {A}.

Record meth := { m_name : string; m_static : bool; m_arity : nat }.
Record cls := { c_extends : option string; c_impls : list string; c_methods : list meth }.
Record ifc := { i_extends : list string; i_methods : list meth }.
Record table := { classes : list (string * cls); ifaces : list (string * ifc) }.

Fixpoint lookup {A} (k : string) (l : list (string * A)) : option A :=
  match l with
  | [] => None
  | (k', a) :: r => if String.eqb k k' then Some a else lookup k r
  end.
Definition get_class (t : table) n := lookup n (classes t).
Definition get_iface (t : table) n := lookup n (ifaces t).

Definition mem (x : string) (l : list string) : bool := existsb (String.eqb x) l.

(* ---- interfaceExtends: the BFS.  queue/visited as in the Go code; each dequeue costs one unit
   of fuel.  (iface.GetName() == target after the lookup is the same test as name == target.) *)
Fixpoint bfs (fuel : nat) (t : table) (target : string) (visited queue : list string) : outcome bool :=
  match fuel with
  | O => OutOfFuel
  | S f =>
      match queue with
      | [] => Ok false
      | name :: q =>
          if String.eqb name target then Ok true
          else if mem name visited then bfs f t target visited q
          else match get_iface t name with
               | None => bfs f t target (name :: visited) q
               | Some p => bfs f t target (name :: visited) (q ++ i_extends p)
               end
      end
  end.
(* enough for every table: every dequeue either shortens the queue or marks a new interface whose
   extends list it appends (bfs_fuel_suffices) *)
Definition total_edges (t : table) : nat :=
  fold_right (fun e n => (List.length (i_extends (snd e)) + n)%nat) 0%nat (ifaces t).
Definition bfs_fuel (t : table) (i : ifc) : nat := S (List.length (i_extends i) + total_edges t).

Definition interface_extends (t : table) (iface target : string) : outcome bool :=
  if String.eqb iface target then Ok true
  else match get_iface t iface with
       | None => Ok false                  (* closed world: LoadPkg finds nothing *)
       | Some i => bfs (bfs_fuel t i) t target [] (i_extends i)
       end.

(* for _, s := range impls { if target == s {true} else if interfaceExtends(vm, s, target) {true} } *)
Fixpoint impls_bfs (t : table) (target : string) (l : list string) : outcome bool :=
  match l with
  | [] => Ok false
  | s :: r => if String.eqb target s then Ok true
              else match interface_extends t s target with
                   | Ok false => impls_bfs t target r
                   | o => o
                   end
  end.

(* extendISClass: the loop over the extends chain; one unit of fuel per class visited *)
Fixpoint extend_is_class (fuel : nat) (t : table) (check : string) (extend : option string) : outcome bool :=
  match extend with
  | None => Ok false
  | Some e =>
      match fuel with
      | O => OutOfFuel
      | S f =>
          match get_class t e with
          | None => Ok false
          | Some c =>
              if String.eqb check e then Ok true
              else match impls_bfs t check (c_impls c) with
                   | Ok false => extend_is_class f t check (c_extends c)
                   | o => o
                   end
          end
      end
  end.
Definition chain_fuel (t : table) : nat := S (List.length (classes t)).

(* walk 1: isClassValueInstanceOf(target, class, vm) — Class.Is for *ClassValue (typed parameter)
   and for *ThrowValue carrying an object (catch) *)
Definition class_is (t : table) (target n : string) (c : cls) : outcome bool :=
  if String.eqb target n then Ok true
  else match impls_bfs t target (c_impls c) with
       | Ok false => extend_is_class (chain_fuel t) t target (c_extends c)
       | o => o
       end.

(* walk 2: Class.Is for *ThisValue: names of the implemented interfaces first, then
   interfaceExtends on each, then extendISClass *)
Fixpoint impls_bfs_only (t : table) (target : string) (l : list string) : outcome bool :=
  match l with
  | [] => Ok false
  | s :: r => match interface_extends t s target with
              | Ok false => impls_bfs_only t target r
              | o => o
              end
  end.
Definition this_is (t : table) (target n : string) (c : cls) : outcome bool :=
  if String.eqb target n then Ok true
  else if mem target (c_impls c) then Ok true
  else match impls_bfs_only t target (c_impls c) with
       | Ok false => extend_is_class (chain_fuel t) t target (c_extends c)
       | o => o
       end.

(* catchTypeMatches: exceptionType.Is(cv), and for a type named Throwable the fallback
   Exception.Is(cv) || Error.Is(cv) *)
Definition or_else (a b : outcome bool) : outcome bool :=
  match a with Ok false => b | o => o end.
Definition catch_matches (t : table) (target n : string) (c : cls) : outcome bool :=
  or_else (class_is t target n c)
          (if String.eqb target "Throwable"
           then or_else (class_is t "Exception" n c) (class_is t "Error" n c)
           else Ok false).

(* walk 3: checkInterfaceIs (plain recursion, no visited set: fuel = recursion depth) and
   checkClassIs (recursion up the extends chain) *)
Fixpoint check_iface_is (fuel : nat) (t : table) (n : string) (i : ifc) (target : string) : outcome bool :=
  if String.eqb n target then Ok true
  else match fuel with
       | O => OutOfFuel
       | S f =>
           (fix go (ps : list string) : outcome bool :=
              match ps with
              | [] => Ok false
              | p :: r => match get_iface t p with
                          | None => go r
                          | Some pi => match check_iface_is f t p pi target with
                                       | Ok false => go r
                                       | o => o
                                       end
                          end
              end) (i_extends i)
       end.
Definition iface_fuel (t : table) : nat := S (List.length (ifaces t)).

Fixpoint impls_dfs (t : table) (target : string) (l : list string) : outcome bool :=
  match l with
  | [] => Ok false
  | s :: r => if String.eqb s target then Ok true
              else match get_iface t s with
                   | None => impls_dfs t target r
                   | Some i => match check_iface_is (iface_fuel t) t s i target with
                               | Ok false => impls_dfs t target r
                               | o => o
                               end
                   end
  end.

(* checkClassIs(ctx, source, target).  The `for last.GetExtend() != nil || ...` loop body ends in
   `return false`, so it runs once: it repeats the implements test of `source` (same answers),
   compares the parent's NAME with target, loads the parent and recurses. *)
Fixpoint check_class_is (fuel : nat) (t : table) (n : string) (c : cls) (target : string) : outcome bool :=
  if String.eqb n target then Ok true
  else match impls_dfs t target (c_impls c) with
       | Ok false =>
           match c_extends c with
           | None => Ok false
           | Some e =>
               match impls_dfs t target (c_impls c) with
               | Ok false =>
                   if String.eqb e target then Ok true
                   else match get_class t e with
                        | None => Throw
                        | Some next =>
                            match fuel with
                            | O => OutOfFuel
                            | S f => check_class_is f t e next target
                            end
                        end
               | o => o
               end
           end
       | o => o
       end.
Definition instanceof (t : table) (n : string) (c : cls) (target : string) : outcome bool :=
  (* loadClassOrInterfaceForInstanceof: an unknown right-hand name gives false *)
  match get_class t target, get_iface t target with
  | None, None => Ok false
  | _, _ => check_class_is (chain_fuel t) t n c target
  end.

(* ---- method lookup *)
Definition find_meth (static : bool) (m : string) (l : list meth) : option meth :=
  find (fun x => String.eqb (m_name x) m && Bool.eqb (m_static x) static) l.

(* walk up from class n (inclusive) for a method of the given kind: answer = name of the class
   whose definition is found, and that definition *)
Fixpoint chain_find (fuel : nat) (t : table) (static : bool) (m : string) (n : string) : outcome (option (string * meth)) :=
  match fuel with
  | O => OutOfFuel
  | S f =>
      match get_class t n with
      | None => Throw                                   (* GetOrLoadClass fails *)
      | Some c =>
          match find_meth static m (c_methods c) with
          | Some x => Ok (Some (n, x))
          | None => match c_extends c with
                    | None => Ok None
                    | Some p => chain_find f t static m p
                    end
          end
      end
  end.

(* ClassValue.GetMethod: instance methods up the chain first, then static methods up the chain.
   (Outside closed tables the code differs: an unloadable parent in the FIRST walk returns "not found" at once,
   without the static walk; the model continues.  Under `closed` no parent is unloadable.) *)
Definition not_found_on_throw {A} (o : outcome (option A)) : outcome (option A) :=
  match o with Throw => Ok None | _ => o end.
Definition object_method (t : table) (n m : string) : outcome (option (string * meth)) :=
  match not_found_on_throw (chain_find (chain_fuel t) t false m n) with
  | Ok None => not_found_on_throw (chain_find (chain_fuel t) t true m n)
  | o => o
  end.

(* CallParentMethod: class := SelfClass (set by an enclosing parent:: call to the class the
   method was found in) / the lexical class when it is registered and has a parent / the runtime
   class; then from its parent upwards, at each class GetMethod then GetStaticMethod *)
Fixpoint chain_find_any (fuel : nat) (t : table) (m : string) (n : string) : outcome (option (string * meth)) :=
  match fuel with
  | O => OutOfFuel
  | S f =>
      match get_class t n with
      | None => Throw
      | Some c =>
          match find_meth false m (c_methods c) with
          | Some x => Ok (Some (n, x))
          | None =>
              match find_meth true m (c_methods c) with
              | Some x => Ok (Some (n, x))
              | None => match c_extends c with
                        | None => Ok None
                        | Some p => chain_find_any f t m p
                        end
              end
          end
      end
  end.
Definition parent_method (t : table) (self_class : option string) (lexical runtime m : string) : outcome (option (string * meth)) :=
  let start :=
    match self_class with
    | Some s => s
    | None => match get_class t lexical with
              | Some c => match c_extends c with Some _ => lexical | None => runtime end
              | None => runtime
              end
    end in
  match get_class t start with
  | None => Throw
  | Some c => match c_extends c with
              | None => Throw                       (* "当前类没有父类" *)
              | Some p => chain_find_any (chain_fuel t) t m p
              end
  end.

(* C::m() and self::m() (= LexicalClass::m(), fixed by the parser): static methods from the named
   class upwards; the callee's context gets Class = defining class, StaticClass = the named class *)
Definition static_call (t : table) (named m : string) : outcome (option (string * meth)) :=
  chain_find (chain_fuel t) t true m named.
(* static::m(): from StaticClass if set, else the context's class (the object's runtime class) *)
Definition static_keyword_call (t : table) (static_class : option string) (ctx_class m : string) : outcome (option (string * meth)) :=
  chain_find (chain_fuel t) t true m (match static_class with Some s => s | None => ctx_class end).

(* what runs when `$o->f()` (o of runtime class r) executes, inside the body of the f that was
   found, the calls self::s() / static::s() / parent::g().  The callee context of `$o->f()` is
   ClassMethodContext{Class: r, StaticClass: nil, SelfClass: nil}; the lexical class of the body is
   the class f was found in. *)
Definition defining (o : outcome (option (string * meth))) : outcome (option string) :=
  match o with Ok (Some (d, _)) => Ok (Some d) | Ok None => Ok None | Throw => Throw | OutOfFuel => OutOfFuel end.
Definition via_self (t : table) (r f s : string) : outcome (option string) :=
  match object_method t r f with
  | Ok (Some (d, _)) => defining (static_call t d s)
  | Ok None => Ok None | Throw => Throw | OutOfFuel => OutOfFuel
  end.
Definition via_static (t : table) (r f s : string) : outcome (option string) :=
  match object_method t r f with
  | Ok (Some (d, _)) => defining (static_keyword_call t None r s)
  | Ok None => Ok None | Throw => Throw | OutOfFuel => OutOfFuel
  end.
Definition via_parent (t : table) (r f g : string) : outcome (option string) :=
  match object_method t r f with
  | Ok (Some (d, _)) => defining (parent_method t None d r g)
  | Ok None => Ok None | Throw => Throw | OutOfFuel => OutOfFuel
  end.

(* static entry points: `C::f()` called from outside any class.  CallStaticMethod finds f in class d (from C
   upwards); staticMethodFunc.Call runs it in ClassMethodContext{Class: d, StaticClass: C, SelfClass: nil}.
   Inside that body: self::s() is d::s() (fixed by the parser), static::s() starts at StaticClass = C,
   parent::g() starts at the parent of the lexical class d. *)
Definition bind2s {A} (o : outcome (option (string * meth))) (k : string -> outcome (option A)) : outcome (option A) :=
  match o with
  | Ok (Some (d, _)) => k d
  | Ok None => Ok None | Throw => Throw | OutOfFuel => OutOfFuel
  end.
Definition via_sentry_self (t : table) (c f s : string) : outcome (option string) :=
  bind2s (static_call t c f) (fun d => defining (static_call t d s)).
Definition via_sentry_static (t : table) (c f s : string) : outcome (option string) :=
  bind2s (static_call t c f) (fun d => defining (static_keyword_call t (Some c) d s)).
Definition via_sentry_parent (t : table) (c f g : string) : outcome (option string) :=
  bind2s (static_call t c f) (fun d => defining (parent_method t None d d g)).

(* catch (T1 | T2 $e): UnionType.Is — no Throwable fallback (that needs a plain class type) *)
Definition catch_union (t : table) (t1 t2 n : string) (c : cls) : outcome bool :=
  or_else (class_is t t1 n c) (class_is t t2 n c).

(* one level deeper: the body found for `$o->f()` calls parent::g(); CallParentMethod gives the
   callee the context ClassMethodContext{Class: r, SelfClass: class g was found in,
   StaticClass: r (set when still nil)}; the body of that g then calls static::s() / self::s()
   (lexical class = where g was found) / parent::h() (resolved from SelfClass) *)
Definition bind2 {A} (o : outcome (option (string * meth))) (k : string -> outcome (option A)) : outcome (option A) :=
  match o with
  | Ok (Some (d, _)) => k d
  | Ok None => Ok None | Throw => Throw | OutOfFuel => OutOfFuel
  end.
Definition via_parent_static (t : table) (r f g s : string) : outcome (option string) :=
  bind2 (object_method t r f) (fun d =>
  bind2 (parent_method t None d r g) (fun e =>
  defining (static_keyword_call t (Some r) r s))).
Definition via_parent_self (t : table) (r f g s : string) : outcome (option string) :=
  bind2 (object_method t r f) (fun d =>
  bind2 (parent_method t None d r g) (fun e =>
  defining (static_call t e s))).
Definition via_parent_parent (t : table) (r f g h : string) : outcome (option string) :=
  bind2 (object_method t r f) (fun d =>
  bind2 (parent_method t None d r g) (fun e =>
  defining (parent_method t (Some e) e r h))).

(* ---- call chains of arbitrary length: what the call context becomes at every hop.
   A method body runs in a *data.ClassMethodContext; four of its fields decide how the calls written in the body
   resolve: Class (x_cls), StaticClass (x_static, the late static binding class when set), SelfClass (x_self, set
   only by CallParentMethod on its callee), and the class the body was found in (x_lex: the parser wrote it into
   self::m() -> CallStaticMethodLater(lexical) and into CallParentMethod.CurrentClass).

     $this->m()   CallObjectMethod, case *ThisValue: GetMethod on the object's class; callee context =
                  ClassValue.CreateContext: Class unchanged, StaticClass nil, SelfClass nil
     parent::m()  CallParentMethod: start class = SelfClass / lexical (when registered with a parent) / Class;
                  callee (a fresh context of the same object): Class unchanged, SelfClass := class m was found in,
                  StaticClass := the caller's StaticClass, or Class when that is nil (fix cb6c7e0: before it always
                  Class, which in a static method is the class the method is written in)
     self::m()    CallStaticMethod on the lexical class with forward = true (fix ac7bb5f): callee = staticMethodFunc:
                  Class := defining class, StaticClass := the caller's late static binding class when that class is
                  (checkClassIs) the named class or below it, else the named class
     static::m()  CallStaticKeywordMethod: start = StaticClass or Class; callee = staticMethodFuncWithLateBinding:
                  Class := StaticClass := that start class
     C::m()       a call that NAMES a class, written inside a method: CallStaticMethod with forward = false:
                  Class := defining class, StaticClass := C whatever the caller's late static binding class is *)
Inductive hop := HThis (m : string) | HSelf (s : string) | HStatic (s : string) | HParent (m : string) | HNamed (c s : string).
Record mctx := { x_cls : string; x_static : option string; x_self : option string; x_lex : string }.
Definition lsb (x : mctx) : string := match x_static x with Some s => s | None => x_cls x end.
Definition forwarded (t : table) (x : mctx) (named : string) : outcome string :=
  let l := lsb x in
  if String.eqb l named then Ok named
  else match get_class t l with
       | None => Ok named
       | Some c => match check_class_is (chain_fuel t) t l c named with
                   | Ok true => Ok l
                   | Ok false | Throw => Ok named         (* acl != nil: not forwarded *)
                   | OutOfFuel => OutOfFuel
                   end
       end.
Definition hop_step (t : table) (x : mctx) (h : hop) : outcome (option mctx) :=
  match h with
  | HThis m =>
      bind2 (object_method t (x_cls x) m) (fun d =>
        Ok (Some {| x_cls := x_cls x; x_static := None; x_self := None; x_lex := d |}))
  | HParent m =>
      bind2 (parent_method t (x_self x) (x_lex x) (x_cls x) m) (fun e =>
        Ok (Some {| x_cls := x_cls x; x_static := Some (lsb x); x_self := Some e; x_lex := e |}))
  | HSelf s =>
      bind2 (static_call t (x_lex x) s) (fun d =>
        match forwarded t x (x_lex x) with
        | Ok cc => Ok (Some {| x_cls := d; x_static := Some cc; x_self := None; x_lex := d |})
        | Throw => Throw | OutOfFuel => OutOfFuel
        end)
  | HStatic s =>
      bind2 (static_keyword_call t (x_static x) (x_cls x) s) (fun d =>
        Ok (Some {| x_cls := lsb x; x_static := Some (lsb x); x_self := None; x_lex := d |}))
  | HNamed c s =>
      bind2 (static_call t c s) (fun d =>
        Ok (Some {| x_cls := d; x_static := Some c; x_self := None; x_lex := d |}))
  end.
(* the classes whose definitions run, hop after hop *)
Fixpoint hops (t : table) (x : mctx) (hs : list hop) : outcome (option (list string)) :=
  match hs with
  | [] => Ok (Some [])
  | h :: r =>
      match hop_step t x h with
      | Ok (Some x') => match hops t x' r with Ok (Some l) => Ok (Some (x_lex x' :: l)) | o => o end
      | Ok None => Ok None | Throw => Throw | OutOfFuel => OutOfFuel
      end
  end.
(* entry from outside any class: $o->f() on an object of class r, or r::f() *)
Definition enter (t : table) (static_entry : bool) (r f : string) : outcome (option mctx) :=
  if static_entry
  then bind2 (static_call t r f) (fun d => Ok (Some {| x_cls := d; x_static := Some r; x_self := None; x_lex := d |}))
  else bind2 (object_method t r f) (fun d => Ok (Some {| x_cls := r; x_static := None; x_self := None; x_lex := d |})).
Definition run_hops (t : table) (static_entry : bool) (r f : string) (hs : list hop) : outcome (option (list string)) :=
  match enter t static_entry r f with
  | Ok (Some x) => match hops t x hs with Ok (Some l) => Ok (Some (x_lex x :: l)) | o => o end
  | Ok None => Ok None | Throw => Throw | OutOfFuel => OutOfFuel
  end.

(* ---- like (after fix d3e2cea: the object itself is asked, ClassValue.GetMethod): for every
   instance method the target declares (ClassStatement.Methods / InterfaceStatement.Methods),
   the object must have a method of that name with the same number of parameters *)
Definition like_methods (t : table) (n : string) (target_methods : list meth) : bool :=
  forallb (fun tm => if m_static tm then true
                     else match object_method t n (m_name tm) with
                          | Ok (Some (_, sm)) => Nat.eqb (m_arity sm) (m_arity tm)
                          | _ => false
                          end) target_methods.
Definition like (t : table) (n : string) (target : string) : bool :=
  match get_class t target, get_iface t target with
  | Some tc, _ => like_methods t n (c_methods tc)        (* lookupPkg: classMap first *)
  | None, Some ti => like_methods t n (i_methods ti)
  | None, None => false
  end.

(* ---- declaring an interface (parser/interface_parser.go, after fix 4b3f319): the declaration that
   would close an extends cycle is refused — interfaceExtendsReaches is the same BFS, from the new
   interface's extends list, looking for its own name; then VM.AddInterface registers the interface
   unless the name is taken (the registered record is never replaced) *)
Definition declare_iface (t : table) (n : string) (i : ifc) : option table :=
  match bfs (bfs_fuel t i) t n [] (i_extends i) with
  | Ok false =>
      Some (match get_iface t n with
            | Some _ => t
            | None => {| classes := classes t; ifaces := (ifaces t ++ [(n, i)])%list |}
            end)
  | _ => None                                   (* "接口 … 的继承成环": the declaration is an error *)
  end.
Fixpoint declare_ifaces (t : table) (ds : list (string * ifc)) : option table :=
  match ds with
  | [] => Some t
  | (n, i) :: r => match declare_iface t n i with Some t' => declare_ifaces t' r | None => None end
  end.
