(* C08 — the property, stated over the declared hierarchy only (tables and names; none of the
   model's walks).

   "$o instanceof T, acceptance by a T-typed parameter and matching by catch (T) all hold exactly
    when T is the object's class, one of its ancestors, or an interface reachable through
    implements/extends edges.  A method call runs the most-derived definition for the object's
    runtime class, parent:: runs the nearest ancestor's definition, self:: binds to the defining
    class and static:: to the runtime class.  $o like T holds exactly when the object provides,
    itself or by inheritance, every method T declares with the same number of parameters." *)
From V.C08 Require Import Model.

(* ---- subtyping, as an inductive relation *)
Inductive ancestor (t : table) : string -> string -> Prop :=
| anc_refl n : ancestor t n n
| anc_step n c p a : get_class t n = Some c -> c_extends c = Some p -> ancestor t p a -> ancestor t n a.

Inductive ireach (t : table) : string -> string -> Prop :=
| ir_refl n : ireach t n n
| ir_step n i p m : get_iface t n = Some i -> In p (i_extends i) -> ireach t p m -> ireach t n m.

(* T is the class of the object, one of its ancestors, or an interface reachable from an
   interface that the class or one of its ancestors implements *)
Definition is_a (t : table) (n target : string) : Prop :=
  exists a, ancestor t n a /\
            (a = target \/ exists c s, get_class t a = Some c /\ In s (c_impls c) /\ ireach t s target).

(* ---- the same, computed (used as the oracle on the implementation's answers; is_ab_is_a in
   Properties.v proves it equal to the relation on well-formed tables) *)
Fixpoint chain (fuel : nat) (t : table) (n : string) : list string :=
  match fuel with
  | O => []
  | S f => match get_class t n with
           | None => []
           | Some c => n :: match c_extends c with None => [] | Some p => chain f t p end
           end
  end.
Fixpoint ireach_b (fuel : nat) (t : table) (n target : string) : bool :=
  String.eqb n target ||
  match fuel with
  | O => false
  | S f => match get_iface t n with
           | None => false
           | Some i => existsb (fun p => ireach_b f t p target) (i_extends i)
           end
  end.
Definition at_class (t : table) (target a : string) : bool :=
  String.eqb a target ||
  match get_class t a with
  | None => false
  | Some c => existsb (fun s => ireach_b (iface_fuel t) t s target) (c_impls c)
  end.
Definition is_ab (t : table) (n target : string) : bool :=
  existsb (at_class t target) (chain (chain_fuel t) t n).

(* ---- dispatch: the first class on the ancestor chain, starting with the class itself, that
   declares a method of that name *)
Definition declares (t : table) (m a : string) : bool :=
  match get_class t a with
  | None => false
  | Some c => existsb (fun x => String.eqb (m_name x) m) (c_methods c)
  end.
Definition resolve (t : table) (n m : string) : option string :=
  find (declares t m) (chain (chain_fuel t) t n).
Definition parent_of (t : table) (n : string) : option string :=
  match get_class t n with Some c => c_extends c | None => None end.
(* parent::m() written in class d: the nearest definition strictly above d *)
Definition resolve_parent (t : table) (d m : string) : option string :=
  match parent_of t d with Some p => resolve t p m | None => None end.

(* ---- call chains.  Two things determine every resolution: the class of the object the chain started on (for
   C::f() from outside: the named class) — `static::` and `$this->` resolve from it, at every depth — and the class
   the running body is written in — `self::` resolves from it, `parent::` from its parent. *)
Record sctx := { s_run : string; s_lexc : string }.
Definition spec_hop (t : table) (x : sctx) (h : hop) : option sctx :=
  match h with
  | HNamed c s =>
      (* a call that names a class is not a forwarding call: from there on static:: is that class *)
      option_map (fun d => {| s_run := c; s_lexc := d |}) (resolve t c s)
  | HThis m => option_map (fun d => {| s_run := s_run x; s_lexc := d |}) (resolve t (s_run x) m)
  | HParent m => option_map (fun d => {| s_run := s_run x; s_lexc := d |}) (resolve_parent t (s_lexc x) m)
  | HSelf s => option_map (fun d => {| s_run := s_run x; s_lexc := d |}) (resolve t (s_lexc x) s)
  | HStatic s => option_map (fun d => {| s_run := s_run x; s_lexc := d |}) (resolve t (s_run x) s)
  end.
Fixpoint spec_hops (t : table) (x : sctx) (hs : list hop) : option (list string) :=
  match hs with
  | [] => Some []
  | h :: r => match spec_hop t x h with
              | Some x' => option_map (cons (s_lexc x')) (spec_hops t x' r)
              | None => None
              end
  end.
Definition spec_run_hops (t : table) (r f : string) (hs : list hop) : option (list string) :=
  match resolve t r f with
  | Some d => option_map (cons d) (spec_hops t {| s_run := r; s_lexc := d |} hs)
  | None => None
  end.

(* number of parameters of the definition of m in class d *)
Definition arity_in (t : table) (d m : string) : option nat :=
  match get_class t d with
  | None => None
  | Some c => option_map m_arity (find (fun x => String.eqb (m_name x) m) (c_methods c))
  end.
(* the object (of class n) provides, itself or by inheritance, m with k parameters *)
Definition provides (t : table) (n m : string) (k : nat) : bool :=
  match resolve t n m with
  | None => false
  | Some d => match arity_in t d m with Some k' => Nat.eqb k' k | None => false end
  end.
Definition declared_methods (t : table) (target : string) : option (list meth) :=
  match get_class t target, get_iface t target with
  | Some c, _ => Some (filter (fun x => negb (m_static x)) (c_methods c))
  | None, Some i => Some (filter (fun x => negb (m_static x)) (i_methods i))
  | None, None => None
  end.
Definition like_spec (t : table) (n target : string) : bool :=
  match declared_methods t target with
  | None => false
  | Some ms => forallb (fun tm => provides t n (m_name tm) (m_arity tm)) ms
  end.

(* ---- well-formed tables: closed (every referenced name is declared, as a class where a class is
   expected and as an interface where an interface is expected), acyclic (every extends chain and
   every interface-extends path ends within the number of declarations), and a method name is static
   everywhere or nowhere *)
Fixpoint chain_ends (fuel : nat) (t : table) (n : string) : bool :=
  match fuel with
  | O => false
  | S f => match get_class t n with
           | None => true
           | Some c => match c_extends c with None => true | Some p => chain_ends f t p end
           end
  end.
Fixpoint iface_ends (fuel : nat) (t : table) (n : string) : bool :=
  match fuel with
  | O => false
  | S f => match get_iface t n with
           | None => true
           | Some i => forallb (iface_ends f t) (i_extends i)
           end
  end.
Definition is_class (t : table) (n : string) : bool := match get_class t n with Some _ => true | None => false end.
Definition is_iface (t : table) (n : string) : bool := match get_iface t n with Some _ => true | None => false end.
Definition closed (t : table) : bool :=
  forallb (fun e => match c_extends (snd e) with None => true | Some p => is_class t p end
                    && forallb (is_iface t) (c_impls (snd e))) (classes t)
  && forallb (fun e => forallb (is_iface t) (i_extends (snd e))) (ifaces t).
Definition acyclic (t : table) : bool :=
  forallb (fun e => chain_ends (chain_fuel t) t (fst e)) (classes t)
  && forallb (fun e => iface_ends (iface_fuel t) t (fst e)) (ifaces t).
Definition all_meths (t : table) : list meth := flat_map (fun e => c_methods (snd e)) (classes t).
Definition kinds_ok (t : table) : bool :=
  forallb (fun x => forallb (fun y => implb (String.eqb (m_name x) (m_name y)) (Bool.eqb (m_static x) (m_static y)))
                            (all_meths t)) (all_meths t).
Definition wf (t : table) : bool := closed t && acyclic t && kinds_ok t.
(* s names a static method wherever it is declared *)
Definition static_name (t : table) (s : string) : bool :=
  forallb (fun x => implb (String.eqb (m_name x) s) (m_static x)) (all_meths t).

(* a chain the theorem speaks about: `$this->` only while an object is at hand (not after a self:: / static:: hop
   or a static entry), parent:: only in a class that has a parent, self:: / static:: only on static method names *)
Fixpoint hops_ok (t : table) (inst : bool) (x : sctx) (hs : list hop) : bool :=
  match hs with
  | [] => true
  | h :: r =>
      match h with
      | HThis _ => inst
      | HParent _ => match parent_of t (s_lexc x) with Some _ => true | None => false end
      | HSelf s | HStatic s => static_name t s
      | HNamed c s => static_name t s && is_class t c
      end &&
      match spec_hop t x h with
      | Some x' => hops_ok t (match h with HThis _ | HParent _ => inst | _ => false end) x' r
      | None => true
      end
  end.
