(* C08 — call chains of arbitrary length: the context transformer of every hop keeps the model's context
   related to the two classes the reference semantics tracks; the n-hop theorem is the fold. *)
From Coq Require Import Lia.
From V.C08 Require Import Model Spec ProofsIface ProofsClass ProofsDispatch.

Local Arguments chain_fuel : simpl never.

Section WF.
Variable t : table.
Hypothesis Hcl : closed t = true.
Hypothesis Hac : acyclic t = true.
Hypothesis Hk : kinds_ok t = true.

Lemma ancestor_trans a b c : ancestor t a b -> ancestor t b c -> ancestor t a c.
Proof. induction 1; intros H2; [assumption|]. eapply anc_step; eauto. Qed.

Lemma resolve_ancestor n m d : resolve t n m = Some d -> ancestor t n d.
Proof. unfold resolve. intros H. apply find_some in H. destruct H as [H _]. eapply chain_ancestor; eauto. Qed.

Lemma check_class_is_ab n c tgt : get_class t n = Some c ->
  check_class_is (chain_fuel t) t n c tgt = Ok (is_ab t n tgt).
Proof.
  intros Hn. pose proof (acyclic_class t Hac n c Hn) as He.
  rewrite (check_class_is_b t Hcl Hac tgt (chain_fuel t) n c Hn (chain_ends_mono t _ _ He)).
  unfold is_ab. now rewrite (chain_irrel t _ _ He).
Qed.

Lemma ancestor_is_ab n c a : get_class t n = Some c -> ancestor t n a -> is_ab t n a = true.
Proof.
  intros Hn Ha. apply (is_ab_is_a_l t Hcl Hac n c a Hn). exists a. split; [assumption|now left].
Qed.

(* the relation between the model's context and the reference's two classes *)
Definition R (inst : bool) (x : mctx) (sx : sctx) : Prop :=
  x_lex x = s_lexc sx /\ lsb x = s_run sx /\ (inst = true -> x_cls x = s_run sx) /\
  (forall e, x_self x = Some e -> e = x_lex x) /\
  ancestor t (s_run sx) (s_lexc sx) /\
  (exists c, get_class t (s_run sx) = Some c) /\ (exists cd, get_class t (s_lexc sx) = Some cd).

Ltac fin :=
  repeat split; auto;
  try (intros; discriminate);
  try (let e := fresh in let H := fresh in intros e H; now inversion H);
  try (eexists; eassumption);
  try (eapply (resolve_registered t); eassumption).

Definition lift (o : option sctx) (f : sctx -> mctx -> Prop) (r : outcome (option mctx)) : Prop :=
  match o with
  | Some sx' => exists x', r = Ok (Some x') /\ f sx' x'
  | None => r = Ok None
  end.

Lemma bind2_defining {A} o (k : string -> outcome (option A)) x :
  defining o = Ok x -> bind2 o k = match x with Some d => k d | None => Ok None end.
Proof. intros H. apply defining_inv in H. destruct x as [d|]; [destruct H as [y H]|]; rewrite H; reflexivity. Qed.

Lemma hop_step_l inst x sx h : R inst x sx ->
  match h with
  | HThis _ => inst = true
  | HParent _ => exists p, parent_of t (s_lexc sx) = Some p
  | HSelf s | HStatic s => static_name t s = true
  | HNamed c s => static_name t s = true /\ exists cc, get_class t c = Some cc
  end ->
  lift (spec_hop t sx h) (fun sx' x' => R (match h with HThis _ | HParent _ => inst | _ => false end) x' sx')
       (hop_step t x h).
Proof.
  intros (Hlex & Hlsb & Hinst & Hself & Hanc & [c Hc] & [cd Hcd]) Hpre.
  destruct h as [m|s|s|m|nc s]; unfold spec_hop, hop_step, lift.
  - (* $this->m() *)
    specialize (Hinst Hpre). rewrite Hinst.
    rewrite (bind2_defining _ _ _ (object_method_resolve t Hcl Hac Hk (s_run sx) c m Hc)).
    destruct (resolve t (s_run sx) m) as [d|] eqn:Hd; simpl; [|reflexivity].
    eexists. split; [reflexivity|]. unfold R, lsb; simpl. fin.
    eapply resolve_ancestor; eauto.
  - (* self::s() *)
    rewrite Hlex. unfold static_call.
    rewrite (bind2_defining _ _ _ (static_from_resolve t Hcl Hac s (s_lexc sx) cd Hpre Hcd)).
    destruct (resolve t (s_lexc sx) s) as [d|] eqn:Hd; simpl; [|reflexivity].
    assert (Hf : forwarded t x (s_lexc sx) = Ok (s_run sx)).
    { unfold forwarded. rewrite Hlsb. destruct (String.eqb (s_run sx) (s_lexc sx)) eqn:E.
      - apply String.eqb_eq in E. now rewrite E.
      - rewrite Hc, (check_class_is_ab _ c _ Hc), (ancestor_is_ab _ c _ Hc Hanc). reflexivity. }
    rewrite Hf. eexists. split; [reflexivity|]. unfold R, lsb; simpl. fin.
    eapply ancestor_trans; [exact Hanc|]. eapply resolve_ancestor; eauto.
  - (* static::s() *)
    unfold static_keyword_call. fold (lsb x). rewrite Hlsb.
    rewrite (bind2_defining _ _ _ (static_from_resolve t Hcl Hac s (s_run sx) c Hpre Hc)).
    destruct (resolve t (s_run sx) s) as [d|] eqn:Hd; simpl; [|reflexivity].
    eexists. split; [reflexivity|]. unfold R, lsb; simpl. fin.
    eapply resolve_ancestor; eauto.
  - (* parent::m() *)
    destruct Hpre as [p Hp]. unfold resolve_parent. rewrite Hp.
    assert (Hext : c_extends cd = Some p) by (unfold parent_of in Hp; now rewrite Hcd in Hp).
    assert (Hpm : defining (parent_method t (x_self x) (x_lex x) (x_cls x) m) = Ok (resolve t p m)).
    { destruct (x_self x) as [e|] eqn:Hs.
      - rewrite (Hself e eq_refl), Hlex. exact (parent_method_self t Hcl Hac (s_lexc sx) cd p _ _ m Hcd Hext).
      - rewrite Hlex. exact (parent_method_l t Hcl Hac (s_lexc sx) cd p _ m Hcd Hext). }
    rewrite (bind2_defining _ _ _ Hpm).
    destruct (resolve t p m) as [e|] eqn:He; simpl; [|reflexivity].
    eexists. split; [reflexivity|]. unfold R; simpl. fin.
    eapply ancestor_trans; [exact Hanc|]. eapply anc_step; [exact Hcd|exact Hext|]. eapply resolve_ancestor; eauto.
  - (* C::s() *)
    destruct Hpre as [Hs [cc Hcc]]. unfold static_call.
    rewrite (bind2_defining _ _ _ (static_from_resolve t Hcl Hac s nc cc Hs Hcc)).
    destruct (resolve t nc s) as [d|] eqn:Hd; simpl; [|reflexivity].
    eexists. split; [reflexivity|]. unfold R, lsb; simpl. fin.
    eapply resolve_ancestor; eauto.
Qed.

Lemma hops_l hs : forall inst x sx, R inst x sx -> hops_ok t inst sx hs = true ->
  hops t x hs = Ok (spec_hops t sx hs).
Proof.
  induction hs as [|h r IH]; intros inst x sx HR Hok; [reflexivity|].
  cbn [hops_ok] in Hok. apply andb_true_iff in Hok. destruct Hok as [Hpre Hrest].
  assert (Hp : match h with
               | HThis _ => inst = true
               | HParent _ => exists p, parent_of t (s_lexc sx) = Some p
               | HSelf s | HStatic s => static_name t s = true
               | HNamed c s => static_name t s = true /\ exists cc, get_class t c = Some cc
               end).
  { destruct h; try assumption.
    - destruct (parent_of t (s_lexc sx)) as [p|]; [eauto|discriminate].
    - apply andb_true_iff in Hpre. destruct Hpre as [H1 H2]. split; [assumption|].
      unfold is_class in H2. destruct (get_class t c); [eauto|discriminate]. }
  pose proof (hop_step_l inst x sx h HR Hp) as H. unfold lift in H.
  cbn [hops spec_hops]. destruct (spec_hop t sx h) as [sx'|].
  - destruct H as [x' [Hx' HR']]. rewrite Hx'.
    rewrite (IH _ x' sx' HR' Hrest). destruct HR' as [Hl _]. rewrite Hl.
    destruct (spec_hops t sx' r); reflexivity.
  - rewrite H. reflexivity.
Qed.

Lemma run_hops_l se r c f hs : get_class t r = Some c -> (se = true -> static_name t f = true) ->
  match resolve t r f with
  | Some d => hops_ok t (negb se) {| s_run := r; s_lexc := d |} hs = true
  | None => True
  end ->
  run_hops t se r f hs = Ok (spec_run_hops t r f hs).
Proof.
  intros Hr Hse Hok. unfold run_hops, spec_run_hops, enter.
  assert (HE : match resolve t r f with
               | Some d => exists x, (if se
                    then bind2 (static_call t r f) (fun d => Ok (Some {| x_cls := d; x_static := Some r; x_self := None; x_lex := d |}))
                    else bind2 (object_method t r f) (fun d => Ok (Some {| x_cls := r; x_static := None; x_self := None; x_lex := d |})))
                    = Ok (Some x) /\ R (negb se) x {| s_run := r; s_lexc := d |}
               | None => (if se
                    then bind2 (static_call t r f) (fun d => Ok (Some {| x_cls := d; x_static := Some r; x_self := None; x_lex := d |}))
                    else bind2 (object_method t r f) (fun d => Ok (Some {| x_cls := r; x_static := None; x_self := None; x_lex := d |})))
                    = Ok None
               end).
  { destruct se.
    - unfold static_call. rewrite (bind2_defining _ _ _ (static_from_resolve t Hcl Hac f r c (Hse eq_refl) Hr)).
      destruct (resolve t r f) as [d|] eqn:Hd; [|reflexivity].
      eexists. split; [reflexivity|]. unfold R, lsb; simpl. fin.
      eapply resolve_ancestor; eauto.
    - rewrite (bind2_defining _ _ _ (object_method_resolve t Hcl Hac Hk r c f Hr)).
      destruct (resolve t r f) as [d|] eqn:Hd; [|reflexivity].
      eexists. split; [reflexivity|]. unfold R, lsb; simpl. fin.
      eapply resolve_ancestor; eauto. }
  destruct (resolve t r f) as [d|].
  - destruct HE as [x [Hx HR]]. rewrite Hx. rewrite (hops_l hs _ x _ HR Hok).
    destruct HR as [Hl _]. rewrite Hl. simpl. destruct (spec_hops t {| s_run := r; s_lexc := d |} hs); reflexivity.
  - rewrite HE. reflexivity.
Qed.
End WF.
