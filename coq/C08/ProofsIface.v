(* C08 — lemmas about the interface graph: the BFS of interfaceExtends (with its visited set) and
   the plain recursion of checkInterfaceIs both decide reachability. *)
From Coq Require Import Lia.
From V.C08 Require Import Model Spec.

Lemma lookup_In {A} k (a : A) l : lookup k l = Some a -> In (k, a) l.
Proof.
  induction l as [|[k' a'] r IH]; simpl; [discriminate|].
  destruct (String.eqb k k') eqn:E; intros H.
  - apply String.eqb_eq in E. inversion H. subst. now left.
  - right. auto.
Qed.

Lemma mem_In x l : mem x l = true <-> In x l.
Proof.
  unfold mem. rewrite existsb_exists. split.
  - intros [y [Hy E]]. apply String.eqb_eq in E. now subst.
  - intros H. exists x. split; [assumption|apply String.eqb_refl].
Qed.
Lemma mem_false x l : mem x l = false <-> ~ In x l.
Proof. rewrite <- mem_In. destruct (mem x l); split; congruence. Qed.

(* ---- ireach_b decides ireach *)
Lemma ireach_b_sound t f : forall n m, ireach_b f t n m = true -> ireach t n m.
Proof.
  induction f as [|f IH]; intros n m H; simpl in H.
  - rewrite orb_false_r in H. apply String.eqb_eq in H. subst. constructor.
  - apply orb_true_iff in H. destruct H as [H|H].
    + apply String.eqb_eq in H. subst. constructor.
    + destruct (get_iface t n) as [i|] eqn:Hi; [|discriminate].
      apply existsb_exists in H. destruct H as [p [Hp Hr]].
      eapply ir_step; eauto.
Qed.

Lemma ireach_b_complete t f : forall n m, iface_ends f t n = true -> ireach t n m -> ireach_b f t n m = true.
Proof.
  induction f as [|f IH]; intros n m He Hr; [discriminate|].
  destruct Hr as [n|n i p m Hi Hp Hr]; simpl.
  - now rewrite String.eqb_refl.
  - apply orb_true_iff. right. rewrite Hi. simpl in He. rewrite Hi in He.
    apply existsb_exists. exists p. split; [assumption|].
    apply IH; [|assumption]. rewrite forallb_forall in He. auto.
Qed.

(* ---- BFS: soundness *)
Lemma bfs_sound t tgt f : forall vis q, bfs f t tgt vis q = Ok true -> exists x, In x q /\ ireach t x tgt.
Proof.
  induction f as [|f IH]; intros vis q H; simpl in H; [discriminate|].
  destruct q as [|name q]; [discriminate|].
  destruct (String.eqb name tgt) eqn:E.
  - apply String.eqb_eq in E. subst. exists tgt. split; [now left|constructor].
  - destruct (mem name vis).
    + destruct (IH _ _ H) as [x [Hx Hr]]. exists x. split; [now right|assumption].
    + destruct (get_iface t name) as [pi|] eqn:Hi.
      * destruct (IH _ _ H) as [x [Hx Hr]]. apply in_app_or in Hx. destruct Hx as [Hx|Hx].
        -- exists x. split; [now right|assumption].
        -- exists name. split; [now left|]. eapply ir_step; eauto.
      * destruct (IH _ _ H) as [x [Hx Hr]]. exists x. split; [now right|assumption].
Qed.

(* ---- BFS: completeness, by the closed-visited-set invariant *)
Definition closed_vis (t : table) (vis q : list string) : Prop :=
  forall v, In v vis -> forall i p, get_iface t v = Some i -> In p (i_extends i) -> In p vis \/ In p q.

Lemma closed_set_reach t vis x y : closed_vis t vis [] -> In x vis -> ireach t x y -> In y vis.
Proof.
  intros Hc Hx Hr. induction Hr as [n|n i p m Hi Hp Hr IH]; [assumption|].
  apply IH. destruct (Hc n Hx i p Hi Hp) as [H|[]]. assumption.
Qed.

Lemma bfs_false t tgt f : forall vis q,
  bfs f t tgt vis q = Ok false -> closed_vis t vis q -> ~ In tgt vis ->
  forall x, In x vis \/ In x q -> ~ ireach t x tgt.
Proof.
  induction f as [|f IH]; intros vis q H Hc Ht x Hx; simpl in H; [discriminate|].
  destruct q as [|name q].
  - intros Hr. destruct Hx as [Hx|[]]. apply Ht. eapply closed_set_reach; eauto.
  - destruct (String.eqb name tgt) eqn:E; [discriminate|].
    apply String.eqb_neq in E.
    destruct (mem name vis) eqn:Hm.
    + apply mem_In in Hm. apply (IH _ _ H); [|assumption|].
      * intros v Hv i p Hi Hp. destruct (Hc v Hv i p Hi Hp) as [?|[?|?]]; subst; auto.
      * destruct Hx as [?|[?|?]]; subst; auto.
    + destruct (get_iface t name) as [pi|] eqn:Hi.
      * apply (IH _ _ H).
        -- intros v Hv i p Hi' Hp. destruct Hv as [Hv|Hv].
           ++ subst v. rewrite Hi in Hi'. inversion Hi'. subst i. right. apply in_or_app. now right.
           ++ destruct (Hc v Hv i p Hi' Hp) as [?|[?|?]]; subst.
              ** left. now right.
              ** left. now left.
              ** right. apply in_or_app. now left.
        -- intros [?|?]; [congruence|auto].
        -- destruct Hx as [?|[?|?]]; subst.
           ++ left. now right.
           ++ left. now left.
           ++ right. apply in_or_app. now left.
      * apply (IH _ _ H).
        -- intros v Hv i p Hi' Hp. destruct Hv as [Hv|Hv].
           ++ subst v. congruence.
           ++ destruct (Hc v Hv i p Hi' Hp) as [?|[?|?]]; subst.
              ** left. now right.
              ** left. now left.
              ** now right.
        -- intros [?|?]; [congruence|auto].
        -- destruct Hx as [?|[?|?]]; subst.
           ++ left. now right.
           ++ left. now left.
           ++ now right.
Qed.

(* ---- BFS: the fuel suffices — measure = queue length + extends edges of unvisited interfaces *)
Fixpoint ue (l : list (string * ifc)) (vis : list string) : nat :=
  match l with
  | [] => 0
  | (k, i) :: r => (if mem k vis then 0 else List.length (i_extends i)) + ue r vis
  end.

Lemma ue_nil l : ue l [] = fold_right (fun e n => (List.length (i_extends (snd e)) + n)%nat) 0%nat l.
Proof. induction l as [|[k i] r IH]; simpl; [reflexivity|now rewrite IH]. Qed.

Lemma ue_mono l name vis : ue l (name :: vis) <= ue l vis.
Proof.
  induction l as [|[k i] r IH]; simpl; [lia|].
  destruct (String.eqb k name); simpl; destruct (mem k vis); lia.
Qed.

Lemma ue_drop l name vis pi : lookup name l = Some pi -> mem name vis = false ->
  ue l (name :: vis) + List.length (i_extends pi) <= ue l vis.
Proof.
  induction l as [|[k i] r IH]; simpl; intros H Hm; [discriminate|].
  destruct (String.eqb name k) eqn:E.
  - apply String.eqb_eq in E. subst k. inversion H. subst i.
    rewrite String.eqb_refl. simpl. rewrite Hm. pose proof (ue_mono r name vis). lia.
  - rewrite String.eqb_sym, E. simpl. specialize (IH H Hm). destruct (mem k vis); lia.
Qed.

Lemma bfs_fuel_enough t tgt f : forall vis q,
  List.length q + ue (ifaces t) vis < f -> exists b, bfs f t tgt vis q = Ok b.
Proof.
  induction f as [|f IH]; intros vis q H; [lia|]. simpl.
  destruct q as [|name q]; [eauto|].
  destruct (String.eqb name tgt); [eauto|].
  simpl in H.
  destruct (mem name vis) eqn:Hm.
  - apply IH. lia.
  - destruct (get_iface t name) as [pi|] eqn:Hi.
    + apply IH. rewrite app_length. pose proof (ue_drop _ _ _ _ Hi Hm). lia.
    + apply IH. pose proof (ue_mono (ifaces t) name vis). lia.
Qed.

(* ---- interfaceExtends decides ireach, on EVERY table (cyclic interface graphs included) *)
Lemma interface_extends_ok t s tgt :
  exists b, interface_extends t s tgt = Ok b /\ (b = true <-> ireach t s tgt).
Proof.
  unfold interface_extends. destruct (String.eqb s tgt) eqn:E.
  - apply String.eqb_eq in E. subst. exists true. split; [reflexivity|]. split; [constructor|reflexivity].
  - apply String.eqb_neq in E. destruct (get_iface t s) as [i|] eqn:Hi.
    + destruct (bfs_fuel_enough t tgt (bfs_fuel t i) [] (i_extends i)) as [b Hb].
      { unfold bfs_fuel, total_edges. rewrite ue_nil. lia. }
      exists b. split; [assumption|]. destruct b.
      * split; [|reflexivity]. intros _. destruct (bfs_sound _ _ _ _ _ Hb) as [x [Hx Hr]].
        eapply ir_step; eauto.
      * split; [discriminate|]. intros Hr. exfalso.
        inversion Hr as [|n i' p m Hi' Hp Hr']; subst; [congruence|].
        rewrite Hi in Hi'. inversion Hi'. subst i'.
        apply (bfs_false _ _ _ _ _ Hb) with (x := p); auto.
        intros v [].
    + exists false. split; [reflexivity|]. split; [discriminate|].
      intros Hr. inversion Hr; subst; congruence.
Qed.

(* on tables whose interface graph is acyclic the answer is the computed ireach_b *)
Lemma interface_extends_b t s tgt : iface_ends (iface_fuel t) t s = true ->
  interface_extends t s tgt = Ok (ireach_b (iface_fuel t) t s tgt).
Proof.
  intros He. destruct (interface_extends_ok t s tgt) as [b [Hb Hiff]]. rewrite Hb. f_equal.
  destruct b.
  - symmetry. apply ireach_b_complete; [assumption|]. now apply Hiff.
  - destruct (ireach_b (iface_fuel t) t s tgt) eqn:Hr; [|reflexivity].
    apply ireach_b_sound in Hr. apply Hiff in Hr. discriminate.
Qed.

(* ---- checkInterfaceIs (plain recursion) = ireach_b at the same depth bound, when every
   extended interface is declared and the paths from n end within the bound *)
Lemma check_iface_is_b t tgt f : forall n i,
  get_iface t n = Some i -> iface_ends f t n = true ->
  (forall k j, get_iface t k = Some j -> forallb (is_iface t) (i_extends j) = true) ->
  check_iface_is f t n i tgt = Ok (ireach_b f t n tgt).
Proof.
  induction f as [|f IH]; intros n i Hi He Hcl; [discriminate|].
  simpl. destruct (String.eqb n tgt); [reflexivity|]. simpl. rewrite Hi.
  simpl in He. rewrite Hi in He.
  pose proof (Hcl _ _ Hi) as Hreg.
  induction (i_extends i) as [|p r IHr]; [reflexivity|].
  simpl in He, Hreg. apply andb_true_iff in He. destruct He as [He1 He2].
  apply andb_true_iff in Hreg. destruct Hreg as [Hr1 Hr2].
  unfold is_iface in Hr1. destruct (get_iface t p) as [pi|] eqn:Hp; [|discriminate].
  rewrite (IH p pi Hp He1 Hcl). simpl.
  destruct (ireach_b f t p tgt); [reflexivity|]. simpl. apply IHr; assumption.
Qed.
