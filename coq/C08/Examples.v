(* C08 — non-vacuity: a well-formed table with a diamond of interfaces, an interface of a
   grandparent, overrides at two levels; and what happens outside the hypotheses. *)
From V.C08 Require Import Model Spec Run.

Definition mk (n : string) (st : bool) (a : nat) : meth := {| m_name := n; m_static := st; m_arity := a |}.
Definition ex_t : table :=
  {| classes :=
       [("A", {| c_extends := None; c_impls := ["J"];
                 c_methods := [mk "f" false 1; mk "who" false 0; mk "s" true 0; mk "ks" false 0; mk "kt" false 0] |});
        ("B", {| c_extends := Some "A"; c_impls := [];
                 c_methods := [mk "who" false 0; mk "s" true 0; mk "kp" false 0] |});
        ("C", {| c_extends := Some "B"; c_impls := ["K"]; c_methods := [mk "f" false 1; mk "s" true 0] |});
        ("D", {| c_extends := None; c_impls := []; c_methods := [] |})];
     ifaces :=
       [("I", {| i_extends := []; i_methods := [mk "f" false 1] |});
        ("J", {| i_extends := ["I"]; i_methods := [] |});
        ("K", {| i_extends := []; i_methods := [] |});
        ("L", {| i_extends := ["J"; "K"]; i_methods := [] |})] |}.

Example ex_wf : wf ex_t = true.
Proof. vm_compute. reflexivity. Qed.

(* the interface of a grandparent, reached through an interface-extends edge, by all three walks *)
Example ex_walks :
  let c := {| c_extends := Some "B"; c_impls := ["K"]; c_methods := [mk "f" false 1; mk "s" true 0] |} in
  class_is ex_t "I" "C" c = Ok true /\ this_is ex_t "I" "C" c = Ok true /\ instanceof ex_t "C" c "I" = Ok true /\
  class_is ex_t "L" "C" c = Ok false /\ instanceof ex_t "C" c "D" = Ok false /\ is_ab ex_t "C" "I" = true.
Proof. vm_compute. repeat split; reflexivity. Qed.

Example ex_dispatch :
  defining (object_method ex_t "C" "who") = Ok (Some "B") /\        (* most-derived *)
  via_parent ex_t "C" "kp" "who" = Ok (Some "A") /\                 (* parent:: from B, runtime class C *)
  via_self ex_t "C" "ks" "s" = Ok (Some "A") /\                     (* self:: in A's ks *)
  via_static ex_t "C" "kt" "s" = Ok (Some "C") /\                   (* static:: *)
  like ex_t "B" "I" = true /\ like ex_t "D" "I" = false.           (* B inherits f/1 *)
Proof. vm_compute. repeat split; reflexivity. Qed.

Example ex_hyps : static_name ex_t "s" = true /\ resolve ex_t "C" "kp" = Some "B" /\ parent_of ex_t "B" = Some "A".
Proof. vm_compute. repeat split; reflexivity. Qed.

(* outside the hypothesis `acyclic`: interfaces P extends Q, Q extends P.  Until fix 4b3f319 the
   interpreter accepted these declarations and `(new R) instanceof D` with class R implements P died
   with a Go stack overflow (checkInterfaceIs has no visited set; OutOfFuel below).  Now the second
   declaration is refused (ex_cycle_refused), so such a table cannot be built; the BFS of
   interfaceExtends terminates with the right answer even on it. *)
Definition cyc_t : table :=
  {| classes := [("R", {| c_extends := None; c_impls := ["P"]; c_methods := [] |});
                 ("D", {| c_extends := None; c_impls := []; c_methods := [] |})];
     ifaces := [("P", {| i_extends := ["Q"]; i_methods := [] |}); ("Q", {| i_extends := ["P"]; i_methods := [] |})] |}.
Example ex_cyclic :
  acyclic cyc_t = false /\
  class_is cyc_t "D" "R" {| c_extends := None; c_impls := ["P"]; c_methods := [] |} = Ok false /\
  class_is cyc_t "Q" "R" {| c_extends := None; c_impls := ["P"]; c_methods := [] |} = Ok true /\
  instanceof cyc_t "R" {| c_extends := None; c_impls := ["P"]; c_methods := [] |} "D" = OutOfFuel.
Proof. vm_compute. repeat split; reflexivity. Qed.

Example ex_cycle_refused :
  declare_ifaces {| classes := []; ifaces := [] |}
    [("P", {| i_extends := ["Q"]; i_methods := [] |}); ("Q", {| i_extends := ["P"]; i_methods := [] |})] = None /\
  declare_iface {| classes := []; ifaces := [] |} "S" {| i_extends := ["S"]; i_methods := [] |} = None /\
  (exists t, declare_ifaces {| classes := []; ifaces := [] |}
    [("L", {| i_extends := ["J"; "K"]; i_methods := [] |}); ("J", {| i_extends := ["I"]; i_methods := [] |});
     ("K", {| i_extends := ["I"]; i_methods := [] |}); ("I", {| i_extends := []; i_methods := [] |})] = Some t).
Proof. vm_compute. repeat split; eauto. Qed.
