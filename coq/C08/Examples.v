(* C08 — non-vacuity: a well-formed table with a diamond of interfaces, an interface of a
   grandparent, overrides at two levels; and what happens outside the hypotheses. *)
From V.C08 Require Import Model Spec Run.

Definition mk (n : string) (st : bool) (a : nat) : meth := {| m_name := n; m_static := st; m_arity := a |}.
Definition ex_t : table :=
  {| classes :=
       [("A", {| c_extends := None; c_impls := ["J"];
                 c_methods := [mk "f" false 1; mk "who" false 0; mk "s" true 0; mk "ks" false 0; mk "kt" false 0] |});
        ("B", {| c_extends := Some "A"; c_impls := [];
                 c_methods := [mk "who" false 0; mk "s" true 0; mk "kp" false 0] |});
        ("C", {| c_extends := Some "B"; c_impls := ["K"]; c_methods := [mk "f" false 1; mk "s" true 0] |});
        ("D", {| c_extends := None; c_impls := []; c_methods := [] |})];
     ifaces :=
       [("I", {| i_extends := []; i_methods := [mk "f" false 1] |});
        ("J", {| i_extends := ["I"]; i_methods := [] |});
        ("K", {| i_extends := []; i_methods := [] |});
        ("L", {| i_extends := ["J"; "K"]; i_methods := [] |})] |}.

Example ex_wf : wf ex_t = true.
Proof. vm_compute. reflexivity. Qed.

(* the interface of a grandparent, reached through an interface-extends edge, by all three walks *)
Example ex_walks :
  let c := {| c_extends := Some "B"; c_impls := ["K"]; c_methods := [mk "f" false 1; mk "s" true 0] |} in
  class_is ex_t "I" "C" c = Ok true /\ this_is ex_t "I" "C" c = Ok true /\ instanceof ex_t "C" c "I" = Ok true /\
  class_is ex_t "L" "C" c = Ok false /\ instanceof ex_t "C" c "D" = Ok false /\ is_ab ex_t "C" "I" = true.
Proof. vm_compute. repeat split; reflexivity. Qed.

Example ex_dispatch :
  defining (object_method ex_t "C" "who") = Ok (Some "B") /\        (* most-derived *)
  via_parent ex_t "C" "kp" "who" = Ok (Some "A") /\                 (* parent:: from B, runtime class C *)
  via_self ex_t "C" "ks" "s" = Ok (Some "A") /\                     (* self:: in A's ks *)
  via_static ex_t "C" "kt" "s" = Ok (Some "C") /\                   (* static:: *)
  like ex_t "B" "I" = true /\ like ex_t "D" "I" = false.           (* B inherits f/1 *)
Proof. vm_compute. repeat split; reflexivity. Qed.

Example ex_hyps : static_name ex_t "s" = true /\ resolve ex_t "C" "kp" = Some "B" /\ parent_of ex_t "B" = Some "A".
Proof. vm_compute. repeat split; reflexivity. Qed.

(* outside the hypothesis `acyclic`: interfaces P extends Q, Q extends P.  Until fix 4b3f319 the
   interpreter accepted these declarations and `(new R) instanceof D` with class R implements P died
   with a Go stack overflow (checkInterfaceIs has no visited set; OutOfFuel below).  Now the second
   declaration is refused (ex_cycle_refused), so such a table cannot be built; the BFS of
   interfaceExtends terminates with the right answer even on it. *)
Definition cyc_t : table :=
  {| classes := [("R", {| c_extends := None; c_impls := ["P"]; c_methods := [] |});
                 ("D", {| c_extends := None; c_impls := []; c_methods := [] |})];
     ifaces := [("P", {| i_extends := ["Q"]; i_methods := [] |}); ("Q", {| i_extends := ["P"]; i_methods := [] |})] |}.
Example ex_cyclic :
  acyclic cyc_t = false /\
  class_is cyc_t "D" "R" {| c_extends := None; c_impls := ["P"]; c_methods := [] |} = Ok false /\
  class_is cyc_t "Q" "R" {| c_extends := None; c_impls := ["P"]; c_methods := [] |} = Ok true /\
  instanceof cyc_t "R" {| c_extends := None; c_impls := ["P"]; c_methods := [] |} "D" = OutOfFuel.
Proof. vm_compute. repeat split; reflexivity. Qed.

Example ex_cycle_refused :
  declare_ifaces {| classes := []; ifaces := [] |}
    [("P", {| i_extends := ["Q"]; i_methods := [] |}); ("Q", {| i_extends := ["P"]; i_methods := [] |})] = None /\
  declare_iface {| classes := []; ifaces := [] |} "S" {| i_extends := ["S"]; i_methods := [] |} = None /\
  (exists t, declare_ifaces {| classes := []; ifaces := [] |}
    [("L", {| i_extends := ["J"; "K"]; i_methods := [] |}); ("J", {| i_extends := ["I"]; i_methods := [] |});
     ("K", {| i_extends := ["I"]; i_methods := [] |}); ("I", {| i_extends := []; i_methods := [] |})] = Some t).
Proof. vm_compute. repeat split; eauto. Qed.

(* ---- call chains: D -> C -> B -> A, every class declares c1 c2 c3, entry c0 only in D.
   $d->c0() : parent::c1() [runs C::c1, SelfClass := C] : $this->c2() [virtual: D::c2, SelfClass reset]
   : parent::c3() [from D's parent: C::c3].  If the `$this->` hop kept SelfClass = C (seeded change C08-8), the last
   hop would resolve from C's parent and run B::c3. *)
Definition ex_chain : table :=
  {| classes :=
       [("A", {| c_extends := None; c_impls := []; c_methods := [mk "c1" false 0; mk "c2" false 0; mk "c3" false 0; mk "s" true 0] |});
        ("B", {| c_extends := Some "A"; c_impls := []; c_methods := [mk "c1" false 0; mk "c2" false 0; mk "c3" false 0] |});
        ("C", {| c_extends := Some "B"; c_impls := []; c_methods := [mk "c1" false 0; mk "c2" false 0; mk "c3" false 0; mk "s" true 0] |});
        ("D", {| c_extends := Some "C"; c_impls := []; c_methods := [mk "c0" false 0; mk "c1" false 0; mk "c2" false 0; mk "c3" false 0] |})];
     ifaces := [] |}.
Example ex_chain_wf : wf ex_chain = true.
Proof. vm_compute. reflexivity. Qed.
Example ex_chain_run :
  run_hops ex_chain false "D" "c0" [HParent "c1"; HThis "c2"; HParent "c3"] = Ok (Some ["D"; "C"; "D"; "C"]) /\
  spec_run_hops ex_chain "D" "c0" [HParent "c1"; HThis "c2"; HParent "c3"] = Some ["D"; "C"; "D"; "C"] /\
  hops_ok ex_chain true {| s_run := "D"; s_lexc := "D" |} [HParent "c1"; HThis "c2"; HParent "c3"] = true.
Proof. vm_compute. repeat split; reflexivity. Qed.
(* parent:: -> static:: keeps the runtime class; self:: -> static:: too (after fix ac7bb5f; before it the model's
   HSelf set x_static to the lexical class and this chain ended in A::s) *)
Example ex_chain_static :
  run_hops ex_chain false "D" "c0" [HParent "c1"; HParent "c1"; HStatic "s"] = Ok (Some ["D"; "C"; "B"; "C"]) /\
  run_hops ex_chain true "C" "s" [HSelf "s"; HStatic "s"] = Ok (Some ["C"; "C"; "C"]).
Proof. vm_compute. split; reflexivity. Qed.
