(* C08 — correspondence: evaluate model and spec on the probes the implementation answered. *)
From V.C08 Require Import Model Spec.

Inductive probe :=
| PInstanceof (n T : string)        (* $o instanceof T               walk 3 *)
| PInstanceofThis (n T : string)    (* $this instanceof T in a method walk 3 *)
| PParam (n T : string)             (* function p(T $x); p($o)       walk 1 *)
| PParamThis (n T : string)         (* p($this) inside a method      walk 2 *)
| PCatch (n T : string)             (* throw $o; catch (T $e)        walk 1 via ThrowValue *)
| PCall (r f : string)              (* $o->f()  : which class's definition ran *)
| PSelf (r f s : string)            (* $o->f() whose body is `return self::s();` *)
| PStatic (r f s : string)          (* ... `return static::s();` *)
| PParent (r f g : string)          (* ... `return parent::g();` *)
| PLike (n T : string)              (* $o like T *)
| PParentStatic (r f g s : string)  (* $o->f(): `return parent::g();`, g: `return static::s();` *)
| PParentSelf (r f g s : string)    (* ... g: `return self::s();` *)
| PParentParent (r f g h : string)  (* ... g: `return parent::h();` *)
| PLikeThis (n T : string)          (* $this like T inside a method *)
| PCatchUnion (n T1 T2 : string)    (* catch (T1 | T2 $e) *)
| PSEntrySelf (c f s : string)      (* C::f() from top level, f: `return self::s();` *)
| PSEntryStatic (c f s : string)    (* ... `return static::s();` *)
| PSEntryParent (c f g : string).   (* ... `return parent::g();` *)
Inductive ans := ABool (b : bool) | AName (o : option string) | AErr.

Definition probe_kind (p : probe) : nat :=
  match p with
  | PInstanceof _ _ => 1 | PInstanceofThis _ _ => 2 | PParam _ _ => 3 | PParamThis _ _ => 4 | PCatch _ _ => 5
  | PCall _ _ => 6 | PSelf _ _ _ => 7 | PStatic _ _ _ => 8 | PParent _ _ _ => 9 | PLike _ _ => 10
  | PParentStatic _ _ _ _ => 11 | PParentSelf _ _ _ _ => 12 | PParentParent _ _ _ _ => 13
  | PLikeThis _ _ => 14 | PCatchUnion _ _ _ => 15 | PSEntrySelf _ _ _ => 16 | PSEntryStatic _ _ _ => 17 | PSEntryParent _ _ _ => 18
  end%nat.

Definition of_bool (o : outcome bool) : ans := match o with Ok b => ABool b | _ => AErr end.
Definition of_name (o : outcome (option string)) : ans := match o with Ok x => AName x | _ => AErr end.

Definition model_ans (t : table) (p : probe) : ans :=
  match p with
  | PInstanceof n T | PInstanceofThis n T =>
      match get_class t n with Some c => of_bool (instanceof t n c T) | None => AErr end
  | PParam n T => match get_class t n with Some c => of_bool (class_is t T n c) | None => AErr end
  | PParamThis n T => match get_class t n with Some c => of_bool (this_is t T n c) | None => AErr end
  | PCatch n T => match get_class t n with Some c => of_bool (catch_matches t T n c) | None => AErr end
  | PCall r f => of_name (defining (object_method t r f))
  | PSelf r f s => of_name (via_self t r f s)
  | PStatic r f s => of_name (via_static t r f s)
  | PParent r f g => of_name (via_parent t r f g)
  | PLike n T => ABool (like t n T)
  | PParentStatic r f g s => of_name (via_parent_static t r f g s)
  | PParentSelf r f g s => of_name (via_parent_self t r f g s)
  | PParentParent r f g h => of_name (via_parent_parent t r f g h)
  | PLikeThis n T => ABool (like t n T)
  | PCatchUnion n T1 T2 => match get_class t n with Some c => of_bool (catch_union t T1 T2 n c) | None => AErr end
  | PSEntrySelf c f s => of_name (via_sentry_self t c f s)
  | PSEntryStatic c f s => of_name (via_sentry_static t c f s)
  | PSEntryParent c f g => of_name (via_sentry_parent t c f g)
  end.

Definition spec_ans (t : table) (p : probe) : ans :=
  match p with
  | PInstanceof n T | PInstanceofThis n T | PParam n T | PParamThis n T | PCatch n T => ABool (is_ab t n T)
  | PCall r f => AName (resolve t r f)
  | PSelf r f s => AName (match resolve t r f with Some d => resolve t d s | None => None end)
  | PStatic r f s => AName (match resolve t r f with Some _ => resolve t r s | None => None end)
  | PParent r f g => AName (match resolve t r f with Some d => resolve_parent t d g | None => None end)
  | PLike n T => ABool (like_spec t n T)
  | PParentStatic r f g s =>
      AName (match resolve t r f with
             | Some d => match resolve_parent t d g with Some _ => resolve t r s | None => None end
             | None => None end)
  | PParentSelf r f g s =>
      AName (match resolve t r f with
             | Some d => match resolve_parent t d g with Some e => resolve t e s | None => None end
             | None => None end)
  | PParentParent r f g h =>
      AName (match resolve t r f with
             | Some d => match resolve_parent t d g with Some e => resolve_parent t e h | None => None end
             | None => None end)
  | PLikeThis n T => ABool (like_spec t n T)
  | PCatchUnion n T1 T2 => ABool (is_ab t n T1 || is_ab t n T2)
  | PSEntrySelf c f s => AName (match resolve t c f with Some d => resolve t d s | None => None end)
  | PSEntryStatic c f s => AName (match resolve t c f with Some _ => resolve t c s | None => None end)
  | PSEntryParent c f g => AName (match resolve t c f with Some d => resolve_parent t d g | None => None end)
  end.

Definition ans_eqb (a b : ans) : bool :=
  match a, b with
  | ABool x, ABool y => Bool.eqb x y
  | AName None, AName None => true
  | AName (Some x), AName (Some y) => String.eqb x y
  | AErr, AErr => true
  | _, _ => false
  end.

(* case = table, probes, the implementation's answers (same length).
   result: [] = agree.  99 = the generated table is not well-formed (generator fault);
   kind*10+1 = model differs from the implementation on a probe of that kind (tie);
   kind*10+2 = spec differs (property);  1000+k = index of the first differing probe. *)
Definition case := (table * list probe * list ans)%type.
Fixpoint diffs (t : table) (k : nat) (ps : list probe) (seen : list ans) : list nat :=
  match ps, seen with
  | p :: ps', a :: seen' =>
      let dm := if ans_eqb (model_ans t p) a then [] else [(probe_kind p * 10 + 1)%nat] in
      let ds := if ans_eqb (spec_ans t p) a then [] else [(probe_kind p * 10 + 2)%nat] in
      match (dm ++ ds)%list with
      | [] => diffs t (S k) ps' seen'
      | l => (l ++ [(1000 + k)%nat])%list
      end
  | [], [] => []
  | _, _ => [98%nat]
  end.
Definition check_case (c : case) : list nat :=
  let '(t, ps, seen) := c in
  if wf t then diffs t 0 ps seen else [99%nat].

(* ---- declarations: a list of interface declarations in source order, and whether the interpreter
   accepted the script.  1 = model (declare_ifaces from the empty table) vs implementation;
   2 = oracle vs implementation: a list of declarations is acceptable exactly when the graph of ALL of
   them is acyclic *)
Definition dcase := (list (string * ifc) * bool)%type.
Definition check_dcase (c : dcase) : list nat :=
  let '(ds, accepted) := c in
  let m := match declare_ifaces {| classes := []; ifaces := [] |} ds with Some _ => true | None => false end in
  let all := {| classes := []; ifaces := ds |} in
  let o := forallb (fun e => iface_ends (iface_fuel all) all (fst e)) ds in
  (if Bool.eqb m accepted then [] else [1%nat]) ++ (if Bool.eqb o accepted then [] else [2%nat]).

(* ---- call chains: table, static entry?, class, entry method, hops, and the trace the implementation printed
   (the class whose definition ran at the entry and at every hop; None = the script threw).
   1 = model vs implementation (tie), 2 = spec vs implementation (property), 3 = the generated chain is outside the
   theorem's hypotheses (generator fault) *)
Definition hcase := (table * bool * string * string * list hop * option (list string))%type.
Fixpoint names_eqb (a b : list string) : bool :=
  match a, b with
  | [], [] => true
  | x :: a', y :: b' => String.eqb x y && names_eqb a' b'
  | _, _ => false
  end.
Definition trace_eqb (a b : option (list string)) : bool :=
  match a, b with
  | None, None => true
  | Some x, Some y => names_eqb x y
  | _, _ => false
  end.
Definition check_hcase (c : hcase) : list nat :=
  let '(t, se, r, f, hs, seen) := c in
  if negb (wf t) then [99%nat] else
  let ok := match resolve t r f with
            | Some d => hops_ok t (negb se) {| s_run := r; s_lexc := d |} hs && (negb se || static_name t f)
            | None => true end in
  let m := match run_hops t se r f hs with Ok x => x | _ => None end in   (* Throw = the script throws *)
  (if trace_eqb m seen then [] else [1%nat]) ++
  (if trace_eqb (spec_run_hops t r f hs) seen then [] else [2%nat]) ++
  (if ok then [] else [3%nat]).
