(* C08 — lemmas about the class-chain walks: each of the three subtype walks computes is_ab, and
   is_ab is the relation is_a. *)
From Coq Require Import Lia.
From V.C08 Require Import Model Spec ProofsIface.

Local Arguments iface_fuel : simpl never.
Local Arguments chain_fuel : simpl never.

(* ---- what well-formedness gives *)
Section WF.
Variable t : table.
Hypothesis Hcl : closed t = true.
Hypothesis Hac : acyclic t = true.

Lemma closed_parent n c p : get_class t n = Some c -> c_extends c = Some p -> exists pc, get_class t p = Some pc.
Proof.
  intros Hn Hp. unfold closed in Hcl. apply andb_true_iff in Hcl. destruct Hcl as [H1 _].
  rewrite forallb_forall in H1. specialize (H1 _ (lookup_In _ _ _ Hn)). simpl in H1.
  rewrite Hp in H1. apply andb_true_iff in H1. destruct H1 as [H1 _].
  unfold is_class in H1. destruct (get_class t p); [eauto|discriminate].
Qed.
Lemma closed_impls n c : get_class t n = Some c -> forallb (is_iface t) (c_impls c) = true.
Proof.
  intros Hn. unfold closed in Hcl. apply andb_true_iff in Hcl. destruct Hcl as [H1 _].
  rewrite forallb_forall in H1. specialize (H1 _ (lookup_In _ _ _ Hn)). simpl in H1.
  apply andb_true_iff in H1. tauto.
Qed.
Lemma closed_iext k j : get_iface t k = Some j -> forallb (is_iface t) (i_extends j) = true.
Proof.
  intros Hk. unfold closed in Hcl. apply andb_true_iff in Hcl. destruct Hcl as [_ H2].
  rewrite forallb_forall in H2. exact (H2 _ (lookup_In _ _ _ Hk)).
Qed.
Lemma acyclic_class n c : get_class t n = Some c -> chain_ends (chain_fuel t) t n = true.
Proof.
  intros Hn. unfold acyclic in Hac. apply andb_true_iff in Hac. destruct Hac as [H1 _].
  rewrite forallb_forall in H1. exact (H1 _ (lookup_In _ _ _ Hn)).
Qed.
Lemma acyclic_iface s : iface_ends (iface_fuel t) t s = true.
Proof.
  destruct (get_iface t s) as [i|] eqn:Hs.
  - unfold acyclic in Hac. apply andb_true_iff in Hac. destruct Hac as [_ H2].
    rewrite forallb_forall in H2. exact (H2 _ (lookup_In _ _ _ Hs)).
  - unfold iface_fuel. simpl. now rewrite Hs.
Qed.

(* ---- fuel bookkeeping on the extends chain *)
Lemma chain_ends_mono f : forall n, chain_ends f t n = true -> chain_ends (S f) t n = true.
Proof.
  induction f as [|f IH]; intros n H; [discriminate|].
  simpl in *. destruct (get_class t n) as [c|]; [|reflexivity].
  destruct (c_extends c) as [p|]; [|reflexivity]. now apply IH.
Qed.
Lemma chain_S f n : chain (S f) t n =
  match get_class t n with None => [] | Some c => n :: match c_extends c with None => [] | Some p => chain f t p end end.
Proof. reflexivity. Qed.
Lemma chain_ends_S f n : chain_ends (S f) t n =
  match get_class t n with None => true | Some c => match c_extends c with None => true | Some p => chain_ends f t p end end.
Proof. reflexivity. Qed.
Lemma chain_irrel f : forall n, chain_ends f t n = true -> chain (S f) t n = chain f t n.
Proof.
  induction f as [|f IH]; intros n H; [discriminate|].
  rewrite chain_ends_S in H. rewrite (chain_S (S f)), (chain_S f).
  destruct (get_class t n) as [c|]; [|reflexivity].
  destruct (c_extends c) as [p|]; [|reflexivity]. now rewrite (IH p H).
Qed.

(* ---- the three ways of testing the implemented interfaces *)
Definition impl_hit (tgt : string) (l : list string) : bool :=
  existsb (fun s => ireach_b (iface_fuel t) t s tgt) l.

Lemma ireach_b_refl f n : ireach_b f t n n = true.
Proof. destruct f; simpl; now rewrite String.eqb_refl. Qed.

Lemma impls_bfs_b tgt l : impls_bfs t tgt l = Ok (impl_hit tgt l).
Proof.
  induction l as [|s r IH]; [reflexivity|]. unfold impl_hit in *. cbn [impls_bfs existsb].
  destruct (String.eqb tgt s) eqn:E.
  - apply String.eqb_eq in E. subst. now rewrite ireach_b_refl.
  - rewrite (interface_extends_b t s tgt (acyclic_iface s)).
    destruct (ireach_b (iface_fuel t) t s tgt); [reflexivity|exact IH].
Qed.
Lemma impls_bfs_only_b tgt l : impls_bfs_only t tgt l = Ok (impl_hit tgt l).
Proof.
  induction l as [|s r IH]; [reflexivity|]. unfold impl_hit in *. cbn [impls_bfs_only existsb].
  rewrite (interface_extends_b t s tgt (acyclic_iface s)).
  destruct (ireach_b (iface_fuel t) t s tgt); [reflexivity|exact IH].
Qed.
Lemma mem_impl_hit tgt l : mem tgt l = true -> impl_hit tgt l = true.
Proof.
  intros H. apply mem_In in H. apply existsb_exists. exists tgt. split; [assumption|apply ireach_b_refl].
Qed.
Lemma ireach_b_unreg f s tgt : get_iface t s = None -> ireach_b f t s tgt = String.eqb s tgt.
Proof. intros H. destruct f; simpl; [apply orb_false_r|]. rewrite H. apply orb_false_r. Qed.
Lemma ireach_b_eq f s tgt : String.eqb s tgt = true -> ireach_b f t s tgt = true.
Proof. intros H. destruct f; simpl; now rewrite H. Qed.
Lemma impls_dfs_b tgt l : impls_dfs t tgt l = Ok (impl_hit tgt l).
Proof.
  induction l as [|s r IH]; [reflexivity|]. unfold impl_hit in *. cbn [impls_dfs existsb].
  destruct (String.eqb s tgt) eqn:E.
  - now rewrite (ireach_b_eq _ _ _ E).
  - destruct (get_iface t s) as [i|] eqn:Hs.
    + rewrite (check_iface_is_b t tgt (iface_fuel t) s i Hs (acyclic_iface s) closed_iext).
      destruct (ireach_b (iface_fuel t) t s tgt); [reflexivity|exact IH].
    + rewrite (ireach_b_unreg _ _ _ Hs), E. exact IH.
Qed.

Lemma at_class_eq tgt a c : get_class t a = Some c ->
  at_class t tgt a = String.eqb a tgt || impl_hit tgt (c_impls c).
Proof. intros H. unfold at_class. now rewrite H. Qed.

(* ---- extendISClass *)
Lemma extend_is_class_b tgt f : forall p, chain_ends f t p = true ->
  extend_is_class f t tgt (Some p) = Ok (existsb (at_class t tgt) (chain f t p)).
Proof.
  induction f as [|f IH]; intros p H; [discriminate|].
  simpl. simpl in H. destruct (get_class t p) as [c|] eqn:Hp; [|reflexivity].
  simpl. rewrite (at_class_eq tgt p c Hp), (String.eqb_sym tgt p).
  destruct (String.eqb p tgt); [reflexivity|]. simpl.
  rewrite impls_bfs_b. destruct (impl_hit tgt (c_impls c)); [reflexivity|]. simpl.
  destruct (c_extends c) as [p'|]; [now apply IH|]. destruct f; reflexivity.
Qed.
Lemma extend_is_class_opt tgt n c : get_class t n = Some c ->
  extend_is_class (chain_fuel t) t tgt (c_extends c) =
  Ok (existsb (at_class t tgt) (match c_extends c with None => [] | Some p => chain (List.length (classes t)) t p end)).
Proof.
  intros Hn. pose proof (acyclic_class n c Hn) as He. unfold chain_fuel in *. simpl in He. rewrite Hn in He.
  destruct (c_extends c) as [p|]; [|reflexivity].
  rewrite (extend_is_class_b tgt _ p (chain_ends_mono _ _ He)). now rewrite (chain_irrel _ _ He).
Qed.

Lemma is_ab_unfold n c tgt : get_class t n = Some c ->
  is_ab t n tgt = String.eqb n tgt || impl_hit tgt (c_impls c) ||
    existsb (at_class t tgt) (match c_extends c with None => [] | Some p => chain (List.length (classes t)) t p end).
Proof.
  intros Hn. unfold is_ab, chain_fuel. simpl. rewrite Hn. simpl. rewrite (at_class_eq tgt n c Hn).
  destruct (c_extends c); reflexivity.
Qed.

(* walk 1 *)
Lemma class_is_b tgt n c : get_class t n = Some c -> class_is t tgt n c = Ok (is_ab t n tgt).
Proof.
  intros Hn. unfold class_is. rewrite (is_ab_unfold n c tgt Hn), (String.eqb_sym tgt n).
  destruct (String.eqb n tgt); [reflexivity|]. simpl. rewrite impls_bfs_b.
  destruct (impl_hit tgt (c_impls c)); [reflexivity|]. simpl. exact (extend_is_class_opt tgt n c Hn).
Qed.
(* walk 2 *)
Lemma this_is_b tgt n c : get_class t n = Some c -> this_is t tgt n c = Ok (is_ab t n tgt).
Proof.
  intros Hn. unfold this_is. rewrite (is_ab_unfold n c tgt Hn), (String.eqb_sym tgt n).
  destruct (String.eqb n tgt); [reflexivity|]. simpl.
  destruct (mem tgt (c_impls c)) eqn:Hm; [now rewrite (mem_impl_hit _ _ Hm)|].
  rewrite impls_bfs_only_b.
  destruct (impl_hit tgt (c_impls c)); [reflexivity|]. simpl. exact (extend_is_class_opt tgt n c Hn).
Qed.

(* walk 3 *)
Lemma check_class_is_b tgt f : forall n c, get_class t n = Some c -> chain_ends (S f) t n = true ->
  check_class_is f t n c tgt = Ok (existsb (at_class t tgt) (chain (S f) t n)).
Proof.
  induction f as [|f IH]; intros n c Hn He.
  - simpl in He. rewrite Hn in He. destruct (c_extends c) as [p|] eqn:Hp; [discriminate|].
    simpl. rewrite Hn, Hp. simpl. rewrite (at_class_eq tgt n c Hn).
    destruct (String.eqb n tgt); [reflexivity|]. simpl. rewrite impls_dfs_b.
    destruct (impl_hit tgt (c_impls c)); reflexivity.
  - change (chain (S (S f)) t n) with
      (match get_class t n with None => [] | Some c => n :: match c_extends c with None => [] | Some p => chain (S f) t p end end).
    rewrite Hn. cbn [existsb]. rewrite (at_class_eq tgt n c Hn).
    change (check_class_is (S f) t n c tgt) with
      (if String.eqb n tgt then Ok true
       else match impls_dfs t tgt (c_impls c) with
            | Ok false =>
                match c_extends c with
                | None => Ok false
                | Some e =>
                    match impls_dfs t tgt (c_impls c) with
                    | Ok false =>
                        if String.eqb e tgt then Ok true
                        else match get_class t e with
                             | None => Throw
                             | Some next => check_class_is f t e next tgt
                             end
                    | o => o
                    end
                end
            | o => o
            end).
    destruct (String.eqb n tgt); [reflexivity|]. simpl. rewrite impls_dfs_b.
    destruct (impl_hit tgt (c_impls c)); [reflexivity|]. simpl.
    destruct (c_extends c) as [e|] eqn:Hp; [|reflexivity].
    destruct (closed_parent n c e Hn Hp) as [next Hnext]. rewrite Hnext.
    assert (He' : chain_ends (S f) t e = true).
    { change (chain_ends (S (S f)) t n) with
        (match get_class t n with None => true | Some c => match c_extends c with None => true | Some p => chain_ends (S f) t p end end) in He.
      now rewrite Hn, Hp in He. }
    rewrite (IH e next Hnext He'), (chain_S f e), Hnext.
    destruct (String.eqb e tgt) eqn:E; [|reflexivity].
    cbn [existsb]. rewrite (at_class_eq tgt e next Hnext), E. reflexivity.
Qed.

Lemma ireach_b_registered f : forall s tgt, ireach_b f t s tgt = true -> s = tgt \/ is_iface t tgt = true.
Proof.
  induction f as [|f IH]; intros s tgt H; simpl in H.
  - rewrite orb_false_r in H. left. now apply String.eqb_eq.
  - apply orb_true_iff in H. destruct H as [H|H]; [left; now apply String.eqb_eq|].
    destruct (get_iface t s) as [i|] eqn:Hs; [|discriminate].
    apply existsb_exists in H. destruct H as [p [Hp Hr]].
    destruct (IH _ _ Hr) as [E|E]; [|now right].
    subst p. right. pose proof (closed_iext s i Hs) as Hreg. rewrite forallb_forall in Hreg. auto.
Qed.

Lemma chain_registered f : forall n a, In a (chain f t n) -> is_class t a = true.
Proof.
  induction f as [|f IH]; intros n a H; [destruct H|].
  simpl in H. destruct (get_class t n) as [c|] eqn:Hn; [|destruct H].
  destruct H as [H|H]; [subst; unfold is_class; now rewrite Hn|].
  destruct (c_extends c); [eauto|destruct H].
Qed.

Lemma is_ab_registered n tgt : is_ab t n tgt = true -> is_class t tgt = true \/ is_iface t tgt = true.
Proof.
  unfold is_ab. intros H. apply existsb_exists in H. destruct H as [a [Ha H]].
  pose proof (chain_registered _ _ _ Ha) as Hreg.
  unfold at_class in H. apply orb_true_iff in H. destruct H as [H|H].
  - apply String.eqb_eq in H. subst. now left.
  - destruct (get_class t a) as [c|] eqn:Hc; [|discriminate].
    apply existsb_exists in H. destruct H as [s [Hs Hr]].
    destruct (ireach_b_registered _ _ _ Hr) as [E|E]; [|now right].
    subst. right. pose proof (closed_impls a c Hc) as Hi. rewrite forallb_forall in Hi. auto.
Qed.

Lemma instanceof_b n c tgt : get_class t n = Some c -> instanceof t n c tgt = Ok (is_ab t n tgt).
Proof.
  intros Hn. unfold instanceof.
  assert (Hw : check_class_is (chain_fuel t) t n c tgt = Ok (is_ab t n tgt)).
  { pose proof (acyclic_class n c Hn) as He.
    rewrite (check_class_is_b tgt (chain_fuel t) n c Hn (chain_ends_mono _ _ He)).
    unfold is_ab. now rewrite (chain_irrel _ _ He). }
  destruct (get_class t tgt) eqn:Hc; [exact Hw|].
  destruct (get_iface t tgt) eqn:Hi; [exact Hw|].
  destruct (is_ab t n tgt) eqn:Hab; [|reflexivity].
  destruct (is_ab_registered n tgt Hab) as [H|H]; [unfold is_class in H; now rewrite Hc in H|unfold is_iface in H; now rewrite Hi in H].
Qed.

(* ---- is_ab is the relation is_a *)
Lemma chain_ancestor f : forall n a, In a (chain f t n) -> ancestor t n a.
Proof.
  induction f as [|f IH]; intros n a H; [destruct H|].
  simpl in H. destruct (get_class t n) as [c|] eqn:Hn; [|destruct H].
  destruct H as [H|H]; [subst; constructor|].
  destruct (c_extends c) as [p|] eqn:Hp; [|destruct H]. eapply anc_step; eauto.
Qed.
Lemma ancestor_chain n a : ancestor t n a -> forall c f, get_class t n = Some c -> chain_ends f t n = true -> In a (chain f t n).
Proof.
  induction 1 as [n|n c0 p a Hn Hp Ha IH]; intros c f Hc He.
  - destruct f; [discriminate|]. simpl. rewrite Hc. now left.
  - destruct f; [discriminate|]. simpl. simpl in He. rewrite Hn in *. inversion Hc. subst c0.
    rewrite Hp in *. right. destruct (closed_parent n c p Hn Hp) as [pc Hpc]. eapply IH; eauto.
Qed.

Lemma is_ab_is_a_l n c tgt : get_class t n = Some c -> (is_ab t n tgt = true <-> is_a t n tgt).
Proof.
  intros Hn. unfold is_ab, is_a. split.
  - intros H. apply existsb_exists in H. destruct H as [a [Ha H]].
    exists a. split; [eapply chain_ancestor; eauto|].
    unfold at_class in H. apply orb_true_iff in H. destruct H as [H|H].
    + left. now apply String.eqb_eq.
    + right. destruct (get_class t a) as [ca|] eqn:Hca; [|discriminate].
      apply existsb_exists in H. destruct H as [s [Hs Hr]].
      exists ca, s. repeat split; auto. eapply ireach_b_sound; eauto.
  - intros [a [Ha H]]. apply existsb_exists. exists a.
    split; [eapply ancestor_chain; eauto using acyclic_class|].
    unfold at_class. apply orb_true_iff. destruct H as [H|[ca [s [Hca [Hs Hr]]]]].
    + left. subst. apply String.eqb_refl.
    + right. rewrite Hca. apply existsb_exists. exists s. split; [assumption|].
      apply ireach_b_complete; [apply acyclic_iface|assumption].
Qed.
End WF.
