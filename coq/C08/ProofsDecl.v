(* C08 — the interface graph stays acyclic under accepted declarations (uses the BFS lemmas). *)
From Coq Require Import Lia.
From V.C08 Require Import Model Spec ProofsIface.

(* a cycle: an extends edge x -> z followed by a path back to x *)
Definition iface_cycle (t : table) (x : string) : Prop :=
  exists i z, get_iface t x = Some i /\ In z (i_extends i) /\ ireach t z x.
Definition no_iface_cycle (t : table) : Prop := forall x, ~ iface_cycle t x.

Lemma ireach_trans t a b c : ireach t a b -> ireach t b c -> ireach t a c.
Proof. induction 1; intros; [assumption|]. eapply ir_step; eauto. Qed.

Lemma lookup_app_new {A} k n (a : A) l : lookup n l = None ->
  lookup k (l ++ [(n, a)]) = if String.eqb k n then Some a else lookup k l.
Proof.
  intros Hn. induction l as [|[k' a'] r IH]; simpl in *.
  - destruct (String.eqb k n); reflexivity.
  - destruct (String.eqb n k') eqn:E; [discriminate|].
    destruct (String.eqb k k') eqn:E2.
    + destruct (String.eqb k n) eqn:E3; [|reflexivity].
      apply String.eqb_eq in E2, E3. subst. rewrite String.eqb_refl in E. discriminate.
    + exact (IH Hn).
Qed.

Section Add.
Variables (t : table) (n : string) (i : ifc).
Hypothesis Hnew : get_iface t n = None.
Hypothesis Hsafe : forall e, In e (i_extends i) -> ~ ireach t e n.
Let t' := {| classes := classes t; ifaces := (ifaces t ++ [(n, i)])%list |}.

Lemma get_iface_add x : get_iface t' x = if String.eqb x n then Some i else get_iface t x.
Proof. unfold get_iface, t'. simpl. now apply lookup_app_new. Qed.

(* every path of the extended table is an old path, or an old path to n followed by an old path
   from one of n's parents: it can pass through n at most once *)
Lemma ireach_add x y : ireach t' x y ->
  ireach t x y \/ (ireach t x n /\ exists e, In e (i_extends i) /\ ireach t e y).
Proof.
  induction 1 as [x|x j p y Hj Hp Hr IH].
  - left. constructor.
  - rewrite get_iface_add in Hj. destruct (String.eqb x n) eqn:E.
    + apply String.eqb_eq in E. subst x. inversion Hj. subst j.
      destruct IH as [IH|[IH _]].
      * right. split; [constructor|]. eauto.
      * exfalso. exact (Hsafe p Hp IH).
    + destruct IH as [IH|[IH1 IH2]].
      * left. eapply ir_step; eauto.
      * right. split; [eapply ir_step; eauto|assumption].
Qed.

Lemma add_keeps_acyclic : no_iface_cycle t -> no_iface_cycle t'.
Proof.
  intros Hno x (j & z & Hj & Hz & Hr). rewrite get_iface_add in Hj.
  destruct (String.eqb x n) eqn:E.
  - apply String.eqb_eq in E. subst x. inversion Hj. subst j.
    destruct (ireach_add z n Hr) as [H|[H _]]; exact (Hsafe z Hz H).
  - destruct (ireach_add z x Hr) as [H|[H1 (e & He & H2)]].
    + apply (Hno x). exists j, z. auto.
    + apply (Hsafe e He). eapply ireach_trans; [exact H2|]. eapply ir_step; eauto.
Qed.
End Add.

Lemma declare_iface_acyclic t n i t' : declare_iface t n i = Some t' -> no_iface_cycle t -> no_iface_cycle t'.
Proof.
  unfold declare_iface. intros H Hno.
  destruct (bfs (bfs_fuel t i) t n [] (i_extends i)) as [[|]| |] eqn:Hb; try discriminate.
  destruct (get_iface t n) eqn:Hn; inversion H; subst; [assumption|].
  apply add_keeps_acyclic; auto.
  intros e He. apply (bfs_false _ _ _ _ _ Hb); auto. intros v [].
Qed.

Lemma declare_ifaces_acyclic ds : forall t t', declare_ifaces t ds = Some t' -> no_iface_cycle t -> no_iface_cycle t'.
Proof.
  induction ds as [|[n i] r IH]; intros t t' H Hno; simpl in H; [inversion H; subst; assumption|].
  destruct (declare_iface t n i) as [t1|] eqn:Hd; [|discriminate].
  eapply IH; eauto. eapply declare_iface_acyclic; eauto.
Qed.

Lemma empty_no_cycle cs : no_iface_cycle {| classes := cs; ifaces := [] |}.
Proof. intros x (j & z & Hj & _). discriminate. Qed.

(* the declaration that closes a cycle is refused *)
Lemma declare_refuses_cycle t n i e : In e (i_extends i) -> ireach t e n -> declare_iface t n i = None.
Proof.
  intros He Hr. unfold declare_iface.
  destruct (bfs_fuel_enough t n (bfs_fuel t i) [] (i_extends i)) as [b Hb].
  { unfold bfs_fuel, total_edges. rewrite ue_nil. lia. }
  rewrite Hb. destruct b; [reflexivity|].
  exfalso. apply (bfs_false _ _ _ _ _ Hb) with (x := e); auto. intros v [].
Qed.
