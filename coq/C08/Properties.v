(* C08 — the property, clause by clause.  Only statements; every proof is `exact lemma`.
   The subtype theorems are for EVERY class table that is closed and acyclic; the dispatch theorems also
   need `kinds_ok` (a method name is static everywhere or nowhere; Spec.wf = closed && acyclic && kinds_ok):
   tables in which a subclass redeclares a static name as an instance method are outside them. *)
From V.C08 Require Import Model Spec ProofsIface ProofsClass ProofsDispatch ProofsHops ProofsDecl PropLemmas.

(* "T is the object's class, one of its ancestors, or an interface reachable through
   implements/extends edges": the three separate subtype walks all decide exactly that relation *)
Theorem class_is_reach : forall t n c T, closed t = true -> acyclic t = true -> get_class t n = Some c ->
  exists b, class_is t T n c = Ok b /\ (b = true <-> is_a t n T).            (* T-typed parameter; catch via ThrowValue *)
Proof. exact class_is_reach_l. Qed.
Print Assumptions class_is_reach.

Theorem this_is_reach : forall t n c T, closed t = true -> acyclic t = true -> get_class t n = Some c ->
  exists b, this_is t T n c = Ok b /\ (b = true <-> is_a t n T).             (* the same for a $this value *)
Proof. exact this_is_reach_l. Qed.
Print Assumptions this_is_reach.

Theorem check_class_is_reach : forall t n c T, closed t = true -> acyclic t = true -> get_class t n = Some c ->
  exists b, instanceof t n c T = Ok b /\ (b = true <-> is_a t n T).          (* $o instanceof T *)
Proof. exact instanceof_reach_l. Qed.
Print Assumptions check_class_is_reach.

Theorem catch_reach : forall t n c T, closed t = true -> acyclic t = true -> get_class t n = Some c -> T <> "Throwable" ->
  exists b, catch_matches t T n c = Ok b /\ (b = true <-> is_a t n T).       (* catch (T $e) *)
Proof. exact catch_reach_l. Qed.
Print Assumptions catch_reach.
(* catch (Throwable) additionally matches everything that is an Exception or an Error *)
Theorem catch_throwable : forall t n c, closed t = true -> acyclic t = true -> get_class t n = Some c ->
  exists b, catch_matches t "Throwable" n c = Ok b /\
            (b = true <-> is_a t n "Throwable" \/ is_a t n "Exception" \/ is_a t n "Error").
Proof. exact catch_throwable_l. Qed.
Print Assumptions catch_throwable.

(* catch (T1 | T2 $e) *)
Theorem catch_union_reach : forall t n c T1 T2, closed t = true -> acyclic t = true -> get_class t n = Some c ->
  exists b, catch_union t T1 T2 n c = Ok b /\ (b = true <-> is_a t n T1 \/ is_a t n T2).
Proof. exact catch_union_l. Qed.
Print Assumptions catch_union_reach.

(* the BFS of interfaceExtends never runs out of its fuel and decides interface reachability on
   EVERY table — cyclic interface graphs included, no hypothesis *)
Theorem bfs_fuel_suffices : forall t s T,
  exists b, interface_extends t s T = Ok b /\ (b = true <-> ireach t s T).
Proof. exact interface_extends_ok. Qed.
Print Assumptions bfs_fuel_suffices.

(* the computed relation used as the oracle in the correspondence check is the inductive one *)
Theorem is_ab_is_a : forall t n c T, closed t = true -> acyclic t = true -> get_class t n = Some c ->
  (is_ab t n T = true <-> is_a t n T).
Proof. exact is_ab_is_a_w. Qed.
Print Assumptions is_ab_is_a.

(* "A method call runs the most-derived definition for the object's runtime class" *)
Theorem lookup_most_derived : forall t n c m, wf t = true -> get_class t n = Some c ->
  defining (object_method t n m) = Ok (resolve t n m).
Proof. exact lookup_most_derived_l. Qed.
Print Assumptions lookup_most_derived.
(* resolve, spelled out: d is on the ancestor chain, declares m, and nothing before it does *)
Theorem resolve_first_declaring : forall t n m d, resolve t n m = Some d ->
  exists before after, chain (chain_fuel t) t n = (before ++ d :: after)%list /\
                       declares t m d = true /\ forall a, In a before -> declares t m a = false.
Proof. exact resolve_first_declaring_l. Qed.
Print Assumptions resolve_first_declaring.

(* "parent:: runs the nearest ancestor's definition": inside the body of the f found for an object
   of runtime class r (defining class d with parent p), parent::g() runs the most-derived
   definition of g starting at p — whatever r is *)
Theorem parent_nearest_ancestor : forall t r c f g d p, wf t = true -> get_class t r = Some c ->
  resolve t r f = Some d -> parent_of t d = Some p ->
  via_parent t r f g = Ok (resolve t p g).
Proof. exact parent_nearest_ancestor_l. Qed.
Print Assumptions parent_nearest_ancestor.

(* "self:: binds to the defining class and static:: to the runtime class" (s a static method name) *)
Theorem self_binds_defining_class : forall t r c f s, wf t = true -> get_class t r = Some c ->
  static_name t s = true ->
  via_self t r f s = Ok (match resolve t r f with Some d => resolve t d s | None => None end).
Proof. exact self_binds_l. Qed.
Print Assumptions self_binds_defining_class.
Theorem static_binds_runtime_class : forall t r c f s, wf t = true -> get_class t r = Some c ->
  static_name t s = true ->
  via_static t r f s = Ok (match resolve t r f with Some _ => resolve t r s | None => None end).
Proof. exact static_binds_l. Qed.
Print Assumptions static_binds_runtime_class.

(* the same bindings one call deeper: the body found for $o->f() calls parent::g(), and the body of
   that g calls static::s() (still the RUNTIME class r), self::s() (the class g was found in) or
   parent::h() (the parent of the class g was found in) *)
Theorem static_survives_parent_call : forall t r c f g s d p, wf t = true -> get_class t r = Some c ->
  static_name t s = true -> resolve t r f = Some d -> parent_of t d = Some p ->
  via_parent_static t r f g s = Ok (match resolve t p g with Some _ => resolve t r s | None => None end).
Proof. exact parent_then_static_l. Qed.
Print Assumptions static_survives_parent_call.
Theorem self_after_parent_call : forall t r c f g s d p, wf t = true -> get_class t r = Some c ->
  static_name t s = true -> resolve t r f = Some d -> parent_of t d = Some p ->
  via_parent_self t r f g s = Ok (match resolve t p g with Some e => resolve t e s | None => None end).
Proof. exact parent_then_self_l. Qed.
Print Assumptions self_after_parent_call.
Theorem parent_after_parent_call : forall t r c f g h d p e p', wf t = true -> get_class t r = Some c ->
  resolve t r f = Some d -> parent_of t d = Some p -> resolve t p g = Some e -> parent_of t e = Some p' ->
  via_parent_parent t r f g h = Ok (resolve t p' h).
Proof. exact parent_then_parent_l. Qed.
Print Assumptions parent_after_parent_call.

(* static entry points: C::f() called from outside any class, f found in d.  Inside that body self::s() resolves
   from d, static::s() from the NAMED class C (late static binding), parent::g() from the parent of d *)
Theorem static_entry_self : forall t c cc f s, closed t = true -> acyclic t = true -> get_class t c = Some cc ->
  static_name t f = true -> static_name t s = true ->
  via_sentry_self t c f s = Ok (match resolve t c f with Some d => resolve t d s | None => None end).
Proof. exact sentry_self_l. Qed.
Theorem static_entry_static : forall t c cc f s, closed t = true -> acyclic t = true -> get_class t c = Some cc ->
  static_name t f = true -> static_name t s = true ->
  via_sentry_static t c f s = Ok (match resolve t c f with Some _ => resolve t c s | None => None end).
Proof. exact sentry_static_l. Qed.
Theorem static_entry_parent : forall t c cc f g d p, closed t = true -> acyclic t = true -> get_class t c = Some cc ->
  static_name t f = true -> resolve t c f = Some d -> parent_of t d = Some p ->
  via_sentry_parent t c f g = Ok (resolve t p g).
Proof. exact sentry_parent_l. Qed.
Print Assumptions static_entry_self.
Print Assumptions static_entry_static.
Print Assumptions static_entry_parent.

(* the same bindings at ANY depth and in any order: a chain `$o->f()` (or `r::f()` from outside) whose bodies go on
   with `$this->m()`, `self::s()`, `static::s()`, `parent::m()` hop after hop runs, at every hop, the definition the
   reference semantics names — `$this->` and `static::` resolve from the class the chain started on (the runtime
   class), `self::` from the class the running body is written in, `parent::` from that class's parent.
   hops_ok: `$this->` only while an object is at hand, `parent::` only in a class that has a parent, self:: / static::
   on static method names.  (Proof: the per-hop context transformer hop_step keeps the relation R of ProofsHops.v;
   the chain is the fold.  The three one-level-deeper theorems above are instances.) *)
Theorem call_chain_follows_hierarchy : forall t se r c f hs, wf t = true -> get_class t r = Some c ->
  (se = true -> static_name t f = true) ->
  (forall d, resolve t r f = Some d -> hops_ok t (negb se) {| s_run := r; s_lexc := d |} hs = true) ->
  run_hops t se r f hs = Ok (spec_run_hops t r f hs).
Proof. exact call_chain_l. Qed.
Print Assumptions call_chain_follows_hierarchy.

(* "$o like T holds exactly when the object provides, itself or by inheritance, every method T
   declares with the same number of parameters" (after fix d3e2cea) *)
Theorem like_structural : forall t n c T, wf t = true -> get_class t n = Some c ->
  like t n T = like_spec t n T.
Proof. exact like_structural_l. Qed.
Print Assumptions like_structural.

(* the hypothesis `acyclic` for interfaces is enforced where interfaces are declared (after fix
   4b3f319; before it `interface P extends Q {} interface Q extends P {}` was accepted and instanceof
   then overflowed the Go stack): the declaration that would close an extends cycle is refused, so
   every table built by accepted declarations from a cycle-free one is cycle-free — whatever the
   order of declarations, forward references included *)
Theorem cyclic_declaration_refused : forall t n i e,
  In e (i_extends i) -> ireach t e n -> declare_iface t n i = None.
Proof. exact declare_refuses_cycle. Qed.
Print Assumptions cyclic_declaration_refused.
Theorem declared_interfaces_stay_acyclic : forall ds t t',
  declare_ifaces t ds = Some t' -> no_iface_cycle t -> no_iface_cycle t'.
Proof. exact declare_ifaces_acyclic. Qed.
Print Assumptions declared_interfaces_stay_acyclic.
