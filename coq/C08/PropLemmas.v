(* C08 — the lemmas of the three proof files assembled under the single hypothesis wf t. *)
From V.C08 Require Import Model Spec ProofsIface ProofsClass ProofsDispatch ProofsHops.

Lemma wf_parts t : wf t = true -> closed t = true /\ acyclic t = true /\ kinds_ok t = true.
Proof. unfold wf. intros H. apply andb_true_iff in H. destruct H as [H H3]. apply andb_true_iff in H. tauto. Qed.

Lemma is_ab_is_a_w t n c T : closed t = true -> acyclic t = true -> get_class t n = Some c -> (is_ab t n T = true <-> is_a t n T).
Proof. intros H1 H2 Hn. exact (is_ab_is_a_l t H1 H2 n c T Hn). Qed.

Lemma walk_reach t n c T (w : outcome bool) : closed t = true -> acyclic t = true -> get_class t n = Some c ->
  w = Ok (is_ab t n T) -> exists b, w = Ok b /\ (b = true <-> is_a t n T).
Proof. intros H1 H2 Hn E. exists (is_ab t n T). split; [assumption|]. exact (is_ab_is_a_w t n c T H1 H2 Hn). Qed.

Lemma class_is_reach_l t n c T : closed t = true -> acyclic t = true -> get_class t n = Some c ->
  exists b, class_is t T n c = Ok b /\ (b = true <-> is_a t n T).
Proof. intros H1 H2 Hn. apply (walk_reach t n c T _ H1 H2 Hn). exact (class_is_b t H2 T n c Hn). Qed.
Lemma this_is_reach_l t n c T : closed t = true -> acyclic t = true -> get_class t n = Some c ->
  exists b, this_is t T n c = Ok b /\ (b = true <-> is_a t n T).
Proof. intros H1 H2 Hn. apply (walk_reach t n c T _ H1 H2 Hn). exact (this_is_b t H2 T n c Hn). Qed.
Lemma instanceof_reach_l t n c T : closed t = true -> acyclic t = true -> get_class t n = Some c ->
  exists b, instanceof t n c T = Ok b /\ (b = true <-> is_a t n T).
Proof. intros H1 H2 Hn. apply (walk_reach t n c T _ H1 H2 Hn). exact (instanceof_b t H1 H2 n c T Hn). Qed.

Lemma catch_reach_l t n c T : closed t = true -> acyclic t = true -> get_class t n = Some c -> T <> "Throwable" ->
  exists b, catch_matches t T n c = Ok b /\ (b = true <-> is_a t n T).
Proof.
  intros H1 H2 Hn HT. apply (walk_reach t n c T _ H1 H2 Hn).
  unfold catch_matches. rewrite (class_is_b t H2 T n c Hn).
  apply String.eqb_neq in HT. rewrite HT. destruct (is_ab t n T); reflexivity.
Qed.
Lemma catch_throwable_l t n c : closed t = true -> acyclic t = true -> get_class t n = Some c ->
  exists b, catch_matches t "Throwable" n c = Ok b /\
            (b = true <-> is_a t n "Throwable" \/ is_a t n "Exception" \/ is_a t n "Error").
Proof.
  intros H1 H2 Hn.
  exists (is_ab t n "Throwable" || (is_ab t n "Exception" || is_ab t n "Error")). split.
  - unfold catch_matches. rewrite !(class_is_b t H2 _ n c Hn). simpl.
    destruct (is_ab t n "Throwable"); [reflexivity|]. simpl. destruct (is_ab t n "Exception"); reflexivity.
  - rewrite !orb_true_iff, !(is_ab_is_a_w t n c _ H1 H2 Hn). tauto.
Qed.
Lemma catch_union_l t n c T1 T2 : closed t = true -> acyclic t = true -> get_class t n = Some c ->
  exists b, catch_union t T1 T2 n c = Ok b /\ (b = true <-> is_a t n T1 \/ is_a t n T2).
Proof.
  intros H1 H2 Hn. exists (is_ab t n T1 || is_ab t n T2). split.
  - unfold catch_union. rewrite !(class_is_b t H2 _ n c Hn). destruct (is_ab t n T1); reflexivity.
  - rewrite orb_true_iff, !(is_ab_is_a_w t n c _ H1 H2 Hn). tauto.
Qed.

Lemma lookup_most_derived_l t n c m : wf t = true -> get_class t n = Some c ->
  defining (object_method t n m) = Ok (resolve t n m).
Proof. intros W Hn. destruct (wf_parts t W) as (H1 & H2 & H3). exact (object_method_resolve t H1 H2 H3 n c m Hn). Qed.

Lemma find_split {A} (f : A -> bool) l d : find f l = Some d ->
  exists before after, l = (before ++ d :: after)%list /\ f d = true /\ forall a, In a before -> f a = false.
Proof.
  induction l as [|x r IH]; simpl; [discriminate|]. destruct (f x) eqn:E; intros H.
  - inversion H. subst. exists [], r. repeat split; auto. intros a [].
  - destruct (IH H) as (b & a & H1 & H2 & H3). exists (x :: b), a. subst r. repeat split; auto.
    intros y [Hy|Hy]; [now subst|auto].
Qed.
Lemma resolve_first_declaring_l t n m d : resolve t n m = Some d ->
  exists before after, chain (chain_fuel t) t n = (before ++ d :: after)%list /\
                       declares t m d = true /\ forall a, In a before -> declares t m a = false.
Proof. unfold resolve. apply find_split. Qed.

Lemma parent_nearest_ancestor_l t r c f g d p : wf t = true -> get_class t r = Some c ->
  resolve t r f = Some d -> parent_of t d = Some p -> via_parent t r f g = Ok (resolve t p g).
Proof. intros W Hr. destruct (wf_parts t W) as (H1 & H2 & H3). exact (via_parent_l t H1 H2 H3 r c f g d p Hr). Qed.
Lemma self_binds_l t r c f s : wf t = true -> get_class t r = Some c -> static_name t s = true ->
  via_self t r f s = Ok (match resolve t r f with Some d => resolve t d s | None => None end).
Proof. intros W Hr. destruct (wf_parts t W) as (H1 & H2 & H3). exact (via_self_l t H1 H2 H3 r c f s Hr). Qed.
Lemma static_binds_l t r c f s : wf t = true -> get_class t r = Some c -> static_name t s = true ->
  via_static t r f s = Ok (match resolve t r f with Some _ => resolve t r s | None => None end).
Proof. intros W Hr. destruct (wf_parts t W) as (H1 & H2 & H3). exact (via_static_l t H1 H2 H3 r c f s Hr). Qed.
Lemma like_structural_l t n c T : wf t = true -> get_class t n = Some c -> like t n T = like_spec t n T.
Proof. intros W Hn. destruct (wf_parts t W) as (H1 & H2 & H3). exact (like_l t H1 H2 H3 n c T Hn). Qed.

Lemma parent_then_static_l t r c f g s d p : wf t = true -> get_class t r = Some c -> static_name t s = true ->
  resolve t r f = Some d -> parent_of t d = Some p ->
  via_parent_static t r f g s = Ok (match resolve t p g with Some _ => resolve t r s | None => None end).
Proof. intros W Hr. destruct (wf_parts t W) as (H1 & H2 & H3). exact (via_parent_static_l t H1 H2 H3 r c f g s d p Hr). Qed.
Lemma parent_then_self_l t r c f g s d p : wf t = true -> get_class t r = Some c -> static_name t s = true ->
  resolve t r f = Some d -> parent_of t d = Some p ->
  via_parent_self t r f g s = Ok (match resolve t p g with Some e => resolve t e s | None => None end).
Proof. intros W Hr. destruct (wf_parts t W) as (H1 & H2 & H3). exact (via_parent_self_l t H1 H2 H3 r c f g s d p Hr). Qed.
Lemma parent_then_parent_l t r c f g h d p e p' : wf t = true -> get_class t r = Some c ->
  resolve t r f = Some d -> parent_of t d = Some p -> resolve t p g = Some e -> parent_of t e = Some p' ->
  via_parent_parent t r f g h = Ok (resolve t p' h).
Proof. intros W Hr. destruct (wf_parts t W) as (H1 & H2 & H3). exact (via_parent_parent_l t H1 H2 H3 r c f g h d p e p' Hr). Qed.

Lemma sentry_self_l t c cc f s : closed t = true -> acyclic t = true -> get_class t c = Some cc -> static_name t f = true -> static_name t s = true ->
  via_sentry_self t c f s = Ok (match resolve t c f with Some d => resolve t d s | None => None end).
Proof. intros H1 H2 Hc. exact (via_sentry_self_l t H1 H2 c cc f s Hc). Qed.
Lemma sentry_static_l t c cc f s : closed t = true -> acyclic t = true -> get_class t c = Some cc -> static_name t f = true -> static_name t s = true ->
  via_sentry_static t c f s = Ok (match resolve t c f with Some _ => resolve t c s | None => None end).
Proof. intros H1 H2 Hc. exact (via_sentry_static_l t H1 H2 c cc f s Hc). Qed.
Lemma sentry_parent_l t c cc f g d p : closed t = true -> acyclic t = true -> get_class t c = Some cc -> static_name t f = true ->
  resolve t c f = Some d -> parent_of t d = Some p -> via_sentry_parent t c f g = Ok (resolve t p g).
Proof. intros H1 H2 Hc. exact (via_sentry_parent_l t H1 H2 c cc f g d p Hc). Qed.

Lemma call_chain_l t se r c f hs : wf t = true -> get_class t r = Some c ->
  (se = true -> static_name t f = true) ->
  (forall d, resolve t r f = Some d -> hops_ok t (negb se) {| s_run := r; s_lexc := d |} hs = true) ->
  run_hops t se r f hs = Ok (spec_run_hops t r f hs).
Proof.
  intros W Hr Hse Hok. destruct (wf_parts t W) as (H1 & H2 & H3).
  apply (run_hops_l t H1 H2 H3 se r c f hs Hr Hse).
  destruct (resolve t r f) as [d|]; [now apply Hok|exact I].
Qed.
