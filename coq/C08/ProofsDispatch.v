(* C08 — lemmas about method lookup: every lookup walk returns the first class of the ancestor
   chain that declares the method. *)
From Coq Require Import Lia.
From V.C08 Require Import Model Spec ProofsIface ProofsClass.

Local Arguments chain_fuel : simpl never.

Definition has_kind (t : table) (k : bool) (m a : string) : bool :=
  match get_class t a with
  | Some c => match find_meth k m (c_methods c) with Some _ => true | None => false end
  | None => false
  end.
Definition meth_at (t : table) (k : bool) (m a : string) : option meth :=
  match get_class t a with Some c => find_meth k m (c_methods c) | None => None end.
Definition first_named (t : table) (m d : string) : option meth :=
  match get_class t d with Some c => find (fun x => String.eqb (m_name x) m) (c_methods c) | None => None end.

Lemma find_ext {A} (f g : A -> bool) l : (forall x, In x l -> f x = g x) -> find f l = find g l.
Proof.
  induction l as [|x r IH]; intros H; [reflexivity|]. simpl.
  rewrite (H x (or_introl eq_refl)). destruct (g x); [reflexivity|]. apply IH. intros y Hy. apply H. now right.
Qed.

Lemma find_meth_some k m l x : find_meth k m l = Some x -> In x l /\ m_name x = m /\ m_static x = k.
Proof.
  unfold find_meth. intros H. apply find_some in H. destruct H as [Hin H].
  apply andb_true_iff in H. destruct H as [H1 H2]. apply String.eqb_eq in H1. apply Bool.eqb_prop in H2. auto.
Qed.

Lemma declares_split t m a : declares t m a = has_kind t false m a || has_kind t true m a.
Proof.
  unfold declares, has_kind. destruct (get_class t a) as [c|]; [|reflexivity].
  unfold find_meth. induction (c_methods c) as [|x r IH]; [reflexivity|]. simpl.
  destruct (String.eqb (m_name x) m); simpl; [|exact IH].
  destruct (m_static x); simpl; [|reflexivity].
  now rewrite orb_true_r.
Qed.

Section WF.
Variable t : table.
Hypothesis Hcl : closed t = true.
Hypothesis Hac : acyclic t = true.

Lemma chain_find_spec k m f : forall n c, get_class t n = Some c -> chain_ends f t n = true ->
  chain_find f t k m n =
  Ok (match find (has_kind t k m) (chain f t n) with
      | None => None
      | Some d => option_map (pair d) (meth_at t k m d)
      end).
Proof.
  induction f as [|f IH]; intros n c Hn He; [discriminate|].
  rewrite (chain_S t f n), Hn. rewrite (chain_ends_S t f n), Hn in He.
  cbn [chain_find find]. rewrite Hn. unfold has_kind at 1. rewrite Hn.
  destruct (find_meth k m (c_methods c)) as [x|] eqn:Hf.
  - unfold meth_at. now rewrite Hn, Hf.
  - destruct (c_extends c) as [p|] eqn:Hp; [|reflexivity].
    destruct (closed_parent t Hcl n c p Hn Hp) as [pc Hpc]. eapply IH; eauto.
Qed.

Definition has_any (m a : string) : bool := has_kind t false m a || has_kind t true m a.
Definition meth_any (m a : string) : option meth :=
  match meth_at t false m a with Some x => Some x | None => meth_at t true m a end.

Lemma chain_find_any_spec m f : forall n c, get_class t n = Some c -> chain_ends f t n = true ->
  chain_find_any f t m n =
  Ok (match find (has_any m) (chain f t n) with
      | None => None
      | Some d => option_map (pair d) (meth_any m d)
      end).
Proof.
  induction f as [|f IH]; intros n c Hn He; [discriminate|].
  rewrite (chain_S t f n), Hn. rewrite (chain_ends_S t f n), Hn in He.
  cbn [chain_find_any find]. rewrite Hn. unfold has_any at 1, has_kind. rewrite Hn.
  destruct (find_meth false m (c_methods c)) as [x|] eqn:Hf.
  - simpl. unfold meth_any, meth_at. now rewrite Hn, Hf.
  - destruct (find_meth true m (c_methods c)) as [y|] eqn:Hg.
    + simpl. unfold meth_any, meth_at. now rewrite Hn, Hf, Hg.
    + simpl. destruct (c_extends c) as [p|] eqn:Hp; [|reflexivity].
      destruct (closed_parent t Hcl n c p Hn Hp) as [pc Hpc]. eapply IH; eauto.
Qed.

Lemma resolve_any m n : resolve t n m = find (has_any m) (chain (chain_fuel t) t n).
Proof. unfold resolve. apply find_ext. intros a _. apply declares_split. Qed.

(* ---- static / instance consistency *)
Hypothesis Hk : kinds_ok t = true.

Lemma in_all_meths a c x : get_class t a = Some c -> In x (c_methods c) -> In x (all_meths t).
Proof.
  intros Ha Hx. unfold all_meths. apply in_flat_map. exists (a, c). split; [now apply lookup_In|assumption].
Qed.
Lemma kinds_same x y : In x (all_meths t) -> In y (all_meths t) -> m_name x = m_name y -> m_static x = m_static y.
Proof.
  intros Hx Hy E. unfold kinds_ok in Hk. rewrite forallb_forall in Hk. specialize (Hk x Hx).
  rewrite forallb_forall in Hk. specialize (Hk y Hy). rewrite E, String.eqb_refl in Hk. simpl in Hk.
  now apply Bool.eqb_prop.
Qed.

Lemma has_kind_excl m a b : has_kind t false m a = true -> has_kind t true m b = true -> False.
Proof.
  unfold has_kind. intros Ha Hb.
  destruct (get_class t a) as [ca|] eqn:Hca; [|discriminate].
  destruct (get_class t b) as [cb|] eqn:Hcb; [|discriminate].
  destruct (find_meth false m (c_methods ca)) as [x|] eqn:Hx; [|discriminate].
  destruct (find_meth true m (c_methods cb)) as [y|] eqn:Hy; [|discriminate].
  apply find_meth_some in Hx, Hy. destruct Hx as (Hx1 & Hx2 & Hx3). destruct Hy as (Hy1 & Hy2 & Hy3).
  assert (m_static x = m_static y) by (eapply kinds_same; eauto using in_all_meths; congruence).
  congruence.
Qed.

(* within one class, the first method of that name is the one the kind-specific search finds *)
Lemma meth_at_first k m d x : meth_at t k m d = Some x -> first_named t m d = Some x.
Proof.
  unfold meth_at, first_named. destruct (get_class t d) as [c|] eqn:Hd; [|discriminate].
  intros H. rewrite <- H. unfold find_meth. symmetry. apply find_ext. intros y Hy.
  destruct (String.eqb (m_name y) m) eqn:E; [|reflexivity]. simpl.
  apply find_meth_some in H. destruct H as (H1 & H2 & H3). apply String.eqb_eq in E.
  rewrite <- H3. rewrite (kinds_same y x); eauto using in_all_meths; [apply Bool.eqb_reflx|congruence].
Qed.

Lemma object_method_full n c m : get_class t n = Some c ->
  object_method t n m =
  Ok (match resolve t n m with None => None | Some d => option_map (pair d) (first_named t m d) end).
Proof.
  intros Hn. pose proof (acyclic_class t Hac n c Hn) as He.
  unfold object_method. rewrite !(chain_find_spec _ _ _ n c Hn He). rewrite resolve_any.
  set (ch := chain (chain_fuel t) t n).
  destruct (find (has_kind t false m) ch) as [d|] eqn:H1.
  - pose proof (find_some _ _ H1) as [Hd1 Hd2].
    assert (Hx : exists x, meth_at t false m d = Some x).
    { unfold has_kind in Hd2. unfold meth_at. destruct (get_class t d); [|discriminate].
      destruct (find_meth false m (c_methods c0)); [eauto|discriminate]. }
    destruct Hx as [x Hx]. rewrite Hx. simpl.
    replace (find (has_any m) ch) with (Some d).
    + now rewrite (meth_at_first _ _ _ _ Hx).
    + rewrite <- H1. apply find_ext. intros a _. unfold has_any.
      destruct (has_kind t true m a) eqn:Ht; [|symmetry; apply orb_false_r].
      exfalso. eapply has_kind_excl; eauto.
  - simpl.
    replace (find (has_any m) ch) with (find (has_kind t true m) ch).
    + destruct (find (has_kind t true m) ch) as [d|] eqn:H2; [|reflexivity].
      pose proof (find_some _ _ H2) as [Hd1 Hd2].
      assert (Hy : exists y, meth_at t true m d = Some y).
      { unfold has_kind in Hd2. unfold meth_at. destruct (get_class t d); [|discriminate].
        destruct (find_meth true m (c_methods c0)); [eauto|discriminate]. }
      destruct Hy as [y Hy]. rewrite Hy. simpl. now rewrite (meth_at_first _ _ _ _ Hy).
    + apply find_ext. intros a Ha. unfold has_any.
      now rewrite (find_none _ _ H1 a Ha).
Qed.

Lemma first_named_some m n d : resolve t n m = Some d -> exists x, first_named t m d = Some x.
Proof.
  unfold resolve. intros H. apply find_some in H. destruct H as [_ H].
  unfold declares in H. unfold first_named. destruct (get_class t d) as [c|]; [|discriminate].
  apply existsb_exists in H. destruct H as [x [Hx E]].
  destruct (find (fun x0 => String.eqb (m_name x0) m) (c_methods c)) eqn:F; [eauto|].
  rewrite (find_none _ _ F x Hx) in E. discriminate.
Qed.

Lemma object_method_resolve n c m : get_class t n = Some c ->
  defining (object_method t n m) = Ok (resolve t n m).
Proof.
  intros Hn. rewrite (object_method_full n c m Hn).
  destruct (resolve t n m) as [d|] eqn:Hr; [|reflexivity].
  destruct (first_named_some m n d Hr) as [x Hx]. now rewrite Hx.
Qed.

(* ---- static names *)
Lemma static_declares s a : static_name t s = true -> declares t s a = has_kind t true s a.
Proof.
  intros Hs. rewrite declares_split. destruct (has_kind t false s a) eqn:H; [|reflexivity].
  exfalso. unfold has_kind in H. destruct (get_class t a) as [c|] eqn:Ha; [|discriminate].
  destruct (find_meth false s (c_methods c)) as [x|] eqn:Hx; [|discriminate].
  apply find_meth_some in Hx. destruct Hx as (H1 & H2 & H3).
  unfold static_name in Hs. rewrite forallb_forall in Hs. specialize (Hs x (in_all_meths a c x Ha H1)).
  rewrite H2, String.eqb_refl, H3 in Hs. discriminate.
Qed.

Lemma static_from_resolve s n c : static_name t s = true -> get_class t n = Some c ->
  defining (chain_find (chain_fuel t) t true s n) = Ok (resolve t n s).
Proof.
  intros Hs Hn. rewrite (chain_find_spec true s _ n c Hn (acyclic_class t Hac n c Hn)).
  unfold resolve. rewrite (find_ext (declares t s) (has_kind t true s)); [|intros; now apply static_declares].
  destruct (find (has_kind t true s) (chain (chain_fuel t) t n)) as [d|] eqn:H; [|reflexivity].
  apply find_some in H. destruct H as [_ H]. unfold has_kind in H. unfold meth_at.
  destruct (get_class t d); [|discriminate]. destruct (find_meth true s (c_methods c0)); [reflexivity|discriminate].
Qed.

Lemma resolve_registered n m d : resolve t n m = Some d -> exists cd, get_class t d = Some cd.
Proof.
  unfold resolve. intros H. apply find_some in H. destruct H as [H _].
  apply (chain_registered t) in H. unfold is_class in H. destruct (get_class t d); [eauto|discriminate].
Qed.

Lemma via_self_l r c f s : get_class t r = Some c -> static_name t s = true ->
  via_self t r f s = Ok (match resolve t r f with Some d => resolve t d s | None => None end).
Proof.
  intros Hr Hs. unfold via_self. rewrite (object_method_full r c f Hr).
  destruct (resolve t r f) as [d|] eqn:Hd; [|reflexivity].
  destruct (first_named_some f r d Hd) as [x Hx]. rewrite Hx. simpl.
  destruct (resolve_registered r f d Hd) as [cd Hcd].
  unfold static_call. exact (static_from_resolve s d cd Hs Hcd).
Qed.

Lemma via_static_l r c f s : get_class t r = Some c -> static_name t s = true ->
  via_static t r f s = Ok (match resolve t r f with Some _ => resolve t r s | None => None end).
Proof.
  intros Hr Hs. unfold via_static. rewrite (object_method_full r c f Hr).
  destruct (resolve t r f) as [d|] eqn:Hd; [|reflexivity].
  destruct (first_named_some f r d Hd) as [x Hx]. rewrite Hx. simpl.
  unfold static_keyword_call. exact (static_from_resolve s r c Hs Hr).
Qed.

Lemma parent_method_l d cd p r g : get_class t d = Some cd -> c_extends cd = Some p ->
  defining (parent_method t None d r g) = Ok (resolve t p g).
Proof.
  intros Hd Hp. unfold parent_method. rewrite Hd, Hp, Hd, Hp.
  destruct (closed_parent t Hcl d cd p Hd Hp) as [pc Hpc].
  rewrite (chain_find_any_spec g _ p pc Hpc (acyclic_class t Hac p pc Hpc)), <- resolve_any.
  destruct (resolve t p g) as [a|] eqn:Ha; [|reflexivity].
  rewrite resolve_any in Ha. apply find_some in Ha. destruct Ha as [_ Ha].
  unfold has_any, has_kind in Ha. unfold meth_any, meth_at.
  destruct (get_class t a) as [ca|]; [|discriminate].
  destruct (find_meth false g (c_methods ca)); [reflexivity|].
  destruct (find_meth true g (c_methods ca)); [reflexivity|discriminate].
Qed.

Lemma via_parent_l r c f g d p : get_class t r = Some c -> resolve t r f = Some d -> parent_of t d = Some p ->
  via_parent t r f g = Ok (resolve t p g).
Proof.
  intros Hr Hd Hp. unfold via_parent. rewrite (object_method_full r c f Hr), Hd.
  destruct (first_named_some f r d Hd) as [x Hx]. rewrite Hx. simpl.
  unfold parent_of in Hp. destruct (get_class t d) as [cd|] eqn:Hcd; [|discriminate].
  exact (parent_method_l d cd p r g Hcd Hp).
Qed.

(* ---- one level deeper *)
Lemma defining_inv o x : defining o = Ok x ->
  match x with Some e => exists y, o = Ok (Some (e, y)) | None => o = Ok None end.
Proof. destruct o as [[[e y]|]| |]; simpl; intros H; inversion H; subst; eauto. Qed.

Lemma parent_method_self e ce p lex r g : get_class t e = Some ce -> c_extends ce = Some p ->
  defining (parent_method t (Some e) lex r g) = Ok (resolve t p g).
Proof.
  intros Hd Hp. unfold parent_method. rewrite Hd, Hp.
  destruct (closed_parent t Hcl e ce p Hd Hp) as [pc Hpc].
  rewrite (chain_find_any_spec g _ p pc Hpc (acyclic_class t Hac p pc Hpc)), <- resolve_any.
  destruct (resolve t p g) as [a|] eqn:Ha; [|reflexivity].
  rewrite resolve_any in Ha. apply find_some in Ha. destruct Ha as [_ Ha].
  unfold has_any, has_kind in Ha. unfold meth_any, meth_at.
  destruct (get_class t a) as [ca|]; [|discriminate].
  destruct (find_meth false g (c_methods ca)); [reflexivity|].
  destruct (find_meth true g (c_methods ca)); [reflexivity|discriminate].
Qed.

Lemma via_parent_prefix {A} r c f g d p (k : string -> outcome (option A)) :
  get_class t r = Some c -> resolve t r f = Some d -> parent_of t d = Some p ->
  bind2 (object_method t r f) (fun d => bind2 (parent_method t None d r g) k) =
  match resolve t p g with Some e => k e | None => Ok None end.
Proof.
  intros Hr Hd Hp. rewrite (object_method_full r c f Hr), Hd.
  destruct (first_named_some f r d Hd) as [x Hx]. rewrite Hx. simpl.
  unfold parent_of in Hp. destruct (get_class t d) as [cd|] eqn:Hcd; [|discriminate].
  pose proof (parent_method_l d cd p r g Hcd Hp) as H. apply defining_inv in H.
  destruct (resolve t p g) as [e|]; [destruct H as [y H]|]; rewrite H; reflexivity.
Qed.

Lemma via_parent_static_l r c f g s d p : get_class t r = Some c -> static_name t s = true ->
  resolve t r f = Some d -> parent_of t d = Some p ->
  via_parent_static t r f g s = Ok (match resolve t p g with Some _ => resolve t r s | None => None end).
Proof.
  intros Hr Hs Hd Hp. unfold via_parent_static. rewrite (via_parent_prefix r c f g d p _ Hr Hd Hp).
  destruct (resolve t p g); [|reflexivity]. unfold static_keyword_call. exact (static_from_resolve s r c Hs Hr).
Qed.
Lemma via_parent_self_l r c f g s d p : get_class t r = Some c -> static_name t s = true ->
  resolve t r f = Some d -> parent_of t d = Some p ->
  via_parent_self t r f g s = Ok (match resolve t p g with Some e => resolve t e s | None => None end).
Proof.
  intros Hr Hs Hd Hp. unfold via_parent_self. rewrite (via_parent_prefix r c f g d p _ Hr Hd Hp).
  destruct (resolve t p g) as [e|] eqn:He; [|reflexivity].
  destruct (resolve_registered p g e He) as [ce Hce]. unfold static_call. exact (static_from_resolve s e ce Hs Hce).
Qed.
Lemma via_parent_parent_l r c f g h d p e p' : get_class t r = Some c ->
  resolve t r f = Some d -> parent_of t d = Some p -> resolve t p g = Some e -> parent_of t e = Some p' ->
  via_parent_parent t r f g h = Ok (resolve t p' h).
Proof.
  intros Hr Hd Hp He Hp'. unfold via_parent_parent. rewrite (via_parent_prefix r c f g d p _ Hr Hd Hp), He.
  unfold parent_of in Hp'. destruct (get_class t e) as [ce|] eqn:Hce; [|discriminate].
  exact (parent_method_self e ce p' e r h Hce Hp').
Qed.

(* ---- static entry points *)
Lemma static_call_found c cc f : static_name t f = true -> get_class t c = Some cc ->
  match resolve t c f with
  | Some d => exists y, static_call t c f = Ok (Some (d, y))
  | None => static_call t c f = Ok None
  end.
Proof.
  intros Hs Hc. pose proof (static_from_resolve f c cc Hs Hc) as H. unfold static_call.
  apply defining_inv in H. exact H.
Qed.

Lemma via_sentry_self_l c cc f s : get_class t c = Some cc -> static_name t f = true -> static_name t s = true ->
  via_sentry_self t c f s = Ok (match resolve t c f with Some d => resolve t d s | None => None end).
Proof.
  intros Hc Hf Hs. unfold via_sentry_self. pose proof (static_call_found c cc f Hf Hc) as H.
  destruct (resolve t c f) as [d|] eqn:Hd; [destruct H as [y H]|]; rewrite H; [|reflexivity]. simpl.
  destruct (resolve_registered c f d Hd) as [cd Hcd]. unfold static_call. exact (static_from_resolve s d cd Hs Hcd).
Qed.
Lemma via_sentry_static_l c cc f s : get_class t c = Some cc -> static_name t f = true -> static_name t s = true ->
  via_sentry_static t c f s = Ok (match resolve t c f with Some _ => resolve t c s | None => None end).
Proof.
  intros Hc Hf Hs. unfold via_sentry_static. pose proof (static_call_found c cc f Hf Hc) as H.
  destruct (resolve t c f) as [d|] eqn:Hd; [destruct H as [y H]|]; rewrite H; [|reflexivity]. simpl.
  unfold static_keyword_call. exact (static_from_resolve s c cc Hs Hc).
Qed.
Lemma via_sentry_parent_l c cc f g d p : get_class t c = Some cc -> static_name t f = true ->
  resolve t c f = Some d -> parent_of t d = Some p ->
  via_sentry_parent t c f g = Ok (resolve t p g).
Proof.
  intros Hc Hf Hd Hp. unfold via_sentry_parent. pose proof (static_call_found c cc f Hf Hc) as H.
  rewrite Hd in H. destruct H as [y H]. rewrite H. simpl.
  unfold parent_of in Hp. destruct (get_class t d) as [cd|] eqn:Hcd; [|discriminate].
  exact (parent_method_l d cd p d g Hcd Hp).
Qed.

(* ---- like *)
Lemma forallb_filter {A} (f g : A -> bool) l :
  forallb f (filter g l) = forallb (fun x => if g x then f x else true) l.
Proof. induction l as [|x r IH]; [reflexivity|]. simpl. destruct (g x); simpl; now rewrite IH. Qed.

Lemma forallb_ext' {A} (f g : A -> bool) l : (forall x, f x = g x) -> forallb f l = forallb g l.
Proof. intros H. induction l as [|x r IH]; [reflexivity|]. simpl. now rewrite H, IH. Qed.

Lemma like_methods_l n c ms : get_class t n = Some c ->
  like_methods t n ms = forallb (fun tm => provides t n (m_name tm) (m_arity tm)) (filter (fun x => negb (m_static x)) ms).
Proof.
  intros Hn. rewrite forallb_filter. unfold like_methods. apply forallb_ext'. intros tm.
  destruct (m_static tm); [reflexivity|]. simpl.
  rewrite (object_method_full n c (m_name tm) Hn). unfold provides.
  destruct (resolve t n (m_name tm)) as [d|]; [|reflexivity].
  unfold arity_in, first_named. destruct (get_class t d) as [cd|]; [|reflexivity].
  destruct (find (fun x => String.eqb (m_name x) (m_name tm)) (c_methods cd)); reflexivity.
Qed.

Lemma like_l n c tgt : get_class t n = Some c -> like t n tgt = like_spec t n tgt.
Proof.
  intros Hn. unfold like, like_spec, declared_methods.
  destruct (get_class t tgt) as [tc|]; [apply (like_methods_l n c _ Hn)|].
  destruct (get_iface t tgt) as [ti|]; [apply (like_methods_l n c _ Hn)|reflexivity].
Qed.
End WF.
