(* C20 — non-vacuity of the hypotheses, concrete runs, and the behaviour of the code before the
   fixes (what the mutation tests re-introduce). *)
From Coq Require Import List String ZArith Bool Arith Permutation.
From V.C20 Require Import Model Spec Abs ProofsOM ProofsSites Run.
Import ListNotations.
Open Scope string_scope.

(* ---- OrderedMap: a history with overwrite, delete, re-insert ---- *)
Definition ex_ops : list op :=
  [OSet "b" 1; OSet "a" 2; OSet "c" 3; OSet "a" 4; ODelete "b"; OSet "b" 5; ORange None; OIdx 0; OGet "a"; OLen].
Example ex_om_run :
  snd (om_run ex_ops om_new) =
  [RUnit; RUnit; RUnit; RUnit; RUnit; RUnit;
   RList [("a", 4%Z); ("c", 3%Z); ("b", 5%Z)]; RIdx (Some ("a", 4%Z)); RVal (Some 4%Z); RLen 3].
Proof. vm_compute. reflexivity. Qed.
Example ex_insertion_order : insertion_order (map to_sop ex_ops) [] = ["a"; "c"; "b"].
Proof. vm_compute. reflexivity. Qed.

(* ---- case-insensitive lookup ---- *)
Example ex_no_collision : no_casefold_collision ["Foo"; "Bar"; "baz"].
Proof.
  intros a b Ha Hb. simpl in Ha, Hb.
  destruct Ha as [<-|[<-|[<-|[]]]], Hb as [<-|[<-|[<-|[]]]]; vm_compute; intros; congruence.
Qed.
Example ex_find_fold : find_ci ["Foo"; "Bar"; "baz"] "BAZ" = Some "baz".
Proof. vm_compute. reflexivity. Qed.
(* with a collision the fixed lookup still answers the same for both orders ... *)
Example ex_find_collision :
  find_ci ["Foo"; "FOO"] "foo" = Some "FOO" /\ find_ci ["FOO"; "Foo"] "foo" = Some "FOO".
Proof. vm_compute. split; reflexivity. Qed.
(* ... whereas the loop before the fix depended on the iteration order (run on the pinned code:
   `class Foo{} class FOO{} new foo` picked either class) *)
Example pre_fix_lookup_order_dependent :
  exists keys o1 o2 name, Permutation keys o1 /\ Permutation keys o2 /\ NoDup keys /\
                          find_ci_first o1 name <> find_ci_first o2 name.
Proof.
  exists ["Foo"; "FOO"], ["Foo"; "FOO"], ["FOO"; "Foo"], "foo".
  split; [apply Permutation_refl|]. split; [apply perm_swap|]. split.
  - constructor; [simpl; intros [H|[]]; discriminate|]. constructor; [simpl; tauto | constructor].
  - vm_compute. discriminate.
Qed.

(* ---- `new C` ---- *)
Definition ex_class : clevel :=
  {| c_index := ["x"; "y"; "z"; "w"];
     c_props := [("w", Some 4%Z); ("z", None); ("y", Some 2%Z); ("x", Some 1%Z)] |}.
Definition ex_parent : clevel :=
  {| c_index := ["p"; "y"; "q"]; c_props := [("p", Some 7%Z); ("y", Some 9%Z); ("q", Some 8%Z)] |}.
Example ex_class_nodup : NoDup (c_index ex_class).
Proof. repeat (constructor; [simpl; intuition discriminate|]). constructor. Qed.
Example ex_instantiate : om_range None (instantiate ex_class []) = [("x", 1%Z); ("y", 2%Z); ("w", 4%Z)].
Proof. vm_compute. reflexivity. Qed.
Example ex_instantiate_inherit :
  map fst (om_range None (instantiate ex_class [ex_parent])) = ["x"; "y"; "w"; "p"; "q"].
Proof. vm_compute. reflexivity. Qed.
(* the loop before the fix enumerated in Go map order *)
Example pre_fix_instantiate_order_dependent :
  map fst (om_range None (init_own_maporder ["x"; "y"; "w"] ex_class om_new)) <>
  map fst (om_range None (init_own_maporder ["w"; "x"; "y"] ex_class om_new)).
Proof. vm_compute. discriminate. Qed.

(* ---- member lists ---- *)
Example ex_methods : get_methods ["b"; "a"; "c"] true = ["a"; "b"; "c"; "__construct"]
                  /\ get_methods ["c"; "__construct"; "a"] true = ["__construct"; "a"; "c"].
Proof. vm_compute. split; reflexivity. Qed.
Example pre_fix_member_list_order_dependent :
  member_names_maporder ["b"; "a"] <> member_names_maporder ["a"; "b"].
Proof. vm_compute. discriminate. Qed.

(* ---- collect / sort / use ---- *)
Definition ex_print (acc : string) (k : string) : string := (acc ++ " " ++ k)%string.
Example ex_sorted_range : sorted_range (fun _ => true) ex_print "<div" ["id"; "class"; "title"] = "<div class id title".
Proof. vm_compute. reflexivity. Qed.
(* the same body run straight over the map depends on the order (what the sites did before their fixes) *)
Example ex_unsorted_range_order_dependent :
  unsorted_range (fun _ => true) ex_print "<div" ["id"; "class"] <> unsorted_range (fun _ => true) ex_print "<div" ["class"; "id"].
Proof. vm_compute. discriminate. Qed.
(* a filter: only the abstract ones among the static methods *)
Example ex_sorted_range_filter :
  sorted_range (fun k => negb (String.eqb k "make")) (fun acc k => (acc ++ [k])%list) [] ["zeta"; "make"; "alpha"] = ["alpha"; "zeta"].
Proof. vm_compute. reflexivity. Qed.
Example ex_preferred_then_sorted :
  preferred_then_sorted ["x"; "nope"; "w"; "x"] ["w"; "b"; "x"; "a"] = ["x"; "w"; "a"; "b"].
Proof. vm_compute. reflexivity. Qed.
(* hypotheses of preferred_then_sorted_permutation / _prefix are satisfiable *)
Example ex_preferred_hyps : NoDup ["w"; "b"; "x"; "a"] /\ NoDup ["x"; "w"] /\ (forall k, In k ["x"; "w"] -> In k ["w"; "b"; "x"; "a"]).
Proof.
  split; [|split].
  - repeat (constructor; [simpl; intuition discriminate|]). constructor.
  - repeat (constructor; [simpl; intuition discriminate|]). constructor.
  - simpl. intuition.
Qed.
Definition ex_is_for (k : string) : bool := String.eqb k "for".
Example ex_pick_last : pick_last ex_is_for ["class"; "for"; "id"] = Some "for" /\ pick_last ex_is_for ["id"; "class"] = None.
Proof. vm_compute. split; reflexivity. Qed.
(* the uniqueness hypothesis of unique_pick_oracle_independent holds for the attribute names of an element *)
Example ex_pick_unique : forall a b, In a ["class"; "for"; "id"] -> In b ["class"; "for"; "id"] -> ex_is_for a = true -> ex_is_for b = true -> a = b.
Proof. intros a b _ _ Ha Hb. apply String.eqb_eq in Ha. apply String.eqb_eq in Hb. congruence. Qed.
(* and fails for if + else-if on one element *)
Definition ex_is_if (k : string) : bool := String.eqb k "if" || String.eqb k "else-if".
Example ex_pick_two : pick_last ex_is_if ["if"; "else-if"] = Some "else-if" /\ pick_last ex_is_if ["else-if"; "if"] = Some "if".
Proof. vm_compute. split; reflexivity. Qed.

(* ---- process-level state ---- *)
Definition ex_table : list (string * scope) :=
  [("ini:precision", ProcSticky); ("userOutputEmitted", ProcReset); ("class:K", PerVM)].
Definition ex_A : script := [AWrite "ini:precision" 3; AWrite "class:K" 1; AWrite "userOutputEmitted" 1].
Definition ex_B : script := [ARead "class:K"; ARead "userOutputEmitted"; AWrite "ini:precision" 5; ARead "class:K"].
(* A writes a sticky cell, B does not read it: the hypothesis of no_leak holds non-trivially *)
Example ex_no_leak_hyp : may_leak (table_scope ex_table) ex_A ex_B = false.
Proof. vm_compute. reflexivity. Qed.
Example ex_no_leak : out_after (table_scope ex_table) ex_A ex_B = [0%Z; 0%Z; 0%Z].
Proof. vm_compute. reflexivity. Qed.
(* the refutation instance: ini_set on one VM is seen by the next *)
Example ex_sticky_leaks :
  out_after (table_scope ex_table) [AWrite "ini:precision" 3] [ARead "ini:precision"] = [3%Z] /\
  out_alone (table_scope ex_table) [ARead "ini:precision"] = [0%Z].
Proof. vm_compute. split; reflexivity. Qed.

(* ---- the checkers accept a faithful observation and reject a wrong one ---- *)
Example ex_check_om_ok :
  check_om (ex_ops, snd (om_run ex_ops om_new)) = [].
Proof. vm_compute. reflexivity. Qed.
Example ex_check_om_bad :
  check_om ([OSet "a" 1; OSet "b" 2; ORange None], [RUnit; RUnit; RList [("b", 2%Z); ("a", 1%Z)]]) = [1%nat; 2%nat].
Proof. vm_compute. reflexivity. Qed.
Example ex_check_find_bad : check_find (["Foo"; "FOO"], "foo", [Some "Foo"; Some "FOO"]) = [1%nat; 3%nat].
Proof. vm_compute. reflexivity. Qed.
Example ex_check_sorted_ok : check_sorted (["kd"; "ka"; "kc"], [], ["ka"; "kc"; "kd"]) = [].
Proof. vm_compute. reflexivity. Qed.
Example ex_check_sorted_bad : check_sorted (["kd"; "ka"; "kc"], [], ["kd"; "ka"; "kc"]) = [1%nat].
Proof. vm_compute. reflexivity. Qed.
Example ex_check_sorted_preferred : check_sorted (["kd"; "ka"; "kc"], ["kd"; "ka"; "kc"], ["kd"; "ka"; "kc"]) = [].
Proof. vm_compute. reflexivity. Qed.
