(* C20 — the property, stated without the model's state variables.

   (1) "object properties and array entries are always enumerated in insertion order":
       the reference store is an association list kept in insertion order.  Setting a key that is
       present replaces its value *in place*; setting a new key appends; deleting removes the
       entry and keeps the order of the rest; enumeration is the list itself, front to back.
   (2) "the same program always produces byte-identical output": a lookup / listing that ranges
       over a Go map must not depend on the order the map happens to be iterated in:
       `oracle_independent f` — for every two iteration orders of the same key set the result is
       the same.
   (3) "a program run on a freshly created VM behaves the same whether or not other programs
       were run earlier in the same process on other VMs": B's observations after A equal B's
       observations alone. *)
From Coq Require Import List String ZArith Bool Arith Permutation.
Import ListNotations.
Open Scope string_scope.

(* ------------------------------------------------------------------ (1) insertion-ordered store *)
Definition alist := list (string * Z).

Definition a_mem (k : string) (l : alist) : bool := existsb (fun kv => String.eqb (fst kv) k) l.

Definition a_set (k : string) (v : Z) (l : alist) : alist :=
  if a_mem k l then map (fun kv => if String.eqb (fst kv) k then (k, v) else kv) l
  else (l ++ [(k, v)])%list.

Definition a_get (k : string) (l : alist) : option Z :=
  option_map snd (find (fun kv => String.eqb (fst kv) k) l).

Definition a_delete (k : string) (l : alist) : alist :=
  filter (fun kv => negb (String.eqb (fst kv) k)) l.

(* enumeration with a consumer that stops after accepting n more items *)
Definition a_range (lim : option nat) (l : alist) : alist :=
  match lim with None => l | Some n => firstn (S n) l end.

Definition a_index (i : Z) (l : alist) : option (string * Z) :=
  if (i <? 0)%Z then None else nth_error l (Z.to_nat i).

Inductive sop :=
| SSet (k : string) (v : Z) | SGet (k : string) | SDelete (k : string)
| SRange (lim : option nat) | SLen | SIdx (i : Z).
Inductive sres :=
| SUnit | SVal (o : option Z) | SList (l : alist) | SLenR (n : nat) | SIdxR (o : option (string * Z)).

Definition a_step (o : sop) (l : alist) : alist * sres :=
  match o with
  | SSet k v => (a_set k v l, SUnit)
  | SGet k => (l, SVal (a_get k l))
  | SDelete k => (a_delete k l, SUnit)
  | SRange lim => (l, SList (a_range lim l))
  | SLen => (l, SLenR (List.length l))
  | SIdx i => (l, SIdxR (a_index i l))
  end.

Fixpoint a_run (ops : list sop) (l : alist) : alist * list sres :=
  match ops with
  | [] => (l, [])
  | o :: r => let (l1, x) := a_step o l in
              let (l2, xs) := a_run r l1 in (l2, x :: xs)
  end.

(* "insertion order", said once more without the list operations: the keys of the store after a
   history are the keys in order of their first insertion since they were last absent *)
Fixpoint insertion_order (hist : list sop) (keys : list string) : list string :=
  match hist with
  | [] => keys
  | SSet k _ :: r =>
      insertion_order r (if existsb (String.eqb k) keys then keys else (keys ++ [k])%list)
  | SDelete k :: r => insertion_order r (filter (fun x => negb (String.eqb x k)) keys)
  | _ :: r => insertion_order r keys
  end.

(* ------------------------------------------------------------------ (2) order independence *)
Definition oracle_independent {A} (keys : list string) (f : list string -> A) : Prop :=
  forall o1 o2, Permutation keys o1 -> Permutation keys o2 -> f o1 = f o2.

(* first-occurrence de-duplication: the enumeration order of a store filled by a sequence of
   Sets *)
Fixpoint first_occurrences (seen l : list string) : list string :=
  match l with
  | [] => []
  | k :: r => if existsb (String.eqb k) seen then first_occurrences seen r
              else k :: first_occurrences (k :: seen) r
  end.

(* ------------------------------------------------------------------ (3) nothing left behind *)
(* stated on observation functions: out_after a b = out_alone b (see Properties.v) *)
