(* C20 — correspondence: evaluate model and spec on the cases the implementation ran.
   Imports no proofs. *)
From Coq Require Import List String ZArith Bool Arith.
From V.C20 Require Import Model Spec Abs.
Import ListNotations.
Local Open Scope list_scope.

(* ------------------------------------------------------------------ equality tests *)
Definition oz_eqb (a b : option Z) : bool :=
  match a, b with Some x, Some y => Z.eqb x y | None, None => true | _, _ => false end.
Definition kv_eqb (a b : string * Z) : bool := String.eqb (fst a) (fst b) && Z.eqb (snd a) (snd b).
Fixpoint list_eqb {A} (eq : A -> A -> bool) (a b : list A) : bool :=
  match a, b with
  | [], [] => true
  | x :: r, y :: s => eq x y && list_eqb eq r s
  | _, _ => false
  end.
Definition okv_eqb (a b : option (string * Z)) : bool :=
  match a, b with Some x, Some y => kv_eqb x y | None, None => true | _, _ => false end.
Definition sres_eqb (a b : sres) : bool :=
  match a, b with
  | SUnit, SUnit => true
  | SVal x, SVal y => oz_eqb x y
  | SList x, SList y => list_eqb kv_eqb x y
  | SLenR x, SLenR y => Nat.eqb x y
  | SIdxR x, SIdxR y => okv_eqb x y
  | _, _ => false
  end.
Definition slist_eqb := list_eqb String.eqb.
Definition ostr_eqb (a b : option string) : bool :=
  match a, b with Some x, Some y => String.eqb x y | None, None => true | _, _ => false end.

(* ------------------------------------------------------------------ OrderedMap op sequences
   case = (ops, what the real OrderedMap returned for each op)
   1 = model/implementation disagree, 2 = insertion-ordered reference/implementation disagree *)
Definition om_case := (list op * list res)%type.
Definition check_om (c : om_case) : list nat :=
  let (ops, impl) := c in
  let i := map to_sres impl in
  (if list_eqb sres_eqb (map to_sres (snd (om_run ops om_new))) i then [] else [1%nat]) ++
  (if list_eqb sres_eqb (snd (a_run (map to_sop ops) [])) i then [] else [2%nat]).

(* ------------------------------------------------------------------ case-insensitive class lookup
   case = (registered names, looked-up name, the distinct answers of repeated real lookups)
   1 = model/implementation disagree; 2 = an answer is not a legal match; 3 = more than one answer *)
Definition find_case := (list string * string * list (option string))%type.
Definition legal_answer (keys : list string) (name : string) (r : option string) : bool :=
  match r with
  | Some m => existsb (String.eqb m) keys && equal_fold m name &&
              (negb (existsb (String.eqb name) keys) || String.eqb m name)
  | None => negb (existsb (fun k => equal_fold k name) keys)
  end.
Definition check_find (c : find_case) : list nat :=
  let '(keys, name, impl) := c in
  (if list_eqb ostr_eqb impl [find_ci keys name] then [] else [1%nat]) ++
  (if forallb (legal_answer keys name) impl then [] else [2%nat]) ++
  (if Nat.eqb (List.length impl) 1 then [] else [3%nat]).

(* ------------------------------------------------------------------ `new C` enumeration
   case = (class level, ancestor levels, the distinct key enumerations observed)
   1 = model/implementation disagree; 2 = (no ancestors) not the declaration order; 3 = not deterministic *)
Definition inst_case := (clevel * list clevel * list (list string))%type.
Definition has_default (c : clevel) (name : string) : bool :=
  match sget (c_props c) name with Some (Some _) => true | _ => false end.
Definition check_inst (c : inst_case) : list nat :=
  let '(child, ancs, impl) := c in
  let m := map fst (om_range None (instantiate child ancs)) in
  (if forallb (slist_eqb m) impl && negb (Nat.eqb (List.length impl) 0) then [] else [1%nat]) ++
  (match ancs with
   | [] => if forallb (slist_eqb (filter (has_default child) (c_index child))) impl then [] else [2%nat]
   | _ => []
   end) ++
  (if Nat.eqb (List.length impl) 1 then [] else [3%nat]).

(* ------------------------------------------------------------------ method / member lists
   case = (member names (map keys), class has a constructor field, distinct listings observed) *)
Definition meth_case := (list string * bool * list (list string))%type.
Definition check_meth (c : meth_case) : list nat :=
  let '(names, hasc, impl) := c in
  (if forallb (slist_eqb (get_methods names hasc)) impl && negb (Nat.eqb (List.length impl) 0) then [] else [1%nat]) ++
  (if Nat.eqb (List.length impl) 1 then [] else [3%nat]).

(* ------------------------------------------------------------------ collect / sort / use sites
   case = (the keys the site ranges over, in the order the test wrote them; the preferred order the
   site is given ([] at the plain sorted sites); the order in which the real code produced them)
   1 = model/implementation disagree *)
Definition sorted_case := (list string * list string * list string)%type.
Definition check_sorted (c : sorted_case) : list nat :=
  let '(keys, preferred, impl) := c in
  let model := match preferred with
               | [] => sorted_range (fun _ => true) (fun acc k => (acc ++ [k])%list) [] keys
               | _ => preferred_then_sorted preferred keys
               end in
  if slist_eqb model impl then [] else [1%nat].

(* ------------------------------------------------------------------ (A ; B) versus (B)
   case = (cell table, abstract A, abstract B, did B's real output differ)
   1 = model/implementation disagree on whether B can tell; 2 = B could tell (the clause fails) *)
Definition leak_case := (list (string * scope) * script * script * bool)%type.
Definition table_scope (t : list (string * scope)) (c : string) : scope :=
  match sget t c with Some s => s | None => PerVM end.
Definition check_leak (c : leak_case) : list nat :=
  let '(t, a, b, impl_leak) := c in
  let f := table_scope t in
  let model_leak := negb (list_eqb Z.eqb (out_after f a b) (out_alone f b)) in
  (if Bool.eqb model_leak impl_leak then [] else [1%nat]) ++
  (if impl_leak then [2%nat] else []).
