(* C20 — the property, clause by clause.  Only statements here; every proof is `exact lemma`. *)
From Coq Require Import List String ZArith Bool Arith Permutation.
From V.C20 Require Import Model Spec Abs ProofsOM ProofsSites.
Import ListNotations.

(* ---- "object properties and array entries are always enumerated in insertion order" ----
   data/ordered_map.go is the store behind every object / string-keyed array. *)

(* for every operation sequence the real structure (data slice + indexMap + nameMap) returns
   what the insertion-ordered association list returns, and its full enumeration IS that list *)
Theorem refines_alist : forall ops,
  map to_sres (snd (om_run ops om_new)) = snd (a_run (map to_sop ops) []) /\
  om_range None (fst (om_run ops om_new)) = fst (a_run (map to_sop ops) []).
Proof. exact refines_alist_l. Qed.
Print Assumptions refines_alist.

(* the two maps stay mutually inverse bijections between the keys and [0, len data) *)
Theorem inv_preserved : forall ops,
  let m := fst (om_run ops om_new) in
  (forall k i, sget (indexMap m) k = Some i <-> nget (nameMap m) i = Some k) /\
  (forall i, (exists k, nget (nameMap m) i = Some k) <-> (i < List.length (data m))%nat).
Proof. exact inv_preserved_l. Qed.
Print Assumptions inv_preserved.

(* Range enumerates the keys in order of first insertion since they were last absent *)
Theorem range_is_insertion_order : forall ops,
  map fst (om_range None (fst (om_run ops om_new))) = insertion_order (map to_sop ops) [].
Proof. exact range_is_insertion_order_l. Qed.
Print Assumptions range_is_insertion_order.

Theorem get_by_index_agrees : forall ops i,
  om_get_by_index i (fst (om_run ops om_new)) =
  if (i <? 0)%Z then None else nth_error (om_range None (fst (om_run ops om_new))) (Z.to_nat i).
Proof. exact get_by_index_agrees_l. Qed.
Print Assumptions get_by_index_agrees.

(* `new C`: the declared properties of an object enumerate in declaration order (own class),
   followed by the inherited ones not redeclared by the class, whatever order Go ranges maps in
   (the model of the fixed code has no map range left; the pre-fix loop is refuted in Examples.v) *)
Theorem instantiate_enumeration : forall child ancs,
  map fst (om_range None (instantiate child ancs)) = first_occurrences [] (map fst (init_kvs child ancs)).
Proof. exact instantiate_enumeration_l. Qed.
Print Assumptions instantiate_enumeration.

Theorem instantiate_declaration_order : forall c, NoDup (c_index c) ->
  map fst (om_range None (instantiate c [])) =
  filter (fun name => match sget (c_props c) name with Some (Some _) => true | _ => false end) (c_index c).
Proof. exact instantiate_declaration_order_l. Qed.
Print Assumptions instantiate_declaration_order.

(* ---- "the same program ... always produces byte-identical output": sites that range over a
   Go map.  `order` is the adversary: any permutation of the key set. ---- *)

(* runtime/vm.go findClassCaseInsensitive: same class for every iteration order, unconditionally *)
Theorem lookup_oracle_independent : forall keys name,
  oracle_independent keys (fun order => find_ci order name).
Proof. exact lookup_oracle_independent_l. Qed.
Print Assumptions lookup_oracle_independent.

(* ... and it is the exact name when registered, else the least case-insensitive match *)
Theorem find_ci_exact : forall order name, In name order -> find_ci order name = Some name.
Proof. exact find_ci_exact_l. Qed.
Theorem find_ci_least : forall order name, ~ In name order ->
  match find_ci order name with
  | None => forall k, In k order -> equal_fold k name = false
  | Some m => In m order /\ equal_fold m name = true /\
              forall k, In k order -> equal_fold k name = true -> sleb m k = true
  end.
Proof. exact find_ci_least_l. Qed.
Print Assumptions find_ci_least.

(* the first-match loop (the code before the fix) is order independent exactly when no two
   registered names collide under case folding; there the fixed lookup returns the same class *)
Theorem first_match_oracle_independent : forall keys name, no_casefold_collision keys ->
  oracle_independent keys (fun order => find_ci_first order name).
Proof. exact first_match_oracle_independent_l. Qed.
Theorem find_ci_conservative : forall order name, no_casefold_collision order ->
  find_ci order name = find_ci_first order name.
Proof. exact find_ci_conservative_l. Qed.
Print Assumptions first_match_oracle_independent.

(* node/class.go GetMethods, runtime/reflect_class.go GetMethods / GetPropertyList *)
Theorem member_names_oracle_independent : forall keys, oracle_independent keys member_names.
Proof. exact member_names_oracle_independent_l. Qed.
Theorem get_methods_oracle_independent : forall keys c,
  oracle_independent keys (fun order => get_methods order c).
Proof. exact get_methods_oracle_independent_l. Qed.
Theorem member_names_sorted_permutation : forall order,
  Permutation order (member_names order) /\ ssorted (member_names order).
Proof. exact member_names_sorted_permutation_l. Qed.
Print Assumptions get_methods_oracle_independent.

(* ---- collect the keys, sort, then use them: node/class_abstract_validate.go abstractStaticMethodNames,
   node/init_class.go InitClass.GetValue, node/html.go generateNormalHtml, node/js_server.go
   formatObjectValue, the superglobal / request accessors filled from url.Values and http.Header.
   For every filter applied while collecting, every per-key body (of any accumulator type) and
   every start value: the result does not depend on the order Go ranges over the map, and it is the
   body folded over the one sorted arrangement of the kept keys. ---- *)
Theorem sorted_range_oracle_independent : forall (A : Type) (kp : string -> bool) (body : A -> string -> A) init keys,
  oracle_independent keys (sorted_range kp body init).
Proof. exact sorted_range_oracle_independent_l. Qed.
Theorem sorted_range_spec : forall (A : Type) (kp : string -> bool) (body : A -> string -> A) init order,
  exists l, Permutation (filter kp order) l /\ ssorted l /\ sorted_range kp body init order = fold_left body l init.
Proof. exact sorted_range_spec_l. Qed.
Print Assumptions sorted_range_oracle_independent.

(* node/js_server.go formatClassOrObjectValue: the object's insertion order first, the remaining keys sorted:
   independent of the map order, every key exactly once, the preferred keys first and in their order *)
Theorem preferred_then_sorted_oracle_independent : forall preferred keys,
  oracle_independent keys (preferred_then_sorted preferred).
Proof. exact preferred_then_sorted_oracle_independent_l. Qed.
Theorem preferred_then_sorted_permutation : forall preferred order, NoDup order ->
  Permutation order (preferred_then_sorted preferred order).
Proof. exact preferred_then_sorted_permutation_l. Qed.
Theorem preferred_then_sorted_prefix : forall preferred order, NoDup preferred -> (forall k, In k preferred -> In k order) ->
  exists rest, preferred_then_sorted preferred order = (preferred ++ rest)%list.
Proof. exact preferred_then_sorted_prefix_l. Qed.
Print Assumptions preferred_then_sorted_permutation.

(* node/html.go generateHtml / HtmlTemplateNode.GetValue pick "the" for / if attribute of an element by
   ranging over the attribute map: order independent exactly when at most one attribute is of the kind;
   with two of them the answer follows the iteration order (unique_pick_needs_uniqueness). *)
Theorem unique_pick_oracle_independent : forall (is_kind : string -> bool) keys,
  (forall a b, In a keys -> In b keys -> is_kind a = true -> is_kind b = true -> a = b) ->
  oracle_independent keys (pick_last is_kind).
Proof. exact unique_pick_oracle_independent_l. Qed.
Theorem unique_pick_needs_uniqueness : forall (is_kind : string -> bool) a b, a <> b -> is_kind a = true -> is_kind b = true ->
  pick_last is_kind [a; b] <> pick_last is_kind [b; a].
Proof. exact pick_last_order_dependent_l. Qed.
Print Assumptions unique_pick_oracle_independent.

(* ---- "A program run on a freshly created VM behaves the same whether or not other programs
   were run earlier in the same process on other VMs" ----
   for every placement of state cells (scope_of) and all scripts A, B: unless A writes a
   package-level cell that no protocol step resets and B reads it, B cannot tell. *)
Theorem no_leak : forall scope_of a b, may_leak scope_of a b = false ->
  out_after scope_of a b = out_alone scope_of b.
Proof. exact no_leak_l. Qed.
Print Assumptions no_leak.

Theorem fresh_vm_observes_reset_state : forall scope_of w c, sticky scope_of c = false ->
  cell_read scope_of (fresh_vm scope_of w) c = 0%Z.
Proof. exact fresh_vm_observes_reset_state_l. Qed.
Print Assumptions fresh_vm_observes_reset_state.

(* the clause is FALSE of the code for every package-level cell that is never reset: each such
   cell leaks.  Today: the process environment (putenv), KNOWN_FINDINGS leak:putenv; the cells this
   theorem used to describe (ini store, superglobal caches, autoload list, ...) are reset since the
   fixed: lines of KNOWN_FINDINGS. *)
Theorem sticky_leaks_refuted : forall scope_of c v, scope_of c = ProcSticky -> v <> 0%Z ->
  out_after scope_of [AWrite c v] [ARead c] <> out_alone scope_of [ARead c].
Proof. exact sticky_leaks_l. Qed.
Print Assumptions sticky_leaks_refuted.
