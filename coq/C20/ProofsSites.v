(* C20 — map-ranging sites are independent of Go's iteration order; process-level state. *)
From Coq Require Import List String Ascii ZArith Bool Arith Lia Permutation.
From V.C20 Require Import Model Spec ProofsOM.
Import ListNotations.
Local Open Scope list_scope.

(* ------------------------------------------------------------------ the byte-wise order *)
Lemma nat_of_ascii_inj : forall x y, nat_of_ascii x = nat_of_ascii y -> x = y.
Proof.
  intros x y H. rewrite <- (ascii_nat_embedding x), <- (ascii_nat_embedding y). congruence.
Qed.

Lemma sltb_irrefl : forall a, sltb a a = false.
Proof.
  induction a as [|x a IH]; simpl; [reflexivity|].
  rewrite Nat.ltb_irrefl, Nat.eqb_refl, IH. reflexivity.
Qed.

Lemma sltb_trans : forall a b c, sltb a b = true -> sltb b c = true -> sltb a c = true.
Proof.
  induction a as [|x a IH]; intros [|y b] [|z c]; simpl; intros H1 H2; try discriminate; auto.
  apply orb_true_iff in H1. apply orb_true_iff in H2. apply orb_true_iff.
  destruct H1 as [H1|H1], H2 as [H2|H2].
  - left. apply Nat.ltb_lt in H1, H2. apply Nat.ltb_lt. lia.
  - apply andb_true_iff in H2. destruct H2 as [H2 _]. apply Nat.eqb_eq in H2.
    left. rewrite <- H2. exact H1.
  - apply andb_true_iff in H1. destruct H1 as [H1 _]. apply Nat.eqb_eq in H1.
    left. rewrite H1. exact H2.
  - apply andb_true_iff in H1. apply andb_true_iff in H2. destruct H1 as [E1 L1], H2 as [E2 L2].
    right. apply Nat.eqb_eq in E1, E2. apply andb_true_iff. split.
    + apply Nat.eqb_eq. congruence.
    + eapply IH; eauto.
Qed.

Lemma sltb_total : forall a b, sltb a b = false -> sltb b a = false -> a = b.
Proof.
  induction a as [|x a IH]; intros [|y b]; simpl; intros H1 H2; try discriminate; auto.
  apply orb_false_iff in H1. apply orb_false_iff in H2.
  destruct H1 as [L1 E1], H2 as [L2 E2].
  apply Nat.ltb_ge in L1, L2. assert (E : nat_of_ascii x = nat_of_ascii y) by lia.
  rewrite E, Nat.eqb_refl in E1, E2. simpl in E1, E2.
  f_equal; [apply nat_of_ascii_inj; exact E | apply IH; auto].
Qed.

Lemma sltb_asym : forall a b, sltb a b = true -> sltb b a = false.
Proof.
  intros a b H. destruct (sltb b a) eqn:E; [|reflexivity].
  pose proof (sltb_trans _ _ _ H E) as C. rewrite sltb_irrefl in C. discriminate.
Qed.

Lemma sleb_refl : forall a, sleb a a = true.
Proof. intros; unfold sleb; rewrite sltb_irrefl; reflexivity. Qed.
Lemma sleb_antisym : forall a b, sleb a b = true -> sleb b a = true -> a = b.
Proof.
  unfold sleb. intros a b H1 H2. apply negb_true_iff in H1, H2. apply sltb_total; auto.
Qed.
Lemma sleb_total : forall a b, sleb a b = true \/ sleb b a = true.
Proof.
  unfold sleb. intros a b. destruct (sltb b a) eqn:E; [right | left; reflexivity].
  rewrite (sltb_asym _ _ E). reflexivity.
Qed.
Lemma sleb_trans : forall a b c, sleb a b = true -> sleb b c = true -> sleb a c = true.
Proof.
  unfold sleb. intros a b c H1 H2. apply negb_true_iff in H1, H2. apply negb_true_iff.
  destruct (sltb c a) eqn:E; [|reflexivity].
  (* c < a, not b < a, not c < b *)
  destruct (sltb a b) eqn:E2.
  - pose proof (sltb_trans _ _ _ E E2). congruence.
  - assert (a = b) by (apply sltb_total; auto). subst. congruence.
Qed.
Lemma sltb_sleb : forall a b, sltb a b = true -> sleb a b = true.
Proof. intros a b H. unfold sleb. rewrite (sltb_asym _ _ H). reflexivity. Qed.

(* ------------------------------------------------------------------ findClassCaseInsensitive *)
Lemma equal_fold_trans : forall a b c, equal_fold a b = true -> equal_fold c b = true -> equal_fold a c = true.
Proof.
  unfold equal_fold. intros a b c H1 H2. apply String.eqb_eq in H1, H2. apply String.eqb_eq. congruence.
Qed.

Definition cand (name : string) (b : option string) (l : list string) (k : string) : Prop :=
  b = Some k \/ (In k l /\ equal_fold k name = true).

Lemma fold_ci_spec : forall name l b,
  match fold_left (find_ci_step name) l b with
  | None => b = None /\ forall k, In k l -> equal_fold k name = false
  | Some m => cand name b l m /\ forall k, cand name b l k -> sleb m k = true
  end.
Proof.
  intros name. induction l as [|x l IH]; intros b; simpl.
  - destruct b as [m|].
    + split; [left; reflexivity|]. intros k [H|[[] _]]. inversion H; subst. apply sleb_refl.
    + split; auto. intros k [].
  - specialize (IH (find_ci_step name b x)).
    destruct (fold_left (find_ci_step name) l (find_ci_step name b x)) as [m|].
    + destruct IH as [C M]. unfold find_ci_step in C, M.
      destruct (equal_fold x name) eqn:EF.
      * destruct b as [b0|].
        -- destruct (sltb x b0) eqn:LT.
           ++ split.
              ** destruct C as [C|[C1 C2]]; [inversion C; subst; right; split; auto; left; reflexivity|].
                 right; split; auto; right; exact C1.
              ** intros k [K|[[K|K] K2]].
                 --- inversion K; subst. apply sleb_trans with x; [apply M; left; reflexivity|].
                     apply sltb_sleb; exact LT.
                 --- subst. apply M. left. reflexivity.
                 --- apply M. right. split; auto.
           ++ split.
              ** destruct C as [C|[C1 C2]]; [left; exact C|]. right; split; auto; right; exact C1.
              ** intros k [K|[[K|K] K2]].
                 --- apply M. left. exact K.
                 --- subst. apply sleb_trans with b0; [apply M; left; reflexivity|].
                     unfold sleb. rewrite LT. reflexivity.
                 --- apply M. right. split; auto.
        -- split.
           ++ destruct C as [C|[C1 C2]]; [inversion C; subst; right; split; auto; left; reflexivity|].
              right; split; auto; right; exact C1.
           ++ intros k [K|[[K|K] K2]]; [discriminate| |].
              ** subst. apply M. left. reflexivity.
              ** apply M. right. split; auto.
      * split.
        -- destruct C as [C|[C1 C2]]; [left; exact C|]. right; split; auto; right; exact C1.
        -- intros k [K|[[K|K] K2]].
           ++ apply M. left. exact K.
           ++ subst. congruence.
           ++ apply M. right. split; auto.
    + destruct IH as [B N]. unfold find_ci_step in B.
      destruct (equal_fold x name) eqn:EF.
      * destruct b as [b0|]; [destruct (sltb x b0); discriminate | discriminate].
      * split; auto. intros k [K|K]; [subst; auto | auto].
Qed.

Lemma existsb_perm : forall (f : string -> bool) l1 l2, Permutation l1 l2 -> existsb f l1 = existsb f l2.
Proof.
  intros f l1 l2 P. induction P; simpl; auto.
  - rewrite IHP; reflexivity.
  - destruct (f x), (f y); reflexivity.
  - congruence.
Qed.

Lemma find_ci_perm : forall o1 o2 name, Permutation o1 o2 -> find_ci o1 name = find_ci o2 name.
Proof.
  intros o1 o2 name P. unfold find_ci. rewrite (existsb_perm _ _ _ P).
  destruct (existsb (String.eqb name) o2); [reflexivity|].
  pose proof (fold_ci_spec name o1 None) as S1. pose proof (fold_ci_spec name o2 None) as S2.
  destruct (fold_left (find_ci_step name) o1 None) as [m1|], (fold_left (find_ci_step name) o2 None) as [m2|].
  - destruct S1 as [[C1|[I1 E1]] M1]; [discriminate|]. destruct S2 as [[C2|[I2 E2]] M2]; [discriminate|].
    f_equal. apply sleb_antisym.
    + apply M1. right. split; auto. eapply Permutation_in; [apply Permutation_sym; exact P | exact I2].
    + apply M2. right. split; auto. eapply Permutation_in; eauto.
  - destruct S1 as [[C1|[I1 E1]] _]; [discriminate|]. destruct S2 as [_ N2].
    rewrite (N2 m1) in E1; [discriminate|]. eapply Permutation_in; eauto.
  - destruct S2 as [[C2|[I2 E2]] _]; [discriminate|]. destruct S1 as [_ N1].
    rewrite (N1 m2) in E2; [discriminate|]. eapply Permutation_in; [apply Permutation_sym; exact P | exact I2].
  - reflexivity.
Qed.

Lemma lookup_oracle_independent_l : forall keys name, oracle_independent keys (fun o => find_ci o name).
Proof.
  intros keys name o1 o2 P1 P2. apply find_ci_perm.
  eapply Permutation_trans; [apply Permutation_sym; exact P1 | exact P2].
Qed.

(* what the lookup returns *)
Lemma find_ci_exact_l : forall order name, In name order -> find_ci order name = Some name.
Proof.
  intros order name H. unfold find_ci.
  replace (existsb (String.eqb name) order) with true; [reflexivity|].
  symmetry. apply existsb_exists. exists name. split; auto. apply String.eqb_refl.
Qed.

Lemma find_ci_least_l : forall order name, ~ In name order ->
  match find_ci order name with
  | None => forall k, In k order -> equal_fold k name = false
  | Some m => In m order /\ equal_fold m name = true /\
              forall k, In k order -> equal_fold k name = true -> sleb m k = true
  end.
Proof.
  intros order name H. unfold find_ci.
  replace (existsb (String.eqb name) order) with false.
  2:{ symmetry. apply not_true_is_false. intros E. apply existsb_exists in E.
      destruct E as [x [I E]]. apply String.eqb_eq in E. subst. contradiction. }
  pose proof (fold_ci_spec name order None) as S.
  destruct (fold_left (find_ci_step name) order None) as [m|].
  - destruct S as [[C|[I E]] M]; [discriminate|]. split; auto. split; auto.
    intros k Ik Ek. apply M. right. split; auto.
  - destruct S as [_ N]. exact N.
Qed.

(* the fix is conservative: without a case-fold collision among the registered names it returns
   what the first-match loop returned, whatever the iteration order *)
Definition no_casefold_collision (keys : list string) : Prop :=
  forall a b, In a keys -> In b keys -> equal_fold a b = true -> a = b.

Lemma find_some_first : forall (f : string -> bool) l x, find f l = Some x -> In x l /\ f x = true.
Proof. intros. apply find_some; auto. Qed.

Lemma find_ci_conservative_l : forall order name, no_casefold_collision order ->
  find_ci order name = find_ci_first order name.
Proof.
  intros order name NC. unfold find_ci_first.
  destruct (existsb (String.eqb name) order) eqn:EX.
  - unfold find_ci. rewrite EX. reflexivity.
  - assert (NI : ~ In name order).
    { intros I. assert (existsb (String.eqb name) order = true).
      { apply existsb_exists. exists name. split; auto. apply String.eqb_refl. } congruence. }
    pose proof (find_ci_least_l order name NI) as L.
    destruct (find_ci order name) as [m|] eqn:Fm.
    + destruct L as [Im [Em _]].
      destruct (find (fun k => equal_fold k name) order) as [x|] eqn:Fx.
      * apply find_some in Fx. destruct Fx as [Ix Ex]. f_equal.
        apply NC; auto. eapply equal_fold_trans; eauto.
      * pose proof (find_none _ _ Fx m Im) as C. simpl in C. congruence.
    + destruct (find (fun k => equal_fold k name) order) as [x|] eqn:Fx; [|reflexivity].
      apply find_some in Fx. destruct Fx as [Ix Ex]. rewrite (L x Ix) in Ex. discriminate.
Qed.

Lemma first_match_oracle_independent_l : forall keys name, no_casefold_collision keys ->
  oracle_independent keys (fun o => find_ci_first o name).
Proof.
  intros keys name NC o1 o2 P1 P2.
  assert (N1 : no_casefold_collision o1).
  { intros a b Ia Ib E. apply NC; auto; (eapply Permutation_in; [apply Permutation_sym; exact P1 | assumption]). }
  assert (N2 : no_casefold_collision o2).
  { intros a b Ia Ib E. apply NC; auto; (eapply Permutation_in; [apply Permutation_sym; exact P2 | assumption]). }
  rewrite <- (find_ci_conservative_l o1 name N1), <- (find_ci_conservative_l o2 name N2).
  apply (lookup_oracle_independent_l keys name o1 o2 P1 P2).
Qed.

(* ------------------------------------------------------------------ sorted member lists *)
Lemma sinsert_comm : forall x y l, sinsert x (sinsert y l) = sinsert y (sinsert x l).
Proof.
  intros x y. induction l as [|c l IH]; simpl.
  - destruct (sleb x y) eqn:A, (sleb y x) eqn:B; auto.
    + rewrite (sleb_antisym _ _ A B). reflexivity.
    + destruct (sleb_total x y); congruence.
  - destruct (sleb y c) eqn:YC, (sleb x c) eqn:XC; simpl.
    + destruct (sleb x y) eqn:A, (sleb y x) eqn:B; simpl; rewrite ?XC, ?YC; auto.
      * rewrite (sleb_antisym _ _ A B). reflexivity.
      * destruct (sleb_total x y); congruence.
    + (* y <= c < x *)
      assert (A : sleb x y = false).
      { destruct (sleb x y) eqn:A; auto. rewrite (sleb_trans _ _ _ A YC) in XC. discriminate. }
      rewrite A, YC, XC. reflexivity.
    + assert (B : sleb y x = false).
      { destruct (sleb y x) eqn:B; auto. rewrite (sleb_trans _ _ _ B XC) in YC. discriminate. }
      rewrite B, XC, YC. reflexivity.
    + rewrite XC, YC, IH. reflexivity.
Qed.

Lemma ssort_perm_eq : forall l1 l2, Permutation l1 l2 -> ssort l1 = ssort l2.
Proof.
  intros l1 l2 P. induction P; simpl; auto.
  - rewrite IHP; reflexivity.
  - apply sinsert_comm.
  - congruence.
Qed.

Lemma sinsert_perm : forall x l, Permutation (x :: l) (sinsert x l).
Proof.
  intros x. induction l as [|y l IH]; simpl; auto.
  destruct (sleb x y); auto.
  eapply Permutation_trans; [apply perm_swap|]. apply perm_skip. exact IH.
Qed.
Lemma ssort_perm : forall l, Permutation l (ssort l).
Proof.
  induction l as [|x l IH]; simpl; auto.
  eapply Permutation_trans; [apply perm_skip; exact IH | apply sinsert_perm].
Qed.

Fixpoint ssorted (l : list string) : Prop :=
  match l with
  | [] => True
  | x :: r => (match r with [] => True | y :: _ => sleb x y = true end) /\ ssorted r
  end.
Lemma sinsert_sorted : forall x l, ssorted l -> ssorted (sinsert x l).
Proof.
  intros x. induction l as [|y l IH]; simpl; intros H; auto.
  destruct (sleb x y) eqn:E.
  - simpl. auto.
  - destruct H as [H1 H2]. specialize (IH H2). simpl. split; auto.
    destruct l as [|z l]; simpl in *.
    + destruct (sleb_total x y); congruence.
    + destruct (sleb x z); [destruct (sleb_total x y); congruence | exact H1].
Qed.
Lemma ssort_sorted : forall l, ssorted (ssort l).
Proof. induction l; simpl; auto. apply sinsert_sorted; auto. Qed.

Lemma member_names_sorted_permutation_l : forall order,
  Permutation order (member_names order) /\ ssorted (member_names order).
Proof. intros; split; [apply ssort_perm | apply ssort_sorted]. Qed.

Lemma member_names_oracle_independent_l : forall keys, oracle_independent keys member_names.
Proof.
  intros keys o1 o2 P1 P2. unfold member_names. apply ssort_perm_eq.
  eapply Permutation_trans; [apply Permutation_sym; exact P1 | exact P2].
Qed.

Lemma get_methods_oracle_independent_l : forall keys c, oracle_independent keys (fun o => get_methods o c).
Proof.
  intros keys c o1 o2 P1 P2. unfold get_methods.
  rewrite (member_names_oracle_independent_l keys o1 o2 P1 P2). reflexivity.
Qed.

(* ------------------------------------------------------------------ property initialisation of `new C` *)
Definition own_kvs (c : clevel) : list (string * Z) :=
  flat_map (fun name => match sget (c_props c) name with Some (Some v) => [(name, v)] | _ => [] end)
           (c_index c).
Definition inherited_kvs (child anc : clevel) : list (string * Z) :=
  flat_map (fun name => match sget (c_props child) name with
                        | Some _ => []
                        | None => match sget (c_props anc) name with Some (Some v) => [(name, v)] | _ => [] end
                        end) (c_index anc).
Definition init_kvs (child : clevel) (ancs : list clevel) : list (string * Z) :=
  own_kvs child ++ flat_map (inherited_kvs child) ancs.

Definition set_kv (m : om) (kv : string * Z) : om := om_set (fst kv) (snd kv) m.

Lemma fold_flat_map : forall (A B : Type) (f : om -> B -> om) (g : A -> list B) l m,
  fold_left f (flat_map g l) m = fold_left (fun m x => fold_left f (g x) m) l m.
Proof.
  induction l as [|x l IH]; intros m; simpl; [reflexivity|].
  rewrite fold_left_app. apply IH.
Qed.

Lemma init_own_kvs : forall c m, init_own c m = fold_left set_kv (own_kvs c) m.
Proof.
  intros c m. unfold init_own, own_kvs. rewrite fold_flat_map.
  revert m. induction (c_index c) as [|x l IH]; intros m; simpl; [reflexivity|].
  rewrite <- IH. destruct (sget (c_props c) x) as [[v|]|]; reflexivity.
Qed.

Lemma init_inherited_kvs : forall child anc m,
  init_inherited child anc m = fold_left set_kv (inherited_kvs child anc) m.
Proof.
  intros child anc m. unfold init_inherited, inherited_kvs. rewrite fold_flat_map.
  revert m. induction (c_index anc) as [|x l IH]; intros m; simpl; [reflexivity|].
  rewrite <- IH. destruct (sget (c_props child) x); [reflexivity|].
  destruct (sget (c_props anc) x) as [[v|]|]; reflexivity.
Qed.

Lemma instantiate_kvs : forall child ancs,
  instantiate child ancs = fold_left set_kv (init_kvs child ancs) om_new.
Proof.
  intros child ancs. unfold instantiate, init_kvs. rewrite fold_left_app, <- init_own_kvs.
  generalize (init_own child om_new). induction ancs as [|a r IH]; intros m; simpl; [reflexivity|].
  rewrite fold_left_app, <- init_inherited_kvs. apply IH.
Qed.

Lemma fold_set_run : forall kvs m,
  fold_left set_kv kvs m = fst (om_run (map (fun kv => OSet (fst kv) (snd kv)) kvs) m).
Proof.
  induction kvs as [|kv r IH]; intros m; simpl; [reflexivity|].
  rewrite IH. unfold set_kv at 1.
  destruct (om_run (map (fun kv0 => OSet (fst kv0) (snd kv0)) r) (om_set (fst kv) (snd kv) m)); reflexivity.
Qed.

Lemma sets_enumeration : forall kvs,
  map fst (om_range None (fold_left set_kv kvs om_new)) = first_occurrences [] (map fst kvs).
Proof.
  intros kvs. rewrite fold_set_run, range_is_insertion_order_l.
  rewrite map_map. simpl.
  rewrite (first_occ_insertion kvs []). reflexivity.
Qed.

Lemma instantiate_enumeration_l : forall child ancs,
  map fst (om_range None (instantiate child ancs)) = first_occurrences [] (map fst (init_kvs child ancs)).
Proof. intros. rewrite instantiate_kvs. apply sets_enumeration. Qed.

Lemma first_occ_nodup : forall l seen, NoDup l -> (forall x, In x l -> ~ In x seen) ->
  first_occurrences seen l = l.
Proof.
  induction l as [|x l IH]; intros seen ND H; simpl; [reflexivity|].
  inversion ND; subst.
  replace (existsb (String.eqb x) seen) with false.
  2:{ symmetry. apply not_true_is_false. intros E. apply existsb_exists in E.
      destruct E as [y [I E]]. apply String.eqb_eq in E. subst. apply (H y); simpl; auto. }
  f_equal. apply IH; auto. intros y Iy [E|E]; [subst; contradiction|].
  apply (H y); simpl; auto.
Qed.

Lemma own_kvs_keys : forall c,
  map fst (own_kvs c) =
  filter (fun name => match sget (c_props c) name with Some (Some _) => true | _ => false end) (c_index c).
Proof.
  intros c. unfold own_kvs. induction (c_index c) as [|x l IH]; simpl; [reflexivity|].
  rewrite map_app, IH. destruct (sget (c_props c) x) as [[v|]|]; reflexivity.
Qed.

(* a class without ancestors: the object's properties enumerate in declaration order *)
Lemma instantiate_declaration_order_l : forall c, NoDup (c_index c) ->
  map fst (om_range None (instantiate c [])) =
  filter (fun name => match sget (c_props c) name with Some (Some _) => true | _ => false end) (c_index c).
Proof.
  intros c ND. rewrite instantiate_enumeration_l. unfold init_kvs. simpl. rewrite app_nil_r.
  rewrite own_kvs_keys. apply first_occ_nodup.
  - apply NoDup_filter. exact ND.
  - intros x _ [].
Qed.

(* ------------------------------------------------------------------ process-level state *)
Section StateProofs.
  Variable scope_of : string -> scope.

  Lemma sget_sput : forall (A : Type) (m : smap A) c v c',
    sget (sput m c v) c' = if String.eqb c c' then Some v else sget m c'.
  Proof. intros. reflexivity. Qed.

  Lemma read_write : forall w c v c',
    cell_read scope_of (cell_write scope_of w c v) c' =
    if String.eqb c c' then v else cell_read scope_of w c'.
  Proof.
    intros w c v c'. unfold cell_read, cell_write.
    destruct (String.eqb_spec c c').
    - subst. destruct (scope_of c'); simpl; rewrite String.eqb_refl; reflexivity.
    - destruct (scope_of c) eqn:S1, (scope_of c') eqn:S2; simpl;
        try reflexivity; destruct (String.eqb_spec c c'); try contradiction; reflexivity.
  Qed.

  Definition agree (R : list string) (w1 w2 : world) : Prop :=
    forall c, In c R -> cell_read scope_of w1 c = cell_read scope_of w2 c.

  Lemma exec_agree : forall s w1 w2, agree (reads s) w1 w2 ->
    snd (exec scope_of s w1) = snd (exec scope_of s w2).
  Proof.
    induction s as [|a r IH]; intros w1 w2 H; simpl; [reflexivity|].
    destruct a as [c v|c].
    - apply IH. intros c' I. rewrite !read_write. destruct (String.eqb c c'); [reflexivity|].
      apply H. exact I.
    - assert (H' : agree (reads r) w1 w2). { intros c' I. apply H. simpl. right. exact I. }
      specialize (IH w1 w2 H').
      destruct (exec scope_of r w1) as [w1' o1], (exec scope_of r w2) as [w2' o2]. simpl in *.
      f_equal; auto. apply H. simpl. left. reflexivity.
  Qed.

  Lemma sget_filter_key : forall (m : smap Z) (p : string -> bool) c,
    sget (filter (fun kv => p (fst kv)) m) c = if p c then sget m c else None.
  Proof.
    induction m as [|[k v] r IH]; intros p c; simpl.
    - destruct (p c); reflexivity.
    - destruct (p k) eqn:Pk; simpl.
      + destruct (String.eqb_spec k c); [subst; rewrite Pk; reflexivity | apply IH].
      + destruct (String.eqb_spec k c); [subst; rewrite IH, Pk; reflexivity | apply IH].
  Qed.

  Lemma exec_proc_untouched : forall s w c, ~ In c (writes s) ->
    sget (proccells (fst (exec scope_of s w))) c = sget (proccells w) c.
  Proof.
    induction s as [|a r IH]; intros w c H; simpl; [reflexivity|].
    destruct a as [c0 v|c0].
    - simpl in H. rewrite IH by tauto. unfold cell_write.
      destruct (scope_of c0); simpl; auto;
        destruct (String.eqb_spec c0 c); auto; subst; exfalso; apply H; auto.
    - specialize (IH w c H). destruct (exec scope_of r w). exact IH.
  Qed.

  Definition keep (c : string) : bool := match scope_of c with ProcReset => false | _ => true end.

  Lemma fresh_read : forall w c,
    cell_read scope_of (fresh_vm scope_of w) c =
    match scope_of c with
    | ProcSticky => match sget (proccells w) c with Some v => v | None => 0%Z end
    | _ => 0%Z
    end.
  Proof.
    intros w c. unfold cell_read, fresh_vm. simpl.
    pose proof (sget_filter_key (proccells w) keep c) as F. unfold keep in F.
    destruct (scope_of c) eqn:S; [reflexivity| |]; rewrite F; reflexivity.
  Qed.

  (* a fresh VM observes the initial value of every cell that is per-VM or reset by protocol *)
  Lemma fresh_vm_observes_reset_state_l : forall w c, sticky scope_of c = false ->
    cell_read scope_of (fresh_vm scope_of w) c = 0%Z.
  Proof.
    intros w c H. rewrite fresh_read. unfold sticky in H. destruct (scope_of c); auto. discriminate.
  Qed.

  Lemma no_leak_l : forall a b, may_leak scope_of a b = false ->
    out_after scope_of a b = out_alone scope_of b.
  Proof.
    intros a b H. unfold out_after, out_alone, run_on_fresh_vm. apply exec_agree.
    intros c I. rewrite !fresh_read. destruct (scope_of c) eqn:S; auto.
    rewrite exec_proc_untouched; [reflexivity|].
    intros W. unfold may_leak in H.
    assert (E : existsb (fun c0 => sticky scope_of c0 && existsb (String.eqb c0) (reads b)) (writes a) = true).
    { apply existsb_exists. exists c. split; auto. unfold sticky. rewrite S. simpl.
      apply existsb_exists. exists c. split; auto. apply String.eqb_refl. }
    congruence.
  Qed.

  (* every sticky cell does leak *)
  Lemma sticky_leaks_l : forall c v, scope_of c = ProcSticky -> v <> 0%Z ->
    out_after scope_of [AWrite c v] [ARead c] <> out_alone scope_of [ARead c].
  Proof.
    intros c v S NZ. unfold out_after, out_alone, run_on_fresh_vm. simpl.
    rewrite !fresh_read. rewrite S. unfold cell_write. rewrite S. simpl.
    rewrite String.eqb_refl. intros E. inversion E. contradiction.
  Qed.
End StateProofs.

(* ------------------------------------------------------------------ collect, sort, then use *)
Lemma filter_perm : forall (f : string -> bool) l1 l2, Permutation l1 l2 -> Permutation (filter f l1) (filter f l2).
Proof.
  intros f l1 l2 P. induction P; simpl.
  - constructor.
  - destruct (f x); [constructor|]; assumption.
  - destruct (f x), (f y); try apply Permutation_refl. apply perm_swap.
  - eapply Permutation_trans; eassumption.
Qed.

Lemma sorted_range_oracle_independent_l : forall (A : Type) (kp : string -> bool) (body : A -> string -> A) init keys,
  oracle_independent keys (sorted_range kp body init).
Proof.
  intros A kp body init keys o1 o2 P1 P2. unfold sorted_range. f_equal.
  apply ssort_perm_eq. apply filter_perm.
  eapply Permutation_trans; [apply Permutation_sym; exact P1 | exact P2].
Qed.

(* what it computes: the body folded over THE sorted arrangement of the kept keys *)
Lemma sorted_range_spec_l : forall (A : Type) (kp : string -> bool) (body : A -> string -> A) init order,
  exists l, Permutation (filter kp order) l /\ ssorted l /\ sorted_range kp body init order = fold_left body l init.
Proof.
  intros A kp body init order. exists (ssort (filter kp order)). split; [apply ssort_perm|]. split; [apply ssort_sorted|reflexivity].
Qed.

(* ---- preferred order first, the rest sorted *)
Lemma dedup_in_perm : forall o1 o2 p seen, Permutation o1 o2 -> dedup_in o1 seen p = dedup_in o2 seen p.
Proof.
  intros o1 o2 p. induction p as [|k r IH]; intros seen P; simpl; auto.
  rewrite (existsb_perm _ _ _ P).
  destruct (existsb (String.eqb k) o2 && negb (existsb (String.eqb k) seen)); [f_equal|]; apply IH; auto.
Qed.

Lemma preferred_then_sorted_oracle_independent_l : forall preferred keys,
  oracle_independent keys (preferred_then_sorted preferred).
Proof.
  intros preferred keys o1 o2 P1 P2.
  assert (P : Permutation o1 o2) by (eapply Permutation_trans; [apply Permutation_sym; exact P1 | exact P2]).
  unfold preferred_then_sorted. rewrite (dedup_in_perm o1 o2 preferred [] P). f_equal.
  apply ssort_perm_eq. apply filter_perm. exact P.
Qed.

Lemma existsb_eqb_In : forall k l, existsb (String.eqb k) l = true <-> In k l.
Proof.
  intros k l. rewrite existsb_exists. split.
  - intros [x [I E]]. apply String.eqb_eq in E. subst. exact I.
  - intros I. exists k. split; auto. apply String.eqb_refl.
Qed.

Lemma dedup_in_spec : forall keys p seen,
  NoDup (dedup_in keys seen p) /\
  (forall k, In k (dedup_in keys seen p) <-> In k p /\ In k keys /\ ~ In k seen).
Proof.
  intros keys. induction p as [|x r IH]; intros seen; simpl.
  - split; [constructor|]. intros k; split; [intros []| intros [[] _]].
  - destruct (existsb (String.eqb x) keys && negb (existsb (String.eqb x) seen)) eqn:E.
    + apply andb_true_iff in E. destruct E as [E1 E2]. apply existsb_eqb_In in E1.
      apply negb_true_iff in E2.
      assert (NS : ~ In x seen) by (intro I; apply existsb_eqb_In in I; congruence).
      destruct (IH (x :: seen)) as [ND M]. split.
      * constructor; auto. intro I. apply M in I. destruct I as [_ [_ N]]. apply N. left; reflexivity.
      * intros k; split.
        -- intros [K|K]; [subst; auto|]. apply M in K. destruct K as [K1 [K2 K3]].
           split; [right; auto|]. split; auto. intro I. apply K3. right; auto.
        -- intros [[K|K] [K2 K3]]; [left; auto|].
           destruct (string_dec x k) as [->|NE]; [left; auto|].
           right. apply M. split; auto. split; auto. intros [I|I]; [congruence | auto].
    + destruct (IH seen) as [ND M]. split; auto.
      intros k; split.
      * intros K. apply M in K. destruct K as [K1 [K2 K3]]. auto.
      * intros [[K|K] [K2 K3]]; [|apply M; auto].
        subst k. exfalso. apply andb_false_iff in E. destruct E as [E|E].
        -- apply existsb_eqb_In in K2. congruence.
        -- apply negb_false_iff in E. apply existsb_eqb_In in E. auto.
Qed.

Lemma filter_partition_perm : forall (f : string -> bool) l,
  Permutation l (filter f l ++ filter (fun k => negb (f k)) l).
Proof.
  intros f. induction l as [|x l IH]; simpl; [constructor|].
  destruct (f x); simpl.
  - constructor. exact IH.
  - eapply Permutation_trans; [apply perm_skip; exact IH|]. apply Permutation_middle.
Qed.

(* every key of the map is printed exactly once *)
Lemma preferred_then_sorted_permutation_l : forall preferred order, NoDup order ->
  Permutation order (preferred_then_sorted preferred order).
Proof.
  intros preferred order ND. unfold preferred_then_sorted.
  set (first := dedup_in order [] preferred).
  destruct (dedup_in_spec order preferred []) as [NDf M]. fold first in NDf, M.
  eapply Permutation_trans; [apply (filter_partition_perm (fun k => existsb (String.eqb k) first))|].
  apply Permutation_app.
  - apply NoDup_Permutation; auto.
    + apply NoDup_filter. exact ND.
    + intros k. rewrite filter_In. rewrite existsb_eqb_In. split.
      * intros [_ I]. exact I.
      * intros I. split; auto. apply M in I. tauto.
  - apply ssort_perm.
Qed.

(* the preferred keys keep their relative order: the result starts with them *)
Lemma preferred_then_sorted_prefix_l : forall preferred order, NoDup preferred -> (forall k, In k preferred -> In k order) ->
  exists rest, preferred_then_sorted preferred order = preferred ++ rest.
Proof.
  intros preferred order ND Sub. unfold preferred_then_sorted.
  assert (H : forall p seen, NoDup p -> (forall k, In k p -> In k order /\ ~ In k seen) -> dedup_in order seen p = p).
  { induction p as [|x r IH]; intros seen NDp Hp; simpl; auto.
    destruct (Hp x (or_introl eq_refl)) as [I N].
    apply existsb_eqb_In in I. rewrite I.
    assert (E : existsb (String.eqb x) seen = false).
    { destruct (existsb (String.eqb x) seen) eqn:E; auto. apply existsb_eqb_In in E. contradiction. }
    rewrite E. simpl. f_equal. inversion NDp; subst. apply IH; auto.
    intros k K. destruct (Hp k (or_intror K)) as [K1 K2]. split; auto.
    intros [->|K3]; auto. }
  rewrite (H preferred [] ND); [eexists; reflexivity|].
  intros k K. split; auto.
Qed.

(* ---- pick the attribute of a kind *)
Lemma pick_last_acc : forall (is_kind : string -> bool) (l : list string) (acc : option string),
  fold_left (fun a k => if is_kind k then Some k else a) l acc =
  match fold_left (fun a k => if is_kind k then Some k else a) l None with Some k => Some k | None => acc end.
Proof.
  intros is_kind. induction l as [|x l IH]; intros acc; simpl; auto.
  destruct (is_kind x).
  - rewrite (IH (Some x)). destruct (fold_left _ l None); reflexivity.
  - apply IH.
Qed.

Lemma pick_last_some : forall (is_kind : string -> bool) l k, pick_last is_kind l = Some k -> In k l /\ is_kind k = true.
Proof.
  intros is_kind. unfold pick_last. induction l as [|x l IH]; simpl; intros k H; [discriminate|].
  destruct (is_kind x) eqn:E.
  - rewrite pick_last_acc in H. destruct (fold_left _ l None) eqn:F.
    + destruct (IH _ H) as [I K]. split; auto.
    + inversion H; subst. split; auto.
  - destruct (IH _ H) as [I K]. split; auto.
Qed.

Lemma pick_last_none : forall (is_kind : string -> bool) l, pick_last is_kind l = None <-> existsb is_kind l = false.
Proof.
  intros is_kind. unfold pick_last. induction l as [|x l IH]; simpl; [tauto|].
  destruct (is_kind x) eqn:E; simpl.
  - rewrite pick_last_acc. destruct (fold_left _ l None); split; intros; discriminate.
  - exact IH.
Qed.

Lemma unique_pick_oracle_independent_l : forall (is_kind : string -> bool) keys,
  (forall a b, In a keys -> In b keys -> is_kind a = true -> is_kind b = true -> a = b) ->
  oracle_independent keys (pick_last is_kind).
Proof.
  intros is_kind keys U o1 o2 P1 P2.
  destruct (pick_last is_kind o1) as [a|] eqn:E1, (pick_last is_kind o2) as [b|] eqn:E2; auto.
  - destruct (pick_last_some _ _ _ E1) as [I1 K1]. destruct (pick_last_some _ _ _ E2) as [I2 K2].
    f_equal. apply U; auto.
    + eapply Permutation_in; [apply Permutation_sym; exact P1 | exact I1].
    + eapply Permutation_in; [apply Permutation_sym; exact P2 | exact I2].
  - exfalso. apply pick_last_none in E2. destruct (pick_last_some _ _ _ E1) as [I1 K1].
    assert (P : Permutation o1 o2) by (eapply Permutation_trans; [apply Permutation_sym; exact P1 | exact P2]).
    rewrite <- (existsb_perm _ _ _ P) in E2.
    assert (existsb is_kind o1 = true) by (apply existsb_exists; exists a; auto). congruence.
  - exfalso. apply pick_last_none in E1. destruct (pick_last_some _ _ _ E2) as [I2 K2].
    assert (P : Permutation o1 o2) by (eapply Permutation_trans; [apply Permutation_sym; exact P1 | exact P2]).
    rewrite (existsb_perm _ _ _ P) in E1.
    assert (existsb is_kind o2 = true) by (apply existsb_exists; exists b; auto). congruence.
Qed.

(* without uniqueness the pick depends on the order: two keys of the kind, two orders, two answers *)
Lemma pick_last_order_dependent_l : forall (is_kind : string -> bool) a b, a <> b -> is_kind a = true -> is_kind b = true ->
  pick_last is_kind [a; b] <> pick_last is_kind [b; a].
Proof.
  intros is_kind a b NE Ka Kb. unfold pick_last. simpl. rewrite Ka, Kb. intro H. inversion H. congruence.
Qed.
