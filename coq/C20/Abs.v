(* C20 — how model operations and results are read as reference operations and results
   (definitions only; shared by the proofs and by Run.v). *)
From Coq Require Import List String ZArith.
From V.C20 Require Import Model Spec.
Import ListNotations.

Definition to_sop (o : op) : sop :=
  match o with
  | OSet k v => SSet k v | OGet k | OGetZ k => SGet k | ODelete k => SDelete k
  | ORange lim => SRange lim | OLen => SLen | OIdx i => SIdx i
  end.
Definition to_sres (r : res) : sres :=
  match r with
  | RUnit => SUnit | RVal o => SVal o | RList l => SList l | RLen n => SLenR n | RIdx o => SIdxR o
  end.

